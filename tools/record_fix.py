#!/usr/bin/env python3
"""usage: record_fix.py <F-id> <property> <key> <what>   (records HEAD of /repo as the fixing commit)
   multiple properties: comma separated property:key pairs are given as repeated calls."""
import json, subprocess, sys
fid, prop, key, what = sys.argv[1:5]
status = sys.argv[5] if len(sys.argv) > 5 else "fixed"
import os
h = os.environ.get("FIX_COMMIT") or subprocess.check_output(["git", "-C", "/repo", "log", "--format=%h", "-1"], text=True).strip()
p = "/verif/known_findings.json"
d = json.load(open(p))
e = {"id": fid, "property": prop, "key": key, "status": status, "what": what}
if status == "fixed":
    e["commit"] = h
    fc = "/verif/tools/fix_commits.txt"
    cur = [l.strip() for l in open(fc)] if __import__("os").path.exists(fc) else []
    if h not in cur:
        open(fc, "a").write(h + "\n")
d["findings"] = [x for x in d["findings"] if not (x["property"] == prop and x["key"] == key)] + [e]
json.dump(d, open(p, "w"), indent=1)
print("recorded", fid, prop, status, h)
