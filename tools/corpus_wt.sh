#!/bin/bash
# usage: corpus_wt.sh <binary> <out-file> [jobs]   every seeded change and every refactoring, each in its own scratch worktree
# (parallel, /repo untouched). One line per patch: "<name> <exit> <PROP:kind:RULE …>".
BIN=${1:-/verif/bin/scverif}; OUT=${2:-/tmp/corpus.out}; J=${3:-5}
one() {
  d=$1; BIN=$2
  out=$(/verif/tools/try_wt.sh $d $BIN 2>/tmp/corpus-err-$(basename $d).txt)
  r=$(echo "$out" | grep "^SWEEP " | grep -v "^SWEEP done" | sed -E 's/^SWEEP (C[0-9]+) (violation|undecided) (R[0-9.]+).*/\1:\2:\3/' | sort -u | tr '\n' ' ')
  # a run that did not finish (crash, patch does not apply) must not pass for silence
  if ! echo "$out" | grep -q "^SWEEP done"; then r="C00:undecided:CRASHED $r"; else rm -f /tmp/corpus-err-$(basename $d).txt; fi
  echo "$(basename $d) $r"
}
export -f one
ls -d ${CORPUS_DIRS:-/verif/seeded/C*/ /verif/refactors/R*/} | sed 's#/$##' | xargs -P $J -I{} bash -c "one {} $BIN" > $OUT.tmp
sort $OUT.tmp > $OUT; rm -f $OUT.tmp
python3 - "$OUT" <<'PY'
import sys,re
bad=0
for line in open(sys.argv[1]):
    parts=line.split()
    name=parts[0]; reps=parts[1:]
    if name.startswith('R'):
        if reps: print("REFACTOR ALARM", name, ' '.join(reps)); bad+=1
    else:
        prop=name[:3]
        own=[r for r in reps if r.startswith(prop+':')]
        if not own: print("SEED MISSED", name, ' '.join(reps)); bad+=1
print("problems:",bad)
PY
