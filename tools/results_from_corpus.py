#!/usr/bin/env python3
"""usage: results_from_corpus.py <corpus.out>
Turns the output of tools/corpus_wt.sh (one line per patch: name, then PROP:kind:RULE …) into
seeded/RESULTS.{json,md}, refactors/RESULTS.json and the generated tables of DESIGN.md (between the
<!-- seeded-summary --> and <!-- refactor-summary --> markers)."""
import json, os, re, sys, glob, collections
rows = {}
for line in open(sys.argv[1]):
    parts = line.split()
    if parts:
        rows[parts[0]] = parts[1:]
def meta(d):
    try:
        return json.load(open(os.path.join(d, "meta.json")))
    except Exception:
        return {}
seeded, refs = {}, {}
for d in sorted(glob.glob("/verif/seeded/C*/")):
    name = os.path.basename(d.rstrip("/"))
    prop = name[:3]
    reps = rows.get(name, ["C00:undecided:NOT-RUN"])
    own_v = sorted({r.split(":")[2] for r in reps if r.startswith(prop + ":violation")})
    own_u = sorted({r.split(":")[2] for r in reps if r.startswith(prop + ":undecided")})
    other = sorted({r.split(":")[2] for r in reps if not r.startswith(prop + ":") and ":violation:" in r})
    m = meta(d)
    seeded[name] = {"title": m.get("title", ""), "own_violation": own_v, "own_undecided": own_u, "other": other}
for d in sorted(glob.glob("/verif/refactors/R*/")):
    name = os.path.basename(d.rstrip("/"))
    reps = rows.get(name, ["C00:undecided:NOT-RUN"])
    refs[name] = {"title": meta(d).get("title", ""), "silent": not reps, "reports": reps}
json.dump(seeded, open("/verif/seeded/RESULTS.json", "w"), indent=1)
json.dump(refs, open("/verif/refactors/RESULTS.json", "w"), indent=1)
with open("/verif/seeded/RESULTS.md", "w") as f:
    f.write("| seeded change | what it breaks | reported by its own property's check | also reported by |\n|---|---|---|---|\n")
    for n, r in seeded.items():
        own = ", ".join(r["own_violation"]) or (("UNDECIDED " + ", ".join(r["own_undecided"])) if r["own_undecided"] else "— not reported")
        f.write("| %s | %s | %s | %s |\n" % (n, r["title"].replace("|", "/")[:160], own, ", ".join(r["other"])))
# summary per property
byp = collections.OrderedDict()
for n, r in seeded.items():
    p = n[:3]
    e = byp.setdefault(p, {"n": 0, "viol": 0, "undec": 0, "miss": [], "rules": set()})
    e["n"] += 1
    if r["own_violation"]:
        e["viol"] += 1
        e["rules"].update(r["own_violation"])
    elif r["own_undecided"]:
        e["undec"] += 1
        e["rules"].update(r["own_undecided"])
    else:
        e["miss"].append(n)
lines = ["| property | seeded changes | reported as violation | reported as undecided | not reported | rules that report them |", "|---|---|---|---|---|---|"]
tot = [0, 0, 0, 0]
for p, e in byp.items():
    lines.append("| %s | %d | %d | %d | %s | %s |" % (p, e["n"], e["viol"], e["undec"], ", ".join(e["miss"]) or "0", ", ".join(sorted(e["rules"], key=lambda x: [int(t) for t in re.findall(r"\d+", x)]))))
    tot[0] += e["n"]; tot[1] += e["viol"]; tot[2] += e["undec"]; tot[3] += len(e["miss"])
lines.append("| **all** | **%d** | **%d** | **%d** | **%d** | |" % tuple(tot))
seeded_md = "\n".join(lines)
alarm = [n for n, r in refs.items() if not r["silent"]]
batches = collections.OrderedDict()
for n, r in refs.items():
    b = n.split("-")[0]
    e = batches.setdefault(b, [0, 0])
    e[0] += 1
    e[1] += 0 if r["silent"] else 1
ref_lines = ["| batch | refactorings | silent | still reported |", "|---|---|---|---|"]
for b, (n, a) in batches.items():
    ref_lines.append("| %s | %d | %d | %s |" % (b, n, n - a, ", ".join(x for x in alarm if x.split("-")[0] == b) or "—"))
ref_lines.append("| **all** | **%d** | **%d** | **%d** |" % (len(refs), len(refs) - len(alarm), len(alarm)))
ref_md = "\n".join(ref_lines)
p = "/verif/DESIGN.md"
s = open(p).read()
for tag, md in (("seeded-summary", seeded_md), ("refactor-summary", ref_md)):
    b, e = "<!-- %s:begin -->" % tag, "<!-- %s:end -->" % tag
    if b in s and e in s:
        s = s[:s.index(b) + len(b)] + "\n" + md + "\n" + s[s.index(e):]
open(p, "w").write(s)
print("seeded: %d, violation %d, undecided %d, missed %d; refactorings: %d, alarming %d" % (tot[0], tot[1], tot[2], tot[3], len(refs), len(alarm)))
