#!/bin/bash
# usage: confirm_seeded.sh <out-dir-of-agent (…/_out/k)> <seeded-id> <property>
# Confirms in a scratch worktree of /repo HEAD: suite passes with the patch, demo fails with it, demo passes without.
set -u
SRC=$1; ID=$2; PROP=$3
export GOFLAGS=-mod=mod GOPROXY=off GOSUMDB=off GOTOOLCHAIN=local
WT=/tmp/confirm-$ID
rm -rf $WT; git -C /repo worktree prune; git -C /repo worktree add -q --detach $WT HEAD || exit 2
cleanup() { git -C /repo worktree remove --force $WT 2>/dev/null; }
trap cleanup EXIT
cd $WT
if ! git apply --3way $SRC/patch.diff 2>/tmp/apply.err; then echo "APPLY FAILED"; cat /tmp/apply.err; exit 3; fi
git reset -q
if ! go build ./... ; then echo "BUILD FAILED"; exit 3; fi
suite=$(go test -vet=off -count=1 ./... 2>&1 | grep -E "^(FAIL|---)" | head -5)
if [ -n "$suite" ]; then echo "SUITE FAILS WITH PATCH: $suite"; exit 4; fi
# demo files
demos=$(ls $SRC | grep -E '_test\.go$|\.go$' | grep -v patch)
paths=""
for d in $demos; do
  p=$(head -1 $SRC/$d | sed -n 's#^// path: *##p')
  [ -z "$p" ] && p=$(python3 -c "import json;print(json.load(open('$SRC/meta.json')).get('demo_path',''))")
  case "$p" in /*) p=${p#$WT/}; p=${p#/tmp/wt-*/};; esac
  mkdir -p $(dirname $p); cp $SRC/$d $p; paths="$paths $p"
done
cmd=$(python3 -c "import json;print(json.load(open('$SRC/meta.json'))['demo_cmd'])" | sed -E "s#\(?cd /tmp/wt[0-9]*-[A-Z0-9]+ *&& *##; s#\)\$##; s#/tmp/wt[0-9]*-[A-Z0-9]+/##g; s#export [^;]*; *##")
echo "demo cmd: $cmd ; files:$paths"
with=$(bash -c "$cmd" 2>&1 | tail -15); wcode=$?
bash -c "$cmd" >/dev/null 2>&1; wcode=$?
git checkout -- . 
bash -c "$cmd" >/tmp/clean.out 2>&1; ccode=$?
echo "with patch exit=$wcode ; clean exit=$ccode"
if [ $wcode -ne 0 ] && [ $ccode -eq 0 ]; then
  D=/verif/seeded/$ID; mkdir -p $D
  (cd $WT && git apply --3way $SRC/patch.diff && git reset -q && git diff > $D/patch.diff && git checkout -- .)
  for d in $demos; do cp $SRC/$d $D/; done
  python3 - "$SRC/meta.json" "$D/meta.json" "$PROP" "$cmd" "$wcode" "$ccode" <<'PY'
import json,sys
m=json.load(open(sys.argv[1]))
m['property']=sys.argv[3]
m['confirmed']={'by':'tools/confirm_seeded.sh in a scratch worktree of /repo HEAD','existing_suite_with_patch':'pass','demo_cmd':sys.argv[4],'demo_exit_with_patch':int(sys.argv[5]),'demo_exit_clean':int(sys.argv[6])}
json.dump(m,open(sys.argv[2],'w'),indent=1)
PY
  echo "CONFIRMED -> $D"
else
  echo "NOT CONFIRMED"; echo "$with" | tail -8; tail -5 /tmp/clean.out
fi
