#!/usr/bin/env python3
"""usage: sweep_patches.py <out.json> <dir-with-patch.diff>...
Applies each patch to /repo (git apply), runs `scverif sweep` (all 20 properties, one load, no evidence), reverts.
Records every new report per patch."""
import json, os, re, subprocess, sys
out = sys.argv[1]; dirs = sys.argv[2:]
def sh(*a, **k): return subprocess.run(a, capture_output=True, text=True, **k)
if sh("git", "-C", "/repo", "diff", "--quiet").returncode != 0:
    sys.exit("/repo is dirty")
res = {}
for d in [os.path.abspath(x) for x in dirs]:
    name = os.path.basename(d.rstrip("/"))
    if os.path.basename(os.path.dirname(d.rstrip("/"))) == "_out":
        name = os.path.basename(os.path.dirname(os.path.dirname(d.rstrip("/")))) + "-" + name
    a = sh("git", "-C", "/repo", "apply", "--3way", os.path.join(d, "patch.diff"))
    sh("git", "-C", "/repo", "reset", "-q")
    if a.returncode != 0:
        res[name] = {"status": "patch does not apply"}
        sh("git", "-C", "/repo", "checkout", "HEAD", "--", ".")
        print(name, "DOES NOT APPLY", flush=True)
        continue
    r = sh("/verif/bin/scverif", "sweep")
    sh("git", "-C", "/repo", "checkout", "HEAD", "--", ".")
    reports = [l[6:] for l in r.stdout.splitlines() if l.startswith("SWEEP C")]
    title = ""
    try: title = json.load(open(os.path.join(d, "meta.json"))).get("title", "")
    except Exception: pass
    res[name] = {"title": title, "reports": reports, "exit": r.returncode}
    print(name, r.returncode, sorted(set(x.split(" ")[0] + ":" + x.split(" ")[2].split("|")[0] for x in reports)), flush=True)
json.dump(res, open(out, "w"), indent=1, sort_keys=True)
