#!/usr/bin/env python3
"""Applies every seeded change to /repo in turn (git apply), runs the check of its own property (quick tier),
records which rules report it, and reverts (git checkout). Writes seeded/RESULTS.json and seeded/RESULTS.md.
usage: seeded_matrix.py [ids...]"""
import json, os, re, subprocess, sys
root = "/verif/seeded"
ids = sys.argv[1:] or sorted(d for d in os.listdir(root) if os.path.isdir(os.path.join(root, d)))
def sh(*a, **k): return subprocess.run(a, capture_output=True, text=True, **k)
if sh("git", "-C", "/repo", "diff", "--quiet").returncode != 0:
    sys.exit("/repo is dirty")
resp = os.path.join(root, "RESULTS.json")
res = json.load(open(resp)) if os.path.exists(resp) else {}
for i in ids:
    d = os.path.join(root, i)
    meta = json.load(open(os.path.join(d, "meta.json")))
    prop = meta.get("property", i.split("-")[0])
    a = sh("git", "-C", "/repo", "apply", "--3way", os.path.join(d, "patch.diff"))
    sh("git", "-C", "/repo", "reset", "-q")
    if a.returncode != 0:
        res[i] = {"property": prop, "status": "patch does not apply", "rules": []}
        sh("git", "-C", "/repo", "checkout", "HEAD", "--", ".")
        continue
    r = sh("/verif/bin/scverif", "check", prop, "--tier", "quick", env=dict(os.environ, SCVERIF_EVIDENCE_DIR="/tmp/scverif-seeded-evidence"))
    sh("git", "-C", "/repo", "checkout", "HEAD", "--", ".")
    rules = sorted(set(re.findall(r"^VIOLATION (R[0-9.]+)\|", r.stdout, re.M)))
    undec = sorted(set(re.findall(r"^UNDECIDED (R[0-9.]+)\|", r.stdout, re.M)))
    keys = [l[10:].split(" at ")[0] for l in r.stdout.splitlines() if l.startswith("VIOLATION R")][:4]
    res[i] = {"property": prop, "exit": r.returncode, "rules": rules, "undecided": undec, "constructs": keys,
              "title": meta.get("title", meta.get("description", ""))[:160], "note": meta.get("note", "")}
    print(i, r.returncode, rules, undec, flush=True)
json.dump(res, open(resp, "w"), indent=1, sort_keys=True)
with open(os.path.join(root, "RESULTS.md"), "w") as f:
    f.write("| seeded change | what it breaks | reported by (own property's check) |\n|---|---|---|\n")
    for i in sorted(res):
        e = res[i]
        by = ", ".join(e["rules"]) or ("UNDECIDED " + ", ".join(e.get("undecided", [])) if e.get("undecided") else "— not reported" + (" (see note)" if e.get("note") else ""))
        f.write("| %s | %s | %s |\n" % (i, e.get("title", "").replace("|", "/"), by))
print("written", resp)
