#!/usr/bin/env python3
"""Applies every seeded change to /repo in turn (git apply), runs all 20 properties' quick rules in one process
(`scverif sweep`: no evidence is written), records which rules report it, and reverts (git checkout).
Writes seeded/RESULTS.json and seeded/RESULTS.md.   usage: seeded_matrix.py [ids...]   (default: all)"""
import json, os, re, subprocess, sys
root = "/verif/seeded"
ids = sys.argv[1:] or sorted(d for d in os.listdir(root) if os.path.isdir(os.path.join(root, d)))
def sh(*a, **k): return subprocess.run(a, capture_output=True, text=True, **k)
if sh("git", "-C", "/repo", "diff", "--quiet").returncode != 0:
    sys.exit("/repo is dirty")
resp = os.path.join(root, "RESULTS.json")
res = json.load(open(resp)) if os.path.exists(resp) else {}
for i in ids:
    d = os.path.join(root, i)
    meta = json.load(open(os.path.join(d, "meta.json")))
    prop = meta.get("property", i.split("-")[0])
    a = sh("git", "-C", "/repo", "apply", "--3way", os.path.join(d, "patch.diff"))
    sh("git", "-C", "/repo", "reset", "-q")
    if a.returncode != 0:
        res[i] = {"property": prop, "status": "patch does not apply", "rules": []}
        sh("git", "-C", "/repo", "checkout", "HEAD", "--", ".")
        print(i, "DOES NOT APPLY", flush=True)
        continue
    r = sh("/verif/bin/scverif", "sweep")
    sh("git", "-C", "/repo", "checkout", "HEAD", "--", ".")
    own, own_u, other, keys = set(), set(), set(), []
    for l in r.stdout.splitlines():
        m = re.match(r"SWEEP (C\d+) (\w+) (R[0-9.]+)\|(.*)", l)
        if not m: continue
        p, verdict, rule, rest = m.groups()
        if p == prop:
            (own if verdict == "violation" else own_u).add(rule)
            if len(keys) < 4: keys.append(rule + "|" + rest)
        else:
            other.add(rule)
    res[i] = {"property": prop, "rules": sorted(own), "undecided": sorted(own_u - own), "other_checks": sorted(other), "constructs": keys,
              "title": meta.get("title", meta.get("description", ""))[:160], "note": meta.get("note", "")}
    print(i, sorted(own), sorted(own_u - own), sorted(other), flush=True)
json.dump(res, open(resp, "w"), indent=1, sort_keys=True)
with open(os.path.join(root, "RESULTS.md"), "w") as f:
    f.write("| seeded change | what it breaks | reported by its own property's check | also reported by |\n|---|---|---|---|\n")
    for i in sorted(res):
        e = res[i]
        by = ", ".join(e["rules"]) or ("UNDECIDED " + ", ".join(e.get("undecided", [])) if e.get("undecided") else "— not reported" + (" (see note)" if e.get("note") else ""))
        f.write("| %s | %s | %s | %s |\n" % (i, e.get("title", "").replace("|", "/"), by, ", ".join(e.get("other_checks", []))))
print("written", resp)
