#!/usr/bin/env python3
"""Runs the repository test suite (guard off - there are no hooks) and checks
that every test in BASELINE.json stable_pass still passes."""
import json, subprocess, os, sys
env = dict(os.environ, GOFLAGS="-mod=mod", GOPROXY="off", GOSUMDB="off", GOTOOLCHAIN="local")
base = json.load(open("/root/.vp/BASELINE.json"))
want = set(base["stable_pass"])
p = subprocess.run(["go", "test", "-json", "-vet=off", "-count=1", "-timeout", "25m", "./..."], cwd="/repo", env=env, capture_output=True, text=True)
got = {}
for line in p.stdout.splitlines():
    try:
        e = json.loads(line)
    except Exception:
        continue
    if e.get("Test") and e.get("Action") in ("pass", "fail", "skip"):
        got[e["Package"] + "::" + e["Test"]] = e["Action"]
missing = sorted(t for t in want if got.get(t) != "pass")
print(f"baseline: {len(want)} stable tests, {len(want)-len(missing)} pass now; total tests seen {len(got)}; failing now: {sorted(k for k,v in got.items() if v=='fail')}")
for t in missing[:20]:
    print("  NOT PASSING:", t, got.get(t))
sys.exit(1 if missing else 0)
