#!/bin/bash
# usage: try_wt.sh <dir with patch.diff> [binary]   applies the patch in a scratch worktree of /repo HEAD (outside /repo),
# runs all properties there (SCVERIF_REPO), removes the worktree. Leaves /repo untouched, so it can run beside other jobs.
BIN=${2:-/verif/bin/scverif}
WT=/tmp/trywt-$$
git -C /repo worktree prune 2>/dev/null
git -C /repo worktree add -q --detach $WT HEAD || exit 2
trap 'git -C /repo worktree remove --force $WT 2>/dev/null' EXIT
cd $WT
git apply --3way "$1/patch.diff" 2>/dev/null || { echo "DOES NOT APPLY"; exit 3; }
git reset -q
SCVERIF_REPO=$WT SCVERIF_EVIDENCE_DIR=/tmp/ev-try SWEEP_DETAIL=1 $BIN sweep | sed "s#$WT/##g" | cut -c1-520
