#!/bin/bash
# usage: seeded_wt.sh <binary> <seeded ids…>   each seeded change in a scratch worktree; prints the rules of its own property that report it
BIN=$1; shift
for id in "$@"; do
  d=$(ls -d /verif/seeded/$id* | head -1)
  prop=$(basename $d | cut -c1-3)
  out=$(/verif/tools/try_wt.sh $d $BIN | grep "^SWEEP $prop " | sed -E 's/^SWEEP C[0-9]+ (violation|undecided) (R[0-9.]+).*/\1:\2/' | sort -u | tr '\n' ' ')
  echo "$(basename $d): $out"
done
