#!/usr/bin/env python3
"""Regenerates /verif/MANIFEST.json from the table below and validates it.
Run: python3 /verif/tools/gen_manifest.py"""
import json, subprocess, sys, os

V = "/verif"
ENV = "GOFLAGS=-mod=mod GOPROXY=off GOSUMDB=off GOTOOLCHAIN=local GOWORK=off"

# property -> (technique, level text, level_note, design_ref)
CLAIMED = json.load(open(os.path.join(V, "tools", "claims.json")))

props = [json.loads(l) for l in open(os.path.join(V, "properties.jsonl"))]
checks = []
na = []
for p in props:
    pid = p["id"]
    if pid in CLAIMED:
        cl = CLAIMED[pid]
        checks.append({
            "property_id": pid,
            "quick_cmd": f"{V}/bin/scverif check {pid} --tier quick",
            "thorough_cmd": f"{V}/bin/scverif check {pid} --tier thorough",
            "evidence_file": f"{V}/evidence/{pid}.json",
            "replay_cmd_template": f"{V}/bin/scverif replay {{path}}",
            "engine": "scverif",
            "level_claimed": {
                "category": "other",
                "text": cl["text"],
                "design_ref": cl.get("design_ref", "DESIGN.md §5 " + pid),
            },
            "level_note": cl["note"],
            "technique": cl["technique"],
        })
    else:
        na.append({"property_id": pid, "reason": json.load(open(os.path.join(V, "tools", "na.json"))).get(pid, "check under construction; not claimed until its rules are armed (see DESIGN.md)")})

hooks_commits = []
try:
    hooks_commits = [l.strip() for l in open(os.path.join(V, "tools", "fix_commits.txt")) if l.strip()]
except FileNotFoundError:
    pass

m = {
    "version": 1,
    "setup_cmd": f"cd {V}/checker && {ENV} go build -o ../bin/scverif ./cmd/scverif",
    "hooks": {
        "guard": "verif",
        "enable": "none - the checks analyse the source of /repo as it is (go/packages + go/ssa); no hooks or instrumentation are needed",
        "baseline_off_cmd": "cd /repo && GOFLAGS=-mod=mod GOPROXY=off GOSUMDB=off GOTOOLCHAIN=local go test -vet=off -count=1 ./...",
        "source_commits": hooks_commits,
        "add_only": True,
    },
    "engines": [{
        "name": "scverif",
        "path": f"{V}/checker",
        "serves_properties": sorted(CLAIMED.keys()),
        "kind_free_text": "repository-specific static analyser (go/packages, go/types, go/ssa of golang.org/x/tools v0.29.0): lock-set dataflow, published-message immutability, CFG ordering/dominance rules, decision tables, value ranges, goroutine/channel discipline, template-instance matching, request-field flow, error/nil discipline",
    }],
    "checks": checks,
    "notes": "Every check type-checks /repo's working tree from source on each run and decides structural necessary conditions only (level 'other'); DESIGN.md states per property what is and is not decided. source_commits lists unguarded 'fix:' repairs of genuine defects, not hooks.",
    "not_applicable": na,
}
json.dump(m, open(os.path.join(V, "MANIFEST.json"), "w"), indent=1)
try:
    import jsonschema
    jsonschema.validate(m, json.load(open("/root/.vp/MANIFEST.schema.json")))
    print("MANIFEST valid:", len(checks), "checks,", len(na), "not applicable")
except ImportError:
    print("jsonschema not available; not validated")
