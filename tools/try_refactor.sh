#!/bin/bash
# usage: try_refactor.sh <dir with patch.diff>   applies the patch to /repo, runs all properties (sweep, with details), reverts
cd /repo || exit 2
if ! git diff --quiet; then echo "/repo is dirty"; exit 2; fi
git apply --3way "$1/patch.diff" 2>/dev/null || { echo "DOES NOT APPLY"; git reset -q; git checkout HEAD -- .; exit 3; }
git reset -q
SWEEP_DETAIL=1 /verif/bin/scverif sweep | cut -c1-520
git checkout HEAD -- .
