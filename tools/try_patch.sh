#!/bin/bash
# usage: try_patch.sh <patch.diff> <Cxx> [Cyy ...]   applies the patch to /repo, runs the checks, reverts.
P=$1; shift
export SCVERIF_EVIDENCE_DIR=/tmp/scverif-seeded-evidence
cd /repo || exit 2
if ! git diff --quiet; then echo "/repo is dirty"; exit 2; fi
if ! git apply --3way "$P" 2>/tmp/apply.err; then echo "APPLY FAILED: $(cat /tmp/apply.err | head -3)"; git reset -q; git checkout HEAD -- . ; exit 3; fi
git reset -q
for c in "$@"; do
  out=$(/verif/bin/scverif check $c 2>&1)
  code=$?
  echo "== $c exit=$code"
  echo "$out" | grep -E "^(VIOLATION R|UNDECIDED|LOAD-FAILED)" | cut -c1-400
done
git reset -q; git checkout HEAD -- .
git status --short | grep -v '^??' | head
