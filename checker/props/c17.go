package props

import (
	"fmt"
	"go/token"
	"go/types"
	"strings"

	"golang.org/x/tools/go/ssa"

	"scverif/an"
)

func init() {
	register(&Prop{
		ID:          "C17",
		Title:       "Group execution honours each strategy's contract",
		Explanation: "R17.1 Execute's dispatch table (every strategy constant, and unknown values, to its executor). R17.2 in Execute every store into the result slice at a computed index is dominated by a check that the slice is non-empty / the index is in range (an empty group must not panic). R17.3 the send of a member's response is cancellable, or the response channel is buffered for all members, or every consumer of executeEach drains the channel (no early return from its range loop): otherwise members that finish after the outcome is decided block forever. R17.4 thresholds: All = 0, Most = floor(n/2), Any = n-1 allowed errors; ExecuteUpTo returns the error exactly when errCount > allowed, keeps the first error, stores each result at the member's own index, cancels when the budget is exceeded and on exit. R17.5 ExecuteOne runs members sequentially in order, returns at the first success and otherwise the first error; ExecuteFast returns from the loop exactly on a nil error and otherwise the first failing response after the loop; ExecuteRace returns the first response whatever its error; each returns the response's own index and cancels the rest on exit. R17.6 executeEach: Add(len(members)) before spawning, Done deferred in each member goroutine, one closer that waits and then closes, each member gets the shared context and its own index. R17.6 every member's outcome is reported exactly once. R17.7 member calls use the context the strategy gives them. Does NOT decide outcomes for all completion orders, nor cancellation timing.",
		Assumptions: []string{"sync.WaitGroup semantics; a buffered channel of capacity n accepts n sends without a receiver"},
		Run:         runC17,
		Controls: []Control{
			{Name: "race-result-list-made-empty", File: "pkg/group/exec.go", Old: "\t\tres, i, err := ExecuteRace(ctx, members)\n\t\tallRes := make([]proto.Message, len(members))", New: "\t\tres, i, err := ExecuteRace(ctx, members)\n\t\tallRes := make([]proto.Message, 0, len(members))", Expect: "R17.11"},
			{Name: "onoff-group-cancel-deferred-past-the-wait", File: "pkg/trait/onoffpb/group.go", Old: "\t\t\t\tcancelFunc()\n\t\t\t\t<-returnErr", New: "\t\t\t\tdefer cancelFunc()\n\t\t\t\t<-returnErr", Expect: "R17.10"},
			{Name: "write-under-read-strategy", File: "pkg/trait/lightpb/group.go", Old: "\tresults, err := group.Execute(ctx, s.WriteExecution, actions)\n", New: "\tresults, err := group.Execute(ctx, s.ReadExecution, actions)\n", Expect: "R17.9"},
			{Name: "fast-loop-variable-hoisted", File: "pkg/group/exec.go", Old: "\tvar firstErrResponse *memberResponse\n\tfor response := range executeEach(cancelCtx, members) {", New: "\tvar firstErrResponse *memberResponse\n\tvar response memberResponse\n\tfor response = range executeEach(cancelCtx, members) {", Expect: "R17.5"},
			{Name: "drain-deferred-after-cancel", File: "pkg/group/exec.go", Old: "func ExecuteRace(ctx context.Context, members []Member) (proto.Message, int, error) {\n\tcancelCtx, cancelFunc := context.WithCancel(ctx)\n\tdefer cancelFunc()\n", New: "func ExecuteRace(ctx context.Context, members []Member) (proto.Message, int, error) {\n\tcancelCtx, cancelFunc := context.WithCancel(ctx)\n\tdefer cancelFunc()\n\tdrainCh := make(chan memberResponse)\n\tclose(drainCh)\n\tdefer func() {\n\t\tfor range drainCh {\n\t\t}\n\t}()\n", Expect: "R17.8"},
			{Name: "most-as-any", File: "pkg/group/exec.go", Old: "\tcase ExecutionStrategyMost:\n\t\treturn ExecuteMost(ctx, members)", New: "\tcase ExecutionStrategyMost:\n\t\treturn ExecuteAny(ctx, members)", Expect: "R17.1"},
			{Name: "threshold-geq", File: "pkg/group/exec.go", Old: "\tif errCount > allowedErrors {\n\t\treturn results, firstError\n\t}", New: "\tif errCount >= allowedErrors {\n\t\treturn results, firstError\n\t}", Expect: "R17.4"},
			{Name: "results-at-zero", File: "pkg/group/exec.go", Old: "\t\tresults[response.i] = response.msg", New: "\t\tresults[0] = response.msg", Expect: "R17.4"},
			{Name: "remove-cancel", File: "pkg/group/exec.go", Old: "\t\t\tif errCount > allowedErrors {\n\t\t\t\tcancelFunc()\n\t\t\t}", New: "", Expect: "R17.4"},
			{Name: "last-error-wins", File: "pkg/group/exec.go", Old: "\t\t\tif firstError == nil {\n\t\t\t\tfirstError = response.err\n\t\t\t}", New: "\t\t\tfirstError = response.err", Expect: "R17.4"},
			{Name: "any-allows-all", File: "pkg/group/exec.go", Old: "\tallBut1 := len(members) - 1", New: "\tallBut1 := len(members)", Expect: "R17.4"},
			{Name: "one-returns-last-error", File: "pkg/group/exec.go", Old: "\t\tif i == 0 {\n\t\t\tfirstErr = err\n\t\t}", New: "\t\tfirstErr = err", Expect: "R17.5"},
			{Name: "fast-returns-on-error", File: "pkg/group/exec.go", Old: "\t\tif response.err == nil {\n\t\t\t// success", New: "\t\tif response.err != nil {\n\t\t\t// success", Expect: "R17.5"},
			{Name: "waitgroup-add-one-short", File: "pkg/group/exec.go", Old: "\tall.Add(len(members))", New: "\tall.Add(len(members) - 1)", Expect: "R17.6"},
			{Name: "revert-F16-no-bounds-check", File: "pkg/group/exec.go", Old: "\t\tres, i, err := ExecuteRace(ctx, members)\n\t\tallRes := make([]proto.Message, len(members))\n\t\tif i < len(allRes) { // there may be no members\n\t\t\tallRes[i] = res\n\t\t}", New: "\t\tres, i, err := ExecuteRace(ctx, members)\n\t\tallRes := make([]proto.Message, len(members))\n\t\tallRes[i] = res", Expect: "R17.2"},
			{Name: "revert-F17-unbuffered", File: "pkg/group/exec.go", Old: "responses := make(chan memberResponse, len(members))", New: "responses := make(chan memberResponse)", Expect: "R17.3"},
			{Name: "buffer-one-short", File: "pkg/group/exec.go", Old: "responses := make(chan memberResponse, len(members))", New: "responses := make(chan memberResponse, len(members)-1)", Expect: "R17.3"},
			{Name: "len-over-two", Silent: true, File: "pkg/group/exec.go", Old: "\tnoMoreThanHalf := int(math.Floor(float64(len(members)) / 2))", New: "\t_ = math.Floor\n\tnoMoreThanHalf := len(members) / 2"},
		},
	})
}

const groupPkg = "pkg/group"

func runC17(c *an.Ctx) {
	r179(c, "R17.9")
	c.Min("R17.9", 6)
	r1710(c, "R17.10")
	c.Min("R17.10", 2)
	r1711(c, "R17.11")
	c.Min("R17.11", 1)
	r177(c)
	r178(c)
	c.Min("R17.8", 3)
	c.Min("R17.7", 6)
	r171(c)
	r172(c)
	r173(c)
	r174(c)
	r175(c)
	r176(c)
	c.Min("R17.1", 8)
	c.Min("R17.2", 3)
	c.Min("R17.3", 1)
	c.Min("R17.4", 8)
	c.Min("R17.5", 6)
	c.Min("R17.6", 4)
}

func groupConst(c *an.Ctx, name string) int64 {
	v, _ := c.Prog.ConstInt(an.ModulePath+"/"+groupPkg, name)
	return v
}

func r171(c *an.Ctx) {
	const rule = "R17.1"
	fn := mustFunc(c, rule, groupPkg, "", "Execute")
	if fn == nil {
		return
	}
	want := map[string]string{"ExecutionStrategyUnspecified": "ExecuteAll", "ExecutionStrategyAll": "ExecuteAll", "ExecutionStrategyMost": "ExecuteMost",
		"ExecutionStrategyAny": "ExecuteAny", "ExecutionStrategyOne": "ExecuteOne", "ExecutionStrategyFast": "ExecuteFast", "ExecutionStrategyRace": "ExecuteRace"}
	dom := []int64{}
	byVal := map[int64]string{}
	for n := range want {
		v := groupConst(c, n)
		dom = append(dom, v)
		byVal[v] = n
	}
	dom = append(dom, 99) // an unknown strategy value
	byVal[99] = "unknown value"
	names := map[ssa.Value]string{fn.Params[0]: "ctx", fn.Params[1]: "strategy", fn.Params[2]: "members"}
	leaves := an.DecisionTree(fn, an.DTConfig{Names: names, Domains: map[string][]int64{"strategy": dom}})
	c.Count("table_rows", len(leaves))
	seen := map[int64]bool{}
	for _, l := range leaves {
		if l.Undec != "" {
			c.Unk(rule, "pkg/group.Execute|table", fn.Pos(), l.Undec)
			return
		}
		var v int64
		fmt.Sscan(l.Get("strategy"), &v)
		if l.Get("strategy") == "" {
			c.Unk(rule, "pkg/group.Execute|table", fn.Pos(), "a path does not depend on the strategy")
			continue
		}
		seen[v] = true
		exp := want[byVal[v]]
		if exp == "" {
			exp = "ExecuteAll" // unknown values fall back to the default
		}
		var called []string
		for _, r := range l.Recs {
			if strings.HasPrefix(r.Callee, "pkg/group.Execute") {
				called = append(called, strings.TrimPrefix(r.Callee, "pkg/group."))
			}
		}
		okArgs := true
		for _, r := range l.Recs {
			if strings.HasPrefix(r.Callee, "pkg/group.Execute") && !(len(r.Args) == 2 && r.Args[0].S == "ctx" && r.Args[1].S == "members") {
				okArgs = false
			}
		}
		c.Check(len(called) == 1 && called[0] == exp && okArgs, rule, "pkg/group.Execute|"+byVal[v]+" → "+exp, l.RetPos, "", fmt.Sprintf("strategy %s runs %v with the caller's (ctx, members): %v; expected %s", byVal[v], called, okArgs, exp))
	}
	for _, v := range dom {
		if !seen[v] {
			c.Bad(rule, "pkg/group.Execute|"+byVal[v]+" dispatched", fn.Pos(), "no path of Execute handles this strategy value")
		}
	}
}

func r172(c *an.Ctx) {
	const rule = "R17.2"
	fn := mustFunc(c, rule, groupPkg, "", "Execute")
	if fn == nil {
		return
	}
	n := 0
	an.Instrs(fn, func(in ssa.Instruction) {
		ia, ok := in.(*ssa.IndexAddr)
		if !ok {
			return
		}
		if _, isConst := ia.Index.(*ssa.Const); isConst {
			return
		}
		// only writes
		isStore := false
		for _, u := range an.Referrers(ia) {
			if st, ok := u.(*ssa.Store); ok && st.Addr == ia {
				isStore = true
			}
		}
		if !isStore {
			return
		}
		n++
		guarded := false
		for _, e := range an.GuardingEdges(ia) {
			bo, ok := e.If.Cond.(*ssa.BinOp)
			if !ok {
				continue
			}
			isLen := func(v ssa.Value) bool {
				call, ok := v.(*ssa.Call)
				return ok && an.CalleeName(call) == "builtin len"
			}
			// idx < len(x)  /  len(x) > idx
			if (bo.Op == token.LSS && bo.X == ia.Index && isLen(bo.Y) && e.Branch) || (bo.Op == token.GTR && bo.Y == ia.Index && isLen(bo.X) && e.Branch) ||
				(bo.Op == token.GEQ && bo.X == ia.Index && isLen(bo.Y) && !e.Branch) {
				guarded = true
			}
			// len(x) > 0, len(x) != 0, len(x) == 0 (false edge)
			for _, pair := range [][2]ssa.Value{{bo.X, bo.Y}, {bo.Y, bo.X}} {
				if k, isC := an.ConstInt(pair[1]); isC && k == 0 && isLen(pair[0]) {
					switch {
					case bo.Op == token.GTR && pair[0] == bo.X && e.Branch, bo.Op == token.LSS && pair[0] == bo.Y && e.Branch,
						bo.Op == token.NEQ && e.Branch, bo.Op == token.EQL && !e.Branch:
						guarded = true
					}
				}
			}
		}
		c.Check(guarded, rule, fmt.Sprintf("pkg/group.Execute|result placement #%d is bounds-checked", n), ia.Pos(), "dominated by a length / index check",
			"the single result is stored at a computed index of a slice whose length is the number of members without any bound check: with an empty group the slice is empty and the store panics (index out of range [0] with length 0)")
	})
	if n == 0 {
		c.Ok(rule, "pkg/group.Execute|no computed-index stores", fn.Pos(), "")
	}
	// the index handed back by the single-result executors is never negative (`i < len` does not stop -1)
	for _, en := range []string{"ExecuteOne", "ExecuteFast", "ExecuteRace"} {
		ef := c.Prog.Func(groupPkg, "", en)
		if ef == nil {
			continue
		}
		bad := ""
		for _, r := range an.Returns(ef) {
			if len(r.Results) != 3 {
				continue
			}
			if isRangeIndex(r.Results[1]) {
				continue // the loop's own position
			}
			for _, v := range an.ValuesAt(r.Results[1]) {
				if k, isC := an.ConstInt(v); isC {
					if k < 0 {
						bad = fmt.Sprintf("returns index %d at %s", k, c.Prog.Rel(r.Pos()))
					}
					continue
				}
				if isRangeIndex(v) {
					continue
				}
				if _, _, f, isF := an.FieldOf(v); isF && f == "i" {
					continue
				}
				bad = "returns a computed index at " + c.Prog.Rel(r.Pos())
			}
		}
		c.Check(bad == "", rule, "pkg/group."+en+"|the returned index is a member position, never negative", ef.Pos(), "", en+" "+bad+": Execute stores the result at that index of a slice with one slot per member, and its `i < len` guard does not stop a negative index (panic: index out of range [-1])")
	}
}

func r173(c *an.Ctx) {
	const rule = "R17.3"
	ee := mustFunc(c, rule, groupPkg, "", "executeEach")
	if ee == nil {
		return
	}
	name := "pkg/group.executeEach"
	// the response channel
	var mk *ssa.MakeChan
	for _, r := range an.Returns(ee) {
		for _, s := range an.Sources(r.Results[0]) {
			if m, ok := s.(*ssa.MakeChan); ok {
				mk = m
			}
		}
	}
	if mk == nil {
		c.Unk(rule, name+"|responses channel", ee.Pos(), "the returned channel is not a make(chan) of executeEach")
		return
	}
	bufferedForAll := false
	for _, v := range an.ValuesAt(mk.Size) {
		if call, ok := v.(*ssa.Call); ok && an.CalleeName(call) == "builtin len" {
			for _, s := range an.Sources(call.Call.Args[0]) {
				if p, isP := s.(*ssa.Parameter); isP && p.Parent() == ee {
					bufferedForAll = true
				}
			}
		}
	}
	// sends in member goroutines
	allCancellable := true
	nSend := 0
	for _, g := range an.GoStmts(ee) {
		f := an.GoTarget(g)
		if f == nil {
			continue
		}
		for _, s := range an.Sends(f) {
			nSend++
			if s.Select == nil || len(an.SelectHasCtxDone(s.Select)) == 0 {
				allCancellable = false
			}
		}
	}
	// consumers that stop early
	var early []string
	for _, fn := range c.Prog.FuncsIn(groupPkg) {
		for _, call := range an.CallsTo(fn, an.FuncQName(ee)) {
			for _, b := range fn.Blocks {
				var recv *ssa.UnOp
				for _, in := range b.Instrs {
					if u, ok := in.(*ssa.UnOp); ok && u.Op == token.ARROW {
						recv = u
					}
				}
				if recv == nil || !sameCtx(recv.X, call.(*ssa.Call)) {
					continue
				}
				if len(b.Succs) == 0 {
					continue
				}
				body := b.Succs[0]
				for _, r := range an.Returns(fn) {
					t, _ := an.PathQuery{Target: func(in ssa.Instruction) bool { return in == ssa.Instruction(r) }, Avoid: func(in ssa.Instruction) bool { return in == ssa.Instruction(recv) }}.FromBlock(body)
					if t != nil {
						early = append(early, an.FuncName(fn))
						break
					}
				}
			}
		}
	}
	ok := nSend > 0 && (allCancellable || bufferedForAll || len(early) == 0)
	c.Check(ok, rule, name+"|member goroutines always finish", mk.Pos(), fmt.Sprintf("cancellable sends: %v, buffered for all members: %v, early-exit consumers: %v", allCancellable, bufferedForAll, early),
		fmt.Sprintf("each member goroutine sends its response unconditionally on an unbuffered channel, and %v stop receiving as soon as the outcome is decided: every member that completes later blocks on the send forever (one leaked goroutine per remaining member per call)", early))
}

func r174(c *an.Ctx) {
	const rule = "R17.4"
	upTo := an.ModulePath + "/pkg/group.ExecuteUpTo"
	// thresholds
	for _, t := range []struct{ fn, what string }{{"ExecuteAll", "0"}, {"ExecuteMost", "floor(n/2)"}, {"ExecuteAny", "n-1"}} {
		fn := mustFunc(c, rule, groupPkg, "", t.fn)
		if fn == nil {
			continue
		}
		calls := an.CallsTo(fn, upTo)
		if len(calls) != 1 {
			c.Bad(rule, "pkg/group."+t.fn+"|allowed errors = "+t.what, fn.Pos(), "does not delegate to ExecuteUpTo exactly once")
			continue
		}
		a := calls[0].Common().Args
		isLenMembers := func(v ssa.Value) bool {
			call, ok := v.(*ssa.Call)
			return ok && an.CalleeName(call) == "builtin len" && call.Call.Args[0] == ssa.Value(fn.Params[1])
		}
		ok := a[0] == ssa.Value(fn.Params[0]) && a[2] == ssa.Value(fn.Params[1])
		allowed := a[1]
		switch t.what {
		case "0":
			k, isC := an.ConstInt(allowed)
			ok = ok && isC && k == 0
		case "n-1":
			bo, isBO := allowed.(*ssa.BinOp)
			one := int64(0)
			if isBO {
				one, _ = an.ConstInt(bo.Y)
			}
			ok = ok && isBO && bo.Op == token.SUB && isLenMembers(bo.X) && one == 1
		case "floor(n/2)":
			good := false
			// len(members)/2
			if bo, isBO := allowed.(*ssa.BinOp); isBO && bo.Op == token.QUO && isLenMembers(bo.X) {
				if two, isC := an.ConstInt(bo.Y); isC && two == 2 {
					good = true
				}
			}
			// int(math.Floor(float64(len(members)) / 2))
			if cv, isCv := allowed.(*ssa.Convert); isCv {
				if fl, isCall := cv.X.(*ssa.Call); isCall && an.CalleeName(fl) == "math.Floor" {
					if q, isBO := fl.Call.Args[0].(*ssa.BinOp); isBO && q.Op == token.QUO {
						if cst, isC := q.Y.(*ssa.Const); isC && cst.Value != nil && cst.Value.ExactString() == "2" {
							if cv2, isCv2 := q.X.(*ssa.Convert); isCv2 && isLenMembers(cv2.X) {
								good = true
							}
						}
					}
				}
			}
			ok = ok && good
		}
		c.Check(ok, rule, "pkg/group."+t.fn+"|allowed errors = "+t.what, calls[0].Pos(), "", t.fn+" does not run ExecuteUpTo(ctx, "+t.what+", members)")
	}
	fn := mustFunc(c, rule, groupPkg, "", "ExecuteUpTo")
	if fn == nil {
		return
	}
	name := "pkg/group.ExecuteUpTo"
	allowed := fn.Params[1]
	// error returned iff errCount > allowed
	okThreshold := true
	nErrRet := 0
	for _, r := range an.Returns(fn) {
		nilErr := provablyNilAt(r.Results[1], r)
		var edge *an.CondEdge
		for _, e := range an.GuardingEdges(r) {
			if bo, ok := e.If.Cond.(*ssa.BinOp); ok && (bo.Y == ssa.Value(allowed) || bo.X == ssa.Value(allowed)) {
				ee := e
				edge = &ee
			}
		}
		if edge == nil {
			okThreshold = false
			continue
		}
		bo := edge.If.Cond.(*ssa.BinOp)
		exceeded := (bo.Op == token.GTR && bo.Y == ssa.Value(allowed) && edge.Branch) || (bo.Op == token.LEQ && bo.Y == ssa.Value(allowed) && !edge.Branch) ||
			(bo.Op == token.LSS && bo.X == ssa.Value(allowed) && edge.Branch)
		within := (bo.Op == token.GTR && bo.Y == ssa.Value(allowed) && !edge.Branch) || (bo.Op == token.LEQ && bo.Y == ssa.Value(allowed) && edge.Branch) ||
			(bo.Op == token.LSS && bo.X == ssa.Value(allowed) && !edge.Branch)
		if nilErr && !within {
			okThreshold = false
		}
		if !nilErr {
			nErrRet++
			if !exceeded {
				okThreshold = false
			}
		}
	}
	c.Check(okThreshold && nErrRet > 0, rule, name+"|error exactly when errCount > allowed", fn.Pos(), "", "the final verdict is not `errCount > allowedErrors → first error, else nil`")
	// first error kept: a response's error enters the kept error only under a condition that says "no failure has been
	// recorded so far" (the kept error is nil, a flag is unset, a failure counter that starts at zero is at its first
	// step) - and not under a comparison with the error budget
	okFirst, guardOK := false, false
	an.Instrs(fn, func(in ssa.Instruction) {
		ph, ok := in.(*ssa.Phi)
		if !ok || !an.IsErrorType(ph.Type()) {
			return
		}
		for _, lf := range an.PhiLeaves(ph) {
			if _, _, f, isF := an.FieldOf(lf.Val); !isF || f != "err" {
				continue
			}
			okFirst = true
			if firstFailureGuard(lf.Conds) {
				guardOK = true
			}
			for _, ed := range lf.Conds {
				if bo, isBO := ed.If.Cond.(*ssa.BinOp); isBO && (bo.X == ssa.Value(allowed) || bo.Y == ssa.Value(allowed)) {
					okFirst = false
				}
			}
		}
	})
	c.Check(okFirst && guardOK, rule, name+"|the first error is kept", fn.Pos(), "", "the error returned is not the first one observed: a later error overwrites it, or it is only recorded once the error budget is exceeded (then the error that tipped the balance is returned)")
	// results stored at the response's own index
	okIdx := false
	an.Instrs(fn, func(in ssa.Instruction) {
		if ia, ok := in.(*ssa.IndexAddr); ok {
			if _, _, f, isF := an.FieldOf(ia.Index); isF && f == "i" {
				for _, u := range an.Referrers(ia) {
					if st, isSt := u.(*ssa.Store); isSt {
						if _, _, f2, isF2 := an.FieldOf(st.Val); isF2 && f2 == "msg" {
							okIdx = true
						}
					}
				}
			}
		}
	})
	c.Check(okIdx, rule, name+"|results are stored at the member's own index", fn.Pos(), "results[response.i] = response.msg", "results are not stored at the index of the member that produced them")
	// cancel when exceeded and deferred
	var cancel ssa.Value
	an.Instrs(fn, func(in ssa.Instruction) {
		if call, ok := in.(*ssa.Call); ok && an.CalleeName(call) == "context.WithCancel" {
			for _, u := range an.Referrers(call) {
				if ex, isEx := u.(*ssa.Extract); isEx && ex.Index == 1 {
					cancel = ex
				}
			}
		}
	})
	deferred, inLoop := false, false
	an.Instrs(fn, func(in ssa.Instruction) {
		switch x := in.(type) {
		case *ssa.Defer:
			if sameCtx(x.Call.Value, cancel) {
				deferred = true
			}
		case *ssa.Call:
			if cancel != nil && sameCtx(x.Call.Value, cancel) {
				for _, e := range an.GuardingEdges(x) {
					if bo, ok := e.If.Cond.(*ssa.BinOp); ok && bo.Op == token.GTR && bo.Y == ssa.Value(allowed) && e.Branch {
						inLoop = true
					}
				}
			}
		}
	})
	// … whenever the budget is exceeded, not only when it is the first failure
	an.Instrs(fn, func(in ssa.Instruction) {
		x, ok := in.(*ssa.Call)
		if !ok || cancel == nil || !sameCtx(x.Call.Value, cancel) {
			return
		}
		for _, e := range an.GuardingEdges(x) {
			if t, _, isNil := an.NilTest(e.If.Cond); isNil && an.IsErrorType(t.Type()) {
				if _, isPhi := t.(*ssa.Phi); isPhi {
					inLoop = false
				}
			}
		}
	})
	c.Check(cancel != nil && deferred && inLoop, rule, name+"|remaining members are cancelled once the outcome is decided", fn.Pos(), "", fmt.Sprintf("cancel deferred: %v, cancel when the error budget is exceeded: %v", deferred, inLoop))
	// members run on the cancellable context
	for _, call := range an.CallsTo(fn, an.ModulePath+"/pkg/group.executeEach") {
		okCtx := false
		for _, v := range an.ValuesAt(call.Common().Args[0]) {
			if ex, ok := v.(*ssa.Extract); ok && ex.Index == 0 {
				if wc, ok := ex.Tuple.(*ssa.Call); ok && an.CalleeName(wc) == "context.WithCancel" && wc.Call.Args[0] == ssa.Value(fn.Params[0]) {
					okCtx = true
				}
			}
		}
		c.Check(okCtx && call.Common().Args[1] == ssa.Value(fn.Params[2]), rule, name+"|members run on a context derived from the caller's", call.Pos(), "", "members do not run on context.WithCancel(ctx)")
	}
}

func r175(c *an.Ctx) {
	const rule = "R17.5"
	// ExecuteOne
	if fn := mustFunc(c, rule, groupPkg, "", "ExecuteOne"); fn != nil {
		name := "pkg/group.ExecuteOne"
		var call *ssa.Call
		an.Instrs(fn, func(in ssa.Instruction) {
			if cl, ok := in.(*ssa.Call); ok && an.CalleeName(cl) == "dynamic" {
				call = cl
			}
		})
		if call == nil || len(an.GoStmts(fn)) != 0 {
			c.Bad(rule, name+"|sequential in order", fn.Pos(), "ExecuteOne does not call members sequentially")
		} else {
			// the callee is members[i] with i the range index; ctx is the caller's
			seq := false
			for _, v := range an.Sources(call.Call.Value) {
				if u, ok := v.(*ssa.UnOp); ok {
					if ia, ok := u.X.(*ssa.IndexAddr); ok && isRangeIndex(ia.Index) {
						seq = true
					}
				}
			}
			c.Check(seq && call.Call.Args[0] == ssa.Value(fn.Params[0]), rule, name+"|sequential in order", call.Pos(), "", "members are not invoked one after the other in slice order with the caller's context")
			// success returns that response and its index
			okSucc, okFail := false, false
			for _, r := range an.Returns(fn) {
				if an.GuardedByNilResult(r, call, 1) {
					r0 := allAre(an.ValuesAt(r.Results[0]), func(v ssa.Value) bool { return an.IsExtractOf(v, call, 0) })
					r1 := isRangeIndex(r.Results[1]) || allAre(an.ValuesAt(r.Results[1]), isRangeIndex)
					// and it is the position of the member that answered
					for _, v := range an.Sources(call.Call.Value) {
						if u, ok := v.(*ssa.UnOp); ok {
							if ia, ok := u.X.(*ssa.IndexAddr); ok && ia.Index != r.Results[1] && !allAre(an.ValuesAt(r.Results[1]), func(x ssa.Value) bool { return x == ia.Index }) {
								r1 = false
							}
						}
					}
					if r0 && r1 && allAre(an.ValuesAt(r.Results[2]), an.IsNilConst) {
						okSucc = true
					}
				} else if !an.Reaches(call, r) || true {
					// after the loop: first error
					if allAre(an.ValuesAt(r.Results[0]), an.IsNilConst) {
						okFail = true
					}
				}
			}
			c.Check(okSucc, rule, name+"|first success is returned with its index", fn.Pos(), "", "ExecuteOne does not return the first successful response together with that member's index")
			// first error kept: the error variable is only assigned under i == 0, or under firstErr == nil
			firstOnly := false
			an.Instrs(fn, func(in ssa.Instruction) {
				ph, ok := in.(*ssa.Phi)
				if !ok || !an.IsErrorType(ph.Type()) {
					return
				}
				for i, e := range ph.Edges {
					if an.IsExtractOf(e, call, 1) {
						pred := ph.Block().Preds[i]
						for _, in2 := range pred.Instrs {
							_ = in2
						}
						// the predecessor must be guarded by i == 0 or firstErr == nil
						if len(pred.Instrs) > 0 {
							for _, ed := range an.GuardingEdges(pred.Instrs[0]) {
								if bo, ok := ed.If.Cond.(*ssa.BinOp); ok && bo.Op == token.EQL && ed.Branch {
									if k, isC := an.ConstInt(bo.Y); isC && k == 0 && isRangeIndex(bo.X) {
										firstOnly = true
									}
									if an.IsNilConst(bo.Y) && an.IsErrorType(bo.X.Type()) {
										firstOnly = true
									}
								}
							}
						}
					}
				}
			})
			c.Check(okFail && firstOnly, rule, name+"|all failed: the first error", fn.Pos(), "", "when every member fails ExecuteOne does not return the first member's error")
		}
	}
	ee := an.ModulePath + "/pkg/group.executeEach"
	for _, t := range []string{"ExecuteFast", "ExecuteRace"} {
		fn := mustFunc(c, rule, groupPkg, "", t)
		if fn == nil {
			continue
		}
		name := "pkg/group." + t
		calls := an.CallsTo(fn, ee)
		if len(calls) != 1 {
			c.Bad(rule, name+"|runs all members", fn.Pos(), "does not run executeEach exactly once")
			continue
		}
		// cancel on exit, members on derived context
		okCtx, deferred := false, false
		var cancel ssa.Value
		for _, v := range an.ValuesAt(calls[0].Common().Args[0]) {
			if ex, ok := v.(*ssa.Extract); ok && ex.Index == 0 {
				if wc, ok := ex.Tuple.(*ssa.Call); ok && an.CalleeName(wc) == "context.WithCancel" && wc.Call.Args[0] == ssa.Value(fn.Params[0]) {
					okCtx = true
					for _, u := range an.Referrers(wc) {
						if e2, isEx := u.(*ssa.Extract); isEx && e2.Index == 1 {
							cancel = e2
						}
					}
				}
			}
		}
		an.Instrs(fn, func(in ssa.Instruction) {
			if d, ok := in.(*ssa.Defer); ok && cancel != nil && sameCtx(d.Call.Value, cancel) {
				deferred = true
			}
		})
		c.Check(okCtx && deferred, rule, name+"|the remaining members are cancelled when the outcome is decided", fn.Pos(), "", "members do not run on a context that is cancelled when "+t+" returns")
		// returns inside the loop
		var loop *ssa.BasicBlock
		for _, b := range fn.Blocks {
			if b.Comment == "rangechan.loop" {
				loop = b
			}
		}
		if loop == nil {
			// `for r := range ch { return … }` has no back edge: take the block of the receive
			for _, b := range fn.Blocks {
				for _, in := range b.Instrs {
					if u, ok := in.(*ssa.UnOp); ok && u.Op == token.ARROW {
						loop = b
					}
				}
			}
		}
		if loop == nil {
			c.Unk(rule, name+"|loop", fn.Pos(), "no receive from the responses")
			continue
		}
		var recvVal ssa.Value
		for _, in := range loop.Instrs {
			if u, ok := in.(*ssa.UnOp); ok && u.Op == token.ARROW {
				for _, r := range an.Referrers(u) {
					if ex, ok := r.(*ssa.Extract); ok && ex.Index == 0 {
						recvVal = ex
					}
				}
			}
		}
		fieldOfResp := func(v ssa.Value, f string) bool {
			for _, s := range an.ValuesAt(v) {
				base, _, fld, ok := an.FieldOf(s)
				if !ok || fld != f {
					return false
				}
				fromRecv := false
				for _, b := range an.Sources(base) {
					if b == recvVal {
						fromRecv = true
					}
					if al, isAl := b.(*ssa.Alloc); isAl {
						for _, st := range an.StoresTo(&an.Cell{Alloc: al}) {
							if st.Val == recvVal {
								fromRecv = true
							}
						}
					}
				}
				if !fromRecv {
					return false
				}
			}
			return true
		}
		body := loop.Succs[0]
		inLoopRet := 0
		okShape := true
		for _, r := range an.Returns(fn) {
			tgt, _ := an.PathQuery{Target: func(in ssa.Instruction) bool { return in == ssa.Instruction(r) }, Avoid: func(in ssa.Instruction) bool {
				u, ok := in.(*ssa.UnOp)
				return ok && u.Op == token.ARROW
			}}.FromBlock(body)
			if tgt == nil {
				continue
			}
			inLoopRet++
			if !fieldOfResp(r.Results[0], "msg") || !fieldOfResp(r.Results[1], "i") {
				okShape = false
			}
			if t == "ExecuteFast" {
				// only on err == nil
				g := false
				for _, e := range an.GuardingEdges(r) {
					x, trueMeansNil, isNil := an.NilTest(e.If.Cond)
					if isNil && e.Branch == trueMeansNil && fieldOfResp(x, "err") {
						g = true
					}
				}
				if !g || !allAre(an.ValuesAt(r.Results[2]), an.IsNilConst) {
					okShape = false
				}
			} else if !fieldOfResp(r.Results[2], "err") {
				okShape = false
			}
		}
		what := "returns the first response whatever its error, with its own index"
		if t == "ExecuteFast" {
			what = "returns from the loop exactly on a nil error, with that response's message and index"
		}
		c.Check(inLoopRet == 1 && okShape, rule, name+"|"+what, fn.Pos(), "", t+" does not: "+what)
		if t == "ExecuteFast" {
			// after the loop: the first failing response's error and index
			okAfter := false
			for _, r := range an.Returns(fn) {
				if isFieldLoad(r.Results[2], "err") && isFieldLoad(r.Results[1], "i") {
					okAfter = true
				}
			}
			// the response that is kept by pointer is the variable of ONE iteration: a variable declared outside the loop
			// and assigned by it is overwritten by every later response, so the pointer ends up at the last one
			sharedVar := ""
			an.Instrs(fn, func(in ssa.Instruction) {
				ph, ok := in.(*ssa.Phi)
				if !ok || !strings.Contains(ph.Type().String(), "memberResponse") {
					return
				}
				for _, e := range ph.Edges {
					al, isAl := e.(*ssa.Alloc)
					if !isAl {
						continue
					}
					// allocated once, outside the loop, and stored to inside it
					if !loop.Dominates(al.Block()) || al.Block() == loop {
						for _, st := range an.StoresTo(&an.Cell{Alloc: al}) {
							if loop.Dominates(st.Block()) && st.Block() != loop || st.Block() == loop {
								sharedVar = al.Comment
							}
						}
					}
				}
			})
			if sharedVar != "" {
				c.Bad(rule, name+"|all failed: the first failing response's error and index", fn.Pos(),
					"the first failing response is remembered as a pointer to `"+sharedVar+"`, a variable that lives across iterations and is overwritten by every later response: when every member fails ExecuteFast returns the LAST error observed and its index")
			}
			// first kept: assignment guarded by firstErrResponse == nil
			kept := false
			for _, b := range fn.Blocks {
				if iff, ok := b.Instrs[len(b.Instrs)-1].(*ssa.If); ok {
					if x, _, isNil := an.NilTest(iff.Cond); isNil && strings.Contains(x.Type().String(), "memberResponse") && b != loop && loop.Dominates(b) && b.Comment != "rangechan.done" {
						// inside the loop
						t, _ := an.PathQuery{Target: func(in ssa.Instruction) bool { return in.Block() == loop }}.FromBlock(b)
						if t != nil {
							kept = true
						}
					}
				}
			}
			if !kept {
				// the same bookkeeping with a value and a flag: the remembered response is replaced only under a
				// condition that holds at most once (a boolean that is false initially and set true with it)
				for _, r := range an.Returns(fn) {
					if !isFieldLoad(r.Results[2], "err") {
						continue
					}
					var base ssa.Value
					for _, v := range an.ValuesAt(r.Results[2]) {
						if b, _, f, isF := an.FieldOf(v); isF && f == "err" {
							base = b
						}
					}
					if base == nil {
						continue
					}
					okAll, n := true, 0
					leaves := an.PhiLeaves(base)
					if al, isAlloc := base.(*ssa.Alloc); isAlloc {
						// the remembered response lives in a local variable: every assignment to it, with its guards
						leaves = nil
						for _, st := range an.StoresTo(&an.Cell{Alloc: al}) {
							if st.Addr == ssa.Value(al) {
								leaves = append(leaves, an.PhiLeaf{Val: st.Val, Conds: an.GuardingEdges(st)})
							}
						}
					}
					for _, lf := range leaves {
						if _, isC := lf.Val.(*ssa.Const); isC {
							continue // the zero value it starts with
						}
						n++
						once := false
						for _, e := range lf.Conds {
							cond, branch := e.If.Cond, e.Branch
							for {
								if u, isNot := cond.(*ssa.UnOp); isNot && u.Op == token.NOT {
									cond, branch = u.X, !branch
									continue
								}
								break
							}
							flag, isPhi := cond.(*ssa.Phi)
							if !isPhi || branch {
								continue
							}
							// flag: false at first, only ever set to true
							onlyTrue := true
							for _, fl := range an.PhiLeaves(flag) {
								if _, isB := an.ConstBool(fl.Val); !isB {
									onlyTrue = false
								}
							}
							if onlyTrue {
								once = true
							}
						}
						if !once {
							okAll = false
						}
					}
					if okAll && n > 0 {
						kept = true
					}
				}
			}
			if !(okAfter && kept) {
				// the first failure kept as separate values (`firstErr, firstErrIndex = response.err, response.i` under
				// `firstErr == nil`): every value that can arrive in the results is a field of a response, taken under a
				// condition that says nothing was recorded yet
				keptField := func(v ssa.Value, field string) bool {
					n := 0
					for _, lf := range an.PhiLeaves(v) {
						if _, isC := lf.Val.(*ssa.Const); isC {
							continue // the zero value it starts with
						}
						_, _, f, isF := an.FieldOf(lf.Val)
						if !isF || f != field || !firstFailureGuard(lf.Conds) {
							return false
						}
						n++
					}
					return n > 0
				}
				for _, r := range an.Returns(fn) {
					if len(r.Results) == 3 && keptField(r.Results[2], "err") && keptField(r.Results[1], "i") {
						okAfter, kept = true, true
					}
				}
			}
			c.Check(okAfter && kept, rule, name+"|all failed: the first failing response's error and index", fn.Pos(), "", "when every member fails ExecuteFast does not return the first error observed with its member index")
		}
	}
}

func r176(c *an.Ctx) {
	const rule = "R17.6"
	fn := mustFunc(c, rule, groupPkg, "", "executeEach")
	if fn == nil {
		return
	}
	name := "pkg/group.executeEach"
	adds := an.CallsTo(fn, "(*sync.WaitGroup).Add")
	okAdd := len(adds) == 1
	if okAdd {
		lc, isLen := adds[0].Common().Args[1].(*ssa.Call)
		okAdd = isLen && an.CalleeName(lc) == "builtin len" && lc.Call.Args[0] == ssa.Value(fn.Params[1])
		for _, g := range an.GoStmts(fn) {
			if !an.Dominates(adds[0], g) {
				okAdd = false
			}
		}
	}
	c.Check(okAdd, rule, name+"|Add(len(members)) before any goroutine starts", fn.Pos(), "", "the wait group is not set to len(members) before the member goroutines start: the channel is closed early (send on closed channel) or never")
	var members, closers int
	okMember, okCloser := true, true
	silent := false
	for _, g := range an.GoStmts(fn) {
		f := an.GoTarget(g)
		if f == nil {
			continue
		}
		if len(an.Sends(f)) > 0 {
			members++
			// Done deferred, dominating all exits
			okDone := false
			an.Instrs(f, func(in ssa.Instruction) {
				if d, ok := in.(*ssa.Defer); ok && an.CalleeName(d) == "(*sync.WaitGroup).Done" {
					okDone = true
					for _, r := range an.Returns(f) {
						if !an.Dominates(d, r) {
							okDone = false
						}
					}
				}
			})
			// calls its member with the shared ctx; response carries its own index
			okCall := false
			an.Instrs(f, func(in ssa.Instruction) {
				if cl, ok := in.(*ssa.Call); ok && an.CalleeName(cl) == "dynamic" && len(cl.Call.Args) == 1 {
					for _, s := range an.Sources(cl.Call.Args[0]) {
						if p, isP := s.(*ssa.Parameter); isP && p.Parent() == fn {
							okCall = true
						}
					}
				}
			})
			if !okDone || !okCall {
				okMember = false
			}
			// a member that has run reports its response whatever has happened to the context meanwhile: every path
			// from entry to the end of the goroutine passes the send (the channel has room for every member)
			if t, _ := (an.PathQuery{Target: func(x ssa.Instruction) bool { _, isRet := x.(*ssa.Return); return isRet && x.Block() != f.Recover }, Avoid: an.IsSendSite}).From(f, nil); t != nil {
				okMember = false
				silent = true
			}
			// exactly one send per member on every path
			for _, s := range an.Sends(f) {
				for _, s2 := range an.Sends(f) {
					if s.Instr != s2.Instr && an.Reaches(s.Instr, s2.Instr) {
						okMember = false
					}
				}
			}
		} else {
			closers++
			var wait, cl ssa.Instruction
			an.Instrs(f, func(in ssa.Instruction) {
				if an.IsCallTo(in, "(*sync.WaitGroup).Wait") {
					wait = in
				}
				if an.IsCallTo(in, "builtin close") {
					cl = in
				}
			})
			if wait == nil || cl == nil || !an.Dominates(wait, cl) {
				okCloser = false
			}
		}
	}
	why176 := "a member goroutine does not defer Done, does not call its member with the shared context, or can send more than once"
	if silent {
		why176 = "a member goroutine can end without reporting its response (e.g. it returns when the shared context is already cancelled): late successes lose their slot in All/Most, and with an already cancelled caller context failures are not reported at all (All returns nil, Race/Fast see no response)"
	}
	c.Check(members == 1 && okMember, rule, name+"|each member runs once, reports once, then signals Done", fn.Pos(), "", why176)
	c.Check(closers == 1 && okCloser, rule, name+"|one closer waits for all members, then closes", fn.Pos(), "", "the response channel is not closed by a goroutine that first waits for all members")
	// the go statement is inside the loop over members with the loop's own index and member
	inLoop := false
	for _, g := range an.GoStmts(fn) {
		if strings.HasPrefix(g.Block().Comment, "rangeindex") {
			inLoop = true
		}
	}
	c.Check(inLoop, rule, name+"|one goroutine per member", fn.Pos(), "", "member goroutines are not started from the loop over members")
	// the response literal carries the loop's index
	okI := false
	for _, g := range an.GoStmts(fn) {
		f := an.GoTarget(g)
		if f == nil {
			continue
		}
		for _, s := range an.Sends(f) {
			for _, v := range an.ValuesAt(s.Val) {
				_ = v
			}
			an.Instrs(f, func(in ssa.Instruction) {
				if st, ok := in.(*ssa.Store); ok {
					if _, _, fld, isF := an.FieldOf(st.Addr); isF && fld == "i" {
						for _, src := range an.Sources(st.Val) {
							if isRangeIndex(src) {
								okI = true
							}
						}
					}
				}
			})
		}
	}
	c.Check(okI, rule, name+"|the response carries the member's own index", fn.Pos(), "", "the index reported with a response is not the member's position")
}

// r177: the actions a trait group hands to group.Execute run on the context Execute gives them (the one it
// cancels once the outcome is decided), not on a context captured from the enclosing call.
func r177(c *an.Ctx) {
	const rule = "R17.7"
	n := 0
	for _, fn := range c.Prog.FuncsIn("pkg/trait") {
		if c.Prog.IsGenerated(fn.Pos()) || fn.Parent() == nil || len(fn.Params) != 1 {
			continue
		}
		if an.NamedTypeName(fn.Params[0].Type()) != "context.Context" {
			continue
		}
		res := fn.Signature.Results()
		if res.Len() != 2 || !an.IsErrorType(res.At(1).Type()) || !strings.Contains(res.At(0).Type().String(), "proto.Message") && !strings.Contains(res.At(0).Type().String(), "ProtoMessage") {
			continue
		}
		own := fn.Params[0]
		an.Instrs(fn, func(in ssa.Instruction) {
			call, ok := in.(ssa.CallInstruction)
			if !ok {
				return
			}
			for _, a := range call.Common().Args {
				if an.NamedTypeName(a.Type()) != "context.Context" {
					continue
				}
				n++
				derived := false
				for _, s := range an.SourcesOpaque(a) {
					if s == ssa.Value(own) {
						derived = true
					}
					// context.WithX(own, …)
					if ex, isEx := s.(*ssa.Extract); isEx {
						if cc, isCall := ex.Tuple.(*ssa.Call); isCall && len(cc.Call.Args) > 0 {
							for _, s2 := range an.SourcesOpaque(cc.Call.Args[0]) {
								if s2 == ssa.Value(own) {
									derived = true
								}
							}
						}
					}
				}
				c.SawFunc(an.FuncName(fn))
				c.Check(derived, rule, an.FuncName(fn)+"|member calls use the context the strategy gives them", in.Pos(), "",
					"a group action calls its member with a context captured from the enclosing request instead of its own context parameter: the member never sees the cancellation group.Execute issues once the outcome is decided (Race/Fast winners, exceeded error budget), so the remaining members keep running")
			}
		})
	}
	c.Count("group_action_calls", n)
}

// firstFailureGuard: one of the conditions says that nothing has been recorded yet: `kept == nil` on a loop-carried
// error, `!seen` on a loop-carried flag, or a loop-carried counter starting at zero tested for its first step
// (`n == 0` before, `n+1 == 1` after the increment).
func firstFailureGuard(conds []an.CondEdge) bool {
	startsAtZero := func(v ssa.Value) bool {
		ph, ok := v.(*ssa.Phi)
		if !ok {
			return false
		}
		for _, e := range ph.Edges {
			if k, isC := an.ConstInt(e); isC && k == 0 {
				return true
			}
		}
		return false
	}
	for _, e := range conds {
		cond, neg := e.If.Cond, false
		for {
			u, isNot := cond.(*ssa.UnOp)
			if !isNot || u.Op != token.NOT {
				break
			}
			cond, neg = u.X, !neg
		}
		holds := e.Branch != neg
		if x, trueMeansNil, isNil := an.NilTest(e.If.Cond); isNil {
			if _, isPhi := x.(*ssa.Phi); isPhi && (an.IsErrorType(x.Type()) || strings.HasPrefix(x.Type().String(), "*")) && e.Branch == trueMeansNil {
				return true
			}
			continue
		}
		if ph, isPhi := cond.(*ssa.Phi); isPhi && !holds {
			if b, isBool := ph.Type().Underlying().(*types.Basic); isBool && b.Kind() == types.Bool {
				return true
			}
		}
		if bo, isBO := cond.(*ssa.BinOp); isBO && (bo.Op == token.EQL && holds || bo.Op == token.NEQ && !holds) {
			k, isC := an.ConstInt(bo.Y)
			if !isC {
				continue
			}
			if k == 0 && startsAtZero(bo.X) {
				return true
			}
			if add, isAdd := bo.X.(*ssa.BinOp); isAdd && add.Op == token.ADD && k == 1 {
				if one, isOne := an.ConstInt(add.Y); isOne && one == 1 && startsAtZero(add.X) {
					return true
				}
			}
		}
	}
	return false
}

// r178: once the outcome is decided the remaining members are cancelled BEFORE anything waits for them. Deferred
// calls run in reverse order, so a deferred function that receives from the members' channel (a "drain the stragglers"
// helper) must be deferred before the cancel, i.e. run after it; deferred after the cancel it waits for members that
// nobody has told to stop (Race and Fast then return only when the slowest member does - or never).
func r178(c *an.Ctx) {
	const rule = "R17.8"
	receives := func(f *ssa.Function) bool {
		found := false
		for _, g := range append(an.WithClosures(f), an.TransparentCalleesOf(f, 1)...) {
			an.Instrs(g, func(in ssa.Instruction) {
				switch x := in.(type) {
				case *ssa.UnOp:
					if x.Op == token.ARROW {
						found = true
					}
				case *ssa.Select:
					for _, st := range x.States {
						if st.Dir == types.RecvOnly {
							found = true
						}
					}
				}
			})
		}
		return found
	}
	n := 0
	for _, fn := range c.Prog.FuncsIn("pkg/group") {
		if c.Prog.IsGenerated(fn.Pos()) || fn.Parent() != nil {
			continue
		}
		var cancelDefer *ssa.Defer
		var others []*ssa.Defer
		an.Instrs(fn, func(in ssa.Instruction) {
			d, ok := in.(*ssa.Defer)
			if !ok {
				return
			}
			isCancel := false
			for _, s0 := range an.SourcesOpaque(d.Call.Value) {
				if ex, isEx := s0.(*ssa.Extract); isEx && ex.Index == 1 {
					if cl, isCall := ex.Tuple.(*ssa.Call); isCall && an.CalleeName(cl) == "context.WithCancel" {
						isCancel = true
					}
				}
			}
			if isCancel {
				cancelDefer = d
			} else {
				others = append(others, d)
			}
		})
		if cancelDefer == nil {
			continue
		}
		n++
		bad := ""
		var where ssa.Instruction = cancelDefer
		for _, d := range others {
			var callee *ssa.Function
			if f := an.ClosureFn(d.Call.Value); f != nil {
				callee = f
			} else if f := d.Call.StaticCallee(); f != nil && len(f.Blocks) > 0 {
				callee = f
			}
			if callee == nil || !receives(callee) {
				continue
			}
			// registered after the cancel => runs before it
			if an.Dominates(cancelDefer, d) {
				bad, where = an.FuncName(callee), d
			}
		}
		c.SawFunc(an.FuncName(fn))
		c.Check(bad == "", rule, an.FuncName(fn)+"|the remaining members are cancelled before anything waits for them", where.Pos(), "the deferred cancel runs first",
			"the deferred "+bad+" receives from the members and is deferred after the cancel, so at return it runs BEFORE the cancel: the strategy waits for members nobody has cancelled (Race/Fast return with the slowest member instead of the first, and hang if the others only return on ctx.Done)")
	}
	c.Count("cancel_defers", n)
}

// r179: a group applies the strategy configured for the kind of call it is making: Update…/Set…/Delete…/Create… RPCs
// run under WriteExecution, Get…/Describe…/List…/Pull… under ReadExecution. With the defaults (All/All) the two are
// indistinguishable, which is why no test notices; configured differently (reads tolerant, writes strict) a write run
// under the read strategy reports success although a member failed.
func r179(c *an.Ctx, rule string) {
	exq := an.ModulePath + "/pkg/group.Execute"
	n := 0
	for _, fn := range c.Prog.FuncsIn("pkg/trait") {
		if c.Prog.IsGenerated(fn.Pos()) {
			continue
		}
		for _, call := range an.CallsTo(fn, exq) {
			if len(call.Common().Args) < 2 {
				continue
			}
			field := ""
			for _, s0 := range an.ValuesAt(call.Common().Args[1]) {
				if _, _, f, ok := an.FieldOf(s0); ok {
					field = f
				}
			}
			if field != "ReadExecution" && field != "WriteExecution" {
				continue
			}
			// the handler the call belongs to
			h := fn
			for h.Parent() != nil {
				h = h.Parent()
			}
			want := ""
			switch {
			case hasAnyPrefix(h.Name(), "Update", "Set", "Delete", "Create", "Add", "Remove", "Clear", "Change"):
				want = "WriteExecution"
			case hasAnyPrefix(h.Name(), "Get", "Describe", "List", "Pull"):
				want = "ReadExecution"
			default:
				continue
			}
			n++
			c.SawFunc(an.FuncName(h))
			c.Check(field == want, rule, an.FuncName(h)+"|runs under the strategy of its kind", call.Pos(), "group.Execute(ctx, s."+want+", …)",
				an.FuncName(h)+" executes its member calls under s."+field+"; a call of this kind is governed by s."+want+": with differently configured strategies a failing member is tolerated (or not) against the configuration")
		}
	}
	c.Count("group_execute_calls", n)
}

func hasAnyPrefix(s string, ps ...string) bool {
	for _, p := range ps {
		if strings.HasPrefix(s, p) {
			return true
		}
	}
	return false
}

// r1710: a group handler that stops to wait for its members (`<-returnErr` after a failed Send) has cancelled them
// first. The members only end when their context does; the wait is a plain receive, so it must be dominated by a
// call - not a deferred one, which would run after the wait - of the cancel function of the context the members
// run under. Otherwise the call and every member goroutine hang for as long as the caller's context lives.
func r1710(c *an.Ctx, rule string) {
	n := 0
	for _, fn := range c.Prog.FuncsIn("pkg/trait") {
		if fn.Parent() != nil || !strings.HasSuffix(c.Prog.RelFile(fn.Pos()), "/group.go") {
			continue
		}
		var cancels []ssa.Value
		an.Instrs(fn, func(in ssa.Instruction) {
			if ex, ok := in.(*ssa.Extract); ok && ex.Index == 1 {
				if call, isC := ex.Tuple.(*ssa.Call); isC && an.CalleeName(call) == "context.WithCancel" {
					cancels = append(cancels, ex)
				}
			}
		})
		if len(cancels) == 0 {
			continue
		}
		isCancelCall := func(in ssa.Instruction) bool {
			call, ok := in.(*ssa.Call)
			if !ok {
				return false
			}
			for _, s := range an.Sources(call.Call.Value) {
				for _, k := range cancels {
					if s == k {
						return true
					}
				}
			}
			return false
		}
		ord := 0
		an.Instrs(fn, func(in ssa.Instruction) {
			rcv, ok := in.(*ssa.UnOp)
			if !ok || rcv.Op != token.ARROW {
				return
			}
			ord++
			n++
			cancelled := false
			an.Instrs(fn, func(x ssa.Instruction) {
				if isCancelCall(x) && an.Dominates(x, rcv) {
					cancelled = true
				}
			})
			c.Check(cancelled, rule, fmt.Sprintf("%s|wait #%d for the members follows their cancellation", an.FuncName(fn), ord), rcv.Pos(), "dominated by a call of the members' cancel function",
				"the handler waits for its members without having cancelled their context first (a deferred cancel runs only after the wait): the members never end, so the call and their goroutines hang until the caller's own context ends")
		})
	}
	c.Count("member_waits", n)
}

// r1711: results are reported at the member's own index - so the slice Execute hands back for the one-winner
// strategies (One, Fast, Race) has a slot for every member. Each slice it makes has LENGTH len(members); made with
// length 0 and that capacity, `i < len(results)` is never true, the winner's response is dropped and the caller
// gets an empty list.
func r1711(c *an.Ctx, rule string) {
	fn := mustFunc(c, rule, groupPkg, "", "Execute")
	if fn == nil || len(fn.Params) < 3 {
		return
	}
	members := fn.Params[2]
	n := 0
	for _, f := range append([]*ssa.Function{fn}, an.TransparentCalleesOf(fn, 1)...) {
		an.Instrs(f, func(in ssa.Instruction) {
			ms, ok := in.(*ssa.MakeSlice)
			if !ok {
				return
			}
			n++
			full := false
			for _, v := range an.ValuesAt(ms.Len) {
				if call, isCall := v.(*ssa.Call); isCall && an.CalleeName(call) == "builtin len" {
					for _, s := range an.Sources(call.Call.Args[0]) {
						if s == ssa.Value(members) {
							full = true
						}
					}
				}
			}
			c.Check(full, rule, fmt.Sprintf("%s|result list #%d has a slot for every member", an.FuncName(fn), n), ms.Pos(), "length len(members)",
				"the result list is not made with length len(members): the winner's response cannot be stored at its index and the caller receives a list without it")
		})
	}
	if n == 0 {
		c.Unk(rule, an.FuncName(fn)+"|result lists", fn.Pos(), "Execute makes no result list")
	}
}
