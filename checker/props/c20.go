package props

import (
	"fmt"
	"go/constant"
	"go/token"
	"go/types"
	"sort"
	"strings"

	"golang.org/x/tools/go/ssa"

	"scverif/an"
)

func init() {
	register(&Prop{
		ID:    "C20",
		Title: "Trait models keep derived state consistent with their rules",
		Explanation: "Structural clauses of C20, each a necessary condition of the stated behaviour; the arithmetic itself (unit round trips, exact amounts, version hashes) is NOT decided.  R20.10 partial writes name their paths. R20.11 a model's own interceptor precedes the caller's write options; derived configuration in modelArgs maps is rebuilt per option application." +
			"R20.1 configuration is used: (i) in every pkg/trait package with a modelArgs struct, every []resource.Option field has a dedicated exported With…Option writer, and each such writer appends to the field its name refers to (best common prefix of the name's stem among the option fields); (ii) a constructor that builds a Model literal does not initialise a field from a package-level variable when it has an input of that very type. " +
			"R20.2 a function under pkg/trait does not return a provably nil error on a path guarded by `some other error != nil` (swallowed error). " +
			"R20.3 a pointer field that the function itself tests for nil is not dereferenced outside the protection of a non-nil test of the same access path. " +
			"R20.4 vending updateStock: the quantity written to dst.F takes its unit from src.F, the delta is converted to src.F's unit, used adds, remaining subtracts and is floored at zero. " +
			"R20.5 traitRemove removes an element only under has[i].Name == name (and i < len). R20.7 traitUnion inserts only when the name is absent, at the searched index; appends only at i == len. " +
			"R20.6 no hand-written exported function under pkg/trait has a body that can only panic. " +
			"R20.8 index arithmetic that selects a mode value / a fan-speed preset is brought into [0,len) before the slice is indexed (wrap-around by remainder plus len for negatives; clamping for presets). " +
			"R20.10 a derived operation that writes a freshly built, partially filled message names the paths it changes (WithUpdatePaths/WithUpdateMask) or rebuilds the rest from the old value in its interceptor, because an unmasked write replaces the whole stored message. " +
			"R20.9 enter/leave totals: the matching total is incremented exactly for its own direction and ResetTotals writes both totals with both update paths; meter: RecordReading stamps end_time and Reset stamps start_time and end_time with one reading of the resource clock and forces the three paths. R20.24 methods of trait models read no package-level Default… variable: they work with the configuration the model holds. R20.25 the enter/leave model compares a supplied total with the stored total itself, not with the incremented one. R20.26 mintVersion writes id, body, media type and audience into its hash and discards no Sum.",
		Assumptions: []string{"resource.Value/Collection write semantics (C02, C05)", "unitpb.Convert32 arithmetic (C18)"},
		Run:         runC20,
		Controls: []Control{
			{Name: "total-compared-after-the-increment", File: "pkg/trait/enterleavesensorpb/model.go", Old: "\t\t\tif val != nil && *val != cv {\n\t\t\t\t// the caller supplied a new total, use it\n\t\t\t\treturn val\n\t\t\t}\n\t\t\tif inc {\n\t\t\t\tcv++\n\t\t\t}\n", New: "\t\t\tif inc {\n\t\t\t\tcv++\n\t\t\t}\n\t\t\tif val != nil && *val != cv {\n\t\t\t\t// the caller supplied a new total, use it\n\t\t\t\treturn val\n\t\t\t}\n", Expect: "R20.25"},
			{Name: "version-sums-the-body-instead-of-writing-it", File: "pkg/trait/publicationpb/model.go", Old: "\thash.Write(p.Body)\n", New: "\thash.Sum(p.Body)\n", Expect: "R20.26"},
			{Name: "version-drops-the-media-type", File: "pkg/trait/publicationpb/model.go", Old: "\tio.WriteString(hash, p.MediaType)\n", New: "", Expect: "R20.26"},
			{Name: "total-compared-through-a-temporary", Silent: true, File: "pkg/trait/enterleavesensorpb/model.go", Old: "\t\t\tif val != nil && *val != cv {\n", New: "\t\t\tstored := cv\n\t\t\tif val != nil && *val != stored {\n"},
			{Name: "fan-validates-against-the-default-presets", File: "pkg/trait/fanspeedpb/model.go", Old: "\t\tfor _, preset := range m.presets {\n\t\t\tif preset.Name == fanSpeed.Preset {", New: "\t\tfor _, preset := range DefaultPresets {\n\t\t\tif preset.Name == fanSpeed.Preset {", Expect: "R20.24"},
			{Name: "inventory-options-replace", File: "pkg/trait/vendingpb/model_opts.go", Old: "\t\targs.inventoryOptions = append(args.inventoryOptions, opts...)", New: "\t\targs.inventoryOptions = opts", Expect: "R20.23"},
			{Name: "add-child-overwrites", File: "pkg/trait/parentpb/model.go", Old: "m.children.Add(child.Name, child)", New: "m.children.Update(child.Name, child, resource.WithCreateIfAbsent())", Expect: "R20.22"},
			{Name: "refused-dispense-merged-without-reset", File: "pkg/trait/vendingpb/model.go", Old: "\t\t\tproto.Reset(newVal)\n\t\t\tproto.Merge(newVal, oldVal)\n", New: "\t\t\tproto.Merge(newVal, oldVal)\n", Expect: "R20.21"},
			{Name: "revert-F66-step-added-unreduced", File: "pkg/trait/modepb/model_server.go", Old: "newI := (int32(i) + adjustment%int32(len(values))) % int32(len(values))", New: "newI := (int32(i) + adjustment) % int32(len(values))", Expect: "R20.20"},
			{Name: "zero-amount-converts-between-anything", File: "pkg/trait/vendingpb/unitpb/convert.go", Old: "\tif from == to {\n\t\treturn v, nil", New: "\tif from == to || v == 0 {\n\t\treturn v, nil", Expect: "R20.14"},
			{Name: "fanspeed-defaults-after-callers-options", File: "pkg/trait/fanspeedpb/model_opts.go", Old: "\targs.apply(DefaultModelOptions...)\n\targs.apply(opts...)\n", New: "\targs.apply(opts...)\n\targs.apply(DefaultModelOptions...)\n", Expect: "R20.19"},
			{Name: "meter-initial-stamp-from-wall-clock", File: "pkg/trait/meterpb/model.go", Old: "\t\tnow := value.Clock().Now()\n", New: "\t\tnow := time.Now()\n", Expect: "R20.18"},
			{Name: "echoed-total-not-counted", File: "pkg/trait/enterleavesensorpb/model.go", Old: "\t\t\tif val != nil && *val != cv {\n", New: "\t\t\tif val != nil {\n", Expect: "R20.9"},
			{Name: "revert-F62-empty-preset-name-looked-up", File: "pkg/trait/fanspeedpb/model.go", Old: "\tif newVal.Preset != \"\" && oldVal.Preset != newVal.Preset {\n", New: "\tif oldVal.Preset != newVal.Preset {\n", Expect: "R20.17"},
			{Name: "meter-defaults-after-callers-options", File: "pkg/trait/meterpb/model.go", Old: "\tvalue := resource.NewValue(append(defaultOptions, opts...)...)\n", New: "\tvalue := resource.NewValue(append(opts, defaultOptions...)...)\n", Expect: "R20.16"},
			{Name: "presets-option-appends", File: "pkg/trait/fanspeedpb/model_opts.go", Old: "\t\targs.presets = presets\n", New: "\t\targs.presets = append(args.presets, presets...)\n", Expect: "R20.1"},
			{Name: "receipt-reset-only-on-version-change", File: "pkg/trait/publicationpb/model.go", Old: "\t\tif args.resetReceipt {\n", New: "\t\tif args.resetReceipt && newVal.Version != old.(*traits.Publication).Version {\n", Expect: "R20.15"},
			{Name: "unknown-units-convert", File: "pkg/trait/vendingpb/unitpb/convert.go", Old: "\tif !fromUnitOk || !toUnitOk || fromUnit.category != toUnit.category {", New: "\t_, _ = fromUnitOk, toUnitOk\n\tif fromUnit.category != toUnit.category {", Expect: "R20.14"},
			{Name: "meter-newmodel-overwrites-period", File: "pkg/trait/meterpb/model.go", Old: "\t\tproto.Merge(newVal, old)\n", New: "", Expect: "R20.13"},
			{Name: "computed-properties-after-caller-options", File: "pkg/trait/publicationpb/model.go", Old: "\topts = append([]resource.WriteOption{m.withComputedProperties(args)}, opts...)", New: "\topts = append(opts, m.withComputedProperties(args))", Expect: "R20.11"},
			{Name: "revert-F21-consumables-to-inventory", File: "pkg/trait/vendingpb/model_opts.go", Old: "\t\targs.consumableOptions = append(args.consumableOptions, opts...)\n\t})", New: "\t\targs.inventoryOptions = append(args.inventoryOptions, opts...)\n\t})", Expect: "R20.1"},
			{Name: "revert-F22-default-modes", File: "pkg/trait/modepb/model.go", Old: "\t\tmodes: modes,", New: "\t\tmodes: DefaultModes,", Expect: "R20.1"},
			{Name: "revert-F23-swallowed-error", File: "pkg/trait/vendingpb/model.go", Old: "\tif maskedErr != nil {\n\t\treturn nil, maskedErr\n\t}", New: "\tif maskedErr != nil {\n\t\treturn nil, err\n\t}", Expect: "R20.2"},
			{Name: "revert-F24-used-unit-for-remaining", File: "pkg/trait/vendingpb/model.go", Old: "dst.Remaining = &traits.Consumable_Quantity{Unit: src.Remaining.Unit, Amount: amount}", New: "dst.Remaining = &traits.Consumable_Quantity{Unit: src.Used.Unit, Amount: amount}", Expect: "R20.3"},
			{Name: "revert-F25-remove-at-insertion-point", File: "pkg/trait/parentpb/model.go", Old: "\t\tif insertIndex == len(has) || has[insertIndex].Name != ts {\n\t\t\tcontinue // t isn't in has, nothing to do this iteration\n\t\t}", New: "\t\tif insertIndex == len(has) {\n\t\t\tcontinue // t isn't in has, nothing to do this iteration\n\t\t}", Expect: "R20.5"},
			{Name: "union-inserts-duplicates", File: "pkg/trait/parentpb/model.go", Old: "\t\tcase has[insertIndex].Name == ts: // already exists, do nothing\n", New: "", Expect: "R20.7"},
			{Name: "remaining-not-floored", File: "pkg/trait/vendingpb/model.go", Old: "\t\tif amount < 0 {\n\t\t\tamount = 0\n\t\t}\n", New: "", Expect: "R20.4"},
			{Name: "used-subtracts", File: "pkg/trait/vendingpb/model.go", Old: "Amount: src.Used.Amount + delta}", New: "Amount: src.Used.Amount - delta}", Expect: "R20.4"},
			{Name: "mode-wrap-without-negative-branch", File: "pkg/trait/modepb/model_server.go", Old: "\t\t\t\t\tif newI < 0 {\n\t\t\t\t\t\tnewI = int32(len(values)) + newI\n\t\t\t\t\t}\n", New: "", Expect: "R20.8"},
			{Name: "preset-index-not-clamped-below", File: "pkg/trait/fanspeedpb/model.go", Old: "\t\tif newVal.PresetIndex < 0 {\n\t\t\tnewVal.PresetIndex = 0\n\t\t}\n", New: "", Expect: "R20.8"},
			{Name: "leave-counts-enter", File: "pkg/trait/enterleavesensorpb/model.go", Old: "currentVal.LeaveTotal, valueVal.Direction == traits.EnterLeaveEvent_LEAVE)", New: "currentVal.LeaveTotal, valueVal.Direction == traits.EnterLeaveEvent_ENTER)", Expect: "R20.9"},
			{Name: "reset-forgets-leave-path", File: "pkg/trait/enterleavesensorpb/model.go", Old: "resource.WithUpdatePaths(\"enter_total\", \"leave_total\")", New: "resource.WithUpdatePaths(\"enter_total\")", Expect: "R20.9"},
			{Name: "meter-reset-keeps-start", File: "pkg/trait/meterpb/model.go", Old: "resource.WithUpdatePaths(\"usage\", \"start_time\", \"end_time\"))", New: "resource.WithUpdatePaths(\"usage\", \"end_time\"))", Expect: "R20.9"},
			{Name: "union-search-resumes", File: "pkg/trait/parentpb/model.go", Old: "\t\tinsertIndex := sort.Search(len(has), func(i int) bool {\n\t\t\treturn has[i].Name >= ts\n\t\t})\n\t\tswitch {", New: "\t\tinsertIndex := from + sort.Search(len(has)-from, func(i int) bool {\n\t\t\treturn has[from+i].Name >= ts\n\t\t})\n\t\tfrom = insertIndex\n\t\tswitch {", More: []Edit{{File: "pkg/trait/parentpb/model.go", Old: "\t// has should be sorted by Trait.Name\n\tfor _, t := range more {", New: "\tfrom := 0\n\tfor _, t := range more {"}}, Expect: "R20.7"},
			{Name: "leave-is-not-enter", File: "pkg/trait/enterleavesensorpb/model.go", Old: "currentVal.LeaveTotal, valueVal.Direction == traits.EnterLeaveEvent_LEAVE)", New: "currentVal.LeaveTotal, !(valueVal.Direction == traits.EnterLeaveEvent_ENTER))", Expect: "R20.9"},
			{Name: "revert-F32-record-without-paths", File: "pkg/trait/meterpb/model.go", Old: "\t}),\n\t\t// only the usage and end time change, the start time of the period is kept\n\t\tresource.WithUpdatePaths(\"usage\", \"end_time\"))", New: "\t}))", Expect: "R20.10"},
			{Name: "revert-F33-constructor-replaces-initial", File: "pkg/trait/meterpb/model.go", Old: "\t\tproto.Merge(newVal, old)\n", New: "", Expect: "R20.10"},
			{Name: "remove-guard-spelled-positively", Silent: true, File: "pkg/trait/parentpb/model.go", Old: "\t\tif insertIndex == len(has) || has[insertIndex].Name != ts {\n\t\t\tcontinue // t isn't in has, nothing to do this iteration\n\t\t}\n\t\tcopy(has[insertIndex:], has[insertIndex+1:])\n\t\thas = has[:len(has)-1]", New: "\t\tif insertIndex < len(has) && has[insertIndex].Name == ts {\n\t\t\tcopy(has[insertIndex:], has[insertIndex+1:])\n\t\t\thas = has[:len(has)-1]\n\t\t}"},
		},
	})
}

func runC20(c *an.Ctx) {
	r2017(c, "R20.17")
	r2018(c, "R20.18")
	c.Min("R20.18", 3)
	r2023(c, "R20.23")
	c.Min("R20.23", 3)
	r2024(c, "R20.24")
	c.Min("R20.24", 1)
	r2025(c, "R20.25")
	c.Min("R20.25", 1)
	r2026(c, "R20.26")
	c.Min("R20.26", 1)
	r2022(c, "R20.22")
	c.Min("R20.22", 1)
	r2021(c, "R20.21")
	c.Min("R20.21", 1)
	r2020(c, "R20.20")
	c.Min("R20.20", 1)
	rDefaultsFirst(c, "R20.19", "pkg/trait")
	c.Min("R20.19", 12)
	c.Min("R20.17", 1)
	// defaults first, the caller's options last: an append onto the caller's variadic options puts the defaults after them,
	// where they override what the caller configured (shared with R11.7, which reports the same construct as a race)
	r117as(c, "R20.16")
	c.Min("R20.16", 1)
	r201opts(c)
	r201ctor(c)
	r202(c)
	r203(c)
	r204(c)
	r205and7(c)
	r206(c)
	r208(c)
	r209(c)
	r2010(c)
	r2011(c)
	r2013(c)
	r2014(c)
	r2015(c)
	c.Min("R20.15", 1)
	c.Min("R20.14", 2)
	c.Min("R20.13", 2)
	// a dispense that fails leaves the stock as it was: the interceptor restores the whole old value before it reports
	// the error (shared with R14.8, for the vending model)
	r148as(c, "R20.12", func(fn *ssa.Function) bool {
		return fn.Package() != nil && strings.HasSuffix(fn.Package().Pkg.Path(), "/pkg/trait/vendingpb")
	})
	c.Min("R20.12", 3)
	r201accumulate(c)
	c.Min("R20.11", 3)
	c.Min("R20.1", 55)
	c.Min("R20.2", 100)
	c.Min("R20.3", 3) // (one of the four tested paths of the pinned tree disappears when its nil test moves into a helper: RZF-7)
	c.Min("R20.4", 6)
	c.Min("R20.5", 1)
	c.Min("R20.6", 250)
	c.Min("R20.7", 2)
	c.Min("R20.8", 2)
	c.Min("R20.9", 5)
	c.Min("R20.10", 5)
}

func isResourceOptionSlice(t types.Type) bool {
	sl, ok := t.Underlying().(*types.Slice)
	return ok && an.NamedTypeName(sl.Elem()) == an.ModulePath+"/pkg/resource.Option"
}

func commonPrefix(a, b string) int {
	n := 0
	for n < len(a) && n < len(b) && a[n] == b[n] {
		n++
	}
	return n
}

// r201opts: option plumbing of every modelArgs.
func r201opts(c *an.Ctx) {
	const rule = "R20.1"
	byPkg := map[string][]*ssa.Function{}
	for _, fn := range c.Prog.FuncsIn("pkg/trait") {
		if c.Prog.IsGenerated(fn.Pos()) {
			continue
		}
		byPkg[fn.Package().Pkg.Path()] = append(byPkg[fn.Package().Pkg.Path()], fn)
	}
	for _, pk := range an.SortedKeys(byPkg) {
		tpkg := byPkg[pk][0].Package().Pkg
		obj := tpkg.Scope().Lookup("modelArgs")
		if obj == nil {
			continue
		}
		st, ok := obj.Type().Underlying().(*types.Struct)
		if !ok {
			continue
		}
		var optFields []string
		for i := 0; i < st.NumFields(); i++ {
			if isResourceOptionSlice(st.Field(i).Type()) {
				optFields = append(optFields, st.Field(i).Name())
			}
		}
		rel := an.ModRel(pk)
		// writers: top-level exported function -> fields its closures store to
		writers := map[string]map[string]bool{}
		var wpos = map[string]token.Pos{}
		for _, fn := range byPkg[pk] {
			top := fn
			for top.Parent() != nil {
				top = top.Parent()
			}
			if top.Signature.Recv() != nil || top.Object() == nil || !top.Object().Exported() {
				continue
			}
			an.Instrs(fn, func(in ssa.Instruction) {
				st, ok := in.(*ssa.Store)
				if !ok {
					return
				}
				_, stName, f, isF := an.FieldOf(st.Addr)
				if !isF || !strings.HasSuffix(stName, ".modelArgs") {
					return
				}
				if writers[top.Name()] == nil {
					writers[top.Name()] = map[string]bool{}
				}
				writers[top.Name()][f] = true
				wpos[top.Name()] = top.Pos()
			})
		}
		// the catch-all: (*modelArgs).apply hands every plain resource option to every option list
		applyWrites := map[string]bool{}
		for _, fn := range byPkg[pk] {
			if fn.Name() == "apply" && fn.Signature.Recv() != nil && strings.HasSuffix(an.NamedTypeName(fn.Signature.Recv().Type()), ".modelArgs") {
				an.Instrs(fn, func(in ssa.Instruction) {
					if st, ok := in.(*ssa.Store); ok {
						if _, stName, f, isF := an.FieldOf(st.Addr); isF && strings.HasSuffix(stName, ".modelArgs") {
							applyWrites[f] = true
						}
					}
				})
			}
		}
		for _, f := range optFields {
			c.Check(applyWrites[f], rule, fmt.Sprintf("%s.modelArgs.%s|plain resource options reach it", rel, f), obj.Pos(), "",
				"(*modelArgs).apply does not append plain resource options to this option list: options such as resource.WithClock given to NewModel never reach that resource")
			if len(optFields) < 2 {
				continue // a single list is fully served by the catch-all
			}
			var ws []string
			for _, w := range an.SortedKeys(writers) {
				if writers[w][f] {
					ws = append(ws, w)
				}
			}
			c.Check(len(ws) > 0, rule, fmt.Sprintf("%s.modelArgs.%s|has a dedicated option writer", rel, f), obj.Pos(), strings.Join(ws, ","),
				"no exported With… option stores to this option list: options meant for that resource (initial records, clock, equivalence) can only reach it through the catch-all and the dedicated option of the package writes somewhere else, so a model constructed with explicit configuration does not use it")
		}
		if len(optFields) < 2 {
			continue
		}
		for _, w := range an.SortedKeys(writers) {
			stem := strings.TrimPrefix(w, "With")
			trimmed := false
			for _, suf := range []string{"Options", "Option", "Opts", "Opt"} {
				if strings.HasSuffix(stem, suf) {
					stem, trimmed = strings.TrimSuffix(stem, suf), true
					break
				}
			}
			if !trimmed || !strings.HasPrefix(w, "With") {
				continue
			}
			stem = strings.ToLower(stem)
			best, bestN, tie := "", -1, false
			for _, f := range optFields {
				n := commonPrefix(stem, strings.ToLower(f))
				if n > bestN {
					best, bestN, tie = f, n, false
				} else if n == bestN {
					tie = true
				}
			}
			if tie || bestN < 3 {
				c.Note("%s.%s: the option's name does not single out one option list (not decided)", rel, w)
				continue
			}
			var wrote []string
			for f := range writers[w] {
				wrote = append(wrote, f)
			}
			sort.Strings(wrote)
			c.Check(len(wrote) == 1 && wrote[0] == best, rule, fmt.Sprintf("%s.%s|writes the option list it is named after", rel, w), wpos[w], "-> "+best,
				fmt.Sprintf("%s stores to %v, the option list its name refers to is %s: options given for one resource configure the other (e.g. initial consumables end up in the inventory)", w, wrote, best))
		}
	}
}

// r201ctor: constructors use their inputs.
func r201ctor(c *an.Ctx) {
	const rule = "R20.1"
	for _, fn := range c.Prog.FuncsIn("pkg/trait") {
		if c.Prog.IsGenerated(fn.Pos()) || fn.Parent() != nil || len(fn.Params) == 0 || fn.Object() == nil {
			continue
		}
		an.Instrs(fn, func(in ssa.Instruction) {
			alloc, ok := in.(*ssa.Alloc)
			if !ok {
				return
			}
			named, ok := alloc.Type().(*types.Pointer).Elem().(*types.Named)
			if !ok || named.Obj().Name() != "Model" || named.Obj().Pkg() != fn.Package().Pkg {
				return
			}
			fields, _ := litFields(alloc)
			for _, f := range an.SortedKeys(fields) {
				v := fields[f]
				srcs := an.Sources(v)
				onlyGlobals := len(srcs) > 0
				for _, s := range srcs {
					u, isLoad := s.(*ssa.UnOp)
					if !isLoad || u.Op != token.MUL {
						onlyGlobals = false
						continue
					}
					if _, isG := u.X.(*ssa.Global); !isG {
						onlyGlobals = false
					}
				}
				sameTypeInput := false
				for _, p := range fn.Params {
					if types.Identical(p.Type(), v.Type()) {
						sameTypeInput = true
					}
				}
				c.SawFunc(an.FuncName(fn))
				c.Check(!(onlyGlobals && sameTypeInput), rule, fmt.Sprintf("%s|field %s is initialised from the constructor's input", an.FuncName(fn), f), v.Pos(), "",
					fmt.Sprintf("the Model's field %s is initialised from a package-level variable although the constructor has a parameter of exactly that type: the explicit configuration is ignored (the model behaves as if constructed with the defaults)", f))
			}
		})
	}
}

// r202: swallowed errors.
func r202(c *an.Ctx) {
	const rule = "R20.2"
	for _, fn := range c.Prog.FuncsIn("pkg/trait") {
		if c.Prog.IsGenerated(fn.Pos()) {
			continue
		}
		res := fn.Signature.Results()
		if res.Len() == 0 || !an.IsErrorType(res.At(res.Len()-1).Type()) {
			continue
		}
		for _, r := range an.Returns(fn) {
			errRes := r.Results[len(r.Results)-1]
			for _, e := range an.GuardingEdges(r) {
				x, trueMeansNil, ok := an.NilTest(e.If.Cond)
				if !ok || e.Branch == trueMeansNil || !an.IsErrorType(x.Type()) {
					continue
				}
				// this return happens because the error x is non-nil
				name := an.AccessPath(x)
				if name == "" {
					name = x.Name()
				}
				cons := fmt.Sprintf("%s|a return under `%s != nil` reports an error", an.FuncName(fn), name)
				c.SawFunc(an.FuncName(fn))
				if provablyNilAt(errRes, r) {
					c.Bad(rule, cons, r.Pos(), fmt.Sprintf("this return is taken because %s is non-nil, yet the error it returns is provably nil here (a different, already checked error variable): the failure is swallowed and the caller sees (nil, nil)", name))
				} else {
					c.Ok(rule, cons, r.Pos(), "")
				}
			}
		}
	}
}

// r203: nil-belief contradiction on pointer fields.
func r203(c *an.Ctx) {
	const rule = "R20.3"
	for _, fn := range c.Prog.FuncsIn("pkg/trait") {
		if c.Prog.IsGenerated(fn.Pos()) {
			continue
		}
		// paths tested for nil
		tested := map[string]bool{}
		an.Instrs(fn, func(in ssa.Instruction) {
			iff, ok := in.(*ssa.If)
			if !ok {
				return
			}
			x, _, ok := an.NilTest(iff.Cond)
			if !ok {
				return
			}
			if _, isPtr := x.Type().Underlying().(*types.Pointer); !isPtr {
				return
			}
			if ap := an.AccessPath(x); strings.Contains(ap, ".") {
				tested[ap] = true
			}
		})
		if len(tested) == 0 {
			continue
		}
		// paths re-assigned in the function: not decided
		assigned := map[string]bool{}
		an.Instrs(fn, func(in ssa.Instruction) {
			if st, ok := in.(*ssa.Store); ok {
				if ap := an.AccessPath(st.Addr); ap != "" {
					assigned[ap] = true
				}
			}
		})
		an.Instrs(fn, func(in ssa.Instruction) {
			fa, ok := in.(*ssa.FieldAddr)
			if !ok {
				return
			}
			load, ok := fa.X.(*ssa.UnOp)
			if !ok || load.Op != token.MUL {
				return
			}
			ap := an.AccessPath(load)
			if !tested[ap] {
				return
			}
			cons := fmt.Sprintf("%s|%s is dereferenced only where it is known to be non-nil", an.FuncName(fn), ap)
			c.SawFunc(an.FuncName(fn))
			if assigned[ap] {
				c.Ok(rule, cons, fa.Pos(), "re-assigned in the function: not decided")
				return
			}
			guarded := false
			for _, e := range an.GuardingEdges(fa) {
				x, trueMeansNil, ok := an.NilTest(e.If.Cond)
				if ok && e.Branch != trueMeansNil && an.AccessPath(x) == ap {
					guarded = true
				}
			}
			if guarded {
				c.Ok(rule, cons, fa.Pos(), "")
			} else {
				c.Bad(rule, cons, fa.Pos(), fmt.Sprintf("%s is tested for nil elsewhere in this function (so it may be nil) but is dereferenced here (.%s) outside the protection of that test: a message with this field unset panics (nil pointer dereference)", ap, faName(fa)))
			}
		})
	}
}

func faName(fa *ssa.FieldAddr) string {
	_, _, f, _ := an.FieldOf(fa)
	return f
}

// r204: vending updateStock arithmetic shape.
func r204(c *an.Ctx) {
	const rule = "R20.4"
	fn := mustFunc(c, rule, "pkg/trait/vendingpb", "", "updateStock")
	if fn == nil {
		return
	}
	name := an.FuncName(fn)
	if len(fn.Params) != 3 {
		c.Unk(rule, name+"|signature", fn.Pos(), "updateStock(quantity, src, dst) expected")
		return
	}
	src, dst := fn.Params[1], fn.Params[2]
	isSrcField := func(v ssa.Value, fld, sub string) bool {
		ap := an.AccessPath(v)
		return ap == src.Name()+"."+fld+"."+sub
	}
	litVal := map[string]ssa.Value{}
	for _, fld := range []string{"Used", "Remaining"} {
		var lit map[string]ssa.Value
		var where token.Pos = fn.Pos()
		an.Instrs(fn, func(in ssa.Instruction) {
			st, ok := in.(*ssa.Store)
			if !ok {
				return
			}
			base, _, f, isF := an.FieldOf(st.Addr)
			if !isF || f != fld || base != ssa.Value(dst) {
				return
			}
			lit, _ = litFields(st.Val)
			litVal[fld] = st.Val
			where = st.Pos()
		})
		if lit == nil {
			c.Bad(rule, fmt.Sprintf("%s|dst.%s is written", name, fld), where, "updateStock does not store a quantity literal to dst."+fld)
			continue
		}
		c.Check(lit["Unit"] != nil && isSrcField(lit["Unit"], fld, "Unit"), rule, fmt.Sprintf("%s|dst.%s keeps src.%s's unit", name, fld, fld), where, "",
			fmt.Sprintf("the quantity written to dst.%s does not take its unit from src.%s.Unit: the amount was converted to src.%s's unit but is labelled with another one", fld, fld, fld))
		// amount = src.F.Amount (+|-) Convert32(q.Amount, q.Unit, src.F.Unit)
		wantOp := token.ADD
		if fld == "Remaining" {
			wantOp = token.SUB
		}
		okArith, okFloor := false, fld == "Used"
		// every value the literal's Amount receives: its initialiser and later assignments (`left.Amount = 0`)
		var amtVals []ssa.Value
		var amtStores []*ssa.Store
		if _, alloc := litFields(litVal[fld]); alloc != nil {
			for _, u := range an.Referrers(alloc) {
				if fa, isFA := u.(*ssa.FieldAddr); isFA && faName(fa) == "Amount" {
					for _, u2 := range an.Referrers(fa) {
						if st, isSt := u2.(*ssa.Store); isSt && st.Addr == ssa.Value(fa) {
							amtStores = append(amtStores, st)
							amtVals = append(amtVals, an.ValuesAt(st.Val)...)
						}
					}
				}
			}
		}
		if amt := lit["Amount"]; amt != nil {
			for _, v := range amtVals {
				if k, isC := v.(*ssa.Const); isC && fld == "Remaining" {
					if k.Value != nil && k.Value.ExactString() == "0" {
						okFloor = true
					}
					continue
				}
				bo, ok := v.(*ssa.BinOp)
				if !ok || bo.Op != wantOp || !isSrcField(bo.X, fld, "Amount") {
					continue
				}
				for _, s := range an.SourcesOpaque(bo.Y) {
					ex, isEx := s.(*ssa.Extract)
					if !isEx || ex.Index != 0 {
						continue
					}
					call, isCall := ex.Tuple.(*ssa.Call)
					if !isCall {
						continue
					}
					if unit := conversionTarget(call); unit != nil && isSrcField(unit, fld, "Unit") {
						okArith = true
					}
				}
			}
			// floor: the constant 0 is selected under amount < 0
			if fld == "Remaining" && okFloor {
				okFloor = false
				// (a) a later assignment of 0 guarded by `<the amount> < 0`
				for _, st := range amtStores {
					if k, isC := st.Val.(*ssa.Const); !isC || k.Value == nil || k.Value.ExactString() != "0" {
						continue
					}
					for _, g := range an.GuardingEdges(st) {
						lo, hi, strict, isOrd := an.OrderFact(g)
						if !isOrd || !strict {
							continue
						}
						if k2, isC := hi.(*ssa.Const); !isC || k2.Value == nil || k2.Value.ExactString() != "0" {
							continue
						}
						// lo is the amount: the field just written, or the difference itself
						if ld, isLoad := lo.(*ssa.UnOp); isLoad {
							if fa, isFA := ld.X.(*ssa.FieldAddr); isFA && faName(fa) == "Amount" {
								okFloor = true
							}
						}
						if bo, isBO := lo.(*ssa.BinOp); isBO && bo.Op == token.SUB {
							okFloor = true
						}
					}
				}
				if phi, isPhi := amt.(*ssa.Phi); isPhi {
					for i, e := range phi.Edges {
						if k, isC := e.(*ssa.Const); isC && k.Value != nil && k.Value.ExactString() == "0" {
							pred := phi.Block().Preds[i]
							for _, g := range an.GuardingEdges(pred.Instrs[0]) {
								// amount < 0, however it is spelt (0 > amount, !(amount >= 0))
								if _, hi, strict, isOrd := an.OrderFact(g); isOrd && strict {
									if k2, isC := hi.(*ssa.Const); isC && k2.Value != nil && k2.Value.ExactString() == "0" {
										okFloor = true
									}
								}
							}
						}
					}
				}
			}
		}
		sign := "added to"
		if fld == "Remaining" {
			sign = "subtracted from"
		}
		c.Check(okArith, rule, fmt.Sprintf("%s|dst.%s = src.%s.Amount %s delta in src.%s's unit", name, fld, fld, wantOp, fld), where, "",
			fmt.Sprintf("the dispensed quantity, converted to src.%s.Unit, is not %s src.%s.Amount", fld, sign, fld))
		if fld == "Remaining" {
			c.Check(okFloor, rule, name+"|remaining is floored at zero", where, "", "the remaining amount is not replaced by 0 when the subtraction goes negative")
		}
	}
	// conversion errors are returned
	n, okErr := 0, true
	var convs []ssa.CallInstruction
	an.Instrs(fn, func(in ssa.Instruction) {
		if cl, ok := in.(*ssa.Call); ok && conversionTarget(cl) != nil {
			convs = append(convs, cl)
		}
	})
	for _, call := range convs {
		n++
		found := false
		for _, r := range an.Returns(fn) {
			for _, v := range an.ValuesAt(r.Results[0]) {
				if an.IsExtractOf(v, call.(*ssa.Call), 1) && !an.GuardedByNilResult(r, call.(*ssa.Call), 1) {
					found = true
				}
			}
		}
		if !found {
			okErr = false
		}
	}
	c.Check(okErr && n >= 2, rule, name+"|conversion errors are returned", fn.Pos(), fmt.Sprintf("%d conversions", n), "an error of unitpb.Convert32 (incompatible units) is not returned by updateStock")
}

// r205and7: parent trait set algebra.
func r205and7(c *an.Ctx) {
	nameCmp := func(cond ssa.Value) (token.Token, bool) {
		bo, ok := cond.(*ssa.BinOp)
		if !ok || (bo.Op != token.EQL && bo.Op != token.NEQ) {
			return 0, false
		}
		for _, v := range []ssa.Value{bo.X, bo.Y} {
			if _, _, f, isF := an.FieldOf(v); isF && f == "Name" {
				return bo.Op, true
			}
		}
		return 0, false
	}
	lenCmp := func(cond ssa.Value) (token.Token, bool) {
		bo, ok := cond.(*ssa.BinOp)
		if !ok {
			return 0, false
		}
		if cl, isCall := bo.Y.(*ssa.Call); isCall && an.CalleeName(cl) == "builtin len" {
			return bo.Op, true
		}
		return 0, false
	}
	// holds(e, op): the edge implies the relation `op` of the comparison's operands
	implies := func(e an.CondEdge, op token.Token, want token.Token) bool {
		switch {
		case op == want:
			return e.Branch
		case (op == token.EQL && want == token.NEQ) || (op == token.NEQ && want == token.EQL):
			return !e.Branch
		case op == token.LSS && want == token.NEQ:
			return e.Branch
		case op == token.GEQ && want == token.NEQ:
			return !e.Branch
		}
		return false
	}
	// present(v): the boolean v is `index < len(list) && list[index].Name == name` however it is assembled (a
	// short-circuit expression, the second result of a search helper): every way it becomes true passes the length test
	// and is the name comparison, every other way is the constant false under the failed length test
	present := func(v ssa.Value) bool {
		leaves := an.PhiLeaves(v)
		// the found result of slices.BinarySearchFunc over the list by Name (possibly handed on by a helper)
		if len(leaves) == 1 {
			if ex, isEx := leaves[0].Val.(*ssa.Extract); isEx && ex.Index == 1 {
				if call, isCall := ex.Tuple.(*ssa.Call); isCall && nameBinarySearch(call) {
					return true
				}
			}
		}
		if len(leaves) < 2 {
			return false
		}
		sawCmp := false
		for _, lf := range leaves {
			lenHolds, lenFails := false, false
			for _, e := range lf.Conds {
				if op, ok := lenCmp(e.If.Cond); ok {
					switch {
					case op == token.LSS && e.Branch, op == token.GEQ && !e.Branch:
						lenHolds = true
					case op == token.LSS && !e.Branch, op == token.GEQ && e.Branch:
						lenFails = true
					}
				}
			}
			if b, isC := an.ConstBool(lf.Val); isC {
				if b || !lenFails {
					return false
				}
				continue
			}
			if op, ok := nameCmp(lf.Val); !ok || op != token.EQL || !lenHolds {
				return false
			}
			sawCmp = true
		}
		return sawCmp
	}
	// presentEdge: what the edge says about such a boolean (known=false when the edge does not test one)
	presentEdge := func(e an.CondEdge) (isPresent, known bool) {
		cond, neg := e.If.Cond, false
		for {
			u, isNot := cond.(*ssa.UnOp)
			if !isNot || u.Op != token.NOT {
				break
			}
			cond, neg = u.X, !neg
		}
		if _, isBin := cond.(*ssa.BinOp); isBin || !present(cond) {
			return false, false
		}
		return e.Branch != neg, true
	}
	// removal sites: copy(list[i:], list[i+1:]) or append(list[:i], list[i+1:]...)
	removalSites := func(fn *ssa.Function) []ssa.CallInstruction {
		var out []ssa.CallInstruction
		// (a copy of the whole list - copy(fresh, list) - is no removal: the destination starts one before the source)
		for _, call := range an.CallsTo(fn, "builtin copy") {
			a := call.Common().Args
			if len(a) != 2 {
				continue
			}
			dst, ok1 := a[0].(*ssa.Slice)
			src, ok2 := a[1].(*ssa.Slice)
			if !ok1 || !ok2 || dst.Low == nil || src.Low == nil {
				continue
			}
			if add, isAdd := src.Low.(*ssa.BinOp); isAdd && add.Op == token.ADD && add.X == dst.Low {
				if one, isC := an.ConstInt(add.Y); isC && one == 1 {
					out = append(out, call)
				}
			}
		}
		for _, call := range an.CallsTo(fn, "builtin append") {
			a := call.Common().Args
			if len(a) != 2 {
				continue
			}
			head, ok1 := a[0].(*ssa.Slice)
			tail, ok2 := a[1].(*ssa.Slice)
			if !ok1 || !ok2 || head.High == nil || tail.Low == nil {
				continue
			}
			if add, isAdd := tail.Low.(*ssa.BinOp); isAdd && add.Op == token.ADD && add.X == head.High {
				if one, isC := an.ConstInt(add.Y); isC && one == 1 {
					out = append(out, call)
				}
			}
		}
		// slices.Delete(list, i, i+1)
		for _, call := range an.CallsIn(fn, func(n string) bool { return strings.HasPrefix(n, "slices.Delete") }) {
			a := call.Common().Args
			if len(a) != 3 {
				continue
			}
			if add, isAdd := a[2].(*ssa.BinOp); isAdd && add.Op == token.ADD && add.X == a[1] {
				if one, isC := an.ConstInt(add.Y); isC && one == 1 {
					out = append(out, call)
				}
			}
		}
		return out
	}
	if fn := mustFunc(c, "R20.5", "pkg/trait/parentpb", "", "traitRemove"); fn != nil {
		name := an.FuncName(fn)
		n := 0
		for _, call := range removalSites(fn) {
			n++
			eq, inRange := false, false
			for _, e := range an.GuardingEdges(call) {
				if op, ok := nameCmp(e.If.Cond); ok && implies(e, op, token.EQL) {
					eq = true
				}
				if op, ok := lenCmp(e.If.Cond); ok && implies(e, op, token.NEQ) {
					inRange = true
				}
				if isPresent, known := presentEdge(e); known && isPresent {
					eq, inRange = true, true
				}
			}
			c.Check(eq && inRange, "R20.5", name+"|an element is removed only when its name equals the trait to remove", call.Pos(), "",
				"the element at the searched index is removed without comparing its Name with the trait to remove (or without the index < len test): removing an absent trait deletes the next greater trait instead, so the child's trait list is no longer the set difference")
		}
		if n == 0 {
			c.Unk("R20.5", name+"|removal", fn.Pos(), "no removal of an element (copy(l[i:], l[i+1:]) or append(l[:i], l[i+1:]...)) found")
		}
		c.SawFunc(name)
	}
	if fn := mustFunc(c, "R20.7", "pkg/trait/parentpb", "", "traitUnion"); fn != nil {
		name := an.FuncName(fn)
		c.SawFunc(name)
		// every creation of a &traits.Trait{Name: ts} inside the loop: guarded by (i == len) or by (Name != ts and i != len)
		n := 0
		okAll := true
		var where token.Pos = fn.Pos()
		an.Instrs(fn, func(in ssa.Instruction) {
			alloc, ok := in.(*ssa.Alloc)
			if !ok || !alloc.Heap || an.NamedTypeName(alloc.Type().(*types.Pointer).Elem()) != "github.com/smart-core-os/sc-api/go/traits.Trait" {
				return
			}
			n++
			atEnd, absent := false, false
			for _, e := range an.GuardingEdges(alloc) {
				if op, ok := lenCmp(e.If.Cond); ok && implies(e, op, token.EQL) {
					atEnd = true
				}
				if op, ok := nameCmp(e.If.Cond); ok && implies(e, op, token.NEQ) {
					absent = true
				}
				// `found == false` where found is `index < len && list[index].Name == name`: at the end, or a different name
				if isPresent, known := presentEdge(e); known && !isPresent {
					absent = true
				}
			}
			if !atEnd && !absent {
				okAll = false
				where = alloc.Pos()
			}
		})
		c.Check(okAll && n >= 1, "R20.7", name+"|a trait is inserted only when it is absent", where, fmt.Sprintf("%d insertion sites", n),
			"a new Trait element is created on a path where neither `index == len(has)` nor `has[index].Name != name` is established: adding a trait the child already has duplicates it, so the list is no longer a set")
		// sort.Search predicate is >= (the search may live in a helper the rules have not seen)
		okSearch := false
		for _, sc := range searchCallsDeep(fn) {
			if f := an.ClosureFn(sc.call.Common().Args[1]); f != nil {
				for _, r := range an.Returns(f) {
					if bo, ok := r.Results[0].(*ssa.BinOp); ok && bo.Op == token.GEQ {
						okSearch = true
					}
				}
			}
		}
		for _, bs := range nameBinarySearchesDeep(fn) {
			_ = bs
			okSearch = true // BinarySearchFunc with an ascending comparison by Name returns the first position >= name
		}
		c.Check(okSearch, "R20.7", name+"|the insertion point is the first element >= name", fn.Pos(), "", "sort.Search's predicate is not `has[i].Name >= name`: equality at the insertion point no longer means presence")
	}
	// both searches span the whole (current) list and index it with the probe itself
	for _, fname := range []string{"traitUnion", "traitRemove"} {
		fn := c.Prog.Func("pkg/trait/parentpb", "", fname)
		if fn == nil {
			continue
		}
		for _, bs := range nameBinarySearchesDeep(fn) {
			whole := true
			for _, src := range an.Sources(bs.Call.Args[0]) {
				if sl, isSlice := src.(*ssa.Slice); isSlice && sl.Low != nil {
					whole = false
				}
			}
			c.Check(whole, "R20.7", an.FuncName(fn)+"|the binary search spans the whole list", bs.Pos(), "",
				"the binary search runs over a window of the list: names outside the window are never compared, so presence is misjudged")
		}
		for _, sc := range searchCallsDeep(fn) {
			call := sc.call
			whole := false
			if ln, ok := call.Common().Args[0].(*ssa.Call); ok && an.CalleeName(ln) == "builtin len" {
				// len of the list itself, not of a window list[k:] of it (sources are followed into the caller
				// when the search lives in a helper)
				whole = true
				for _, src := range an.Sources(ln.Call.Args[0]) {
					if sl, isSlice := src.(*ssa.Slice); isSlice && sl.Low != nil {
						whole = false
					}
				}
			}
			direct := false
			if f := an.ClosureFn(call.Common().Args[1]); f != nil && len(f.Params) == 1 {
				direct = true
				an.Instrs(f, func(in ssa.Instruction) {
					if ia, ok := in.(*ssa.IndexAddr); ok && ia.Index != ssa.Value(f.Params[0]) {
						direct = false
					}
				})
			}
			c.Check(whole && direct, "R20.7", an.FuncName(fn)+"|the binary search spans the whole list", call.Pos(), "",
				"sort.Search does not run over [0, len(has)) with has[i] probed directly (a window or an offset is used): names outside the window are never compared, so presence is misjudged unless the names to merge arrive sorted - which callers do not guarantee - and the result stops being a sorted duplicate-free set")
		}
	}
}

// r206: bodies that can only panic.
func r206(c *an.Ctx) {
	const rule = "R20.6"
	for _, fn := range c.Prog.FuncsIn("pkg/trait") {
		if c.Prog.IsGenerated(fn.Pos()) || fn.Parent() != nil || fn.Object() == nil || !fn.Object().Exported() {
			continue
		}
		if fn.Signature.Recv() == nil {
			continue
		}
		hasPanic := false
		an.Instrs(fn, func(in ssa.Instruction) {
			if _, ok := in.(*ssa.Panic); ok {
				hasPanic = true
			}
		})
		c.SawFunc(an.FuncName(fn))
		c.Check(!(hasPanic && len(an.Returns(fn)) == 0), rule, an.FuncName(fn)+"|can return", fn.Pos(), "",
			"every path through this method ends in panic: any call, however well-formed the request, crashes the server instead of producing a response or an error status")
	}
}

// r208: index arithmetic brought into range.
func r208(c *an.Ctx) {
	const rule = "R20.8"
	// modepb relativeAdjustment: values[newI] with newI = rem(i+adj, len) adjusted by +len when negative
	// wrapShape: idx is `r` or phi(r, L+r) with r = (...) % L and the sum chosen exactly under r < 0
	// wrapShape: every value that can arrive as the index is a constant, a remainder `r = (...) % L` arriving only where
	// r is known not to be negative, or `L + r` arriving only where r < 0 - whether the choice is made by a phi, by
	// returns of a helper, or by a variable assigned under conditions (an.PhiLeaves gives each value with its conditions)
	wrapShape := func(idx ssa.Value, isLen func(ssa.Value) bool) (okMod, okNeg, found bool) {
		okMod, okNeg = true, true
		signOf := func(conds []an.CondEdge, rem ssa.Value) (neg, nonNeg bool) {
			for _, g := range conds {
				bo, ok := g.If.Cond.(*ssa.BinOp)
				if !ok {
					continue
				}
				k, isC := an.ConstInt(bo.Y)
				if !isC || k != 0 || !(stripIntConv(bo.X) == rem || an.SameValues(stripIntConv(bo.X), rem)) {
					continue
				}
				switch bo.Op {
				case token.LSS:
					neg, nonNeg = neg || g.Branch, nonNeg || !g.Branch
				case token.GEQ:
					neg, nonNeg = neg || !g.Branch, nonNeg || g.Branch
				}
			}
			return
		}
		for _, lf := range an.PhiLeaves(idx) {
			v := stripIntConv(lf.Val)
			bo, isBo := v.(*ssa.BinOp)
			switch {
			case isBo && bo.Op == token.REM:
				found = true
				if !isLen(bo.Y) {
					okMod = false
				}
				if _, nonNeg := signOf(lf.Conds, bo); !nonNeg {
					okNeg = false
				}
			case isBo && bo.Op == token.ADD:
				var rem *ssa.BinOp
				if r, ok := stripIntConv(bo.Y).(*ssa.BinOp); ok && r.Op == token.REM && isLen(bo.X) {
					rem = r
				} else if r, ok := stripIntConv(bo.X).(*ssa.BinOp); ok && r.Op == token.REM && isLen(bo.Y) {
					rem = r
				}
				// `i %= n` assigned to the parameter and read back: the operand is the phi/param web of the remainder
				if rem == nil {
					for _, side := range []ssa.Value{bo.X, bo.Y} {
						for _, l2 := range an.PhiLeaves(side) {
							if r, ok := stripIntConv(l2.Val).(*ssa.BinOp); ok && r.Op == token.REM {
								rem = r
							}
						}
					}
				}
				if rem == nil {
					continue
				}
				found = true
				if !isLen(rem.Y) {
					okMod = false
				}
				if neg, _ := signOf(lf.Conds, rem); !neg {
					okNeg = false
				}
			}
		}
		return okMod, okNeg, found
	}
	if top := mustFunc(c, rule, "pkg/trait/modepb", "ModelServer", "relativeAdjustment"); top != nil {
		n := 0
		var scan []*ssa.Function
		inScan := map[*ssa.Function]bool{}
		for _, f := range an.WithClosures(top) {
			for _, g := range append([]*ssa.Function{f}, an.TransparentCalleesOf(f, 2)...) {
				if !inScan[g] {
					inScan[g] = true
					scan = append(scan, g)
				}
			}
		}
		for _, fn := range scan {
			an.Instrs(fn, func(in ssa.Instruction) {
				ia, ok := in.(*ssa.IndexAddr)
				if !ok {
					return
				}
				isLenOf := func(v ssa.Value) bool {
					for _, s0 := range an.Sources(stripIntConv(v)) {
						if cl, ok := stripIntConv(s0).(*ssa.Call); ok && an.CalleeName(cl) == "builtin len" && (an.SameValue(cl.Call.Args[0], ia.X) || an.SameValues(cl.Call.Args[0], ia.X)) {
							return true
						}
					}
					return false
				}
				okMod, okNeg, found := wrapShape(ia.Index, isLenOf)
				if !found {
					return
				}
				n++
				cons := an.FuncName(top) + "|the wrapped value index is within [0, len)"
				c.Check(okMod && okNeg, rule, cons, ia.Pos(), "", "the index into the mode's values is the remainder of (current + adjustment) by len(values) without adding len(values) back when the remainder is negative (Go's % keeps the sign): a relative step below zero indexes with a negative number and panics instead of wrapping around")
			})
		}
		if n == 0 {
			c.Unk(rule, an.FuncName(top)+"|the wrapped value index is within [0, len)", top.Pos(), "no values[(i+adjustment) % len] found")
		}
		c.SawFunc(an.FuncName(top))
	}
	// fanspeed DeriveValues: presets[newVal.PresetIndex] after clamping on both sides
	if top := mustFunc(c, rule, "pkg/trait/fanspeedpb", "Model", "DeriveValues"); top != nil {
		n := 0
		isPresetIndexing := func(in ssa.Instruction) bool {
			ia, ok := in.(*ssa.IndexAddr)
			if !ok {
				return false
			}
			load, ok := stripIntConv(ia.Index).(*ssa.UnOp)
			if !ok || load.Op != token.MUL {
				return false
			}
			_, _, f, isF := an.FieldOf(load.X)
			return isF && f == "PresetIndex"
		}
		fn := an.BodyWith(top, isPresetIndexing) // the derivation may have moved into a helper
		if fn == nil {
			fn = top
		}
		an.Instrs(fn, func(in ssa.Instruction) {
			ia, ok := in.(*ssa.IndexAddr)
			if !ok {
				return
			}
			load, ok := stripIntConv(ia.Index).(*ssa.UnOp)
			if !ok || load.Op != token.MUL {
				return
			}
			if _, _, f, isF := an.FieldOf(load.X); !isF || f != "PresetIndex" {
				return
			}
			n++
			ap := an.AccessPath(load.X)
			// on every path to the indexing, PresetIndex >= len is replaced by len-1 and PresetIndex < 0 by 0:
			// there is an `if idx >= len` whose true branch stores len-1, and an `if idx < 0` whose true branch stores 0,
			// both dominating the indexing
			hi, lo := false, false
			an.Instrs(fn, func(x ssa.Instruction) {
				iff, ok := x.(*ssa.If)
				if !ok || !an.Dominates(iff, ia) {
					return
				}
				bo, ok := iff.Cond.(*ssa.BinOp)
				if !ok {
					return
				}
				l, isLoad := stripIntConv(bo.X).(*ssa.UnOp)
				if !isLoad || an.AccessPath(l.X) != ap {
					return
				}
				tb := iff.Block().Succs[0]
				stores := func(pred func(v ssa.Value) bool) bool {
					for _, y := range tb.Instrs {
						if st, ok := y.(*ssa.Store); ok && an.AccessPath(st.Addr) == ap && pred(stripIntConv(st.Val)) {
							return true
						}
					}
					return false
				}
				switch bo.Op {
				case token.GEQ:
					if cl, ok := stripIntConv(bo.Y).(*ssa.Call); ok && an.CalleeName(cl) == "builtin len" {
						hi = stores(func(v ssa.Value) bool {
							sub, ok := v.(*ssa.BinOp)
							if !ok || sub.Op != token.SUB {
								return false
							}
							k, isC := an.ConstInt(sub.Y)
							_, isLen := stripIntConv(sub.X).(*ssa.Call)
							return isC && k == 1 && isLen
						})
					}
				case token.LSS:
					if k, isC := an.ConstInt(bo.Y); isC && k == 0 {
						lo = stores(func(v ssa.Value) bool { k, isC := an.ConstInt(v); return isC && k == 0 })
					}
				}
			})
			// or in one expression: PresetIndex = max(min(PresetIndex, len-1), 0) (or min(max(…, 0), len-1)) stored before the indexing
			an.Instrs(fn, func(x ssa.Instruction) {
				st, ok := x.(*ssa.Store)
				if !ok || an.AccessPath(st.Addr) != ap || !an.Dominates(st, ia) {
					return
				}
				builtin := func(v ssa.Value, name string) (a, b ssa.Value, ok bool) {
					call, isCall := stripIntConv(v).(*ssa.Call)
					if !isCall || len(call.Call.Args) != 2 {
						return nil, nil, false
					}
					bi, isB := call.Call.Value.(*ssa.Builtin)
					if !isB || bi.Name() != name {
						return nil, nil, false
					}
					return call.Call.Args[0], call.Call.Args[1], true
				}
				isZero := func(v ssa.Value) bool { k, isC := an.ConstInt(stripIntConv(v)); return isC && k == 0 }
				isLenMinus1 := func(v ssa.Value) bool {
					sub, ok := stripIntConv(v).(*ssa.BinOp)
					if !ok || sub.Op != token.SUB {
						return false
					}
					k, isC := an.ConstInt(sub.Y)
					cl, isLen := stripIntConv(sub.X).(*ssa.Call)
					return isC && k == 1 && isLen && an.CalleeName(cl) == "builtin len"
				}
				either := func(a, b ssa.Value, p func(ssa.Value) bool) (other ssa.Value, ok bool) {
					if p(a) {
						return b, true
					}
					if p(b) {
						return a, true
					}
					return nil, false
				}
				if a, b, isMax := builtin(st.Val, "max"); isMax {
					if inner, ok := either(a, b, isZero); ok {
						if c1, c2, isMin := builtin(inner, "min"); isMin {
							if _, ok2 := either(c1, c2, isLenMinus1); ok2 {
								hi, lo = true, true
							}
						}
					}
				}
				if a, b, isMin := builtin(st.Val, "min"); isMin {
					if inner, ok := either(a, b, isLenMinus1); ok {
						if c1, c2, isMax := builtin(inner, "max"); isMax {
							if _, ok2 := either(c1, c2, isZero); ok2 {
								// min(max(x,0), len-1) differs for an empty list only (index -1 either way panics)
								hi, lo = true, true
							}
						}
					}
				}
			})
			c.Check(hi && lo, rule, an.FuncName(top)+"|the preset index is clamped to [0, len-1] before indexing", ia.Pos(), "",
				"m.presets[PresetIndex] is indexed without clamping the (client-supplied, possibly relative) index on both sides first: an index below zero or beyond the last preset panics instead of selecting the first/last preset")
		})
		if n == 0 {
			c.Unk(rule, an.FuncName(top)+"|the preset index is clamped to [0, len-1] before indexing", top.Pos(), "m.presets[PresetIndex] not found")
		}
		c.SawFunc(an.FuncName(top))
	}
}

// r209: enter/leave totals and meter times.
func r209(c *an.Ctx) {
	const rule = "R20.9"
	resPath := an.ModulePath + "/pkg/resource."
	updatePaths := func(fn *ssa.Function) map[string]bool {
		out := map[string]bool{}
		for _, call := range an.CallsTo(fn, resPath+"WithUpdatePaths") {
			// variadic: a slice literal
			an.Instrs(fn, func(in ssa.Instruction) {
				if st, ok := in.(*ssa.Store); ok {
					if k, isC := st.Val.(*ssa.Const); isC && k.Value != nil && k.Value.Kind().String() == "String" {
						if ia, isIA := st.Addr.(*ssa.IndexAddr); isIA {
							for _, s := range an.Sources(call.Common().Args[0]) {
								if sl, isSl := s.(*ssa.Slice); isSl && sl.X == ia.X {
									out[strings.Trim(k.Value.ExactString(), "\"")] = true
								}
							}
						}
					}
				}
			})
		}
		return out
	}
	if fn := mustFunc(c, rule, "pkg/trait/enterleavesensorpb", "Model", "ResetTotals"); fn != nil {
		ps := updatePaths(fn)
		lit := map[string]ssa.Value{}
		for _, call := range an.CallsIn(fn, func(s string) bool { return strings.HasSuffix(s, "pkg/resource.Value).Set") }) {
			lit, _ = litFields(call.Common().Args[1])
		}
		c.SawFunc(an.FuncName(fn))
		c.Check(ps["enter_total"] && ps["leave_total"] && lit["EnterTotal"] != nil && lit["LeaveTotal"] != nil, rule, an.FuncName(fn)+"|both totals are written with both update paths", fn.Pos(), "",
			"ResetTotals does not set both EnterTotal and LeaveTotal with the update paths enter_total and leave_total: one of the totals survives a reset")
	}
	if top := mustFunc(c, rule, "pkg/trait/enterleavesensorpb", "Model", "CreateEnterLeaveEvent"); top != nil {
		c.SawFunc(an.FuncName(top))
		// adjustTotal(val.X, cur.X, Direction == D): X and D correspond, and val/cur name the same total
		n := 0
		// where the totals are adjusted: the function, its literals, the interceptor it installs (a literal, a plain
		// function or a method value) and the helpers those delegate to
		var scope []*ssa.Function
		inScope := map[*ssa.Function]bool{}
		add := func(f *ssa.Function) {
			for _, g := range an.WithClosures(f) {
				if !inScope[g] {
					inScope[g] = true
					scope = append(scope, g)
				}
			}
		}
		add(top)
		for _, ic := range interceptorBodies(top, "InterceptBefore") {
			add(ic.fn)
			for _, h := range an.TransparentCalleesOf(ic.fn, 2) {
				add(h)
			}
		}
		adjusters := map[*ssa.Function]bool{}
		for _, fn := range scope {
			an.Instrs(fn, func(in ssa.Instruction) {
				call, ok := in.(*ssa.Call)
				if !ok || len(call.Call.Args) != 3 {
					return
				}
				if _, isStatic := call.Call.Value.(*ssa.Function); !isStatic {
					if _, isClosure := call.Call.Value.(*ssa.MakeClosure); !isClosure {
						return
					}
				}
				_, _, f0, ok0 := an.FieldOf(call.Call.Args[0])
				_, _, f1, ok1 := an.FieldOf(call.Call.Args[1])
				if !ok0 || !ok1 || !strings.HasSuffix(f0, "Total") {
					return
				}
				n++
				if cal := call.Call.StaticCallee(); cal != nil {
					adjusters[cal] = true
				}
				flag := call.Call.Args[2]
				neg := false
				for {
					if u, ok := flag.(*ssa.UnOp); ok && u.Op == token.NOT {
						flag, neg = u.X, !neg
						continue
					}
					break
				}
				cmp, ok2 := flag.(*ssa.BinOp)
				if !ok2 || (cmp.Op != token.EQL && cmp.Op != token.NEQ) {
					c.Bad(rule, fmt.Sprintf("%s|%s counts its own direction", an.FuncName(top), f0), call.Pos(), "the increment flag of this total is not a comparison of the event's direction with one direction constant")
					return
				}
				if cmp.Op == token.NEQ {
					neg = !neg
				}
				k, isC := an.ConstInt(cmp.Y)
				if !isC || neg {
					c.Bad(rule, fmt.Sprintf("%s|%s counts its own direction", an.FuncName(top), f0), call.Pos(), fmt.Sprintf("the total %s grows whenever the direction is NOT a given one: events with an unspecified direction (occupant updates, corrections of totals) are counted as well", f0))
					return
				}
				want := map[string]int64{"EnterTotal": 1, "LeaveTotal": 2} // EnterLeaveEvent_ENTER = 1, _LEAVE = 2
				if v, ok := c.Prog.ConstInt("github.com/smart-core-os/sc-api/go/traits", "EnterLeaveEvent_ENTER"); ok {
					want["EnterTotal"] = v
				}
				if v, ok := c.Prog.ConstInt("github.com/smart-core-os/sc-api/go/traits", "EnterLeaveEvent_LEAVE"); ok {
					want["LeaveTotal"] = v
				}
				// the result is stored to the same total
				stored := ""
				for _, u := range an.Referrers(call) {
					if st, ok := u.(*ssa.Store); ok {
						_, _, stored, _ = an.FieldOf(st.Addr)
					}
				}
				c.Check(f0 == f1 && stored == f0 && want[f0] == k, rule, fmt.Sprintf("%s|%s counts its own direction", an.FuncName(top), f0), call.Pos(), "",
					fmt.Sprintf("the total %s is computed from (%s, %s) and incremented for direction %d, stored to %s: enter and leave totals are mixed up", f0, f0, f1, k, stored))
			})
		}
		if n < 2 {
			c.Unk(rule, an.FuncName(top)+"|totals", top.Pos(), fmt.Sprintf("%d adjustTotal calls found, 2 expected", n))
		}
		// adjustTotal increments exactly under inc
		var adj []*ssa.Function
		for f := range adjusters {
			adj = append(adj, f)
		}
		an.SortFuncs(adj)
		for _, fn := range adj {
			if len(fn.Params) != 3 || len(fn.Blocks) == 0 {
				continue
			}
			if b, ok := fn.Params[2].Type().Underlying().(*types.Basic); !ok || b.Kind() != types.Bool {
				continue
			}
			okInc := false
			an.Instrs(fn, func(in ssa.Instruction) {
				bo, ok := in.(*ssa.BinOp)
				if !ok || bo.Op != token.ADD {
					return
				}
				if k, isC := an.ConstInt(bo.Y); !isC || k != 1 {
					return
				}
				for _, g := range an.GuardingEdges(bo) {
					if g.If.Cond == ssa.Value(fn.Params[2]) && g.Branch {
						okInc = true
					}
				}
			})
			c.Check(okInc, rule, an.FuncName(top)+"|a total grows by one exactly when its direction matches", fn.Pos(), "", "the increment of a total is not guarded by the direction flag")
			// the caller's total is taken over only when it DIFFERS from the current one: an event that echoes the current
			// total (what a client that read the last event sends back) still counts
			okDiff, nRet := true, 0
			for _, r := range an.Returns(fn) {
				takesVal := false
				for _, v := range localValues(r.Results[0], 0) {
					if v == ssa.Value(fn.Params[0]) {
						takesVal = true
					}
				}
				if !takesVal {
					continue
				}
				nRet++
				differs := false
				for _, g := range guardsThroughAnd(r) {
					bo, isBO := g.If.Cond.(*ssa.BinOp)
					if !isBO || (bo.Op != token.NEQ && bo.Op != token.EQL) {
						continue
					}
					if g.Branch != (bo.Op == token.NEQ) {
						continue
					}
					for _, side := range []ssa.Value{bo.X, bo.Y} {
						if u, isU := side.(*ssa.UnOp); isU && u.Op == token.MUL {
							for _, s0 := range localValues(u.X, 0) {
								if s0 == ssa.Value(fn.Params[0]) {
									differs = true
								}
							}
							if u.X == ssa.Value(fn.Params[0]) {
								differs = true
							}
						}
					}
				}
				if !differs {
					okDiff = false
				}
			}
			c.Check(okDiff && nRet > 0, rule, an.FuncName(top)+"|a supplied total replaces the current one only when it differs", fn.Pos(), "", "the total carried by the event is taken over whenever it is present, also when it merely repeats the current total: such an event is then not counted, and the totals fall behind the number of events")
		}
	}
	// meter
	clockNow := func(fn *ssa.Function) []ssa.Value {
		var out []ssa.Value
		for _, f := range an.WithClosures(fn) {
			an.Instrs(f, func(in ssa.Instruction) {
				if call, ok := in.(*ssa.Call); ok && call.Call.IsInvoke() && call.Call.Method.Name() == "Now" {
					out = append(out, call)
				}
			})
		}
		return out
	}
	fromClock := func(v ssa.Value, nows []ssa.Value) bool {
		for _, s := range an.Sources(v) {
			call, ok := s.(*ssa.Call)
			if !ok || !strings.HasSuffix(an.CalleeName(call), "timestamppb.New") {
				continue
			}
			for _, s2 := range an.Sources(call.Call.Args[0]) {
				for _, n := range nows {
					if s2 == n {
						return true
					}
				}
			}
		}
		return false
	}
	if fn := mustFunc(c, rule, "pkg/trait/meterpb", "Model", "Reset"); fn != nil {
		c.SawFunc(an.FuncName(fn))
		ps := updatePaths(fn)
		nows := clockNow(fn)
		lit := map[string]ssa.Value{}
		an.Instrs(fn, func(in ssa.Instruction) {
			if alloc, ok := in.(*ssa.Alloc); ok && strings.HasSuffix(an.NamedTypeName(alloc.Type().(*types.Pointer).Elem()), "traits.MeterReading") {
				lit, _ = litFields(alloc)
			}
		})
		same := lit["StartTime"] != nil && lit["EndTime"] != nil && an.SameValue(lit["StartTime"], lit["EndTime"])
		c.Check(ps["usage"] && ps["start_time"] && ps["end_time"] && same && len(nows) == 1 && fromClock(lit["StartTime"], nows), rule, an.FuncName(fn)+"|start and end become one reading of the resource clock and usage is forced to zero", fn.Pos(), "",
			"Reset does not write usage, start_time and end_time together (explicit update paths, since a zero usage is otherwise skipped) from a single reading of the resource's clock: after a reset the reading's period is inconsistent (start after end, or stale usage)")
	}
	if fn := mustFunc(c, rule, "pkg/trait/meterpb", "Model", "RecordReading"); fn != nil {
		c.SawFunc(an.FuncName(fn))
		ok := false
		// the interceptor, however it is written: a literal, a named closure, a method value
		for _, ic := range interceptorBodies(fn, "InterceptBefore") {
			f, newP := ic.fn, ic.new
			nows := clockNow(f)
			stamps := func(x ssa.Instruction) bool {
				st, isSt := x.(*ssa.Store)
				if !isSt {
					return false
				}
				base, _, fld, isF := an.FieldOf(st.Addr)
				if !isF || fld != "EndTime" || !fromClock(st.Val, nows) {
					return false
				}
				for _, s := range an.Sources(base) {
					if s == ssa.Value(newP) {
						return true
					}
				}
				return false
			}
			has := false
			an.Instrs(f, func(in ssa.Instruction) { has = has || stamps(in) })
			// ... on every path of the interceptor (a reading that repeats the previous usage still ends the period now)
			t, _ := (an.PathQuery{Target: func(x ssa.Instruction) bool { _, isRet := x.(*ssa.Return); return isRet }, Avoid: stamps}).From(f, nil)
			if has && t == nil {
				ok = true
			}
		}
		c.Check(ok, rule, an.FuncName(fn)+"|end_time of the new reading is the resource clock's now", fn.Pos(), "", "RecordReading does not stamp the new value's EndTime from the resource clock on every path of its interceptor (e.g. it keeps the old end time when the usage repeats): the end time stops tracking the last recording")
	}
}

// r2010: a derived operation that writes a freshly built, partially filled message must name the paths it
// means to change (or rebuild the rest from the old value in its interceptor): a write without a mask
// replaces the whole stored message.
func r2010(c *an.Ctx) {
	const rule = "R20.10"
	resPath := an.ModulePath + "/pkg/resource."
	for _, fn := range c.Prog.FuncsIn("pkg/trait") {
		if c.Prog.IsGenerated(fn.Pos()) || fn.Parent() != nil {
			continue
		}
		an.Instrs(fn, func(in ssa.Instruction) {
			call, ok := in.(*ssa.Call)
			if !ok {
				return
			}
			name := an.CalleeName(call)
			isWrite := strings.HasSuffix(name, "pkg/resource.Value).Set")
			msgArg := 1
			if !isWrite {
				// a model's own Update… method that forwards to a Value.Set: (m, msg, opts...)
				cal := call.Call.StaticCallee()
				if cal == nil || cal.Package() != fn.Package() || cal.Signature.Recv() == nil || !strings.HasPrefix(cal.Name(), "Update") || !cal.Signature.Variadic() {
					return
				}
				fw := false
				for _, w := range an.CallsIn(cal, func(s string) bool { return strings.HasSuffix(s, "pkg/resource.Value).Set") }) {
					_ = w
					fw = true
				}
				if !fw {
					return
				}
			}
			if len(call.Call.Args) <= msgArg {
				return
			}
			fields, alloc := litFields(call.Call.Args[msgArg])
			if alloc == nil || alloc.Parent() != fn {
				return
			}
			st, ok := alloc.Type().(*types.Pointer).Elem().Underlying().(*types.Struct)
			if !ok {
				return
			}
			total := 0
			for i := 0; i < st.NumFields(); i++ {
				if st.Field(i).Exported() {
					total++
				}
			}
			if len(fields) >= total {
				return
			}
			cons := fmt.Sprintf("%s|the partially filled %s it writes names its paths", an.FuncName(fn), alloc.Type().(*types.Pointer).Elem().(*types.Named).Obj().Name())
			c.SawFunc(an.FuncName(fn))
			// options of this call: look for WithUpdatePaths / WithUpdateMask among the values stored into the variadic slice,
			// or an interceptor that rebuilds the new value from the old one
			masked, rebuilds := false, false
			for _, f := range an.WithClosures(fn) {
				an.Instrs(f, func(x ssa.Instruction) {
					cl, ok := x.(*ssa.Call)
					if !ok {
						return
					}
					switch an.CalleeName(cl) {
					case resPath + "WithUpdatePaths", resPath + "WithUpdateMask":
						if f == fn {
							masked = true
						}
					case "google.golang.org/protobuf/proto.Merge":
						if f != fn && len(f.Params) == 2 {
							// proto.Merge(new, old)
							a0, a1 := an.Sources(cl.Call.Args[0]), an.Sources(cl.Call.Args[1])
							if len(a0) == 1 && len(a1) == 1 && a0[0] == ssa.Value(f.Params[1]) && a1[0] == ssa.Value(f.Params[0]) {
								rebuilds = true
							}
						}
					}
				})
			}
			// forwards the caller's options only: the caller decides (e.g. a request's update mask)
			c.Check(masked || rebuilds, rule, cons, call.Pos(), fmt.Sprintf("%d of %d fields set", len(fields), total),
				fmt.Sprintf("a message with %d of its %d fields set is written without update paths and without rebuilding the rest from the old value: the write replaces the whole stored message, so every field the operation did not mention (e.g. a meter's start_time when a reading is recorded, or a configured initial value) is cleared", len(fields), total))
		})
	}
}

type searchCall struct {
	call ssa.CallInstruction
	in   *ssa.Function // the function containing the call
	via  *ssa.Call     // the call in the analysed function through which a helper is reached (nil = direct)
}

// searchCallsDeep lists the sort.Search calls of fn and of same-package helpers the rules have never seen.
func searchCallsDeep(fn *ssa.Function) []searchCall {
	var out []searchCall
	for _, call := range an.CallsTo(fn, "sort.Search") {
		out = append(out, searchCall{call: call, in: fn})
	}
	an.Instrs(fn, func(in ssa.Instruction) {
		call, ok := in.(*ssa.Call)
		if !ok {
			return
		}
		h := call.Call.StaticCallee()
		if h == nil || len(h.Blocks) == 0 || h.Package() != fn.Package() || an.KnownFunc(an.FuncQName(h)) {
			return
		}
		for _, c2 := range an.CallsTo(h, "sort.Search") {
			out = append(out, searchCall{call: c2, in: h, via: call})
		}
	})
	return out
}

// r2011: interceptors a model adds of its own go BEFORE the caller's write options: the resource keeps one
// interceptor of each kind (the last one given wins), and callers - including the model's own server - rely on
// theirs taking effect (publication acknowledge stamps receipt_time through InterceptAfter).
func r2011(c *an.Ctx) {
	const rule = "R20.11"
	resPath := an.ModulePath + "/pkg/resource."
	isInterceptor := func(v ssa.Value) bool {
		var check func(v ssa.Value, depth int) bool
		check = func(v ssa.Value, depth int) bool {
			for _, s := range an.Sources(v) {
				call, ok := s.(*ssa.Call)
				if !ok {
					continue
				}
				n := an.CalleeName(call)
				if n == resPath+"InterceptAfter" || n == resPath+"InterceptBefore" {
					return true
				}
				// a model helper that returns one (withComputedProperties)
				if cal := call.Call.StaticCallee(); cal != nil && depth < 2 && len(cal.Blocks) > 0 && strings.HasPrefix(cal.Package().Pkg.Path(), an.ModulePath+"/pkg/trait") {
					for _, r := range an.Returns(cal) {
						if len(r.Results) == 1 && check(r.Results[0], depth+1) {
							return true
						}
					}
				}
			}
			return false
		}
		return check(v, 0)
	}
	n := 0
	for _, fn := range c.Prog.FuncsIn("pkg/trait") {
		if c.Prog.IsGenerated(fn.Pos()) || fn.Parent() != nil || !fn.Signature.Variadic() {
			continue
		}
		last := fn.Params[len(fn.Params)-1]
		if !strings.Contains(last.Type().String(), "pkg/resource.WriteOption") {
			continue
		}
		an.Instrs(fn, func(in ssa.Instruction) {
			call, ok := in.(*ssa.Call)
			if !ok {
				return
			}
			// append(a, b...) or its library spelling slices.Concat(a, b)
			var base, added ssa.Value
			switch cn := an.CalleeName(call); {
			case cn == "builtin append" && len(call.Call.Args) == 2:
				base, added = call.Call.Args[0], call.Call.Args[1]
			case strings.HasPrefix(cn, "slices.Concat") && len(call.Call.Args) == 1:
				parts := variadicElems(call.Call.Args[0])
				if len(parts) != 2 {
					return
				}
				base, added = parts[0], parts[1]
			default:
				return
			}
			// which side is the caller's options?
			fromCaller := func(v ssa.Value) bool {
				for _, s := range an.SourcesOpaque(v) {
					if s == ssa.Value(last) {
						return true
					}
				}
				return false
			}
			// elements of a slice: of a literal, or of what earlier appends put together
			var elemsOf func(v ssa.Value, depth int) []ssa.Value
			elemsOf = func(v ssa.Value, depth int) []ssa.Value {
				var out []ssa.Value
				if depth > 4 {
					return out
				}
				for _, s := range an.SourcesOpaque(v) {
					if ap, isCall := s.(*ssa.Call); isCall && an.CalleeName(ap) == "builtin append" && len(ap.Call.Args) == 2 && ap != call {
						out = append(out, elemsOf(ap.Call.Args[0], depth+1)...)
						out = append(out, elemsOf(ap.Call.Args[1], depth+1)...)
						continue
					}
					sl, isSl := s.(*ssa.Slice)
					if !isSl {
						continue
					}
					an.Instrs(fn, func(x ssa.Instruction) {
						if st, isSt := x.(*ssa.Store); isSt {
							if ia, isIA := st.Addr.(*ssa.IndexAddr); isIA && ia.X == sl.X {
								out = append(out, st.Val)
							}
						}
					})
				}
				return out
			}
			switch {
			case fromCaller(base):
				// append(opts, own…): the model's options come last
				for _, e := range elemsOf(added, 0) {
					if isInterceptor(e) {
						n++
						c.SawFunc(an.FuncName(fn))
						c.Bad(rule, an.FuncName(fn)+"|the model's own interceptor does not displace the caller's", call.Pos(),
							"an interceptor of the model is appended AFTER the caller's write options: the resource keeps the last interceptor of a kind, so the caller's is silently dropped (e.g. AcknowledgePublication's InterceptAfter that stamps receipt_time: an acknowledgement is stored without its receipt time)")
					}
				}
			case fromCaller(added):
				for _, e := range elemsOf(base, 0) {
					if isInterceptor(e) {
						n++
						c.SawFunc(an.FuncName(fn))
						c.Ok(rule, an.FuncName(fn)+"|the model's own interceptor does not displace the caller's", call.Pos(), "own options first")
					}
				}
			}
		})
	}
	c.Count("interceptor_merges", n)
}

// r201accumulate: an option that replaces a piece of configuration replaces everything derived from it: state
// kept in a map field of modelArgs is rebuilt on every application, not topped up (the defaults are applied
// before the caller's options, so anything that accumulates keeps the defaults).
func r201accumulate(c *an.Ctx) {
	const rule = "R20.1"
	// configuration lists (presets, modes, records - anything but the lists of resource options, which are meant to
	// accumulate) are REPLACED by the option that sets them: the package defaults are applied before the caller's
	// options, so an option that appends keeps the defaults in front of what was configured
	for _, fn := range c.Prog.FuncsIn("pkg/trait") {
		if c.Prog.IsGenerated(fn.Pos()) || fn.Parent() == nil {
			continue
		}
		an.Instrs(fn, func(in ssa.Instruction) {
			st, ok := in.(*ssa.Store)
			if !ok {
				return
			}
			_, sn, fld, isF := an.FieldOf(st.Addr)
			if !isF || !strings.HasSuffix(sn, ".modelArgs") {
				return
			}
			sl, isSlice := st.Val.Type().Underlying().(*types.Slice)
			if !isSlice || strings.Contains(sl.Elem().String(), "pkg/resource.") {
				return
			}
			appendsToItself := false
			for _, s0 := range an.SourcesOpaque(st.Val) {
				call, isCall := s0.(*ssa.Call)
				if !isCall || an.CalleeName(call) != "builtin append" {
					continue
				}
				// ... the whole list the option was given (an option that adds ONE entry, like WithPreset(name, …), is
				// additive by design)
				wholeList := false
				if len(call.Call.Args) == 2 {
					for _, a := range an.SourcesOpaque(call.Call.Args[1]) {
						if fv, isFV := a.(*ssa.FreeVar); isFV && types.Identical(fv.Type(), st.Val.Type()) {
							wholeList = true
						}
						if prm, isP := a.(*ssa.Parameter); isP && types.Identical(prm.Type(), st.Val.Type()) {
							wholeList = true
						}
					}
				}
				if !wholeList {
					continue
				}
				for _, b := range an.SourcesOpaque(call.Call.Args[0]) {
					if _, sn2, f2, isF2 := an.FieldOf(b); isF2 && sn2 == sn && f2 == fld {
						appendsToItself = true
					}
				}
			}
			top := fn
			for top.Parent() != nil {
				top = top.Parent()
			}
			// only options that are also part of the package defaults matter (the defaults run first)
			c.SawFunc(an.FuncName(top))
			c.Check(!appendsToItself, rule, an.FuncName(top)+"|"+fld+" is replaced by the option that configures it", st.Pos(), "",
				"the option appends to modelArgs."+fld+" instead of replacing it: the package defaults are applied first, so a model constructed with explicit "+fld+" holds the defaults followed by the configured ones (indexes shifted, default names still accepted)")
		})
	}
	for _, fn := range c.Prog.FuncsIn("pkg/trait") {
		if c.Prog.IsGenerated(fn.Pos()) || fn.Parent() == nil {
			continue
		}
		an.Instrs(fn, func(in ssa.Instruction) {
			mu, ok := in.(*ssa.MapUpdate)
			if !ok {
				return
			}
			fresh, fromArgs := true, false
			for _, s := range an.SourcesOpaque(mu.Map) {
				if _, isMake := s.(*ssa.MakeMap); isMake {
					continue
				}
				if _, sn, _, isF := an.FieldOf(s); isF && strings.HasSuffix(sn, ".modelArgs") {
					fromArgs = true
					fresh = false
				}
			}
			if !fromArgs {
				return
			}
			top := fn
			for top.Parent() != nil {
				top = top.Parent()
			}
			c.SawFunc(an.FuncName(top))
			c.Check(fresh, rule, an.FuncName(top)+"|derived configuration is rebuilt, not topped up", mu.Pos(), "",
				"an option writes entries into a map of modelArgs that may already hold entries from an earlier application (the package defaults are applied first): a model constructed with explicit configuration keeps the defaults' entries, e.g. preset names that were not configured are accepted and resolve to the wrong index")
		})
	}
}

type interceptorBody struct {
	fn       *ssa.Function
	old, new *ssa.Parameter
	call     *ssa.Call // the resource.InterceptBefore/After call
}

// interceptorBodies: the bodies of the interceptors fn hands to resource.InterceptBefore / InterceptAfter (kind),
// whether they are written as literals, named closures, plain functions or method values.
func interceptorBodies(fn *ssa.Function, kind string) []interceptorBody {
	var out []interceptorBody
	for _, f := range an.WithClosures(fn) {
		for _, cl := range an.CallsTo(f, an.ModulePath+"/pkg/resource."+kind) {
			call := cl.(*ssa.Call)
			for _, s := range an.SourcesOpaque(call.Call.Args[0]) {
				if body, o, n := an.CallbackBody(s); body != nil && o != nil && n != nil && len(body.Blocks) > 0 {
					out = append(out, interceptorBody{body, o, n, call})
				}
			}
		}
	}
	return out
}

// conversionTarget: call converts a quantity with unitpb.Convert32 - directly, or through a helper the rules have not
// seen that hands back Convert32's results unchanged. Returns the target unit as the caller wrote it (nil otherwise).
func conversionTarget(call *ssa.Call) ssa.Value {
	if strings.HasSuffix(an.CalleeName(call), "unitpb.Convert32") && len(call.Call.Args) == 3 {
		return call.Call.Args[2]
	}
	h := an.TransparentCallee(call)
	if h == nil || h.Signature.Results().Len() != 2 {
		return nil
	}
	var inner *ssa.Call
	for _, r := range an.Returns(h) {
		var this *ssa.Call
		for i, res := range r.Results {
			ex, isEx := res.(*ssa.Extract)
			if !isEx || ex.Index != i {
				return nil
			}
			cl, isCall := ex.Tuple.(*ssa.Call)
			if !isCall || !strings.HasSuffix(an.CalleeName(cl), "unitpb.Convert32") || (this != nil && this != cl) {
				return nil
			}
			this = cl
		}
		if inner != nil && inner != this {
			return nil
		}
		inner = this
	}
	if inner == nil || len(inner.Call.Args) != 3 {
		return nil
	}
	unit := inner.Call.Args[2]
	for i, p := range h.Params {
		if unit == ssa.Value(p) && i < len(call.Call.Args) {
			return call.Call.Args[i]
		}
	}
	return nil
}

// nameBinarySearch: call is slices.BinarySearchFunc(list, name, cmp) with cmp comparing the element's Name with the
// target in ascending order (strings.Compare / cmp.Compare of (element.Name, target)).
func nameBinarySearch(call *ssa.Call) bool {
	if !strings.HasPrefix(an.CalleeName(call), "slices.BinarySearchFunc") || len(call.Call.Args) != 3 {
		return false
	}
	f := an.ClosureFn(call.Call.Args[2])
	if f == nil {
		if fn, isFn := call.Call.Args[2].(*ssa.Function); isFn {
			f = fn
		}
	}
	if f == nil || len(f.Params) != 2 {
		return false
	}
	ok := false
	for _, r := range an.Returns(f) {
		cl, isCall := r.Results[0].(*ssa.Call)
		if !isCall || !(an.CalleeName(cl) == "strings.Compare" || strings.HasPrefix(an.CalleeName(cl), "cmp.Compare")) || len(cl.Call.Args) != 2 {
			return false
		}
		base, _, fld, isF := an.FieldOf(cl.Call.Args[0])
		if !isF || fld != "Name" || base != ssa.Value(f.Params[0]) || cl.Call.Args[1] != ssa.Value(f.Params[1]) {
			return false
		}
		ok = true
	}
	return ok
}

// nameBinarySearchesDeep: such searches in fn or in a helper of fn the rules have not seen.
func nameBinarySearchesDeep(fn *ssa.Function) []*ssa.Call {
	var out []*ssa.Call
	for _, f := range append([]*ssa.Function{fn}, an.TransparentCalleesOf(fn, 1)...) {
		an.Instrs(f, func(in ssa.Instruction) {
			if cl, ok := in.(*ssa.Call); ok && nameBinarySearch(cl) {
				out = append(out, cl)
			}
		})
	}
	return out
}

// r2013: a meter keeps the period it was configured with. NewModel stamps start and end time only where the configured
// reading lacks them: every stamp in its interceptor is guarded by a nil test of that field on a value that holds the
// configured reading - the old value, or the written value after the old one has been merged into it.
func r2013(c *an.Ctx) {
	const rule = "R20.13"
	fn := mustFunc(c, rule, "pkg/trait/meterpb", "", "NewModel")
	if fn == nil {
		return
	}
	name := an.FuncName(fn)
	c.SawFunc(name)
	n := 0
	for _, ic := range interceptorBodies(fn, "InterceptBefore") {
		f, oldP, newP := ic.fn, ic.old, ic.new
		derivesFrom := func(v ssa.Value, p *ssa.Parameter) bool {
			for _, s0 := range an.Sources(v) {
				if s0 == ssa.Value(p) {
					return true
				}
			}
			return false
		}
		var merges []ssa.Instruction
		an.Instrs(f, func(in ssa.Instruction) {
			if cl, ok := in.(*ssa.Call); ok && an.CalleeName(cl) == "google.golang.org/protobuf/proto.Merge" && len(cl.Call.Args) == 2 {
				if derivesFrom(cl.Call.Args[0], newP) && derivesFrom(cl.Call.Args[1], oldP) {
					merges = append(merges, in)
				}
			}
		})
		an.Instrs(f, func(in ssa.Instruction) {
			st, ok := in.(*ssa.Store)
			if !ok {
				return
			}
			base, _, fld, isF := an.FieldOf(st.Addr)
			if !isF || (fld != "StartTime" && fld != "EndTime") || !derivesFrom(base, newP) {
				return
			}
			n++
			guarded := false
			for _, e := range an.GuardingEdges(st) {
				x, trueMeansNil, isNil := an.NilTest(e.If.Cond)
				if !isNil || e.Branch != trueMeansNil {
					continue
				}
				b2, _, f2, isF2 := an.FieldOf(x)
				if !isF2 || f2 != fld {
					continue
				}
				if derivesFrom(b2, oldP) {
					guarded = true
				}
				if derivesFrom(b2, newP) {
					for _, m := range merges {
						if an.Dominates(m, e.If) {
							guarded = true
						}
					}
				}
			}
			c.Check(guarded, rule, name+"|"+fld+" is stamped only where the configured reading lacks it", st.Pos(), "",
				"NewModel's interceptor sets "+fld+" without first seeing that the configured reading has none (the nil test looks at the freshly written message, which never has one): a model created with resource.WithInitialValue(reading) loses the period it was given")
		})
	}
	if n == 0 {
		c.Unk(rule, name+"|the period is completed", fn.Pos(), "NewModel's interceptor does not stamp start/end time")
	}
}

// r2014: a conversion is only made between units the table knows: every successful return of unitpb.Convert that comes
// after a lookup in the unit table lies behind that lookup's ok result. A unit that is not in the table yields the
// zero entry (no category, factor 0): two unknown units then "match" and the conversion divides by zero - NaN with a
// nil error, which DispenseInstantly stores as used and remaining.
func r2014(c *an.Ctx) {
	const rule = "R20.14"
	fn := mustFunc(c, rule, "pkg/trait/vendingpb/unitpb", "", "Convert")
	if fn == nil {
		return
	}
	name := an.FuncName(fn)
	c.SawFunc(name)
	n := 0
	for _, f := range append([]*ssa.Function{fn}, an.TransparentCalleesOf(fn, 2)...) {
		an.Instrs(f, func(in ssa.Instruction) {
			lk, ok := in.(*ssa.Lookup)
			if !ok {
				return
			}
			if _, isMap := lk.X.Type().Underlying().(*types.Map); !isMap {
				return
			}
			n++
			good := lk.CommaOk
			if good {
				for _, r := range an.Returns(fn) {
					if f != fn || !an.Reaches(lk, r) {
						continue
					}
					if !provablyNilAt(r.Results[len(r.Results)-1], r) {
						continue
					}
					guarded := false
					for _, e := range an.GuardingEdges(r) {
						cond, branch := e.If.Cond, e.Branch
						for {
							if u, isNot := cond.(*ssa.UnOp); isNot && u.Op == token.NOT {
								cond, branch = u.X, !branch
								continue
							}
							break
						}
						if an.IsExtractOf(cond, lk, 1) && branch {
							guarded = true
						}
						// a named boolean for `a && b && …`: it is true only when the chain ran to its last operand, so
						// what guards the blocks its non-false values come from guards the return as well
						if phi, isPhi := cond.(*ssa.Phi); isPhi && branch {
							some, all := false, true
							for i, ev := range phi.Edges {
								if b, isC := an.ConstBool(ev); isC && !b {
									continue
								}
								some = true
								okEdge := an.IsExtractOf(ev, lk, 1)
								pred := phi.Block().Preds[i]
								for _, e2 := range an.GuardingEdges(pred.Instrs[len(pred.Instrs)-1]) {
									c2, b2 := e2.If.Cond, e2.Branch
									for {
										if u, isNot := c2.(*ssa.UnOp); isNot && u.Op == token.NOT {
											c2, b2 = u.X, !b2
											continue
										}
										break
									}
									if an.IsExtractOf(c2, lk, 1) && b2 {
										okEdge = true
									}
								}
								if !okEdge {
									all = false
								}
							}
							if some && all {
								guarded = true
							}
						}
					}
					if !guarded {
						good = false
					}
				}
			}
			c.Check(good, rule, fmt.Sprintf("%s|a unit that is not in the table is an error (lookup %d)", name, n), lk.Pos(), "the conversion lies behind the lookup's ok",
				"a successful conversion is returned without the unit having been found in the table: an unknown unit reads as the zero entry (empty category, factor 0), so two unknown units are \"compatible\" and the result is NaN with a nil error - the conversion error is swallowed")
		})
	}
	if n == 0 {
		c.Unk(rule, name+"|a unit that is not in the table is an error", fn.Pos(), "no lookup in a unit table found")
	}
	// the only way to succeed without consulting the table is the identity: from == to, whatever the amount. An early
	// success under any other condition (`|| v == 0`) answers nil for units that cannot be converted into each other.
	if len(fn.Params) == 3 {
		var lookups []ssa.Instruction
		an.Instrs(fn, func(in ssa.Instruction) {
			if lk, ok := in.(*ssa.Lookup); ok {
				lookups = append(lookups, lk)
			}
		})
		early, okEarly, where := 0, true, fn.Pos()
		for _, r := range an.Returns(fn) {
			if r.Block() == fn.Recover || !provablyNilAt(r.Results[len(r.Results)-1], r) {
				continue
			}
			after := false
			for _, lk := range lookups {
				if an.Reaches(lk, r) {
					after = true
				}
			}
			if after {
				continue
			}
			early++
			identity := false
			for _, e := range an.GuardingEdges(r) {
				bo, isBo := e.If.Cond.(*ssa.BinOp)
				if !isBo {
					continue
				}
				same := (bo.X == ssa.Value(fn.Params[1]) && bo.Y == ssa.Value(fn.Params[2])) || (bo.X == ssa.Value(fn.Params[2]) && bo.Y == ssa.Value(fn.Params[1]))
				if same && ((bo.Op == token.EQL && e.Branch) || (bo.Op == token.NEQ && !e.Branch)) {
					identity = true
				}
			}
			if !identity {
				okEarly, where = false, r.Pos()
			}
		}
		c.Check(okEarly, rule, name+"|success without the table only for identical units", where, fmt.Sprintf("%d early successes, each behind from == to", early),
			"Convert returns success without having looked the units up on a path that is not guarded by from == to: for that input units of different categories (or unknown ones) convert without an error")
	}
}

// r2015: a publication that gets new content starts unacknowledged. Whether the receipt is reset is decided by the
// write's own arguments (resetReceipt, and the audience being there at all) and by nothing else - in particular not by
// comparing versions inside the interceptor, where the new version has not been minted yet.
func r2015(c *an.Ctx) {
	const rule = "R20.15"
	fn := mustFunc(c, rule, "pkg/trait/publicationpb", "Model", "withComputedProperties")
	if fn == nil {
		return
	}
	name := an.FuncName(fn)
	c.SawFunc(name)
	n := 0
	for _, ic := range interceptorBodies(fn, "InterceptAfter") {
		// the reset as a helper of the package (`clearReceipt(newVal.Audience)`): judged at its call site, the helper
		// itself may only add a nil test of what it was given
		an.Instrs(ic.fn, func(in ssa.Instruction) {
			hc, ok := in.(*ssa.Call)
			if !ok {
				return
			}
			g := hc.Call.StaticCallee()
			if g == nil || g.Pkg != ic.fn.Pkg || len(g.Blocks) == 0 {
				return
			}
			resets, plain := false, true
			an.Instrs(g, func(in2 ssa.Instruction) {
				st, isSt := in2.(*ssa.Store)
				if !isSt {
					return
				}
				if _, _, fld, isF := an.FieldOf(st.Addr); !isF || fld != "Receipt" {
					return
				}
				resets = true
				for _, e := range an.GuardingEdges(st) {
					x, _, isNil := an.NilTest(e.If.Cond)
					if _, isP := x.(*ssa.Parameter); !isNil || !isP {
						plain = false
					}
				}
			})
			if !resets {
				return
			}
			n++
			extra := ""
			if !plain {
				extra = c.Prog.Rel(g.Pos())
			}
			flag := false
			for _, e := range an.GuardingEdges(hc) {
				cond := e.If.Cond
				for {
					if u, isNot := cond.(*ssa.UnOp); isNot && u.Op == token.NOT {
						cond = u.X
						continue
					}
					break
				}
				if _, _, f, isF := an.FieldOf(cond); isF && f == "resetReceipt" {
					flag = true
					continue
				}
				if x, _, isNil := an.NilTest(e.If.Cond); isNil {
					if _, _, f, isF := an.FieldOf(x); isF && f == "Audience" {
						continue
					}
				}
				extra = c.Prog.Rel(e.If.Pos())
			}
			c.Check(flag && extra == "", rule, name+"|the receipt is reset whenever the write asks for it", hc.Pos(), "guarded by resetReceipt only",
				"the reset of the receipt depends on a further condition (at "+extra+"), e.g. a comparison of the old and new version made before the new version is minted: an update that leaves the version field alone (a masked update of the body, a read-modify-write) keeps the old receipt, so the new version is stored already ACCEPTED and acknowledging it is refused")
		})
		an.Instrs(ic.fn, func(in ssa.Instruction) {
			st, ok := in.(*ssa.Store)
			if !ok {
				return
			}
			if _, _, fld, isF := an.FieldOf(st.Addr); !isF || fld != "Receipt" {
				return
			}
			n++
			extra := ""
			flag := false
			for _, e := range an.GuardingEdges(st) {
				cond := e.If.Cond
				for {
					if u, isNot := cond.(*ssa.UnOp); isNot && u.Op == token.NOT {
						cond = u.X
						continue
					}
					break
				}
				if _, _, f, isF := an.FieldOf(cond); isF && f == "resetReceipt" {
					flag = true
					continue
				}
				if x, _, isNil := an.NilTest(e.If.Cond); isNil {
					if _, _, f, isF := an.FieldOf(x); isF && f == "Audience" {
						continue
					}
				}
				extra = c.Prog.Rel(e.If.Pos())
			}
			c.Check(flag && extra == "", rule, name+"|the receipt is reset whenever the write asks for it", st.Pos(), "guarded by resetReceipt only",
				"the reset of the receipt depends on a further condition (at "+extra+"), e.g. a comparison of the old and new version made before the new version is minted: an update that leaves the version field alone (a masked update of the body, a read-modify-write) keeps the old receipt, so the new version is stored already ACCEPTED and acknowledging it is refused")
		})
	}
	if n == 0 {
		c.Unk(rule, name+"|the receipt is reset whenever the write asks for it", fn.Pos(), "no reset of the receipt found")
	}
}

// r2017: a fan-speed write that names no preset has not chosen "no preset": proto3 cannot tell an unset name from an
// empty one, and an update without a mask replaces the whole value. DeriveValues therefore takes its by-name branch -
// the one that looks newVal.Preset up among the presets - only for a non-empty name (an empty one matches nothing and
// the branch returns with index and percentage untouched: preset "", index 1, 0%), lets the index or the percentage
// decide otherwise, and keeps the old name when neither of those changed.
func r2017(c *an.Ctx, rule string) {
	top := mustFunc(c, rule, "pkg/trait/fanspeedpb", "Model", "DeriveValues")
	if top == nil {
		return
	}
	name := "(*pkg/trait/fanspeedpb.Model).DeriveValues"
	isField := func(v ssa.Value, f string) bool {
		for _, s0 := range an.ValuesAt(v) {
			if _, _, fld, ok := an.FieldOf(s0); ok && fld == f {
				return true
			}
		}
		return false
	}
	// the by-name look-up: a comparison `preset.Name == newVal.Preset`, a search helper given a predicate that makes it
	// (slices.IndexFunc(m.presets, func(p Preset) bool { return p.Name == newVal.Preset })), or an index keyed by name
	isNameCmp := func(in ssa.Instruction) bool {
		bo, ok := in.(*ssa.BinOp)
		if !ok || bo.Op != token.EQL {
			return false
		}
		return (isField(bo.X, "Name") && isField(bo.Y, "Preset")) || (isField(bo.Y, "Name") && isField(bo.X, "Preset"))
	}
	var lookups []ssa.Instruction
	for _, f := range append([]*ssa.Function{top}, an.TransparentCalleesOf(top, 2)...) {
		an.Instrs(f, func(in ssa.Instruction) {
			switch x := in.(type) {
			case *ssa.BinOp:
				if isNameCmp(x) {
					lookups = append(lookups, x)
				}
			case *ssa.Lookup:
				if _, isMap := x.X.Type().Underlying().(*types.Map); isMap && isField(x.Index, "Preset") {
					lookups = append(lookups, x)
				}
			case *ssa.Call:
				for _, a := range x.Call.Args {
					if g := an.ClosureFn(a); g != nil {
						has := false
						an.Instrs(g, func(y ssa.Instruction) {
							if isNameCmp(y) {
								has = true
							}
						})
						if has {
							lookups = append(lookups, x)
						}
					}
				}
			}
		})
	}
	nonEmpty := func(e an.CondEdge) bool {
		bo, ok := e.If.Cond.(*ssa.BinOp)
		if !ok || (bo.Op != token.NEQ && bo.Op != token.EQL) {
			return false
		}
		for _, pair := range [][2]ssa.Value{{bo.X, bo.Y}, {bo.Y, bo.X}} {
			k, isC := pair[1].(*ssa.Const)
			if !isC || k.Value == nil || k.Value.Kind() != constant.String || constant.StringVal(k.Value) != "" {
				continue
			}
			if isField(pair[0], "Preset") {
				return e.Branch == (bo.Op == token.NEQ)
			}
		}
		return false
	}
	// the calls of DeriveValues (and of the helpers it calls) that lead into each helper
	topSite := map[*ssa.Function][]ssa.Instruction{}
	var walk func(f *ssa.Function, via []ssa.Instruction, depth int)
	walk = func(f *ssa.Function, via []ssa.Instruction, depth int) {
		if depth > 2 {
			return
		}
		an.Instrs(f, func(in ssa.Instruction) {
			if cl, isCall := in.(*ssa.Call); isCall {
				if h := an.TransparentCallee(cl); h != nil && h != f {
					chain := append(append([]ssa.Instruction(nil), via...), in)
					topSite[h] = append(topSite[h], chain...)
					walk(h, chain, depth+1)
				}
			}
		})
	}
	walk(top, nil, 0)
	ok := true
	for _, lk := range lookups {
		if lk.Parent().Parent() != nil {
			continue // inside a predicate literal: the call that is given the literal is the look-up
		}
		g := false
		// where the look-up happens, or at the call in DeriveValues that leads to the helper it sits in
		sites := []ssa.Instruction{lk}
		if s, ok := topSite[lk.Parent()]; ok {
			sites = append(sites, s...)
		}
		for _, at := range sites {
			for _, e := range guardsThroughAnd(at) {
				if nonEmpty(e) {
					g = true
				}
			}
		}
		if !g {
			ok = false
		}
	}
	c.Check(ok, rule, name+"|the by-name branch needs a name", lookups[0].Pos(), "the look-up by name is only reached for a non-empty preset name",
		"the branch that looks the new preset name up is also taken when the write names no preset: an update without a mask that sets only preset_index (or percentage) leaves preset \"\" next to index 1 and 0% - preset, index and percentage disagree")
}

// guardsThroughAnd lists the conditional edges that guard an instruction, looking through a materialised `A && B`
// (a phi that is false on every edge but the one from the block that evaluated B: the true edge of a test of that phi
// implies B, and everything that guards that block - A among it).
func guardsThroughAnd(in ssa.Instruction) []an.CondEdge {
	var out []an.CondEdge
	seen := map[*ssa.If]bool{}
	var add func(es []an.CondEdge, depth int)
	add = func(es []an.CondEdge, depth int) {
		for _, e := range es {
			if seen[e.If] || depth > 4 {
				continue
			}
			seen[e.If] = true
			out = append(out, e)
			phi, isPhi := e.If.Cond.(*ssa.Phi)
			if !isPhi || !e.Branch {
				continue
			}
			var from *ssa.BasicBlock
			n := 0
			for i, v := range phi.Edges {
				if b, isC := an.ConstBool(v); isC && !b {
					continue
				}
				n++
				from = phi.Block().Preds[i]
			}
			if n == 1 && from != nil && len(from.Instrs) > 0 {
				add(an.GuardingEdges(from.Instrs[len(from.Instrs)-1]), depth+1)
			}
		}
	}
	add(an.GuardingEdges(in), 0)
	return out
}

// r2018: one source of time per model. A trait package whose model takes its times from the resource's clock
// (value.Clock().Now(), collection.Clock().Now()) or from a clock of its own takes ALL of them from there: no
// time.Now() / timestamppb.Now() next to it. A model built with a test or simulation clock otherwise mixes two time
// lines - a meter whose start time lies after its end time, a publication stamped with wall time.
func r2018(c *an.Ctx, rule string) {
	type pkgInfo struct {
		usesClock bool
		wall      []ssa.Instruction
		fns       map[string]bool
	}
	pkgs := map[string]*pkgInfo{}
	for _, fn := range c.Prog.FuncsIn("pkg/trait") {
		if c.Prog.IsGenerated(fn.Pos()) || fn.Package() == nil {
			continue
		}
		pk := an.ModRel(fn.Package().Pkg.Path())
		pi := pkgs[pk]
		if pi == nil {
			pi = &pkgInfo{fns: map[string]bool{}}
			pkgs[pk] = pi
		}
		an.Instrs(fn, func(in ssa.Instruction) {
			call, ok := in.(ssa.CallInstruction)
			if !ok {
				return
			}
			n := an.CalleeName(call)
			switch {
			case strings.HasSuffix(n, "/pkg/resource.Value).Clock") || strings.HasSuffix(n, "/pkg/resource.Collection).Clock"):
				pi.usesClock = true
			case call.Common().IsInvoke() && call.Common().Method.Name() == "Now" && strings.HasSuffix(an.NamedTypeName(call.Common().Value.Type()), "Clock"):
				pi.usesClock = true
			case n == "time.Now" || n == "google.golang.org/protobuf/types/known/timestamppb.Now":
				pi.wall = append(pi.wall, in)
				pi.fns[an.FuncName(fn)] = true
			}
		})
	}
	n := 0
	for _, pk := range an.SortedKeys(pkgs) {
		pi := pkgs[pk]
		if !pi.usesClock {
			continue
		}
		n++
		if len(pi.wall) == 0 {
			c.Ok(rule, pk+"|every time comes from the model's clock", 0, "")
			continue
		}
		c.Bad(rule, pk+"|every time comes from the model's clock", pi.wall[0].Pos(), "the package takes times from the resource's / model's clock and, in "+strings.Join(an.SortedKeys(pi.fns), ", ")+", from the wall clock as well: a model built with a configured clock stamps some of its times with time.Now(), so values that should agree (a meter's start and end time, an initial value and the first reading) come from two time lines")
	}
	c.Count("packages_with_a_model_clock", n)
}

// rDefaultsFirst: options are last-wins, so a constructor that applies its package's default option list and the
// caller's options applies the defaults FIRST. `args.apply(opts...); args.apply(DefaultModelOptions...)` overrides
// what the caller configured (its clock, its initial value, its presets) with the defaults. For every variadic
// function of the trait packages that hands both a package-level option list and its own variadic parameter to
// the same function, the call with the defaults dominates the call with the caller's options.
func rDefaultsFirst(c *an.Ctx, rule, prefix string) {
	n := 0
	for _, fn := range c.Prog.FuncsIn(prefix) {
		if c.Prog.IsGenerated(fn.Pos()) || fn.Parent() != nil || !fn.Signature.Variadic() || len(fn.Params) == 0 {
			continue
		}
		vp := fn.Params[len(fn.Params)-1]
		type site struct {
			call     *ssa.Call
			defaults bool
		}
		byCallee := map[string][]site{}
		an.Instrs(fn, func(in ssa.Instruction) {
			call, ok := in.(*ssa.Call)
			if !ok || len(call.Call.Args) == 0 || call.Call.StaticCallee() == nil || !call.Call.StaticCallee().Signature.Variadic() {
				return
			}
			last := call.Call.Args[len(call.Call.Args)-1]
			fromCaller, fromGlobal := false, false
			for _, v := range localValues(last, 0) {
				if v == ssa.Value(vp) {
					fromCaller = true
				}
				if u, isU := v.(*ssa.UnOp); isU && u.Op == token.MUL {
					if _, isG := u.X.(*ssa.Global); isG {
						fromGlobal = true
					}
				}
			}
			if fromCaller == fromGlobal {
				return
			}
			k := an.CalleeName(call)
			byCallee[k] = append(byCallee[k], site{call, fromGlobal})
		})
		for _, k := range an.SortedKeys(byCallee) {
			var defs, callers []*ssa.Call
			for _, s := range byCallee[k] {
				if s.defaults {
					defs = append(defs, s.call)
				} else {
					callers = append(callers, s.call)
				}
			}
			if len(defs) == 0 || len(callers) == 0 {
				continue
			}
			n++
			c.SawFunc(an.FuncName(fn))
			ok := true
			for _, d := range defs {
				for _, cl := range callers {
					if !an.Dominates(d, cl) {
						ok = false
					}
				}
			}
			c.Check(ok, rule, an.FuncName(fn)+"|defaults are applied before the caller's options", callers[0].Pos(), "the call with the package defaults dominates the call with the caller's options",
				"the caller's options are applied before the package defaults: options are last-wins, so every default (clock, initial value, presets) overrides what the caller configured")
		}
	}
	c.Count("constructors_with_defaults", n)
}

// r2020: a relative mode step wraps around the table for EVERY int32 step. The new index is (i + step) mod n computed
// in int32: with the step taken as it comes from the request, i + step overflows for steps near the int32 limits and
// the remainder of the wrapped sum is a different index ((2 + MaxInt32) mod 3 gives 2, not 0). The raw step - an
// int32 read from the request's map of relative steps, followed into the helpers it is handed to - is never an
// operand of a 32-bit addition or subtraction: it is reduced modulo the table length first (or widened).
func r2020(c *an.Ctx, rule string) {
	var fns []*ssa.Function
	for _, fn := range c.Prog.FuncsIn("pkg/trait/modepb") {
		if !c.Prog.IsGenerated(fn.Pos()) && !strings.HasSuffix(c.Prog.RelFile(fn.Pos()), "_test.go") {
			fns = append(fns, fn)
		}
	}
	raw := map[ssa.Value]bool{}
	for _, fn := range fns {
		an.Instrs(fn, func(in ssa.Instruction) {
			ex, ok := in.(*ssa.Extract)
			if !ok || ex.Index != 2 {
				return
			}
			nx, ok := ex.Tuple.(*ssa.Next)
			if !ok {
				return
			}
			rg, ok := nx.Iter.(*ssa.Range)
			if !ok {
				return
			}
			if mt, isMap := rg.X.Type().Underlying().(*types.Map); isMap {
				if b, isB := mt.Elem().Underlying().(*types.Basic); isB && b.Kind() == types.Int32 {
					raw[ex] = true
				}
			}
		})
	}
	strip := func(v ssa.Value) ssa.Value {
		for {
			if cv, isC := v.(*ssa.Convert); isC {
				if b, isB := cv.Type().Underlying().(*types.Basic); isB && (b.Kind() == types.Int64 || b.Kind() == types.Float64) {
					return nil // widened: no 32-bit overflow from here on
				}
				v = cv.X
				continue
			}
			if ct, isC := v.(*ssa.ChangeType); isC {
				v = ct.X
				continue
			}
			return v
		}
	}
	// hand-offs to helpers of the package
	for changed := true; changed; {
		changed = false
		for _, fn := range fns {
			an.Instrs(fn, func(in ssa.Instruction) {
				call, ok := in.(ssa.CallInstruction)
				if !ok {
					return
				}
				callee := call.Common().StaticCallee()
				if callee == nil || callee.Pkg != fn.Pkg || len(callee.Params) != len(call.Common().Args) {
					return
				}
				for i, a := range call.Common().Args {
					if sv := strip(a); sv != nil && raw[sv] && !raw[callee.Params[i]] {
						raw[callee.Params[i]] = true
						changed = true
					}
				}
			})
		}
	}
	if len(raw) == 0 {
		c.Unk(rule, "pkg/trait/modepb|relative steps", 0, "no int32 read from a map of relative steps found in the mode package")
		return
	}
	bad, uses := ssa.Instruction(nil), 0
	for _, fn := range fns {
		an.Instrs(fn, func(in ssa.Instruction) {
			bo, ok := in.(*ssa.BinOp)
			if !ok {
				return
			}
			x, y := strip(bo.X), strip(bo.Y)
			if !(x != nil && raw[x]) && !(y != nil && raw[y]) {
				return
			}
			uses++
			if bo.Op != token.ADD && bo.Op != token.SUB {
				return
			}
			if b, isB := bo.Type().Underlying().(*types.Basic); isB && (b.Kind() == types.Int32 || b.Kind() == types.Int16 || b.Kind() == types.Int8) {
				bad = bo
			}
		})
	}
	pos := token.NoPos
	if bad != nil {
		pos = bad.Pos()
	}
	c.Check(bad == nil && uses > 0, rule, "pkg/trait/modepb|a relative step is reduced before it is added", pos, fmt.Sprintf("%d arithmetic uses of the raw step, none a 32-bit addition", uses),
		"the step is added to the index as it comes from the request and only the sum is reduced: for steps near the int32 limits the addition overflows and the wrapped index is wrong")
}

// r2021: a refused dispense leaves the stock as it was. The interceptor has let updateStock write into `new` before
// the conversion of the second quantity failed; putting things back is proto.Reset(new) followed by
// proto.Merge(new, old). Merge alone only ADDS: a field the partial update has set stays set wherever old has the
// zero value (used.amount 0), so the refused dispense is half applied. Every proto.Merge(new, old) of an
// interceptor's own arguments in the vending package is dominated by a proto.Reset of the same `new`.
func r2021(c *an.Ctx, rule string) {
	n := 0
	for _, fn := range c.Prog.FuncsIn("pkg/trait/vendingpb") {
		if c.Prog.IsGenerated(fn.Pos()) || fn.Parent() != nil {
			continue
		}
		for _, kind := range []string{"InterceptBefore", "InterceptAfter"} {
			for _, ic := range interceptorBodies(fn, kind) {
				for _, f := range an.WithClosures(ic.fn) {
					an.Instrs(f, func(in ssa.Instruction) {
						call, ok := in.(*ssa.Call)
						if !ok {
							return
						}
						isParam := func(v ssa.Value, p *ssa.Parameter) bool {
							for _, s := range an.Sources(v) {
								if s == ssa.Value(p) {
									return true
								}
							}
							return false
						}
						if !strings.HasSuffix(an.CalleeName(call), "protobuf/proto.Merge") {
							// the restore as a helper of its own: judged by the helper's body
							d, s0, resetFirst, isHelper := mergeOfParams(call.Call.StaticCallee())
							if isHelper && d < len(call.Call.Args) && s0 < len(call.Call.Args) && isParam(call.Call.Args[d], ic.new) && isParam(call.Call.Args[s0], ic.old) {
								n++
								c.SawFunc(an.FuncName(ic.fn))
								c.Check(resetFirst, rule, fmt.Sprintf("%s|restoring the old value starts from an empty message", an.FuncName(ic.fn)), call.Pos(), "proto.Reset(new) dominates proto.Merge(new, old) in the helper",
									"the old value is merged back into a `new` that still holds what the failed update wrote: proto.Merge leaves those fields alone wherever the old value is zero, so a refused dispense is stored half applied")
							}
							return
						}
						if len(call.Call.Args) != 2 || !isParam(call.Call.Args[0], ic.new) || !isParam(call.Call.Args[1], ic.old) {
							return
						}
						n++
						reset := false
						an.Instrs(f, func(x ssa.Instruction) {
							rc, isCall := x.(*ssa.Call)
							if isCall && strings.HasSuffix(an.CalleeName(rc), "protobuf/proto.Reset") && len(rc.Call.Args) == 1 && isParam(rc.Call.Args[0], ic.new) && an.Dominates(rc, call) {
								reset = true
							}
						})
						c.SawFunc(an.FuncName(ic.fn))
						c.Check(reset, rule, fmt.Sprintf("%s|restoring the old value starts from an empty message", an.FuncName(ic.fn)), call.Pos(), "proto.Reset(new) dominates proto.Merge(new, old)",
							"the old value is merged back into a `new` that still holds what the failed update wrote: proto.Merge leaves those fields alone wherever the old value is zero, so a refused dispense is stored half applied")
					})
				}
			}
		}
	}
	if n == 0 {
		c.Unk(rule, "pkg/trait/vendingpb|restore on refusal", 0, "no proto.Merge(new, old) found in an interceptor of the vending package")
	}
}

// r2022: AddChild adds a child that is not there yet and leaves an existing one as it is - its trait list is the
// accumulated union/difference of AddChildTrait / RemoveChildTrait, which an overwriting write would throw away.
// The model's write in AddChild is Collection.Add (expect-absent), or an Update that carries WithExpectAbsent.
func r2022(c *an.Ctx, rule string) {
	fn := mustFunc(c, rule, "pkg/trait/parentpb", "Model", "AddChild")
	if fn == nil {
		return
	}
	name := an.FuncName(fn)
	c.SawFunc(name)
	n, ok := 0, true
	for _, f := range append([]*ssa.Function{fn}, an.TransparentCalleesOf(fn, 1)...) {
		an.Instrs(f, func(in ssa.Instruction) {
			call, isCall := in.(*ssa.Call)
			if !isCall {
				return
			}
			cn := an.CalleeName(call)
			switch {
			case strings.HasSuffix(cn, "pkg/resource.Collection).Add"):
				n++
			case strings.HasSuffix(cn, "pkg/resource.Collection).Update"):
				n++
				expectAbsent := false
				for _, e := range variadicElems(call.Call.Args[len(call.Call.Args)-1]) {
					for _, s := range an.Sources(e) {
						if oc, isC := s.(*ssa.Call); isC && strings.HasSuffix(an.CalleeName(oc), "pkg/resource.WithExpectAbsent") {
							expectAbsent = true
						}
					}
				}
				if !expectAbsent {
					ok = false
				}
			}
		})
	}
	c.Check(ok && n > 0, rule, name+"|an existing child is left as it is", fn.Pos(), "written with Collection.Add / WithExpectAbsent",
		"AddChild writes the child with an Update that does not expect it to be absent: an existing child is overwritten and the traits accumulated by AddChildTrait/RemoveChildTrait are lost")
}

// r2023: options that collect resource options for one of a model's resources ADD to what was collected. A model is
// configured with several of them (WithInitialStock twice: "can be used multiple times with stock being additive");
// an option that assigns instead of appending keeps only the last one, so configured stock/items silently vanish.
// Every With… option of a trait package that stores its variadic resource options into a slice of the model's
// arguments stores a value built from the slice's current content and its own argument.
// r2025: a total the caller supplies is compared with the total as it is stored. In the enter/leave model a supplied
// total that equals the current one means "count this event", a different one replaces it; the comparison is made
// against the stored value itself. Compared after the increment, an event that echoes the current total is taken for
// a replacement and is not counted.
func r2025(c *an.Ctx, rule string) {
	fn := mustFunc(c, rule, "pkg/trait/enterleavesensorpb", "Model", "CreateEnterLeaveEvent")
	if fn == nil {
		return
	}
	n, ok := 0, true
	var pos token.Pos
	// (the helper that adjusts a total may be a closure of the method or a function of the package)
	for _, f := range c.Prog.FuncsIn("pkg/trait/enterleavesensorpb") {
		if len(f.Params) < 2 || c.Prog.IsGenerated(f.Pos()) || strings.HasSuffix(c.Prog.RelFile(f.Pos()), "_test.go") {
			continue
		}
		an.Instrs(f, func(in ssa.Instruction) {
			bo, isB := in.(*ssa.BinOp)
			if !isB || (bo.Op != token.NEQ && bo.Op != token.EQL) {
				return
			}
			// one side is the supplied total (*val, val a parameter), the other an integer
			fromParamLoad := func(v ssa.Value) bool {
				u, isU := v.(*ssa.UnOp)
				if !isU || u.Op != token.MUL {
					return false
				}
				_, isP := u.X.(*ssa.Parameter)
				return isP
			}
			var other ssa.Value
			switch {
			case fromParamLoad(bo.X):
				other = bo.Y
			case fromParamLoad(bo.Y):
				other = bo.X
			default:
				return
			}
			if b, isBasic := other.Type().Underlying().(*types.Basic); !isBasic || b.Info()&types.IsInteger == 0 {
				return
			}
			n++
			// what the compared value is at this point: for a variable, the assignments that reach the comparison
			isStep := func(v ssa.Value) bool {
				if cv, isCv := v.(*ssa.Convert); isCv {
					v = cv.X
				}
				ar, isAr := v.(*ssa.BinOp)
				return isAr && (ar.Op == token.ADD || ar.Op == token.SUB)
			}
			vals := []ssa.Value{other}
			if ld, isLd := other.(*ssa.UnOp); isLd && ld.Op == token.MUL {
				if _, isAl := ld.X.(*ssa.Alloc); isAl {
					vals = nil
					stores, _ := an.ReachingStores(ld)
					for _, st := range stores {
						vals = append(vals, st.Val)
					}
				}
			}
			for _, v := range vals {
				if isStep(v) {
					ok = false
					pos = bo.Pos()
				}
				if phi, isPhi := v.(*ssa.Phi); isPhi {
					for _, e := range phi.Edges {
						if isStep(e) {
							ok = false
							pos = bo.Pos()
						}
					}
				}
			}
		})
	}
	if pos == token.NoPos {
		pos = fn.Pos()
	}
	c.SawFunc(an.FuncName(fn))
	c.Check(ok && n > 0, rule, an.FuncName(fn)+"|a supplied total is compared with the stored total", pos, fmt.Sprintf("%d comparison(s) against the stored value", n),
		"the supplied total is compared with the total after it was incremented: an event that carries the current total is read as a replacement and is not counted, so the totals fall behind the events")
}

// r2026: the version of a publication covers its content. mintVersion feeds the id, the body, the media type and the
// audience into one hash and prints its sum; a hash's Sum does not absorb its argument into the state, so a Sum
// whose result is thrown away has fed nothing (hash.Sum(p.Body) for hash.Write(p.Body): a new body keeps the old
// version and a stale acknowledgement is accepted). Every content field reaches a write of the hash.
func r2026(c *an.Ctx, rule string) {
	fn := mustFunc(c, rule, "pkg/trait/publicationpb", "", "mintVersion")
	if fn == nil {
		return
	}
	name := an.FuncName(fn)
	c.SawFunc(name)
	fed := map[string]bool{}
	var discarded ssa.Instruction
	an.Instrs(fn, func(in ssa.Instruction) {
		call, ok := in.(*ssa.Call)
		if !ok {
			return
		}
		cn := an.CalleeName(call)
		method := ""
		if call.Call.IsInvoke() {
			method = call.Call.Method.Name()
		}
		switch {
		case method == "Sum" || strings.HasSuffix(cn, ").Sum"):
			if refs := call.Referrers(); refs == nil || len(*refs) == 0 {
				discarded = in
			}
		case method == "Write" || strings.HasSuffix(cn, ").Write") || cn == "io.WriteString" || strings.HasSuffix(cn, "fmt.Fprint") || strings.HasSuffix(cn, "fmt.Fprintf"):
			for _, a := range call.Call.Args {
				for _, s0 := range append(an.Sources(a), an.SourcesOpaque(a)...) {
					switch x := s0.(type) {
					case *ssa.UnOp:
						if _, _, f, isF := an.FieldOf(x.X); isF {
							fed[f] = true
						}
					case *ssa.Call:
						if strings.HasSuffix(an.CalleeName(x), ".GetName") || strings.HasSuffix(an.CalleeName(x), ".GetAudience") {
							fed["Audience"] = true
						}
						for _, g := range []string{"Id", "Body", "MediaType"} {
							if strings.HasSuffix(an.CalleeName(x), ".Get"+g) {
								fed[g] = true
							}
						}
					}
				}
			}
		}
	})
	var missing []string
	for _, f := range []string{"Id", "Body", "MediaType", "Audience"} {
		if !fed[f] {
			missing = append(missing, f)
		}
	}
	pos := fn.Pos()
	if discarded != nil {
		pos = discarded.Pos()
	}
	c.Check(discarded == nil && len(missing) == 0, rule, name+"|the version covers id, body, media type and audience", pos, "each content field is written into the hash",
		fmt.Sprintf("a content field does not reach the hash (not written: %v; a Sum whose result is discarded feeds nothing): publications that differ in it share a version, so a stale acknowledgement or expected-version write is accepted", missing))
}

// r2024: a model works with the configuration it was given. The package-level Default… variables of the trait
// packages (default presets, default modes, default options) are what a model starts from when nothing else is
// configured; they are read while a model is built, not by the model's methods, which consult the copy the model
// holds. A method reading the default instead validates against, or derives from, a list the model was not
// configured with (a fan with its own presets rejects them and accepts names it cannot derive).
func r2024(c *an.Ctx, rule string) {
	n := 0
	for _, fn := range c.Prog.FuncsIn("pkg/trait") {
		if c.Prog.IsGenerated(fn.Pos()) || strings.HasSuffix(c.Prog.RelFile(fn.Pos()), "_test.go") {
			continue
		}
		top := fn
		for top.Parent() != nil {
			top = top.Parent()
		}
		if top.Signature.Recv() == nil || !strings.HasSuffix(an.NamedTypeName(top.Signature.Recv().Type()), ".Model") {
			continue
		}
		n++
		var bad ssa.Instruction
		which := ""
		an.Instrs(fn, func(in ssa.Instruction) {
			for _, op := range in.Operands(nil) {
				if g, ok := (*op).(*ssa.Global); ok && strings.HasPrefix(g.Name(), "Default") && g.Pkg == fn.Pkg {
					bad, which = in, g.Name()
				}
			}
		})
		if bad != nil {
			c.SawFunc(an.FuncName(top))
			c.Bad(rule, an.FuncName(top)+"|uses the model's configuration, not the package default", bad.Pos(),
				"the method reads the package default "+which+": a model configured otherwise (its own presets, modes) is validated and derived against a list it does not have, so accepted values cannot be derived and its own values are refused")
		}
	}
	c.Count("model_methods", n)
	if n > 0 {
		c.Ok(rule, "pkg/trait|model methods read no package default", token.NoPos, fmt.Sprintf("%d methods of trait models", n))
	}
}

func r2023(c *an.Ctx, rule string) {
	n := 0
	for _, fn := range c.Prog.FuncsIn("pkg/trait") {
		if fn.Parent() != nil || !strings.HasSuffix(c.Prog.RelFile(fn.Pos()), "/model_opts.go") || !strings.HasPrefix(fn.Name(), "With") || !fn.Signature.Variadic() || len(fn.Params) == 0 {
			continue
		}
		prm := fn.Params[len(fn.Params)-1]
		for _, cl := range fn.AnonFuncs {
			an.Instrs(cl, func(in ssa.Instruction) {
				st, ok := in.(*ssa.Store)
				if !ok {
					return
				}
				_, _, fld, isF := an.FieldOf(st.Addr)
				if !isF {
					return
				}
				if sl, isSl := st.Val.Type().Underlying().(*types.Slice); !isSl || !types.Identical(st.Val.Type(), prm.Type()) || !strings.HasSuffix(an.NamedTypeName(sl.Elem()), "pkg/resource.Option") {
					return // (lists of presets, modes, … are configuration values that a later option replaces by design)
				}
				n++
				c.SawFunc(an.FuncName(fn))
				fromField, fromParam := false, false
				srcs := an.Sources(st.Val)
				for _, s0 := range append([]ssa.Value(nil), srcs...) {
					if call, isCall := s0.(*ssa.Call); isCall {
						for _, a := range call.Call.Args {
							srcs = append(srcs, an.Sources(a)...)
						}
					}
				}
				for _, s0 := range srcs {
					if s0 == ssa.Value(prm) {
						fromParam = true
					}
					if fv, isFV := s0.(*ssa.FreeVar); isFV && fv.Name() == prm.Name() {
						fromParam = true
					}
					if u, isU := s0.(*ssa.UnOp); isU {
						if _, _, f2, ok2 := an.FieldOf(u.X); ok2 && f2 == fld {
							fromField = true
						}
						if fv, isFV := u.X.(*ssa.FreeVar); isFV && fv.Name() == prm.Name() {
							fromParam = true
						}
					}
				}
				c.Check(fromField && fromParam, rule, an.FuncName(fn)+"|adds to the options collected so far", st.Pos(), "stored value = append(current "+fld+", argument…)",
					"the option replaces the resource options collected so far instead of adding to them: of several such options only the last one counts (initial records given in two options: the first set is gone)")
			})
		}
	}
	c.Count("collecting_model_options", n)
}
