package props

import (
	"fmt"
	"go/token"
	"go/types"
	"sort"
	"strings"

	"golang.org/x/tools/go/ssa"

	"scverif/an"
)

func init() {
	register(&Prop{
		ID:          "C01",
		Title:       "Value/Collection conform to a sequential register/map specification",
		Explanation: "R01.1 failed calls have no effect: save is reachable only after a successful read and change; Validate errors return before GetAndUpdate; publishing is guarded by GetAndUpdate's nil error; in Delete the map delete and the REMOVE event are guarded by exists and by both preconditions; no possibly-non-nil error is returned after an effect (one allow-listed exception: the documented send timeout of Value.set). R01.2 the change function runs expected-value, expected-check, interceptBefore, masked merge, interceptAfter in this order, merges into dst (or a fresh message) and returns it. R01.3 the complete decision table of Collection.Update's read callback (generated id, exists, expect-absent, create-if-absent, callbacks) matches the specified outcomes. R01.4 List results pass through an ascending sort on the item id. R01.5 GenerateUniqueId only returns a candidate that passed the non-empty and not-exists tests on that path, in a constant-bounded loop ending in an error. R01.6 status codes of each failure class. R01.7 the id interceptor is applied in Get/Update/Delete/PullID and a generated id is mapped through it before it is used as key and reported. R01.19 every yes/no switch of a write request is turned on by exactly one option (generate-id does not imply create-if-absent). R01.20 the change time the register remembers is the time of the write (shared with R04.3). R01.21 a Collection method that hands its id to another id-taking method passes it unmapped (the interceptor is applied once). Does NOT decide equality of results and contents with a reference model over call sequences, merge semantics (C05) or interceptor behaviour.",
		Assumptions: []string{"sort.Slice sorts by the given less function", "status.Error(f) builds a status with the given code"},
		Run:         runC01,
		Controls: []Control{
			{Name: "add-maps-the-id-before-handing-it-on", File: "pkg/resource/collection.go", Old: "func (c *Collection) Add(id string, body proto.Message, opts ...WriteOption) (proto.Message, error) {\n", New: "func (c *Collection) Add(id string, body proto.Message, opts ...WriteOption) (proto.Message, error) {\n\tif c.idInterceptor != nil {\n\t\tid = c.idInterceptor(id)\n\t}\n", Expect: "R01.21"},
			{Name: "gen-id-implies-create", File: "pkg/resource/opt.go", Old: "\t\twr.genEmptyID = true\n", New: "\t\twr.genEmptyID = true\n\t\twr.createIfAbsent = true\n", Expect: "R01.19"},
			{Name: "value-remembers-the-clock-not-the-write-time", File: "pkg/resource/value.go", Old: "r.changeTime = changeTime", New: "r.changeTime = r.clock.Now()", Expect: "R01.20"},
			{Name: "update-converts-every-error", File: "pkg/resource/collection.go", Old: "\t\tif s, ok := status.FromError(err); ok {\n\t\t\treturn nil, status.Errorf(s.Code(), \"%v %v\", s.Message(), id)\n\t\t}\n\t\treturn nil, err", New: "\t\ts := status.Convert(err)\n\t\treturn nil, status.Errorf(s.Code(), \"%v %v\", s.Message(), id)", Expect: "R01.18"},
			{Name: "more-update-paths-delegates-to-update-mask", File: "pkg/resource/opt.go", Old: "\treturn WithMoreUpdateMask(&fieldmaskpb.FieldMask{Paths: paths})", New: "\treturn WithUpdateMask(&fieldmaskpb.FieldMask{Paths: paths})", Expect: "R01.16"},
			{Name: "collection-save-stores-the-request", File: "pkg/resource/collection.go", Old: "\t\tfunc(msg proto.Message) {\n\t\t\tchangeTime = writeRequest.updateTime(c.clock)", New: "\t\tfunc(saved proto.Message) {\n\t\t\tchangeTime = writeRequest.updateTime(c.clock)", Expect: "R01.17"},
			{Name: "pullid-drops-its-options", File: "pkg/resource/collection.go", Old: "\tchanges := c.Pull(ctx, opts...)\n", New: "\tchanges := c.Pull(ctx)\n", Expect: "R01.13"},
			{Name: "allow-missing-ignores-argument", File: "pkg/resource/opt.go", Old: "\t\trequest.allowMissing = allowMissing\n", New: "\t\trequest.allowMissing = true\n", Expect: "R01.12"},
			{Name: "delete-value-before-check", File: "pkg/resource/collection.go", Old: "\t\tif args.expectedCheck != nil {\n\t\t\tif err := args.expectedCheck(oldVal.body); err != nil {\n\t\t\t\treturn oldVal.body, err\n\t\t\t}\n\t\t}\n\t\tif args.expectedValue != nil && !proto.Equal(oldVal.body, args.expectedValue) {\n\t\t\treturn oldVal.body, ExpectedValuePreconditionFailed\n\t\t}\n", New: "\t\tif args.expectedValue != nil && !proto.Equal(oldVal.body, args.expectedValue) {\n\t\t\treturn oldVal.body, ExpectedValuePreconditionFailed\n\t\t}\n\t\tif args.expectedCheck != nil {\n\t\t\tif err := args.expectedCheck(oldVal.body); err != nil {\n\t\t\t\treturn oldVal.body, err\n\t\t\t}\n\t\t}\n", Expect: "R01.11"},
			{Name: "drop-change-error-test", File: "pkg/resource/atomic.go", Old: "\tif newValue, err = change(oldValue, newValue); err != nil {\n\t\treturn oldValue, newValue, err\n\t}", New: "\tnewValue, err = change(oldValue, newValue)", Expect: "R01.1"},
			{Name: "publish-before-error-check", File: "pkg/resource/value.go", Old: "\tdisarm()\n\n\tif err != nil {\n\t\treturn nil, err\n\t}\n", New: "\tdisarm()\n", Expect: "R01.1"},
			{Name: "delete-ignores-check-error", File: "pkg/resource/collection.go", Old: "\t\t\tif err := args.expectedCheck(oldVal.body); err != nil {\n\t\t\t\treturn oldVal.body, err\n\t\t\t}", New: "\t\t\t_ = args.expectedCheck(oldVal.body)", Expect: "R01.1"},
			{Name: "swap-before-and-merge", File: "pkg/resource/opt.go", Old: "\t\tif wr.interceptBefore != nil {\n\t\t\t// allow callers to update the value based on the old message\n\t\t\twr.interceptBefore(old, value)\n\t\t}\n\n\t\tif dst == nil {\n\t\t\tdst = value.ProtoReflect().New().Interface()\n\t\t}\n\n\t\twriter.Merge(dst, value)\n",
				New: "\t\tif dst == nil {\n\t\t\tdst = value.ProtoReflect().New().Interface()\n\t\t}\n\n\t\twriter.Merge(dst, value)\n\n\t\tif wr.interceptBefore != nil {\n\t\t\twr.interceptBefore(old, value)\n\t\t}\n", Expect: "R01.2"},
			{Name: "return-value-not-dst", File: "pkg/resource/opt.go", Old: "\t\t\twr.interceptAfter(old, dst)\n\t\t}\n\t\treturn dst, nil", New: "\t\t\twr.interceptAfter(old, dst)\n\t\t}\n\t\treturn value, nil", Expect: "R01.2"},
			{Name: "negate-expect-absent", File: "pkg/resource/collection.go", Old: "\t\t\t\tif writeRequest.expectAbsent {\n\t\t\t\t\treturn nil, ExpectAbsentPreconditionFailed", New: "\t\t\t\tif !writeRequest.expectAbsent {\n\t\t\t\t\treturn nil, ExpectAbsentPreconditionFailed", Expect: "R01.3"},
			{Name: "created-callback-twice", File: "pkg/resource/collection.go", Old: "\t\t\t\twriteRequest.createdCallback()\n", New: "\t\t\t\twriteRequest.createdCallback()\n\t\t\t\twriteRequest.createdCallback()\n", Expect: "R01.3"},
			{Name: "list-unsorted", File: "pkg/resource/collection.go", Old: "\ttmp := c.itemSlice(readConfig)\n\tsort.Slice(tmp, func(i, j int) bool {\n\t\treturn tmp[i].id < tmp[j].id\n\t})\n", New: "\ttmp := c.itemSlice(readConfig)\n", Expect: "R01.4"},
			{Name: "list-sorted-descending", File: "pkg/resource/collection.go", Old: "\t\treturn tmp[i].id < tmp[j].id", New: "\t\treturn tmp[i].id > tmp[j].id", Expect: "R01.4"},
			{Name: "genid-accepts-existing", File: "pkg/resource/id.go", Old: "if idCandidate != \"\" && !exists(idCandidate) {", New: "if idCandidate != \"\" && exists(idCandidate) {", Expect: "R01.5"},
			{Name: "notfound-as-internal", File: "pkg/resource/collection.go", Old: "return nil, status.Errorf(codes.NotFound, \"id %v not found\", id)", New: "return nil, status.Errorf(codes.Internal, \"id %v not found\", id)", Expect: "R01.3"},
			{Name: "already-exists-sentinel-code", File: "pkg/resource/opt.go", Old: "status.Error(codes.AlreadyExists, \"value already exists\")", New: "status.Error(codes.FailedPrecondition, \"value already exists\")", Expect: "R01.6"},
			{Name: "genid-probes-raw-candidate", File: "pkg/resource/collection.go", Old: "\t\tif c.idInterceptor != nil {\n\t\t\tcandidate = c.idInterceptor(candidate)\n\t\t}\n\t\t_, exists := c.byId[candidate]", New: "\t\t_, exists := c.byId[candidate]", Expect: "R01.7"},
			{Name: "get-skips-interceptor", File: "pkg/resource/collection.go", Old: "func (c *Collection) Get(id string, opts ...ReadOption) (proto.Message, bool) {\n\tif c.idInterceptor != nil {\n\t\tid = c.idInterceptor(id)\n\t}\n", New: "func (c *Collection) Get(id string, opts ...ReadOption) (proto.Message, bool) {\n", Expect: "R01.7"},
			{Name: "delete-discards-mapped-id", File: "pkg/resource/collection.go", Old: "func (c *Collection) Delete(id string, opts ...WriteOption) (proto.Message, error) {\n\tif c.idInterceptor != nil {\n\t\tid = c.idInterceptor(id)\n\t}", New: "func (c *Collection) Delete(id string, opts ...WriteOption) (proto.Message, error) {\n\tif c.idInterceptor != nil {\n\t\t_ = c.idInterceptor(id)\n\t}", Expect: "R01.7"},
			{Name: "explicit-unlock", Silent: true, File: "pkg/resource/collection.go", Old: "\tc.mu.RLock()\n\tdefer c.mu.RUnlock()\n\n\tentry, ok := c.byId[id]\n\tif !ok {\n\t\treturn nil, false\n\t}\n\n\treturn readConfig.FilterClone(entry.body), true",
				New: "\tc.mu.RLock()\n\tentry, ok := c.byId[id]\n\tif !ok {\n\t\tc.mu.RUnlock()\n\t\treturn nil, false\n\t}\n\tres := readConfig.FilterClone(entry.body)\n\tc.mu.RUnlock()\n\treturn res, true"},
		},
	})
}

func runC01(c *an.Ctx) {
	r011(c)
	r012(c)
	r013(c)
	r014(c, "R01.4")
	r015(c)
	r016(c)
	r017(c)
	r055(c, "R01.8") // masked writes clear every unset masked field (shared with R05.5)
	r054as(c, "R01.9")
	// which fields a write may touch is part of what Set/Update do to the stored value: the request's field updater
	// restricts writes exactly when the resource restricts them (shared with R05.3)
	r053as(c, "R01.10")
	c.Min("R01.10", 3)
	c.Min("R01.8", 2)
	c.Min("R01.1", 10)
	c.Min("R01.2", 8)
	c.Min("R01.3", 8)
	c.Min("R01.4", 1)
	c.Min("R01.5", 3)
	r0111(c)
	r0112(c, "R01.12")
	r0113(c, "R01.13")
	c.Min("R01.13", 40)
	r0114(c, "R01.14")
	r0118(c, "R01.18")
	c.Min("R01.18", 1)
	r0119(c, "R01.19")
	c.Min("R01.19", 3)
	r0121(c, "R01.21")
	c.Min("R01.21", 1)
	// the time the register remembers is the time of the write (the event's and the seed's): shared with R04.3
	c.Min("R01.20", shareAs(c, "R04.3", "R01.20", r043, nil))
	r0116(c, "R01.16")
	c.Min("R01.16", 4)
	r0117as(c, "R01.17")
	c.Min("R01.17", 2)
	r117as(c, "R01.15") // Add/Update never extend the caller's option list in place: a later call with the rest of that list would run with options it was not given (shared with R11.7)
	c.Min("R01.15", 1)
	c.Min("R01.14", 4)
	c.Min("R01.12", 20)
	c.Min("R01.11", 1)
	c.Min("R01.6", 6)
	c.Min("R01.7", 5)
}

// provablyNilAt: the error value v is nil at instruction `at`: constant nil,
// or guarded by a dominating nil test of the same value.
func provablyNilAt(v ssa.Value, at ssa.Instruction) bool {
	vals := an.ValuesAt(v)
	if len(vals) == 0 {
		return false
	}
	for _, x := range vals {
		if an.IsNilConst(x) {
			continue
		}
		ok := false
		for _, e := range an.GuardingEdges(at) {
			t, trueMeansNil, isNil := an.NilTest(e.If.Cond)
			if !isNil || e.Branch != trueMeansNil {
				continue
			}
			for _, y := range an.ValuesAt(t) {
				if y == x {
					ok = true
				}
			}
		}
		if !ok {
			return false
		}
	}
	return true
}

func guardedByNilValue(at ssa.Instruction, val ssa.Value) bool {
	for _, e := range an.GuardingEdges(at) {
		x, trueMeansNil, ok := an.NilTest(e.If.Cond)
		if !ok || e.Branch != trueMeansNil {
			continue
		}
		for _, s := range an.ValuesAt(x) {
			if s == val {
				return true
			}
		}
	}
	return false
}

func r011(c *an.Ctx) {
	const rule = "R01.1"
	// (i) GetAndUpdate: save after successful get and change
	if fn := mustFunc(c, rule, resPkg, "", "GetAndUpdate"); fn != nil {
		q := an.ModulePath + "/pkg/resource."
		get, change, save := paramOfType(fn, q+"GetFn"), paramOfType(fn, q+"ChangeFn"), paramOfType(fn, q+"SaveFn")
		if get == nil || change == nil || save == nil {
			c.Unk(rule, "pkg/resource.GetAndUpdate|signature", fn.Pos(), "parameters not found")
		} else {
			// the steps may sit in helpers GetAndUpdate hands its parameters to; they are followed there (R02.1)
			saves := deepCallsOfParam(fn, save)
			if len(saves) == 0 {
				c.Unk(rule, "pkg/resource.GetAndUpdate|save", fn.Pos(), "no invocation of save found")
			}
			for i, s := range saves {
				okc := false
				for _, ch := range deepCallsOfParam(fn, change) {
					if deepGuardedByNil(s, ch, 1) {
						okc = true
					}
				}
				okg := false
				for _, g := range deepCallsOfParam(fn, get) {
					if deepGuardedByNil(s, g, 1) {
						okg = true
					}
				}
				c.Check(okc && okg, rule, fmt.Sprintf("pkg/resource.GetAndUpdate|save#%d only after successful read and change", i+1), s.call.Pos(),
					"save() guarded by nil errors of get() and change()", fmt.Sprintf("save() is reachable after a failed read (%v) or a failed change (%v): a rejected write changes the contents", !okg, !okc))
			}
			// no error return after save
			for _, s := range saves {
				for lvl := len(s.chain); lvl >= 0; lvl-- {
					at := s.at(lvl)
					for _, r := range an.Returns(at.Parent()) {
						if len(r.Results) == 0 || !an.IsErrorType(r.Results[len(r.Results)-1].Type()) {
							continue
						}
						if an.Reaches(at, r) {
							errOp := r.Results[len(r.Results)-1]
							ok := provablyNilAt(errOp, r)
							if !ok && lvl < len(s.chain) {
								// the error of the helper that saved, which is nil whenever it saved (checked at its level)
								ok = true
								for _, v := range an.ValuesAt(errOp) {
									if !an.IsNilConst(v) && !an.IsExtractOf(v, at, at.Call.Signature().Results().Len()-1) && v != ssa.Value(at) {
										ok = false
									}
								}
							}
							c.Check(ok, rule, "pkg/resource.GetAndUpdate|no error after save", r.Pos(),
								"the return after save() has a nil error", "GetAndUpdate can return an error after it has saved: the caller treats a committed write as failed")
						}
					}
				}
			}
		}
	}
	// (ii) set / Update
	for _, t := range [][2]string{{"Value", "set"}, {"Collection", "Update"}} {
		fn := mustFunc(c, rule, resPkg, t[0], t[1])
		if fn == nil {
			continue
		}
		name := "(*pkg/resource." + t[0] + ")." + t[1]
		vals := an.CallsTo(fn, "(*"+an.ModulePath+"/pkg/masks.FieldUpdater).Validate")
		// the write may sit in a helper (set = store + publish): its call stands for GetAndUpdate, its error result for
		// GetAndUpdate's when the helper hands that error on
		type write struct {
			site   *ssa.Call
			errIdx int
		}
		var gaus []write
		for _, vc := range an.CallsToDeep(fn, gauName) {
			site, isCall := vc.Site.(*ssa.Call)
			if !isCall {
				continue
			}
			if vc.Via == nil {
				gaus = append(gaus, write{site, 2})
				continue
			}
			inner, _ := vc.Inner.(*ssa.Call)
			last := vc.Via.Signature.Results().Len() - 1
			if inner == nil || !vc.Must || last < 0 || !an.IsErrorType(vc.Via.Signature.Results().At(last).Type()) {
				continue
			}
			hands := true
			for _, r := range an.Returns(vc.Via) {
				for _, v := range an.ValuesAt(r.Results[last]) {
					if !an.IsExtractOf(v, inner, 2) {
						hands = false
					}
				}
			}
			if hands {
				gaus = append(gaus, write{site, last})
			}
		}
		if len(vals) == 0 || len(gaus) == 0 {
			c.Bad(rule, name+"|validate before write", fn.Pos(), fmt.Sprintf("Validate calls: %d, GetAndUpdate calls: %d; the update mask is not validated before the write", len(vals), len(gaus)))
			continue
		}
		for _, g := range gaus {
			ok := false
			for _, v := range vals {
				if guardedByNilValue(g.site, v.(*ssa.Call)) {
					ok = true
				}
			}
			c.Check(ok, rule, name+"|validate before write", g.site.Pos(), "GetAndUpdate only reachable when Validate returned nil", "GetAndUpdate is reachable although FieldUpdater.Validate failed: an invalid mask changes the resource")
			for _, vc := range an.CallsToDeep(fn, busSend) {
				s := vc.Site
				if s == ssa.Instruction(g.site) {
					continue // write and publication inside one helper: ordered there
				}
				c.Check(an.GuardedByNilResult(s, g.site, g.errIdx), rule, name+"|publish only after a successful write", s.Pos(),
					"Bus.Send guarded by GetAndUpdate's nil error", "Bus.Send is reachable although GetAndUpdate failed: a rejected write emits an event")
			}
		}
		// (iv) error after effect
		for _, g := range gaus {
			for _, r := range an.Returns(fn) {
				if !an.Reaches(g.site, r) || !an.GuardedByNilResult(r, g.site, g.errIdx) {
					continue // paths where the write failed
				}
				errOp := r.Results[len(r.Results)-1]
				if provablyNilAt(errOp, r) {
					c.Ok(rule, name+"|no error after a committed write", r.Pos(), "nil error")
					continue
				}
				// allow-list: Value.set send timeout (documented in C09): errors.New after errors.Is(ctx.Err(), DeadlineExceeded)
				allowed := t[1] == "set" && sendTimeoutError(fn, r)
				c.Check(allowed, rule, name+"|no error after a committed write", r.Pos(), "allow-listed: send timeout of Value.set (C09)",
					"an error is returned after the write was committed: the caller sees a failure although the contents changed")
			}
		}
	}
	// (iii) Delete
	if fn := mustFunc(c, rule, resPkg, "Collection", "Delete"); fn != nil {
		name := "(*pkg/resource.Collection).Delete"
		var effects []ssa.Instruction
		isDel := func(in ssa.Instruction) bool {
			cl, ok := in.(*ssa.Call)
			return ok && an.CalleeName(cl) == "builtin delete"
		}
		an.Instrs(fn, func(in ssa.Instruction) {
			if isDel(in) {
				effects = append(effects, in)
			}
		})
		for _, s := range an.CallsTo(fn, busSend) {
			effects = append(effects, s)
		}
		// the locked step (re-check, delete, publish) delegated to a helper: its call is where the effects happen
		an.Instrs(fn, func(in ssa.Instruction) {
			cl, ok := in.(*ssa.Call)
			if !ok {
				return
			}
			h := an.TransparentCallee(cl)
			if h == nil {
				return
			}
			nDel, nSend := 0, 0
			for _, g := range append([]*ssa.Function{h}, an.TransparentCalleesOf(h, 1)...) {
				an.Instrs(g, func(x ssa.Instruction) {
					if isDel(x) {
						nDel++
					}
					if an.IsCallTo(x, busSend) {
						nSend++
					}
				})
			}
			// one entry per effect inside, so that the number of obligations does not depend on where the code lives
			for i := 0; i < nDel+nSend; i++ {
				effects = append(effects, in)
			}
		})
		for i, ef := range effects {
			cons := fmt.Sprintf("%s|effect#%d guarded by preconditions", name, i+1)
			var existsOK, checkOK, valueOK bool
			for _, e := range an.GuardingEdges(ef) {
				// exists: a bool from a map lookup (possibly through phi)
				for _, v := range an.Sources(e.If.Cond) {
					if ex, ok := v.(*ssa.Extract); ok && ex.Index == 1 {
						if _, isL := ex.Tuple.(*ssa.Lookup); isL && e.Branch {
							existsOK = true
						}
					}
				}
			}
			// expectedCheck: every dynamic call of the expectedCheck field: effect not reachable from its non-nil edge
			checkOK, valueOK = true, true
			nCheck, nVal := 0, 0
			// reachesEffectVia: some path from the entry passes the first instruction of block b and goes on to the effect
			// (the search runs through helpers and follows only the feasible branch on their constant / non-nil results)
			reachesEffectVia := func(b *ssa.BasicBlock) bool {
				if len(b.Instrs) == 0 {
					return false
				}
				first := b.Instrs[0]
				t, _ := an.PathQuery{Target: func(x ssa.Instruction) bool { return x == ef }, Through: func(x ssa.Instruction) bool { return x == first }}.From(fn, nil)
				return t != nil
			}
			eachInstrDeep01(fn, func(in ssa.Instruction) {
				cl, ok := in.(*ssa.Call)
				if !ok {
					return
				}
				if an.CalleeName(cl) == "dynamic" {
					if _, _, f, ok := an.FieldOf(cl.Call.Value); ok && f == "expectedCheck" {
						nCheck++
						// find the If testing its result
						tested := false
						for _, u := range an.Referrers(cl) {
							if bo, ok := u.(*ssa.BinOp); ok {
								for _, u2 := range an.Referrers(bo) {
									if iff, ok := u2.(*ssa.If); ok {
										_, trueMeansNil, isNil := an.NilTest(iff.Cond)
										if isNil {
											tested = true
											failTarget := an.CondEdge{If: iff, Branch: !trueMeansNil}.Target()
											if reachesEffectVia(failTarget) {
												checkOK = false
											}
										}
									}
								}
							}
						}
						if !tested {
							checkOK = false
						}
					}
				}
				if an.CalleeName(cl) == "google.golang.org/protobuf/proto.Equal" {
					nVal++
					tested := false
					for _, u := range an.Referrers(cl) {
						if iff, ok := u.(*ssa.If); ok {
							tested = true
							if reachesEffectVia(iff.Block().Succs[1]) {
								valueOK = false
							}
						}
					}
					if !tested {
						valueOK = false
					}
				}
			})
			c.Check(existsOK && checkOK && valueOK && nCheck > 0 && nVal > 0, rule, cons, ef.Pos(), "guarded by exists, expectedCheck == nil and the expected-value comparison",
				fmt.Sprintf("the effect is reachable although a precondition failed (exists guard %v, expectedCheck respected %v [%d evaluation(s)], expectedValue respected %v [%d]): a failing Delete removes the item or emits REMOVE", existsOK, checkOK, nCheck, valueOK, nVal))
		}
		// every configured precondition is evaluated: no path to the effect bypasses a precondition
		// except through the edge on which that precondition is not configured (nil)
		for i, ef := range effects {
			for _, pre := range []string{"expectedCheck", "expectedValue"} {
				by := bypassPath(fn, ef, pre)
				c.Check(by == nil, rule, fmt.Sprintf("%s|effect#%d cannot bypass %s", name, i+1, pre), ef.Pos(), "every path evaluates "+pre+" or sees it unset",
					"a path reaches the effect without evaluating a configured "+pre+" (e.g. when another precondition is also set): the call succeeds although its precondition fails", an.BlockPath(c.Prog, by)...)
			}
		}
		// no error after delete: a return that lies on a path through the map delete hands back a nil error
		for _, r := range an.Returns(fn) {
			isR := func(x ssa.Instruction) bool { return x == ssa.Instruction(r) }
			if t, _ := (an.PathQuery{Target: isR, Through: isDel}).From(fn, nil); t != nil {
				c.Check(provablyNilAt(r.Results[len(r.Results)-1], r), rule, name+"|no error after delete", r.Pos(), "nil error after the delete", "Delete can return an error after removing the item")
			}
		}
	}
}

// r012: stage order in the change function.
// changeFnFacts evaluates the decision table of WriteRequest.changeFn's closure (E4, helpers the rules have
// never seen are looked through) against the specification of the five stages. Shared by R01.2 and R02.5.
type cfFacts struct {
	cl      *ssa.Function
	undec   string
	bad     map[string]string // clause -> first counter example
	nLeaves int
}

func changeFnFacts(c *an.Ctx, rule string) *cfFacts {
	fn := mustFunc(c, rule, resPkg, "WriteRequest", "changeFn")
	if fn == nil {
		return nil
	}
	var cl *ssa.Function
	names := map[ssa.Value]string{}
	rewrite := map[string]string{} // rendered prefix -> canonical name (bound-method form)
	switch {
	case len(fn.AnonFuncs) == 1:
		cl = fn.AnonFuncs[0]
	case len(fn.AnonFuncs) == 0:
		// the change function is a method value of an object built here from (wr, writer, value): `return c.apply`
		for _, r := range an.Returns(fn) {
			if len(r.Results) != 1 {
				continue
			}
			for _, src := range an.SourcesOpaque(r.Results[0]) {
				mc, isMC := src.(*ssa.MakeClosure)
				if !isMC || len(mc.Bindings) != 1 {
					continue
				}
				body, _, _ := an.CallbackBody(mc)
				if body == nil || len(body.Params) != 3 {
					continue
				}
				// what the object's fields hold: stores in changeFn whose value is one of changeFn's parameters
				pnames := []string{"wr", "writer", "value"}
				an.Instrs(fn, func(in ssa.Instruction) {
					st, isSt := in.(*ssa.Store)
					if !isSt {
						return
					}
					_, _, fld, isF := an.FieldOf(st.Addr)
					if !isF {
						return
					}
					for _, vs := range an.SourcesOpaque(st.Val) {
						for i, prm := range fn.Params {
							if vs == ssa.Value(prm) && i < len(pnames) {
								rewrite["§c."+fld] = pnames[i]
							}
						}
					}
				})
				if len(rewrite) == 3 {
					cl = body
					names[body.Params[0]] = "§c"
				}
			}
		}
	}
	if cl == nil {
		c.Unk(rule, "WriteRequest.changeFn|closure", fn.Pos(), fmt.Sprintf("expected changeFn to return one function literal (or a method value of an object holding the request, the writer and the value), found %d literals", len(fn.AnonFuncs)))
		return nil
	}
	c.SawFunc(an.FuncName(cl))
	if len(cl.Params) < 2 {
		c.Unk(rule, "WriteRequest.changeFn|closure", cl.Pos(), "closure does not have (old, dst) parameters")
		return nil
	}
	names[cl.Params[len(cl.Params)-2]] = "old"
	names[cl.Params[len(cl.Params)-1]] = "dst"
	for _, fv := range cl.FreeVars {
		et := deref(fv.Type())
		switch {
		case strings.HasSuffix(an.NamedTypeName(et), "/pkg/resource.WriteRequest"):
			names[fv] = "wr"
		case strings.HasSuffix(an.NamedTypeName(et), "/pkg/masks.FieldUpdater") || strings.HasSuffix(an.NamedTypeName(deref(et)), "/pkg/masks.FieldUpdater"):
			names[fv] = "writer"
		default:
			names[fv] = "value"
		}
	}
	leaves := an.DecisionTree(cl, an.DTConfig{Names: names})
	if len(rewrite) > 0 {
		var pairs []string
		for _, k := range an.SortedKeys(rewrite) {
			pairs = append(pairs, k, rewrite[k])
		}
		rp := strings.NewReplacer(pairs...)
		for _, l := range leaves {
			l.Rewrite(rp.Replace)
		}
	}
	f := &cfFacts{cl: cl, bad: map[string]string{}, nLeaves: len(leaves)}
	fail := func(clause string, l *an.Leaf, why string) {
		if _, dup := f.bad[clause]; !dup {
			f.bad[clause] = fmt.Sprintf("%s (path: %s)", why, strings.Join(l.Assign, ", "))
		}
	}
	const fresh = "call call call value.ProtoReflect().New().Interface()"
	for _, l := range leaves {
		if l.Undec != "" || l.Panics {
			f.undec = l.Undec
			if l.Panics {
				f.undec = "a path panics"
			}
			continue
		}
		idx := func(pred func(string) bool) (first, count int) {
			first = -1
			for i, cs := range l.Calls {
				if pred(cs) {
					if first < 0 {
						first = i
					}
					count++
				}
			}
			return
		}
		eq, nEq := idx(func(s string) bool {
			return strings.HasSuffix(s, "proto.Equal(old, wr.expectedValue)") || strings.HasSuffix(s, "proto.Equal(wr.expectedValue, old)")
		})
		anyEq, _ := idx(func(s string) bool { return strings.Contains(s, "proto.Equal(") })
		ec, nEc := idx(func(s string) bool { return s == "wr.expectedCheck(old)" })
		anyEc, _ := idx(func(s string) bool { return strings.HasPrefix(s, "wr.expectedCheck(") })
		ib, nIb := idx(func(s string) bool { return strings.HasPrefix(s, "wr.interceptBefore(") })
		mg, nMg := idx(func(s string) bool { return strings.Contains(s, "FieldUpdater).Merge(") })
		ia, nIa := idx(func(s string) bool { return strings.HasPrefix(s, "wr.interceptAfter(") })
		target := "dst"
		if l.Get("dst==nil") == "true" {
			target = fresh
		}
		evSet := l.Get("wr.expectedValue==nil") == "false"
		ecSet := l.Get("wr.expectedCheck==nil") == "false"
		failed := false
		// stage 1
		if evSet {
			switch {
			case eq < 0:
				fail("expected value", l, "an expected value is configured but `old` is not compared with it")
				if anyEq >= 0 {
					fail("expected value", l, "the expected value is compared with something other than `old`: "+l.Calls[anyEq])
				}
			case nEq != 1 || (ec >= 0 && ec < eq) || (ib >= 0 && ib < eq) || (mg >= 0 && mg < eq):
				fail("expected value", l, "the comparison with the expected value is not the first stage")
			}
			var eqVal string
			for a, v := range l.AssignM {
				if strings.HasPrefix(a, "call ") && strings.Contains(a, "proto.Equal(") && !strings.Contains(a, "==nil") {
					eqVal = v
				}
			}
			if eq >= 0 && eqVal == "false" {
				failed = true
				if len(l.Returns) != 2 || l.Returns[0].K != "nil" || !strings.Contains(l.Returns[1].S, "ExpectedValuePreconditionFailed") {
					fail("expected value", l, "a mismatch of the expected value does not return (nil, ExpectedValuePreconditionFailed)")
				}
				if ec >= 0 || ib >= 0 || mg >= 0 || ia >= 0 {
					fail("precondition stops", l, "stages run after the expected value did not match")
				}
			}
		} else if eq >= 0 {
			fail("expected value", l, "old is compared with an expected value that was not configured (nil)")
		}
		// stage 2
		if !failed {
			if ecSet {
				switch {
				case ec < 0:
					fail("expected check", l, "an expected check is configured but it is not called with `old`")
					if anyEc >= 0 {
						fail("expected check", l, "the expected check is called with something other than `old`: "+l.Calls[anyEc])
					}
				case nEc != 1 || (eq >= 0 && ec < eq) || (ib >= 0 && ib < ec) || (mg >= 0 && mg < ec):
					fail("expected check", l, "the expected check does not run after the value comparison and before the other stages")
				}
				if ec >= 0 && l.Get("call wr.expectedCheck(old)==nil") == "false" {
					failed = true
					if len(l.Returns) != 2 || l.Returns[0].K != "nil" || l.Returns[1].S != "call wr.expectedCheck(old)" {
						fail("expected check", l, "an error of the expected check is not returned as (nil, that error)")
					}
					if ib >= 0 || mg >= 0 || ia >= 0 {
						fail("precondition stops", l, "stages run after the expected check reported an error")
					}
				}
			} else if anyEc >= 0 {
				fail("expected check", l, "a nil expected check is called")
			}
		}
		if failed {
			continue
		}
		// stages 3-5 on the successful paths
		if (l.Get("wr.interceptBefore==nil") == "false") != (ib >= 0) {
			fail("interceptBefore", l, "interceptBefore does not run exactly when it is configured")
		}
		if ib >= 0 && (nIb != 1 || l.Calls[ib] != "wr.interceptBefore(old, value)" || mg < ib) {
			fail("interceptBefore", l, "interceptBefore is not called once as (old, value) before Merge: "+l.Calls[ib])
		}
		if nMg != 1 {
			fail("merge", l, fmt.Sprintf("a successful path runs Merge %d times", nMg))
		} else if !strings.HasSuffix(l.Calls[mg], "Merge(writer, "+target+", value)") {
			fail("merge", l, "Merge does not write the written value into dst (or a fresh message when dst is nil): "+l.Calls[mg])
		}
		if (l.Get("wr.interceptAfter==nil") == "false") != (ia >= 0) {
			fail("interceptAfter", l, "interceptAfter does not run exactly when it is configured")
		}
		if ia >= 0 && (nIa != 1 || l.Calls[ia] != "wr.interceptAfter(old, "+target+")" || ia < mg) {
			fail("interceptAfter", l, "interceptAfter is not called once as (old, merged value) after Merge: "+l.Calls[ia])
		}
		if len(l.Returns) != 2 || l.Returns[0].S != target || l.Returns[1].K != "nil" {
			rs := []string{}
			for _, r := range l.Returns {
				rs = append(rs, r.S)
			}
			fail("returns", l, "a successful change does not return (merged value, nil): "+strings.Join(rs, ", "))
		}
	}
	return f
}

func r012(c *an.Ctx) {
	const rule = "R01.2"
	f := changeFnFacts(c, rule)
	if f == nil {
		return
	}
	name := "(pkg/resource.WriteRequest).changeFn$1"
	c.Count("table_rows", f.nLeaves)
	if f.undec != "" {
		c.Unk(rule, name+"|decision table", f.cl.Pos(), f.undec)
		return
	}
	c.Check(f.nLeaves >= 20, rule, name+"|decision table is complete", f.cl.Pos(), fmt.Sprintf("%d paths", f.nLeaves), "the change function has fewer paths than its five optional stages imply")
	for _, t := range []struct{ clause, key, expl string }{
		{"expected value", "stage 1: a configured expected value is compared with old first, a mismatch fails the write", "WithExpectedValue"},
		{"expected check", "stage 2: a configured expected check sees old next, its error fails the write", "WithExpectedCheck"},
		{"precondition stops", "a failed precondition runs no further stage", "preconditions"},
		{"interceptBefore", "stage 3: interceptBefore(old, value) runs iff configured, before Merge", "InterceptBefore"},
		{"merge", "stage 4: Merge(writer, dst or fresh, value) exactly once on every successful path", "Merge"},
		{"interceptAfter", "stage 5: interceptAfter(old, merged) runs iff configured, after Merge", "InterceptAfter"},
		{"returns", "success returns the merged destination", "result"},
	} {
		why, isBad := f.bad[t.clause]
		c.Check(!isBad, rule, name+"|"+t.key, f.cl.Pos(), "", "the documented order and conditions of the write stages are broken ("+t.expl+"): "+why)
	}
}

func isFreeVarMsg(v ssa.Value) bool {
	for _, s := range an.Sources(v) {
		switch x := s.(type) {
		case *ssa.Parameter:
			if x.Parent().Parent() != nil || true {
				return true
			}
		case *ssa.UnOp:
			if _, ok := x.X.(*ssa.FreeVar); ok {
				return true
			}
		case *ssa.FreeVar:
			return true
		}
	}
	return false
}

// r013: decision table of Collection.Update's read callback.
func r013(c *an.Ctx) {
	const rule = "R01.3"
	upd := mustFunc(c, rule, resPkg, "Collection", "Update")
	if upd == nil {
		return
	}
	var gf *ssa.Function
	gau := c.Prog.Func(resPkg, "", "GetAndUpdate")
	for _, call := range an.CallsTo(upd, gauName) {
		for i, p := range gau.Params {
			if strings.HasSuffix(an.NamedTypeName(p.Type()), "/pkg/resource.GetFn") {
				gf = an.ClosureFn(call.Common().Args[i])
			}
		}
	}
	name := "(*pkg/resource.Collection).Update$get"
	if gf == nil {
		c.Unk(rule, name, upd.Pos(), "GetFn literal not found")
		return
	}
	c.SawFunc(an.FuncName(gf))
	// canonical names for captured variables
	names := map[ssa.Value]string{}
	var msgs []*ssa.FreeVar
	for _, fv := range gf.FreeVars {
		et := deref(fv.Type())
		switch {
		case strings.HasSuffix(an.NamedTypeName(et), "/pkg/resource.WriteRequest"):
			names[fv] = "wr"
		case strings.HasSuffix(an.NamedTypeName(et), "/pkg/resource.Collection"):
			names[fv] = "c"
		case types.Identical(et, types.Typ[types.String]):
			names[fv] = "id"
		case an.NamedTypeName(et) == "google.golang.org/protobuf/reflect/protoreflect.ProtoMessage" || strings.HasSuffix(an.NamedTypeName(et), "proto.Message"):
			msgs = append(msgs, fv)
		}
	}
	for _, fv := range msgs {
		written := false
		an.Instrs(gf, func(in ssa.Instruction) {
			if st, ok := in.(*ssa.Store); ok && st.Addr == fv {
				written = true
			}
		})
		if written {
			names[fv] = "created"
		} else {
			names[fv] = "msg"
		}
	}
	leaves := an.DecisionTree(gf, an.DTConfig{Names: names})
	c.Count("table_rows", len(leaves))
	if len(leaves) == 0 {
		c.Unk(rule, name, gf.Pos(), "no paths")
		return
	}
	find := func(l *an.Leaf, pred func(atom string) bool) (string, bool) {
		for a, v := range l.AssignM {
			if pred(a) {
				return v, true
			}
		}
		return "", false
	}
	isExists := func(a string) bool { return strings.HasPrefix(a, "c.byId[") && strings.HasSuffix(a, "#1") }
	count := func(l *an.Leaf, callee string) int {
		n := 0
		for _, r := range l.Recs {
			if r.Callee == callee {
				n++
			}
		}
		return n
	}
	type agg struct {
		ok  bool
		n   int
		msg string
		pos token.Pos
	}
	rows := map[string]*agg{}
	rec := func(row string, good bool, pos token.Pos, msg string) {
		a := rows[row]
		if a == nil {
			a = &agg{ok: true, pos: pos}
			rows[row] = a
		}
		a.n++
		if !good && a.ok {
			a.ok = false
			a.msg = msg
			a.pos = pos
		}
	}
	notFound := fmt.Sprint(an.CodeNotFound)
	for _, l := range leaves {
		if l.Undec != "" {
			c.Unk(rule, name+"|table", gf.Pos(), "decision table could not be extracted: "+l.Undec)
			return
		}
		if l.Panics {
			rec("no panic", false, l.RetPos, "the read callback panics on a path")
			continue
		}
		created := l.Get("created==nil")
		emptyID, genReq := l.Get(`""==id`), l.Get("wr.genEmptyID")
		generated := count(l, "(*pkg/resource.Collection).genID") > 0
		wantGen := created != "false" && emptyID == "true" && genReq == "true"
		rec("id generated iff empty and requested", generated == wantGen, l.RetPos, fmt.Sprintf("genID called=%v on a path with id empty=%s genEmptyID=%s created==nil=%s", generated, emptyID, genReq, created))
		if generated {
			if errNil, ok := find(l, func(a string) bool { return strings.Contains(a, "genID(c)#1==nil") }); ok && errNil == "false" {
				rec("generation error is returned", l.Returns[0].K == "nil" && strings.Contains(l.Returns[1].S, "genID(c)#1"), l.RetPos, "a failed id generation does not return (nil, that error): "+l.Returns[1].S)
				continue
			}
			cbNil := l.Get("wr.idCallback==nil")
			n := count(l, "wr.idCallback")
			want := 0
			if cbNil == "false" {
				want = 1
			}
			okArg := true
			for _, r := range l.Recs {
				if r.Callee == "wr.idCallback" && !(len(r.Args) == 1 && strings.Contains(r.Args[0].S, "genID(c)#0")) {
					okArg = false
				}
			}
			rec("id callback once with the generated id", n == want && okArg, l.RetPos, fmt.Sprintf("id callback invoked %d time(s) (callback nil: %s), argument is the generated id: %v", n, cbNil, okArg))
		} else {
			rec("id callback only for generated ids", count(l, "wr.idCallback") == 0, l.RetPos, "the id callback is invoked although no id was generated")
		}
		exists, okE := find(l, isExists)
		if created == "false" {
			// re-validation read: either the provisional message (still absent) or an error
			if okE && exists == "true" {
				rec("re-validation sees a concurrent create", l.Returns[1].K != "nil", l.RetPos, "id taken by a concurrent writer but the provisional message is returned")
			} else {
				rec("re-validation returns the provisional message", l.Returns[0].S == "created" && l.Returns[1].K == "nil", l.RetPos, "returns "+l.Returns[0].S)
			}
			continue
		}
		if !okE {
			rec("contents consulted", false, l.RetPos, "a path decides without looking the id up in byId")
			continue
		}
		ncb := count(l, "wr.createdCallback")
		if exists == "true" {
			rec("created callback only on create", ncb == 0, l.RetPos, "created callback invoked for an existing item")
			if l.Get("wr.expectAbsent") == "true" {
				rec("exists ∧ expectAbsent → AlreadyExists", l.Returns[0].K == "nil" && strings.HasSuffix(l.Returns[1].S, "ExpectAbsentPreconditionFailed"), l.RetPos, "returns ("+l.Returns[0].S+", "+l.Returns[1].S+")")
			} else {
				rec("exists → stored body", strings.HasSuffix(l.Returns[0].S, "#0.body") && strings.HasPrefix(l.Returns[0].S, "c.byId[") && l.Returns[1].K == "nil", l.RetPos, "returns ("+l.Returns[0].S+", "+l.Returns[1].S+")")
			}
			continue
		}
		if l.Get("wr.createIfAbsent") != "true" {
			rec("created callback only on create", ncb == 0, l.RetPos, "created callback invoked although nothing is created")
			rec("absent ∧ ¬createIfAbsent → NotFound", l.Returns[0].K == "nil" && strings.Contains(l.Returns[1].S, "status.Errorf("+notFound+",") || strings.Contains(l.Returns[1].S, "status.Error("+notFound+","), l.RetPos, "returns ("+l.Returns[0].S+", "+l.Returns[1].S+")")
			continue
		}
		fresh := strings.Contains(l.Returns[0].S, "msg.ProtoReflect().New().Interface()")
		rec("absent ∧ createIfAbsent → fresh message of the written type", fresh && l.Returns[1].K == "nil", l.RetPos, "returns ("+l.Returns[0].S+", "+l.Returns[1].S+")")
		want := 0
		if l.Get("wr.createdCallback==nil") == "false" {
			want = 1
		}
		rec("created callback exactly once iff set", ncb == want, l.RetPos, fmt.Sprintf("created callback invoked %d time(s), expected %d", ncb, want))
	}
	for _, row := range an.SortedKeys(rows) {
		a := rows[row]
		if a.ok {
			c.Ok(rule, name+"|"+row, a.pos, fmt.Sprintf("%d path(s)", a.n))
		} else {
			c.Bad(rule, name+"|"+row, a.pos, a.msg)
		}
	}
}

func deref(t types.Type) types.Type {
	if p, ok := t.Underlying().(*types.Pointer); ok {
		return p.Elem()
	}
	return t
}

// sortedAscendingByID: the slice value v passed through a sort whose less is
// s[i].id < s[j].id (accepted idioms listed in DESIGN R01.4) before `at`.
func sortedAscendingByID(c *an.Ctx, fn *ssa.Function, slice ssa.Value, at ssa.Instruction) (bool, string) {
	for _, vc := range an.CallsToDeep(fn, "sort.Slice", "sort.SliceStable") {
		// the sort itself, or a helper that always sorts its argument (`sortByID(items)`)
		if !vc.Must || !an.Dominates(vc.Site, at) {
			continue
		}
		call := vc.Inner
		// first arg (boxed) is the same slice
		same := false
		for _, s := range an.Sources(call.Common().Args[0]) {
			for _, t := range an.Sources(slice) {
				if s == t {
					same = true
				}
			}
		}
		if !same {
			continue
		}
		less := an.ClosureFn(call.Common().Args[1])
		if less == nil {
			return false, "the less argument is not a function literal"
		}
		// less returns s[i].f < s[j].f with f == id and i,j the parameters in order
		for _, r := range an.Returns(less) {
			bo, ok := r.Results[0].(*ssa.BinOp)
			if !ok || (bo.Op != token.LSS && bo.Op != token.GTR) {
				return false, "the less function does not return `a < b`"
			}
			lo, hi := bo.X, bo.Y
			if bo.Op == token.GTR { // `b > a` is the same ordering
				lo, hi = hi, lo
			}
			li, lf := indexedField(lo)
			ri, rf := indexedField(hi)
			if lf != "id" || rf != "id" || li != less.Params[0] || ri != less.Params[1] {
				return false, "the less function does not compare s[i].id < s[j].id"
			}
		}
		return true, ""
	}
	for _, vc := range an.CallsToDeepMatch(fn, func(n string) bool {
		return strings.HasPrefix(n, "slices.SortFunc") || strings.HasPrefix(n, "slices.SortStableFunc")
	}) {
		if !vc.Must || !an.Dominates(vc.Site, at) {
			continue
		}
		call := vc.Inner
		same := false
		for _, s := range an.Sources(call.Common().Args[0]) {
			for _, t := range an.Sources(slice) {
				if s == t {
					same = true
				}
			}
		}
		if !same {
			continue
		}
		cmpFn := an.ClosureFn(call.Common().Args[1])
		if cmpFn == nil || len(cmpFn.Params) != 2 {
			return false, "the comparison argument of slices.SortFunc is not a function literal"
		}
		// cmp returns strings.Compare(a.id, b.id) / cmp.Compare(a.id, b.id) with a, b its parameters in order
		fieldOfParam := func(v ssa.Value) (int, string) {
			base, _, f, ok := an.FieldOf(v)
			if !ok {
				return -1, ""
			}
			for _, s := range an.SourcesOpaque(base) {
				for i, p := range cmpFn.Params {
					if s == ssa.Value(p) {
						return i, f
					}
				}
			}
			// a struct parameter kept in memory: the field address is taken of its local copy
			if al, isAl := base.(*ssa.Alloc); isAl {
				for _, st := range an.StoresTo(an.CellOf(al)) {
					for i, p := range cmpFn.Params {
						if st.Val == ssa.Value(p) {
							return i, f
						}
					}
				}
			}
			return -1, ""
		}
		for _, r := range an.Returns(cmpFn) {
			cl, ok := r.Results[0].(*ssa.Call)
			if !ok || !(an.CalleeName(cl) == "strings.Compare" || strings.HasPrefix(an.CalleeName(cl), "cmp.Compare")) || len(cl.Call.Args) != 2 {
				return false, "the comparison function does not return strings.Compare / cmp.Compare of the two ids"
			}
			i0, f0 := fieldOfParam(cl.Call.Args[0])
			i1, f1 := fieldOfParam(cl.Call.Args[1])
			if i0 != 0 || i1 != 1 || f0 != "id" || f1 != "id" {
				return false, "the comparison function does not compare a.id with b.id in ascending order"
			}
		}
		return true, ""
	}
	return false, "no sort of the listed items dominates their use"
}

// indexedField: v = load of s[idx].f -> (idx, f); the element may be a struct or a pointer to one.
func indexedField(v ssa.Value) (ssa.Value, string) {
	u, ok := v.(*ssa.UnOp)
	if !ok || u.Op != token.MUL {
		return nil, ""
	}
	fa, ok := u.X.(*ssa.FieldAddr)
	if !ok {
		return nil, ""
	}
	f := fieldNameOf(fa)
	base := fa.X
	if l, isLoad := base.(*ssa.UnOp); isLoad && l.Op == token.MUL {
		base = l.X // element is a pointer: s[idx] is loaded first
	}
	ia, ok := base.(*ssa.IndexAddr)
	if !ok {
		return nil, ""
	}
	return ia.Index, f
}

func fieldNameOf(fa *ssa.FieldAddr) string {
	_, _, f, _ := an.FieldOf(fa)
	return f
}

func r014(c *an.Ctx, rule string) {
	fn := mustFunc(c, rule, resPkg, "Collection", "List")
	if fn == nil {
		return
	}
	name := "(*pkg/resource.Collection).List"
	// the slice the result is built from: the range over tmp
	calls := an.CallsTo(fn, "(*"+an.ModulePath+"/pkg/resource.Collection).itemSlice")
	if len(calls) != 1 {
		c.Unk(rule, name+"|sorted by id", fn.Pos(), "itemSlice call not found")
		return
	}
	items := calls[0].(*ssa.Call)
	// the first use of the items in a loop (FilterClone of e.body)
	var use ssa.Instruction
	an.Instrs(fn, func(in ssa.Instruction) {
		if cl, ok := in.(*ssa.Call); ok && strings.HasSuffix(an.CalleeName(cl), "ResponseFilter).FilterClone") && use == nil {
			use = in
		}
	})
	if use == nil {
		c.Unk(rule, name+"|sorted by id", fn.Pos(), "result construction not recognised")
		return
	}
	ok, why := sortedAscendingByID(c, fn, items, use)
	c.Check(ok, rule, name+"|sorted by id", use.Pos(), "results are built from a slice sorted ascending by id", "List is not sorted by id: "+why)
}

func r015(c *an.Ctx) {
	const rule = "R01.5"
	fn := mustFunc(c, rule, resPkg, "", "GenerateUniqueId")
	if fn == nil {
		return
	}
	name := "pkg/resource.GenerateUniqueId"
	exists := fn.Params[1]
	for _, r := range an.Returns(fn) {
		errOp := r.Results[1]
		if provablyNilAt(errOp, r) {
			// returned id passed != "" and !exists(id)
			id := r.Results[0]
			nonEmpty, notExists := false, false
			for _, e := range an.GuardingEdges(r) {
				if bo, ok := e.If.Cond.(*ssa.BinOp); ok {
					if (bo.X == id || bo.Y == id) && ((bo.Op == token.NEQ && e.Branch) || (bo.Op == token.EQL && !e.Branch)) {
						other := bo.Y
						if bo.Y == id {
							other = bo.X
						}
						if cst, ok := other.(*ssa.Const); ok && cst.Value != nil && cst.Value.ExactString() == `""` {
							nonEmpty = true
						}
					}
				}
				if call, ok := e.If.Cond.(*ssa.Call); ok && call.Call.Value == exists && len(call.Call.Args) == 1 && call.Call.Args[0] == id && !e.Branch {
					notExists = true
				}
			}
			c.Check(nonEmpty && notExists, rule, name+"|returned id is non-empty and unused", r.Pos(), "guarded by id != \"\" and !exists(id)",
				fmt.Sprintf("a generated id is returned without passing both tests on that path (non-empty: %v, not existing: %v)", nonEmpty, notExists))
		} else {
			code := int64(-1)
			for _, v := range an.ValuesAt(errOp) {
				if cd, ok := an.StatusCode(v); ok {
					code = cd
				}
			}
			c.Check(code == an.CodeAborted, rule, name+"|exhaustion is Aborted", r.Pos(), "codes.Aborted", fmt.Sprintf("exhaustion returns status code %d, expected Aborted", code))
		}
	}
	// loop bounded by a constant
	// (a loop header, whatever go/ssa calls it: a block that ends in a test of one of its own phis against a constant)
	bounded := false
	for _, b := range fn.Blocks {
		iff, ok := b.Instrs[len(b.Instrs)-1].(*ssa.If)
		if !ok {
			continue
		}
		bo, ok := iff.Cond.(*ssa.BinOp)
		if !ok || (bo.Op != token.LSS && bo.Op != token.LEQ && bo.Op != token.NEQ) {
			continue
		}
		// the counter: a phi of this function, tested directly or just after its increment (rotated range-over-int loops)
		x := bo.X
		if add, isAdd := x.(*ssa.BinOp); isAdd && add.Op == token.ADD {
			x = add.X
		}
		if _, isPhi := x.(*ssa.Phi); !isPhi {
			continue
		}
		for _, v := range an.ValuesAt(bo.Y) {
			if _, isC := an.ConstInt(v); isC {
				bounded = true
			}
		}
	}
	c.Check(bounded, rule, name+"|bounded attempts", fn.Pos(), "loop bound is a constant", "the retry loop is not bounded by a constant")
}

// returnsWithCode collects status codes returned by fn (incl. through globals initialised with status.Error).
func statusCodeOf(c *an.Ctx, v ssa.Value) (int64, bool) {
	for _, x := range an.ValuesAt(v) {
		if cd, ok := an.StatusCode(x); ok {
			return cd, true
		}
		// load of a package-level error variable initialised with status.Error(code, …)
		if u, ok := x.(*ssa.UnOp); ok && u.Op == token.MUL {
			if g, ok := u.X.(*ssa.Global); ok {
				if cd, ok := globalStatusCode(g); ok {
					return cd, true
				}
			}
		}
	}
	return 0, false
}

func globalStatusCode(g *ssa.Global) (int64, bool) {
	init := g.Pkg.Func("init")
	if init == nil {
		return 0, false
	}
	var code int64
	found := false
	an.Instrs(init, func(in ssa.Instruction) {
		if st, ok := in.(*ssa.Store); ok && st.Addr == g {
			if cd, ok := an.StatusCode(st.Val); ok {
				code, found = cd, true
			}
		}
	})
	return code, found
}

func r016(c *an.Ctx) {
	const rule = "R01.6"
	sp := c.Prog.SSAPackage(resPkg)
	if sp == nil {
		c.Unk(rule, "pkg/resource", 0, "package not found")
		return
	}
	for _, t := range []struct {
		global string
		code   int64
		label  string
	}{{"ExpectedValuePreconditionFailed", an.CodeFailedPrecondition, "FailedPrecondition"}, {"ExpectAbsentPreconditionFailed", an.CodeAlreadyExists, "AlreadyExists"}} {
		g, _ := sp.Members[t.global].(*ssa.Global)
		if g == nil {
			c.Unk(rule, "pkg/resource."+t.global, 0, "sentinel error not found")
			continue
		}
		cd, ok := globalStatusCode(g)
		c.Check(ok && cd == t.code, rule, "pkg/resource."+t.global+"|is "+t.label, g.Pos(), "", fmt.Sprintf("sentinel has status code %d, expected %s", cd, t.label))
	}
	// Delete: NotFound for a missing id, Unavailable after retries (R02.3)
	if fn := c.Prog.Func(resPkg, "Collection", "Delete"); fn != nil {
		okNF := false
		for _, r := range an.Returns(fn) {
			if cd, ok := statusCodeOf(c, r.Results[1]); ok && cd == an.CodeNotFound {
				// guarded by !exists and !allowMissing
				okNF = true
			}
		}
		c.Check(okNF, rule, "(*pkg/resource.Collection).Delete|missing id is NotFound", fn.Pos(), "", "Delete of a missing id does not return codes.NotFound")
	}
	// Update: re-wrapped errors keep their code
	if fn := c.Prog.Func(resPkg, "Collection", "Update"); fn != nil {
		keeps := false
		an.Instrs(fn, func(in ssa.Instruction) {
			if call, ok := in.(*ssa.Call); ok && an.CalleeName(call) == "google.golang.org/grpc/status.Errorf" {
				if inner, ok := call.Call.Args[0].(*ssa.Call); ok && strings.HasSuffix(an.CalleeName(inner), "status.Status).Code") {
					keeps = true
				}
			}
		})
		wraps := len(an.CallsTo(fn, "google.golang.org/grpc/status.Errorf")) > 0
		c.Check(!wraps || keeps, rule, "(*pkg/resource.Collection).Update|re-wrapped errors keep their status code", fn.Pos(), "status.Errorf(s.Code(), …)", "Update re-wraps errors with a different status code")
	}
	// masks: invalid / read-only update masks are InvalidArgument
	if fn := c.Prog.Func("pkg/masks", "FieldUpdater", "Validate"); fn != nil {
		all := true
		n := 0
		for _, r := range errorReturnsDeep(fn) {
			// errors about the server-side reset mask are not client errors
			if guardByField(r, "resetMask") {
				continue
			}
			n++
			if cd, ok := statusCodeOf(c, r.Results[0]); !ok || cd != an.CodeInvalidArgument {
				all = false
			}
		}
		c.Check(all && n >= 2, rule, "(*pkg/masks.FieldUpdater).Validate|rejections are InvalidArgument", fn.Pos(), fmt.Sprintf("%d update-mask error return(s)", n), "an invalid or read-only update mask is not rejected with codes.InvalidArgument")
	}
	// GetAndUpdate mismatch -> Aborted is R02.1; id exhaustion -> Aborted is R01.5
	if fn := c.Prog.Func(resPkg, "", "GetAndUpdate"); fn != nil {
		ok := false
		// the error may be produced by a helper the compare-and-save step was moved into
		for _, r := range errorReturnsDeep(fn) {
			if cd, isSt := statusCodeOf(c, r.Results[len(r.Results)-1]); isSt && cd == an.CodeAborted {
				ok = true
			}
		}
		c.Check(ok, rule, "pkg/resource.GetAndUpdate|concurrent update is Aborted", fn.Pos(), "", "a detected concurrent update is not reported as codes.Aborted")
	}
}

// r017: the id interceptor is applied everywhere.
func r017(c *an.Ctx) {
	const rule = "R01.7"
	for _, m := range []string{"Get", "Update", "Delete", "PullID"} {
		fn := mustFunc(c, rule, resPkg, "Collection", m)
		if fn == nil {
			continue
		}
		name := "(*pkg/resource.Collection)." + m
		// the id parameter (first string parameter after the receiver/context)
		var idp *ssa.Parameter
		for _, p := range fn.Params {
			if types.Identical(p.Type(), types.Typ[types.String]) {
				idp = p
				break
			}
		}
		if idp == nil {
			c.Unk(rule, name+"|id mapped", fn.Pos(), "no id parameter")
			continue
		}
		// Every use of the id is a use of the MAPPED id: no path from the entry to a use of an id-derived value avoids both
		// an application of the interceptor to the id and the `idInterceptor == nil` edge - wherever the application is
		// written (inline under a nil test, in a local closure, in a helper such as interceptID) - and the value that
		// is used is not the raw parameter alone.
		isApply := func(in ssa.Instruction) bool {
			call, ok := in.(*ssa.Call)
			if !ok || an.CalleeName(call) != "dynamic" || len(call.Call.Args) != 1 {
				return false
			}
			_, _, f, isF := an.FieldOf(call.Call.Value)
			return isF && f == "idInterceptor"
		}
		nilEdge := func(from, to *ssa.BasicBlock) bool {
			iff, isIf := from.Instrs[len(from.Instrs)-1].(*ssa.If)
			if !isIf || len(from.Succs) != 2 || from.Succs[0] == from.Succs[1] {
				return false
			}
			x, trueMeansNil, isNil := an.NilTest(iff.Cond)
			if !isNil {
				return false
			}
			if _, _, f, isF := an.FieldOf(x); !isF || f != "idInterceptor" {
				return false
			}
			if trueMeansNil {
				return to == from.Succs[0]
			}
			return to == from.Succs[1]
		}
		// values that carry the id: the parameter, what is computed from it (phis, the interceptor's or a helper's result)
		// and loads of the variable it lives in when closures capture it
		derived := func(v ssa.Value) (fromID, mappedToo bool) {
			for _, s0 := range an.Sources(v) {
				if s0 == ssa.Value(idp) {
					fromID = true
				}
				if call, isCall := s0.(*ssa.Call); isCall && isApply(call) {
					for _, a := range an.Sources(call.Call.Args[0]) {
						if a == ssa.Value(idp) {
							fromID, mappedToo = true, true
						}
					}
				}
			}
			if ld, isLoad := v.(*ssa.UnOp); isLoad && ld.Op == token.MUL {
				if cell := an.CellOf(ld.X); cell != nil {
					for _, st := range an.StoresTo(cell) {
						f2, m2 := false, false
						if st.Val == ssa.Value(idp) {
							f2 = true
						} else {
							for _, s0 := range an.Sources(st.Val) {
								if call, isCall := s0.(*ssa.Call); isCall && isApply(call) {
									f2, m2 = true, true
								}
								if s0 == ssa.Value(idp) {
									f2 = true
								}
							}
						}
						fromID, mappedToo = fromID || f2, mappedToo || m2
					}
				}
			}
			return
		}
		applied := false
		eachInstrDeep01(fn, func(in ssa.Instruction) { applied = applied || isApply(in) })
		if !applied {
			c.Bad(rule, name+"|id mapped through the interceptor", fn.Pos(), "the id is not passed through config.idInterceptor when one is configured: an item written under one spelling is not found under another")
			continue
		}
		bad, where := "", fn.Pos()
		nUses := 0
		an.Instrs(fn, func(in ssa.Instruction) {
			switch in.(type) {
			case *ssa.Phi, *ssa.DebugRef, *ssa.Store, *ssa.If:
				return
			}
			if isApply(in) || bad != "" {
				return
			}
			if call, isCall := in.(*ssa.Call); isCall && an.TransparentCallee(call) != nil {
				// a helper that is looked through: its body is searched as part of the paths below
				if h := an.TransparentCallee(call); an.BodyWith(h, isApply) != nil {
					return
				}
			}
			uses, mapped := false, false
			for _, op := range in.Operands(nil) {
				if *op == nil {
					continue
				}
				f, m := derived(*op)
				if al, isAddr := (*op).(*ssa.Alloc); isAddr {
					// the id's own variable handed to a closure: the closure reads the id from it
					if _, isMC := in.(*ssa.MakeClosure); !isMC {
						continue
					}
					f, m = false, false
					if cell := an.CellOf(al); cell != nil {
						for _, st := range an.StoresTo(cell) {
							if st.Val == ssa.Value(idp) {
								f = true
							}
							for _, s0 := range an.Sources(st.Val) {
								if call, isCall := s0.(*ssa.Call); isCall && isApply(call) {
									m = true
								}
							}
						}
					}
					if !f {
						continue
					}
				}
				uses, mapped = uses || f, mapped || m
			}
			if !uses {
				return
			}
			// a load of the id's own variable is not a use; what is done with the loaded value is
			if ld, isLoad := in.(*ssa.UnOp); isLoad && ld.Op == token.MUL {
				return
			}
			// the nil test of the interceptor itself, and building the argument of the application
			if bo, isBO := in.(*ssa.BinOp); isBO {
				if x, _, isNil := an.NilTest(bo); isNil {
					if _, _, f, isF := an.FieldOf(x); isF && f == "idInterceptor" {
						return
					}
				}
			}
			nUses++
			if !mapped {
				bad, where = "the raw id parameter is used although the interceptor's result is available", in.Pos()
				return
			}
			t, _ := an.PathQuery{Target: func(x ssa.Instruction) bool { return x == in }, Avoid: isApply, AvoidEdge: nilEdge}.From(fn, nil)
			if t != nil {
				bad, where = "a path reaches a use of the id without the interceptor having been applied although one may be configured", in.Pos()
			}
		})
		c.Check(bad == "" && nUses > 0, rule, name+"|id mapped through the interceptor", where, fmt.Sprintf("%d uses of the id, all of the mapped id", nUses),
			"the id is not passed through config.idInterceptor before it is used ("+bad+"): an item written under one spelling is not found under another")
	}
	// genID: the generated id that Update uses as key / reports must be the mapped one
	gen := mustFunc(c, rule, resPkg, "Collection", "genID")
	if gen == nil {
		return
	}
	name := "(*pkg/resource.Collection).genID"
	// mapped: every value v can take is idInterceptor(x), or a raw id on a path where no interceptor is configured
	isInterceptorCall := func(v ssa.Value) bool {
		call, ok := v.(*ssa.Call)
		if !ok || an.CalleeName(call) != "dynamic" {
			return false
		}
		_, _, fld, isF := an.FieldOf(call.Call.Value)
		return isF && fld == "idInterceptor"
	}
	mapped := func(v ssa.Value) (all bool, any bool) {
		all = true
		for _, lf := range an.PhiLeaves(v) {
			if isInterceptorCall(lf.Val) {
				any = true
				continue
			}
			rawOK := false
			for _, e := range lf.Conds {
				x, trueMeansNil, isNil := an.NilTest(e.If.Cond)
				if !isNil || e.Branch != trueMeansNil {
					continue
				}
				if _, _, fld, isF := an.FieldOf(x); isF && fld == "idInterceptor" {
					rawOK = true
				}
			}
			if !rawOK {
				all = false
			}
		}
		return
	}
	resultMapped, resultAny := true, false
	for _, r := range an.Returns(gen) {
		if !provablyNilAt(r.Results[1], r) {
			continue // error path
		}
		a, b := mapped(r.Results[0])
		resultMapped = resultMapped && a
		resultAny = resultAny || b
	}
	resultMapped = resultMapped && resultAny
	probeOnly := false
	for _, f := range an.WithClosures(gen) {
		an.Instrs(f, func(in ssa.Instruction) {
			if call, ok := in.(*ssa.Call); ok && isInterceptorCall(call) {
				probeOnly = true
			}
		})
	}
	// the uniqueness probe looks the candidate up under the key it will be stored under
	nProbe, probeMapped := 0, true
	// the probe: a function literal of genID, or a method of the collection handed over as a method value (its bound
	// wrapper calls the method)
	probeFns := an.WithClosures(gen)
	for depth := 0; depth < 2; depth++ {
		for _, f := range append([]*ssa.Function(nil), probeFns...) {
			add := func(g *ssa.Function) {
				if g == nil || len(g.Blocks) == 0 || g == gen {
					return
				}
				if g.Pkg != nil && g.Pkg != gen.Pkg {
					return
				}
				for _, have := range probeFns {
					if have == g {
						return
					}
				}
				probeFns = append(probeFns, g)
			}
			an.Instrs(f, func(in ssa.Instruction) {
				switch x := in.(type) {
				case *ssa.MakeClosure:
					if g, isFn := x.Fn.(*ssa.Function); isFn && f == gen {
						add(g)
					}
				case *ssa.Call:
					if f != gen {
						add(x.Call.StaticCallee())
					}
				}
			})
		}
	}
	for _, f := range probeFns {
		if f == gen {
			continue
		}
		an.Instrs(f, func(in ssa.Instruction) {
			lk, ok := in.(*ssa.Lookup)
			if !ok {
				return
			}
			if _, _, fld, isF := an.FieldOf(lk.X); !isF || fld != "byId" {
				return
			}
			nProbe++
			if all, _ := mapped(lk.Index); !all {
				probeMapped = false
			}
		})
	}
	c.Check(nProbe > 0 && probeMapped, rule, name+"|uniqueness is probed under the intercepted id", gen.Pos(), fmt.Sprintf("%d probe(s)", nProbe),
		"the exists-probe of genID looks the raw candidate up in byId although the item will be stored under idInterceptor(candidate): the mapped id can already be in use, so Add with a generated id fails with AlreadyExists (or a creating Update overwrites another item) although a free id exists")
	switch {
	case resultMapped:
		c.Ok(rule, name+"|generated id is the intercepted id", gen.Pos(), "genID returns idInterceptor(candidate)")
	case probeOnly:
		c.Bad(rule, name+"|generated id is the intercepted id", gen.Pos(), "genID maps the candidate through the id interceptor only for its existence probe and returns the unmapped candidate: the item is stored (and reported to the id callback) under a spelling that Get/Update/Delete, which map their argument, never look up")
	default:
		c.Bad(rule, name+"|generated id is the intercepted id", gen.Pos(), "genID does not apply the id interceptor at all: generated ids can collide after mapping")
	}
}

// guardByField: call is guarded by a non-nil test of a load of the named field.
func guardByField(at ssa.Instruction, field string) bool {
	for _, e := range an.GuardingEdges(at) {
		x, trueMeansNil, ok := an.NilTest(e.If.Cond)
		if !ok || e.Branch == trueMeansNil {
			continue
		}
		if _, _, f, isF := an.FieldOf(x); isF && f == field {
			return true
		}
	}
	return false
}

// bypassPath searches a path from the entry of fn to `effect` that neither
// evaluates the precondition stored in WriteRequest field `field` nor takes
// an edge on which that field is known to be nil. nil = no such path.
func bypassPath(fn *ssa.Function, effect ssa.Instruction, field string) []*ssa.BasicBlock {
	isEval := func(in ssa.Instruction) bool {
		call, ok := in.(*ssa.Call)
		if !ok {
			return false
		}
		if an.CalleeName(call) == "dynamic" {
			if _, _, f, ok := an.FieldOf(call.Call.Value); ok && f == field {
				return true
			}
		}
		if field == "expectedValue" && an.CalleeName(call) == "google.golang.org/protobuf/proto.Equal" {
			for _, a := range call.Call.Args {
				if _, _, f, ok := an.FieldOf(a); ok && f == field {
					return true
				}
			}
		}
		return false
	}
	nilEdge := func(from, to *ssa.BasicBlock) bool {
		iff, ok := from.Instrs[len(from.Instrs)-1].(*ssa.If)
		if !ok || from.Succs[0] == from.Succs[1] {
			return false
		}
		x, trueMeansNil, isNil := an.NilTest(iff.Cond)
		if !isNil {
			return false
		}
		if _, _, f, ok := an.FieldOf(x); !ok || f != field {
			return false
		}
		nilSucc := from.Succs[1]
		if trueMeansNil {
			nilSucc = from.Succs[0]
		}
		return to == nilSucc
	}
	t, path := an.PathQuery{Target: func(in ssa.Instruction) bool { return in == effect }, Avoid: isEval, AvoidEdge: nilEdge}.From(fn, nil)
	if t == nil {
		return nil
	}
	return path
}

// sendTimeoutError: the error returned at r is the documented publish timeout of Value.set: the return is taken
// on errors.Is(ctx.Err(), DeadlineExceeded), either here or inside the helper that publishes (a helper the
// rules have not seen, every error return of which is such a timeout).
func sendTimeoutError(fn *ssa.Function, r *ssa.Return) bool {
	isTimeoutReturn := func(x *ssa.Return) bool {
		for _, e := range an.GuardingEdges(x) {
			if call, ok := e.If.Cond.(*ssa.Call); ok && an.CalleeName(call) == "errors.Is" && e.Branch {
				return true
			}
		}
		return false
	}
	if isTimeoutReturn(r) {
		return true
	}
	errOp := r.Results[len(r.Results)-1]
	for _, vc := range an.CallsToDeep(fn, busSend) {
		if vc.Via == nil || !vc.Must {
			continue
		}
		call := vc.Site.(*ssa.Call)
		fromHelper := false
		for _, v := range an.ValuesAt(errOp) {
			if v == ssa.Value(call) || an.IsExtractOf(v, call, call.Call.Signature().Results().Len()-1) {
				fromHelper = true
			}
		}
		if !fromHelper {
			continue
		}
		ok := true
		for _, hr := range an.Returns(vc.Via) {
			he := hr.Results[len(hr.Results)-1]
			if provablyNilAt(he, hr) {
				continue
			}
			if !isTimeoutReturn(hr) {
				ok = false
			}
		}
		if ok {
			return true
		}
	}
	return false
}

// eachInstrDeep01 visits the instructions of fn and of the callees of fn the analyses look through.
func eachInstrDeep01(fn *ssa.Function, f func(ssa.Instruction)) {
	an.Instrs(fn, f)
	for _, h := range an.TransparentCalleesOf(fn, 2) {
		an.Instrs(h, f)
	}
}

// r0111: Collection.Delete evaluates its two preconditions in a fixed order - the expected check sees the item first,
// the expected value is compared afterwards - so with both configured and both failing the caller gets the check's own
// error and the check has run exactly once (what a sequential model of Delete returns). Decided on the order of the
// two steps inside one attempt, through helpers they may have been moved into.
func r0111(c *an.Ctx) {
	const rule = "R01.11"
	fn := mustFunc(c, rule, resPkg, "Collection", "Delete")
	if fn == nil {
		return
	}
	name := "(*pkg/resource.Collection).Delete"
	type step struct {
		in   ssa.Instruction // the step itself
		site ssa.Instruction // where it happens in Delete (the step, or the call of the helper that contains it)
	}
	var checks, values []step
	fromField := func(v ssa.Value, field string) bool {
		for _, s0 := range an.Sources(v) {
			if _, _, f, ok := an.FieldOf(s0); ok && f == field {
				return true
			}
		}
		return false
	}
	var scan func(f *ssa.Function, site ssa.Instruction, depth int)
	scan = func(f *ssa.Function, site ssa.Instruction, depth int) {
		an.Instrs(f, func(in ssa.Instruction) {
			call, ok := in.(*ssa.Call)
			if !ok {
				return
			}
			at := site
			if at == nil {
				at = in
			}
			switch {
			case call.Call.StaticCallee() == nil && !call.Call.IsInvoke() && fromField(call.Call.Value, "expectedCheck"):
				checks = append(checks, step{in, at})
			case an.CalleeName(call) == "google.golang.org/protobuf/proto.Equal" && (fromField(call.Call.Args[0], "expectedValue") || fromField(call.Call.Args[1], "expectedValue")):
				values = append(values, step{in, at})
			default:
				if h := an.TransparentCallee(call); h != nil && h != f && depth < 2 {
					scan(h, at, depth+1)
				}
			}
		})
	}
	scan(fn, nil, 0)
	if len(checks) == 0 || len(values) == 0 {
		c.Unk(rule, name+"|expected check before expected value", fn.Pos(), fmt.Sprintf("found %d invocation(s) of the expected check and %d comparison(s) with the expected value", len(checks), len(values)))
		return
	}
	backEdge := func(from, to *ssa.BasicBlock) bool { return to.Dominates(from) }
	var bad ssa.Instruction
	for _, v := range values {
		for _, k := range checks {
			a, b := v.site, k.site
			if a == b {
				// both inside one helper: their order there
				a, b = v.in, k.in
			}
			if a.Parent() != b.Parent() {
				continue
			}
			t, _ := an.PathQuery{Target: func(x ssa.Instruction) bool { return x == b }, AvoidEdge: backEdge}.From(a.Parent(), a)
			if t != nil {
				bad = v.in
			}
		}
	}
	pos := fn.Pos()
	if bad != nil {
		pos = bad.Pos()
	}
	c.Check(bad == nil, rule, name+"|expected check before expected value", pos, fmt.Sprintf("%d check invocation(s), %d value comparison(s)", len(checks), len(values)),
		"within one attempt the expected value is compared before the expected check has run: with both preconditions configured and both failing, Delete returns the value sentinel instead of the check's own error and the check callback is not invoked")
}

// r0112: an option carries what it was given. Every constructor of an option (resource, read, write, model, server …) that
// takes parameters uses each of them: the closure it returns (or the value it builds) depends on the parameter, so
// WithAllowMissing(false), WithBackpressure(false), WithUpdatesOnly(false) … mean what they say.
func r0112(c *an.Ctx, rule string) {
	n := 0
	for _, fn := range c.Prog.FuncsIn("pkg") {
		if c.Prog.IsGenerated(fn.Pos()) || fn.Parent() != nil || fn.Signature.Recv() != nil || fn.Signature.Results().Len() != 1 || len(fn.Params) == 0 {
			continue
		}
		rt := an.NamedTypeName(fn.Signature.Results().At(0).Type())
		if !strings.HasPrefix(rt, an.ModulePath+"/pkg/") || !strings.HasSuffix(rt, "Option") {
			continue
		}
		if obj := fn.Object(); obj == nil || !obj.Exported() {
			continue
		}
		n++
		c.SawFunc(an.FuncName(fn))
		var unused []string
		for _, p := range fn.Params {
			if p.Name() == "_" || p.Name() == "" {
				continue
			}
			used := false
			for _, u := range an.Referrers(p) {
				if _, isDbg := u.(*ssa.DebugRef); !isDbg {
					used = true
				}
			}
			if !used {
				unused = append(unused, p.Name())
			}
		}
		c.Check(len(unused) == 0, rule, an.FuncName(fn)+"|the option depends on every argument", fn.Pos(), fmt.Sprintf("%d parameter(s) used", len(fn.Params)),
			"parameter "+strings.Join(unused, ", ")+" is never used: the option ignores what the caller asked for (WithAllowMissing(false) still allows a missing item, so Delete of an unknown id reports success instead of NotFound)")
	}
	c.Count("option_constructors_with_parameters", n)
}

// r0113: options that are passed in are passed on. Every function of the module that takes a variadic list of options
// (…Option) uses that parameter: applies it, forwards it, or hands it to a constructor. An entry point that drops it
// (PullID calling c.Pull(ctx) without its opts) silently ignores read mask, updates-only, backpressure and include.
func r0113(c *an.Ctx, rule string) {
	n := 0
	for _, fn := range c.Prog.FuncsIn("pkg") {
		if c.Prog.IsGenerated(fn.Pos()) || fn.Parent() != nil || !fn.Signature.Variadic() || len(fn.Params) == 0 || len(fn.Blocks) == 0 {
			continue
		}
		vp := fn.Params[len(fn.Params)-1]
		sl, isSl := vp.Type().Underlying().(*types.Slice)
		if en := ""; !isSl {
			continue
		} else if en = an.NamedTypeName(sl.Elem()); !strings.HasSuffix(en, "Option") || !strings.HasPrefix(en, an.ModulePath) {
			continue
		}
		n++
		used := false
		for _, u := range an.Referrers(vp) {
			if _, isDbg := u.(*ssa.DebugRef); !isDbg {
				used = true
			}
		}
		c.SawFunc(an.FuncName(fn))
		c.Check(used, rule, an.FuncName(fn)+"|the options it is given are used", fn.Pos(), "the variadic options are applied or passed on",
			"the function never uses its variadic options: whatever the caller asked for - a read mask, updates only, backpressure, an include predicate, an update mask - is silently ignored")
	}
	c.Count("functions_taking_options", n)
}

// r0114: the update-mask rules of C05 (R05.2, R05.6, R05.7, R05.8) seen from C01: a write whose mask names a read-only or
// unknown field is a call that fails and changes nothing.
func r0114(c *an.Ctx, rule string) {
	sub := an.NewCtx(c.Prog, c.Property, c.Tier)
	r052(sub)
	r065as(sub, "R05.6")
	r057(sub)            // extra update paths only narrow a mask that is there: a nil mask stays "all fields"
	r058(sub, "R05.8")   // masks reach fmutils normalised (reset/update masks naming a path and one it covers)
	r068(sub, "R06.8")   // an empty mask is not "no mask"
	r0511(sub, "R05.11") // WithMore… options accumulate: two of them on one write both count
	r0513(sub, "R05.13") // a masked write naming a map field does not panic
	n := 0
	for _, o := range sub.Obls {
		o.Key = rule + "|" + o.Construct
		o.Rule = rule
		c.Obls = append(c.Obls, o)
		n++
	}
	c.Count("shared_mask_validation_obligations", n)
}

// r0116: the path-list spelling of a write option is the mask spelling of the SAME option. WithMoreUpdatePaths(p…)
// is WithMoreUpdateMask(&FieldMask{Paths: p}), WithResetPaths is WithResetMask, and so on; delegating to a
// neighbour (WithMoreUpdatePaths -> WithUpdateMask) compiles, and turns "also these paths" into "only these paths".
func r0116(c *an.Ctx, rule string) {
	n := 0
	for _, fn := range c.Prog.FuncsIn(resPkg) {
		if fn.Parent() != nil || fn.Object() == nil || !fn.Object().Exported() || !strings.HasPrefix(fn.Name(), "With") || !strings.HasSuffix(fn.Name(), "Paths") {
			continue
		}
		stem := strings.TrimSuffix(fn.Name(), "Paths")
		var callee string
		an.Instrs(fn, func(in ssa.Instruction) {
			call, ok := in.(*ssa.Call)
			if !ok {
				return
			}
			if f := call.Call.StaticCallee(); f != nil && f.Pkg == fn.Pkg && strings.HasPrefix(f.Name(), "With") {
				callee = f.Name()
			}
		})
		if callee == "" {
			continue
		}
		n++
		c.SawFunc(an.FuncName(fn))
		ok := callee == stem+"Mask" || callee == stem+"Fields"
		c.Check(ok, rule, an.FuncName(fn)+"|delegates to the mask spelling of the same option", fn.Pos(), callee,
			"the path-list spelling delegates to "+callee+", which is another option: the paths are applied with that option's meaning (replace instead of add, update instead of reset)")
	}
	c.Count("path_spellings", n)
}

// r0117: what the save callback stores is what it is given. GetAndUpdate hands the merged message to its save
// function; Value.set and Collection.Update store it and return/announce the same message. A save function that
// stores a captured variable instead (the request message, after its parameter was renamed) keeps returning and
// announcing the merged message while the store holds the raw request: masks, interceptors and resets are lost in
// what Get returns, and the stored item is the caller's own object.
func r0117as(c *an.Ctx, rule string) {
	n := 0
	for _, t := range [][2]string{{"Value", "set"}, {"Collection", "Update"}} {
		fn := mustFunc(c, rule, resPkg, t[0], t[1])
		if fn == nil {
			continue
		}
		name := an.FuncName(fn)
		for _, vc := range an.CallsToDeep(fn, an.ModulePath+"/pkg/resource.GetAndUpdate") {
			call := vc.Inner
			args := call.Common().Args
			if len(args) < 4 {
				continue
			}
			save := an.ClosureFn(args[3])
			if save == nil || len(save.Params) != 1 {
				c.Unk(rule, name+"|the save callback stores its argument", call.Pos(), "the save callback is not a function literal with one parameter")
				continue
			}
			n++
			stored, fromParam, fromCapture := 0, true, ""
			// (the callback may hand its argument to a helper of the package that does the storing: the helper's message
			// stores are judged against the parameter the argument arrives in)
			an.Instrs(save, func(in ssa.Instruction) {
				hc, ok := in.(*ssa.Call)
				if !ok {
					return
				}
				g := hc.Call.StaticCallee()
				if g == nil || g.Pkg != save.Pkg || len(g.Blocks) == 0 {
					return
				}
				an.Instrs(g, func(in2 ssa.Instruction) {
					st, isSt := in2.(*ssa.Store)
					if !isSt || !strings.HasSuffix(st.Val.Type().String(), "proto.Message") {
						return
					}
					if _, _, _, isF := an.FieldOf(st.Addr); !isF {
						return
					}
					stored++
					derives := false
					for _, s0 := range an.SourcesOpaque(st.Val) {
						for i, gp := range g.Params {
							if s0 != ssa.Value(gp) || i >= len(hc.Call.Args) {
								continue
							}
							for _, a0 := range an.SourcesOpaque(hc.Call.Args[i]) {
								if a0 == ssa.Value(save.Params[0]) {
									derives = true
								}
							}
						}
					}
					if !derives {
						fromParam = false
					}
				})
			})
			an.Instrs(save, func(in ssa.Instruction) {
				st, ok := in.(*ssa.Store)
				if !ok || !strings.HasSuffix(st.Val.Type().String(), "proto.Message") {
					return
				}
				stored++
				derives := false
				for _, s := range an.SourcesOpaque(st.Val) {
					if s == ssa.Value(save.Params[0]) {
						derives = true
					}
					if fv, isFV := s.(*ssa.FreeVar); isFV {
						fromCapture = fv.Name()
					}
					if u, isU := s.(*ssa.UnOp); isU {
						if fv, isFV := u.X.(*ssa.FreeVar); isFV {
							fromCapture = fv.Name()
						}
					}
				}
				if !derives {
					fromParam = false
				}
			})
			c.SawFunc(name)
			c.Check(stored > 0 && fromParam, rule, name+"|the save callback stores its argument", call.Pos(), fmt.Sprintf("%d message store(s), each of the callback's parameter", stored),
				"the save callback stores a message that is not its own argument (captured "+fromCapture+"): the store keeps the request message while the call returns and announces the merged one")
		}
	}
	c.Count("save_callbacks", n)
}

// r0121: an id is mapped through the interceptor ONCE. The methods that take an id map it themselves (R01.7); a method
// that hands its id on to another of them (Add to Update) passes the id it was given, not one it has already mapped.
// With an interceptor that is not idempotent (a namespace prefix) a doubly mapped id stores the item under f(f(id)),
// where Get, Update and Delete of the same id do not find it and a second Add succeeds.
func r0121(c *an.Ctx, rule string) {
	mapping := map[string]bool{"Get": true, "Update": true, "Delete": true, "PullID": true, "Add": true}
	n := 0
	for _, fn := range c.Prog.FuncsIn(resPkg) {
		if strings.HasSuffix(c.Prog.RelFile(fn.Pos()), "_test.go") {
			continue
		}
		top := fn
		for top.Parent() != nil {
			top = top.Parent()
		}
		if top.Signature.Recv() == nil || !strings.HasSuffix(an.NamedTypeName(top.Signature.Recv().Type()), "pkg/resource.Collection") {
			continue
		}
		an.Instrs(fn, func(in ssa.Instruction) {
			call, ok := in.(*ssa.Call)
			if !ok {
				return
			}
			g := call.Call.StaticCallee()
			if g == nil || g.Signature.Recv() == nil || !mapping[g.Name()] || !strings.HasSuffix(an.NamedTypeName(g.Signature.Recv().Type()), "pkg/resource.Collection") {
				return
			}
			// the id argument: the first string argument after the receiver
			var id ssa.Value
			for _, a := range call.Call.Args[1:] {
				if b, isB := a.Type().Underlying().(*types.Basic); isB && b.Kind() == types.String {
					id = a
					break
				}
			}
			if id == nil {
				return
			}
			n++
			mapped := false
			for _, s0 := range an.Sources(id) {
				if dc, isC := s0.(*ssa.Call); isC && an.CalleeName(dc) == "dynamic" {
					if _, _, f, isF := an.FieldOf(dc.Call.Value); isF && f == "idInterceptor" {
						mapped = true
					}
				}
			}
			c.SawFunc(an.FuncName(top))
			c.Check(!mapped, rule, fmt.Sprintf("%s|hands %s the id as it was given", an.FuncName(top), g.Name()), call.Pos(), "the id passed on is not already mapped",
				"the id is mapped through the id interceptor and then handed to "+g.Name()+", which maps it again: with an interceptor that is not idempotent the item is stored under f(f(id)) and the other operations on the same id miss it")
		})
	}
	c.Count("id_handovers", n)
}

// r0119: a write option configures one thing. Each yes/no switch of a write request (create if absent, expect
// absent, allow missing, generate an id, all fields writable) is turned on by exactly one option: what a write may do
// is the union of the options its caller chose. An option that also flips another option's switch (generate-id
// implying create-if-absent) makes a write do what its caller did not ask for - Update on a missing id creates it.
func r0119(c *an.Ctx, rule string) {
	setters := map[string]map[string]token.Pos{}
	for _, fn := range c.Prog.FuncsIn(resPkg) {
		if strings.HasSuffix(c.Prog.RelFile(fn.Pos()), "_test.go") {
			continue
		}
		top := fn
		for top.Parent() != nil {
			top = top.Parent()
		}
		// (options only: a method that completes the request it computed itself, as Add might, is not a caller's choice)
		if res := top.Signature.Results(); res.Len() != 1 || !strings.HasSuffix(an.NamedTypeName(res.At(0).Type()), "pkg/resource.WriteOption") {
			continue
		}
		an.Instrs(fn, func(in ssa.Instruction) {
			st, ok := in.(*ssa.Store)
			if !ok {
				return
			}
			_, sn, fld, isF := an.FieldOf(st.Addr)
			if !isF || !strings.HasSuffix(sn, "pkg/resource.WriteRequest") {
				return
			}
			if b, isB := st.Val.Type().Underlying().(*types.Basic); !isB || b.Kind() != types.Bool {
				return
			}
			if setters[fld] == nil {
				setters[fld] = map[string]token.Pos{}
			}
			setters[fld][an.FuncName(top)] = st.Pos()
		})
	}
	var flds []string
	for f := range setters {
		flds = append(flds, f)
	}
	sort.Strings(flds)
	for _, f := range flds {
		var names []string
		pos := token.NoPos
		for n, p := range setters[f] {
			names = append(names, n)
			pos = p
		}
		sort.Strings(names)
		c.Check(len(names) == 1, rule, "pkg/resource.WriteRequest."+f+"|is switched by one option", pos, strings.Join(names, ", "),
			"the write-request switch "+f+" is set by more than one option ("+strings.Join(names, ", ")+"): an option turns on behaviour the caller did not choose (an Update with a generated id creating entries, a precondition that is never checked)")
	}
	c.Count("write_request_switches", len(flds))
}

// r0118: an error that is not a gRPC status passes through a write unchanged. Update decorates the STATUS errors it
// returns with the id; an error a caller's own precondition function returned ("the error returned from fn will be
// returned from the update call") is handed back as it is. status.Convert turns every error into a status - a plain
// error becomes a new Unknown one - so the resource package does not use it on an error it returns.
func r0118(c *an.Ctx, rule string) {
	n := 0
	var bad ssa.Instruction
	for _, fn := range c.Prog.FuncsIn(resPkg) {
		if strings.HasSuffix(c.Prog.RelFile(fn.Pos()), "_test.go") {
			continue
		}
		an.Instrs(fn, func(in ssa.Instruction) {
			call, ok := in.(*ssa.Call)
			if !ok {
				return
			}
			switch an.CalleeName(call) {
			case "google.golang.org/grpc/status.FromError":
				n++
			case "google.golang.org/grpc/status.Convert":
				n++
				bad = in
			}
		})
	}
	pos := token.NoPos
	if bad != nil {
		pos = bad.Pos()
	}
	c.Check(bad == nil && n > 0, rule, "pkg/resource|errors that are not statuses are returned as they are", pos, fmt.Sprintf("%d status inspections, all with FromError's ok", n),
		"status.Convert is applied to an error the package returns: a plain error from a caller's precondition function comes back as a new Unknown status instead of the error itself")
}
