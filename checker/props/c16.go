package props

import (
	"fmt"
	"go/token"
	"go/types"
	"regexp"
	"strings"

	"golang.org/x/tools/go/ssa"

	"scverif/an"
)

func init() {
	register(&Prop{
		ID:          "C16",
		Title:       "Message comparers are sound equivalences",
		Explanation: "R16.1 the default comparer mirrors proto.Equal structurally: compare handles nil and validity, equalMessage rejects different descriptors, stops at the first unequal field, requires the field to be set on both sides, compares field counts and unknown fields; equalField dispatches lists and maps before scalars and its change_time exception needs both the field name and a containing message called Change; equalValue covers every protoreflect.Kind with the accessor of that kind (NaN equal to NaN for floats) and consults the value comparer first, honouring its ok flag. R16.2 each tolerance comparer returns ok=false on every path where the field is not of its own kind / message type. R16.3 whenever a tolerance comparer decides (ok=true) its verdict is a constant, an agreement of validity, or `absdiff(x, y) <=/< T` where absdiff is one of the accepted absolute-difference idioms over one quantity derived from x and one derived from y, and T depends on x and y only through min/max of the same function of both (reflexive and symmetric by form). DurationValueWithinP does not have this form: recorded known finding F-15. R16.4 And/Or return at the first false/true and true/false after the loop; ValueAnd/ValueOr propagate ok only from comparers that spoke. R16.5 the resources apply the equivalence to projected values and skip only on its verdict (shared with R04.5/R04.6). R16.1 equalMessage: two passes whose per-field tables are both-populated -> equalField, one side only and zero-comparable (value comparer configured, singular field without presence) -> the configured comparer's verdict on the value and the zero value when it speaks, unequal when it does not (never the exact comparison of equalValue: a populated -0.0 is not an unset 0), otherwise unequal. R16.5 also: the equivalence is consulted only inside Pull subscriptions. R16.1 also: floats are compared by == on the accessor results themselves, not after another function (bit pattern, narrowing). Does NOT decide agreement with proto.Equal on all message pairs, tolerance arithmetic, NaN and unknown-field corner cases.",
		Assumptions: []string{"math.Abs/Min/Max, time.Time.Sub/Before have their mathematical meaning"},
		Run:         runC16,
		Controls: []Control{
			{Name: "float-operands-swapped", Silent: true, File: "pkg/cmp/cmp.go", Old: "\t\treturn fx == fy\n", New: "\t\treturn fy == fx\n"},
			{Name: "floats-compared-by-bit-pattern", File: "pkg/cmp/cmp.go", Old: "\t\treturn fx == fy\n", New: "\t\treturn math.Float64bits(fx) == math.Float64bits(fy)\n", Expect: "R16.1"},
			{Name: "no-duplicates-by-proto-equal", File: "pkg/resource/opt.go", Old: "func WithNoDuplicates() Option {\n\treturn WithMessageEquivalence(cmp.Equal())", New: "func WithNoDuplicates() Option {\n\treturn WithMessageEquivalence(proto.Equal)", Expect: "R16.8"},
			{Name: "identity-shortcut-by-subtraction", File: "pkg/cmp/number.go", Old: "\t\tif fx == fy || (math.IsNaN(fx) && math.IsNaN(fy)) {", New: "\t\tif fx-fy == 0 || (math.IsNaN(fx) && math.IsNaN(fy)) {", Expect: "R16.6"},
			{Name: "held-fallback-inverted", File: "pkg/resource/collection.go", Old: "\t\t\t\tlast, ok := held[change.Id]\n\t\t\t\tif !ok {\n", New: "\t\t\t\tlast, ok := held[change.Id]\n\t\t\t\tif ok {\n", Expect: "the held value is used when there is one"},
			{Name: "list-comparison-skips-the-first-element", File: "pkg/cmp/cmp.go", Old: "\tfor i := x.Len() - 1; i >= 0; i-- {\n", New: "\tfor i := x.Len() - 1; i > 0; i-- {\n", Expect: "R16.7"},
			{Name: "collection-removal-keeps-held", File: "pkg/resource/collection.go", Old: "\t\t\tif c.equivalence != nil {\n\t\t\t\tlast, ok := held[change.Id]", New: "\t\t\tif c.equivalence != nil && change.NewValue != nil {\n\t\t\t\tlast, ok := held[change.Id]", Expect: "every delivery updates"},
			{Name: "unknown-fields-last-occurrence-only", File: "pkg/cmp/cmp.go", Old: "\t\tmx[fnum] = append(mx[fnum], x[:n]...)", New: "\t\tmx[fnum] = x[:n:n]", Expect: "R16.1"},
			{Name: "delete-kind-case", File: "pkg/cmp/cmp.go", Old: "\tcase pref.StringKind:\n\t\treturn x.String() == y.String()\n", New: "", Expect: "R16.1"},
			{Name: "uint-compared-as-int", File: "pkg/cmp/cmp.go", Old: "\t\treturn x.Uint() == y.Uint()", New: "\t\treturn x.Int() == y.Int()", Expect: "R16.1"},
			{Name: "change-time-anywhere", File: "pkg/cmp/cmp.go", Old: "\treturn fd.Name() == \"change_time\" && fd.ContainingMessage().Name() == \"Change\"", New: "\treturn fd.Name() == \"change_time\"", Expect: "R16.1"},
			{Name: "missing-field-equal", File: "pkg/cmp/cmp.go", Old: "\t\tcase my.Has(fd):\n\t\t\tequal = eq.equalField(fd, vx, vy)\n\t\tcase eq.zeroComparable(fd):", New: "\t\tcase true:\n\t\t\tequal = eq.equalField(fd, vx, vy)\n\t\tcase eq.zeroComparable(fd):", Expect: "R16.1"},
			{Name: "revert-F42-zero-never-within-tolerance", File: "pkg/cmp/cmp.go", Old: "\t\tcase eq.zeroComparable(fd):\n\t\t\t// y holds the zero value, a value comparer may still accept the pair (0 is within 0.5 of 0.3)\n\t\t\tequal = eq.equalZero(fd, vx, vy)\n", New: "", Expect: "R16.1"},
			{Name: "revert-F49-zero-compared-exactly", File: "pkg/cmp/cmp.go", Old: "\t\t\tequal = eq.equalZero(fd, vx, vy)\n", New: "\t\t\tequal = eq.equalValue(fd, vx, vy)\n", Expect: "R16.1"},
			{Name: "revert-F50-float-not-reflexive", File: "pkg/cmp/number.go", Old: "\t\tif fx == fy || (math.IsNaN(fx) && math.IsNaN(fy)) {\n\t\t\t// a value is always equivalent to itself; the arithmetic below has no answer for infinities and NaN\n\t\t\treturn true, true\n\t\t}\n", New: "", Expect: "R16.6"},
			{Name: "float-identity-without-nan", File: "pkg/cmp/number.go", Old: "\t\tif fx == fy || (math.IsNaN(fx) && math.IsNaN(fy)) {\n", New: "\t\tif fx == fy {\n", Expect: "R16.6"},
			{Name: "revert-F51-change-time-needs-both", File: "pkg/cmp/cmp.go", Old: "\t\tcase ignored(fd):\n\t\t\t// not compared, whichever of the messages carry it\n", New: "", Expect: "change_time of a Change is skipped"},
			{Name: "float-identity-as-helper", Silent: true, File: "pkg/cmp/number.go", Old: "\t\tif fx == fy || (math.IsNaN(fx) && math.IsNaN(fy)) {\n", New: "\t\tif same := fx == fy || (math.IsNaN(fx) && math.IsNaN(fy)); same {\n"},
			{Name: "zero-comparable-without-comparer", File: "pkg/cmp/cmp.go", Old: "\treturn eq.cmpValue != nil && !fd.HasPresence() && !fd.IsList() && !fd.IsMap()", New: "\treturn !fd.HasPresence() && !fd.IsList() && !fd.IsMap()", Expect: "R16.1"},
			{Name: "second-pass-ignores-fields-only-y-has", File: "pkg/cmp/cmp.go", Old: "\t\tcase eq.zeroComparable(fd):\n\t\t\tequal = eq.equalZero(fd, mx.Get(fd), vy)\n\t\tdefault:\n\t\t\tequal = false\n", New: "\t\tcase eq.zeroComparable(fd):\n\t\t\tequal = eq.equalZero(fd, mx.Get(fd), vy)\n\t\tdefault:\n", Expect: "R16.1"},
			{Name: "ok-for-foreign-kinds", File: "pkg/cmp/number.go", Old: "\t\t\treturn false, false", New: "\t\t\treturn false, true", Expect: "R16.2"},
			{Name: "time-drop-before-branch", File: "pkg/cmp/time.go", Old: "\t\tif xt.Before(yt) {\n\t\t\treturn yt.Sub(xt) <= d, true\n\t\t}\n\t\treturn xt.Sub(yt) <= d, true", New: "\t\treturn xt.Sub(yt) <= d, true", Expect: "R16.3"},
			{Name: "float-asymmetric-margin", File: "pkg/cmp/number.go", Old: "relMarg := fraction * math.Min(math.Abs(fx), math.Abs(fy))", New: "relMarg := fraction * math.Abs(fx)", Expect: "R16.3"},
			{Name: "and-returns-true-early", File: "pkg/cmp/logic.go", Old: "\t\t\tif !eq(x, y) {\n\t\t\t\treturn false\n\t\t\t}\n\t\t}\n\t\treturn true", New: "\t\t\tif eq(x, y) {\n\t\t\t\treturn true\n\t\t\t}\n\t\t}\n\t\treturn false", Expect: "R16.4"},
			{Name: "valueand-ok-always", File: "pkg/cmp/logic.go", Old: "\t\treturn true, ok\n", New: "\t\treturn true, true\n", Expect: "R16.4"},
			{Name: "float-scale-from-signed-values", File: "pkg/cmp/number.go", Old: "math.Min(math.Abs(fx), math.Abs(fy))", New: "math.Abs(math.Min(fx, fy))", Expect: "R16.3"},
			{Name: "value-last-advances-when-suppressed", File: "pkg/resource/value.go", Old: "\t\t\tif r.equivalence != nil && r.equivalence.Compare(last, change.Value) {\n\t\t\t\tcontinue\n\t\t\t}\n\t\t\tlast = change.Value", New: "\t\t\tprev := last\n\t\t\tlast = change.Value\n\t\t\tif r.equivalence != nil && r.equivalence.Compare(prev, change.Value) {\n\t\t\t\tcontinue\n\t\t\t}", Expect: "R16.5"},
			{Name: "revert-F31-collection-old-vs-new", File: "pkg/resource/collection.go", Old: "\t\t\t\tif c.equivalence.Compare(last, change.NewValue) {", New: "\t\t\t\t_ = last\n\t\t\t\tif c.equivalence.Compare(change.OldValue, change.NewValue) {", Expect: "R16.5"},
			{Name: "collection-held-written-before-verdict", File: "pkg/resource/collection.go", Old: "\t\t\t\tif c.equivalence.Compare(last, change.NewValue) {", New: "\t\t\t\theld[change.Id] = change.NewValue\n\t\t\t\tif c.equivalence.Compare(last, change.NewValue) {", Expect: "R16.5"},
			{Name: "abs-spelling", Silent: true, File: "pkg/cmp/time.go", Old: "\t\tif xd < yd {\n\t\t\treturn yd-xd <= d, true\n\t\t}\n\t\treturn xd-yd <= d, true", New: "\t\tdiff := xd - yd\n\t\tif diff < 0 {\n\t\t\tdiff = -diff\n\t\t}\n\t\treturn diff <= d, true"},
		},
	})
}

const cmpPkg = "pkg/cmp"

func runC16(c *an.Ctx) {
	r161(c)
	r161unknown(c)
	r165writeSide(c)
	r162and3(c)
	r164(c)
	r045as(c, "R16.5")
	r046(c, "R16.5")
	r165held(c, "R16.5")
	c.Min("R16.1", 25)
	c.Min("R16.2", 4)
	c.Min("R16.3", 4)
	c.Min("R16.6", 1)
	r168(c, "R16.8")
	c.Min("R16.8", 1)
	r167(c, "R16.7")
	c.Min("R16.7", 1)
	c.Min("R16.4", 6)
	c.Min("R16.5", 4)
}

// kindConsts lists every constant of type protoreflect.Kind.
func kindConsts(c *an.Ctx) map[int64]string {
	out := map[int64]string{}
	tp := c.Prog.Deps["google.golang.org/protobuf/reflect/protoreflect"]
	if tp == nil {
		return out
	}
	for _, n := range tp.Scope().Names() {
		if cst, ok := tp.Scope().Lookup(n).(*types.Const); ok && strings.HasSuffix(n, "Kind") && cst.Type().String() == "google.golang.org/protobuf/reflect/protoreflect.Kind" {
			if v, ok := c.Prog.ConstInt("google.golang.org/protobuf/reflect/protoreflect", n); ok {
				out[v] = n
			}
		}
	}
	return out
}

func r161(c *an.Ctx) {
	const rule = "R16.1"
	kinds := kindConsts(c)
	if len(kinds) < 18 {
		c.Unk(rule, "protoreflect.Kind constants", 0, fmt.Sprintf("only %d Kind constants found", len(kinds)))
		return
	}
	// equalValue
	if fn := mustFunc(c, rule, cmpPkg, "equator", "equalValue"); fn != nil {
		name := "(pkg/cmp.equator).equalValue"
		var dom []int64
		for k := range kinds {
			dom = append(dom, k)
		}
		names := map[ssa.Value]string{fn.Params[0]: "eq", fn.Params[1]: "fd", fn.Params[2]: "x", fn.Params[3]: "y"}
		leaves := an.DecisionTree(fn, an.DTConfig{Names: names, Domains: map[string][]int64{"call fd.Kind()": dom}})
		c.Count("table_rows", len(leaves))
		accessor := map[string]string{"BoolKind": "Bool", "EnumKind": "Enum", "Int32Kind": "Int", "Sint32Kind": "Int", "Int64Kind": "Int", "Sint64Kind": "Int", "Sfixed32Kind": "Int", "Sfixed64Kind": "Int",
			"Uint32Kind": "Uint", "Uint64Kind": "Uint", "Fixed32Kind": "Uint", "Fixed64Kind": "Uint", "FloatKind": "Float", "DoubleKind": "Float", "StringKind": "String", "BytesKind": "Bytes", "MessageKind": "Message", "GroupKind": "Message"}
		seen := map[string]bool{}
		for _, l := range leaves {
			if l.Undec != "" || l.Panics {
				c.Unk(rule, name+"|table", fn.Pos(), l.Undec)
				return
			}
			// comparer consulted first
			cmpNil := l.Get("eq.cmpValue==nil")
			if cmpNil == "false" {
				okAtom := ""
				for a, v := range l.AssignM {
					if strings.HasPrefix(a, "call eq.cmpValue(fd, x, y)#1") {
						okAtom = v
					}
				}
				if okAtom == "true" {
					c.Check(l.Returns[0].S == "call eq.cmpValue(fd, x, y)#0", rule, name+"|a value comparer that spoke decides", l.RetPos, "", "when the value comparer reports ok its verdict is not what equalValue returns: "+l.Returns[0].S)
					continue
				}
				if okAtom == "" {
					c.Bad(rule, name+"|a value comparer that did not speak is ignored", l.RetPos, "the ok flag of the value comparer is not consulted")
					continue
				}
			}
			kv := l.Get("call fd.Kind()")
			if kv == "" {
				c.Bad(rule, name+"|kind dispatch", l.RetPos, "a path compares values without looking at the field kind")
				continue
			}
			var k int64
			fmt.Sscan(kv, &k)
			kn := kinds[k]
			if seen[kn] && cmpNil != "" {
				// same kind seen via the other comparer branch: still check
			}
			seen[kn] = true
			acc := accessor[kn]
			ret := l.Returns[0].S
			calls := strings.Join(l.Calls, " ; ")
			ok := true
			switch acc {
			case "":
				ok = false
			case "Message":
				ok = strings.Contains(ret, "equalMessage") && strings.Contains(calls, ".Message(x)") && strings.Contains(calls, ".Message(y)")
			case "Bytes":
				ok = strings.Contains(ret, "bytes.Equal") && strings.Contains(calls, ".Bytes(x)") && strings.Contains(calls, ".Bytes(y)")
			case "Float":
				// the verdict is `fx == fy, or both NaN`, as a truth table over the three tests this path may consult
				// (whatever their order and short-circuiting); combinations that cannot occur (equal yet NaN) are skipped
				var eqA, nxA, nyA, indirect string
				scan := func(a string) {
					hasX, hasY := strings.Contains(a, ".Float(x)"), strings.Contains(a, ".Float(y)")
					switch {
					case strings.Contains(a, "math.IsNaN(") && hasX && !hasY:
						nxA = a
					case strings.Contains(a, "math.IsNaN(") && hasY && !hasX:
						nyA = a
					case hasX && hasY && strings.Contains(a, "=="):
						eqA = a
						// the comparison is Go's == on the two float values themselves (IEEE equality, +0 == -0, as
						// proto.Equal has it): the same values sent through another function first (their bit
						// patterns, a narrower type, a formatted string) are compared by a different relation
						if strings.Count(a, "call") != 2 || strings.Contains(a, "convert") {
							indirect = a
						}
					}
				}
				// math.IsNaN is pure: a second evaluation (`call#2 math.IsNaN(v)`) is the same test as the first
				pure := regexp.MustCompile(`call#\d+ math\.IsNaN`)
				assign := map[string]string{}
				infeasible := false
				for a, v := range l.AssignM {
					na := pure.ReplaceAllString(a, "call math.IsNaN")
					if prev, dup := assign[na]; dup && prev != v {
						infeasible = true // the same pure test came out both ways: no execution takes this path
					}
					assign[na] = v
				}
				ret = pure.ReplaceAllString(ret, "call math.IsNaN")
				for a := range assign {
					scan(a)
				}
				scan(strings.TrimPrefix(ret, "!"))
				ok = strings.Contains(calls, ".Float(x)") && strings.Contains(calls, ".Float(y)")
				if infeasible {
					c.Check(ok, rule, name+"|"+kn+" compared with its own accessor", l.RetPos, acc, "a field of kind "+kn+" is compared without its Float accessor")
					continue
				}
				for _, e := range []bool{true, false} {
					for _, nx := range []bool{true, false} {
						for _, ny := range []bool{true, false} {
							if e && (nx || ny) {
								continue
							}
							env := map[string]bool{}
							if eqA != "" {
								env[eqA] = e
							}
							if nxA != "" {
								env[nxA] = nx
							}
							if nyA != "" {
								env[nyA] = ny
							}
							consistent := true
							for a, v := range assign {
								if val, known := env[a]; known && fmt.Sprint(val) != v {
									consistent = false
								}
							}
							if !consistent {
								continue
							}
							got, evaluable := evalBool(ret, env)
							if !evaluable || got != (e || (nx && ny)) {
								ok = false
							}
						}
					}
				}
				if indirect != "" {
					c.Bad(rule, name+"|"+kn+" values are compared directly", l.RetPos, "the two floats are compared as `"+indirect+"`, not by == on the values themselves: +0 and -0 (equal for proto.Equal) have different bit patterns, a narrowed value loses precision; messages that are equal are reported different")
				}
			default:
				ok = strings.Contains(ret, "."+acc+"(x)") && strings.Contains(ret, "."+acc+"(y)") && strings.Contains(ret, "==")
			}
			c.Check(ok, rule, name+"|"+kn+" compared with its own accessor", l.RetPos, acc, "a field of kind "+kn+" is compared as `"+ret+"` (expected the "+acc+" accessor of both values)")
		}
		for _, kn := range kinds {
			if !seen[kn] {
				c.Bad(rule, name+"|"+kn+" compared with its own accessor", fn.Pos(), "no path of equalValue handles kind "+kn)
			}
		}
	}
	// equalField
	if fn := mustFunc(c, rule, cmpPkg, "equator", "equalField"); fn != nil {
		name := "(pkg/cmp.equator).equalField"
		names := map[ssa.Value]string{fn.Params[0]: "eq", fn.Params[1]: "fd", fn.Params[2]: "x", fn.Params[3]: "y"}
		leaves := an.DecisionTree(fn, an.DTConfig{Names: names})
		c.Count("table_rows", len(leaves))
		okExc, okOrder := true, true
		nExc := 0
		for _, l := range leaves {
			if l.Undec != "" {
				c.Unk(rule, name+"|table", fn.Pos(), l.Undec)
				return
			}
			var nameIs, msgIs string
			for a, v := range l.AssignM {
				if strings.Contains(a, `"change_time"`) {
					nameIs = v
				}
				if strings.Contains(a, `"Change"`) {
					msgIs = v
				}
			}
			isList, isMap := l.Get("call fd.IsList()"), l.Get("call fd.IsMap()")
			ret := l.Returns[0].S
			if ret == "true" {
				nExc++
				if !(nameIs == "true" && msgIs == "true") {
					okExc = false
				}
				continue
			}
			switch {
			case isList == "true":
				if !strings.Contains(ret, "equalList") {
					okOrder = false
				}
			case isMap == "true":
				if !strings.Contains(ret, "equalMap") || isList != "false" {
					okOrder = false
				}
			default:
				if !strings.Contains(ret, "equalValue") || isList != "false" || isMap != "false" {
					okOrder = false
				}
			}
		}
		c.Check(okExc && nExc == 1, rule, name+"|only Change.change_time is ignored", fn.Pos(), "", "the ignored-field exception does not require both the field name change_time and a containing message named Change: other fields are treated as always equal")
		c.Check(okOrder, rule, name+"|lists and maps dispatch before singular values", fn.Pos(), "", "list/map fields are not compared with equalList/equalMap before the singular comparison")
	}
	// equalMessage
	if fn := mustFunc(c, rule, cmpPkg, "equator", "equalMessage"); fn != nil {
		name := "(pkg/cmp.equator).equalMessage"
		// descriptor guard
		okDesc := false
		for _, r := range an.Returns(fn) {
			if b, isC := an.ConstBool(r.Results[0]); isC && !b {
				for _, e := range an.GuardingEdges(r) {
					if bo, ok := e.If.Cond.(*ssa.BinOp); ok {
						if cx, ok := bo.X.(*ssa.Call); ok && cx.Call.IsInvoke() && cx.Call.Method.Name() == "Descriptor" {
							if (bo.Op == token.NEQ && e.Branch) || (bo.Op == token.EQL && !e.Branch) {
								okDesc = true
							}
						}
					}
				}
			}
		}
		c.Check(okDesc, rule, name+"|different descriptors are unequal", fn.Pos(), "", "messages of different types are not rejected")
		// The two passes over the populated fields, as decision tables of the Range callbacks:
		//   ranging over x:  y has the field            -> equalField(fd, vx, y.Get(fd))
		//                    y lacks it, zero-comparable -> equalValue(fd, vx, y.Get(fd))   (y reads as the zero value)
		//                    y lacks it otherwise        -> false
		//   ranging over y:  x has the field            -> verdict unchanged (compared in the first pass)
		//                    x lacks it, zero-comparable -> equalValue(fd, x.Get(fd), vy)
		//                    x lacks it otherwise        -> false
		// zero-comparable = a value comparer is configured and the field is singular without presence; with the default
		// comparer a populated field never equals an unpopulated one (as in proto.Equal), with a tolerance comparer 0 is
		// compared like any other value (0 is within 0.5 of 0.3).
		type pass struct {
			cb     *ssa.Function
			ranged ssa.Value
		}
		var passes []pass
		findPasses := func(f *ssa.Function) {
			an.Instrs(f, func(in ssa.Instruction) {
				call, ok := in.(*ssa.Call)
				if !ok || !call.Call.IsInvoke() || call.Call.Method.Name() != "Range" || len(call.Call.Args) != 1 {
					return
				}
				if cb := an.ClosureFn(call.Call.Args[0]); cb != nil && len(cb.Params) == 2 {
					passes = append(passes, pass{cb, call.Call.Value})
				}
			})
		}
		findPasses(fn)
		if len(passes) == 0 {
			// the passes may live in helpers the rules have not seen (equalPopulated(mx, my) …), in call order
			an.Instrs(fn, func(in ssa.Instruction) {
				if call, ok := in.(*ssa.Call); ok {
					if h := an.TransparentCallee(call); h != nil {
						findPasses(h)
					}
				}
			})
		}
		rangedIs := func(v ssa.Value, p *ssa.Parameter) bool {
			for _, s0 := range an.Sources(v) { // a helper's parameter resolves to what equalMessage passes
				if s0 == ssa.Value(p) {
					return true
				}
			}
			return false
		}
		okPasses := len(passes) == 2 && len(fn.Params) == 3 && rangedIs(passes[0].ranged, fn.Params[1]) && rangedIs(passes[1].ranged, fn.Params[2])
		if !okPasses {
			c.Note("R16.1: equalMessage has %d Range passes, %d parameters", len(passes), len(fn.Params))
		}
		c.Check(okPasses, rule, name+"|the populated fields of both messages are visited", fn.Pos(), "x.Range then y.Range",
			"equalMessage does not range over the populated fields of the first message and then of the second: fields only one side has populated go unnoticed")
		for pi, ps := range passes {
			if !okPasses {
				break
			}
			names := map[ssa.Value]string{ps.cb.Params[0]: "fd", ps.cb.Params[1]: "v"}
			for _, fv := range ps.cb.FreeVars {
				t := fv.Type().String()
				switch {
				case strings.HasSuffix(t, "protoreflect.Message"):
					names[fv] = "other"
				case strings.HasSuffix(t, "cmp.equator"):
					names[fv] = "eq"
				case t == "*bool":
					names[fv] = "equal"
				}
			}
			leaves := an.DecisionTree(ps.cb, an.DTConfig{Names: names})
			which := []string{"first pass (fields of x)", "second pass (fields of y)"}[pi]
			okTable, why := len(leaves) > 0, ""
			sawHas, sawZero, sawNo, sawIgnored := false, false, false, false
			for _, l := range leaves {
				if l.Undec != "" || l.Panics || len(l.Returns) != 1 {
					okTable, why = false, "table not extracted: "+l.Undec
					break
				}
				has := l.Get("call other.Has(fd)")
				notZero := l.Get("eq.cmpValue==nil") == "true" || l.Get("call fd.HasPresence()") == "true" || l.Get("call fd.IsList()") == "true" || l.Get("call fd.IsMap()") == "true"
				zero := l.Get("eq.cmpValue==nil") == "false" && l.Get("call fd.HasPresence()") == "false" && l.Get("call fd.IsList()") == "false" && l.Get("call fd.IsMap()") == "false"
				// what the path does, whatever the encoding of the verdict (an `equal` flag, a `mismatch` flag, early returns)
				stored, storedConst := "", false
				for _, r := range l.Recs {
					if strings.HasPrefix(r.Callee, "store ") && len(r.Args) == 1 {
						stored = r.Args[0].S
						if r.Args[0].B != nil {
							storedConst = true
						}
					}
				}
				ret := l.Returns[0].S
				retFalse := l.Returns[0].B != nil && !*l.Returns[0].B
				fieldCall, valueCall, otherCmp := "", "", false
				wantValue := "equalValue(eq, fd, v, call other.Get(fd))"
				if pi == 1 {
					wantValue = "equalValue(eq, fd, call other.Get(fd), v)"
				}
				for _, cl := range l.Calls {
					switch {
					case strings.HasPrefix(cl, "store "):
					case strings.HasSuffix(cl, "equalField(eq, fd, v, call other.Get(fd))"):
						fieldCall = cl
					case strings.HasSuffix(cl, wantValue):
						valueCall = cl
					case strings.Contains(cl, "equalField(") || strings.Contains(cl, "equalValue("):
						otherCmp = true
					}
				}
				fail := func(msg string) {
					if okTable {
						okTable, why = false, fmt.Sprintf("%s (path %v: calls %v, stores %q, returns %q)", msg, l.Assign, l.Calls, stored, ret)
					}
				}
				// the comparison's result decides: the path branches on it (and the unequal branch fails), or hands it on
				decides := func(call string) bool {
					if v, branched := l.AssignM["call "+call]; branched {
						return v == "true" || storedConst || retFalse
					}
					return strings.Contains(stored, call) || strings.Contains(ret, call)
				}
				// the exception: change_time of a message called Change is not compared, whichever side carries it
				ignoredRow := false
				{
					nameIs, msgIs := "", ""
					for a, v := range l.AssignM {
						if strings.Contains(a, `"change_time"`) && strings.Contains(a, "fd.Name()") {
							nameIs = v
						}
						if strings.Contains(a, `"Change"`) && strings.Contains(a, "ContainingMessage()") {
							msgIs = v
						}
					}
					ignoredRow = nameIs == "true" && msgIs == "true"
				}
				switch {
				case otherCmp:
					fail("values are compared in the wrong order or with the wrong operands")
				case ignoredRow:
					sawIgnored = true
					anyCmp := fieldCall != "" || valueCall != ""
					for _, cl := range l.Calls {
						if strings.Contains(cl, "eq.cmpValue(") {
							anyCmp = true
						}
					}
					if anyCmp || storedConst || retFalse {
						fail("change_time of a Change message takes part in the comparison")
					}
				case has == "true" && pi == 0:
					sawHas = true
					if fieldCall == "" || valueCall != "" || !decides(fieldCall) {
						fail("a field both messages have populated is not judged by equalField(fd, x's value, y's value)")
					}
				case has == "true" && pi == 1:
					sawHas = true
					if fieldCall != "" || valueCall != "" || storedConst || retFalse {
						fail("a field compared in the first pass is judged again in the second")
					}
				case has == "false" && zero:
					sawZero = true
					// only the configured comparer can make a populated value equal to the zero value the other side reads as:
					// its verdict when it speaks (ok), unequal when it does not. equalValue would fall back to the exact
					// comparison of the kind, under which a populated -0.0 equals an unset 0 (proto.Equal says they differ).
					wantCmp := "eq.cmpValue(fd, v, call other.Get(fd))"
					if pi == 1 {
						wantCmp = "eq.cmpValue(fd, call other.Get(fd), v)"
					}
					// (with a pointer receiver the comparer is reached through *eq)
					if l.AssignM["call *"+wantCmp+"#1"] != "" {
						wantCmp = "*" + wantCmp
					}
					for _, cl := range l.Calls {
						if cl == "*"+wantCmp {
							wantCmp = "*" + wantCmp
						}
					}
					cmpCalled := false
					for _, cl := range l.Calls {
						if cl == wantCmp {
							cmpCalled = true
						}
					}
					spoke := l.AssignM["call "+wantCmp+"#1"]
					verdict := "call " + wantCmp + "#0"
					storedFalse := false
					for _, r := range l.Recs {
						if strings.HasPrefix(r.Callee, "store ") && len(r.Args) == 1 {
							storedFalse = r.Args[0].B != nil && !*r.Args[0].B
						}
					}
					handsOn := func() bool {
						if v, branched := l.AssignM[verdict]; branched {
							return v == "true" || storedFalse || retFalse
						}
						return strings.Contains(stored, verdict) || strings.Contains(ret, verdict)
					}
					switch {
					case valueCall != "" || fieldCall != "":
						fail("a field that only one side has populated is compared with the other side's zero value by equalValue/equalField, whose exact comparison makes a populated -0.0 equal to an unset field (proto.Equal says they differ); only the configured value comparer may accept such a pair")
					case !cmpCalled:
						fail("a singular field without presence that only one side has populated is not put to the configured value comparer with the other side's zero value (x's value first)")
					case spoke == "true" && !handsOn():
						fail("the value comparer's verdict on a value and the other side's zero value is not what decides")
					case spoke == "false" && !(storedFalse || retFalse):
						fail("a populated field and an unpopulated one are not unequal when no value comparer speaks for the field")
					case spoke == "":
						fail("the value comparer's ok flag is not consulted for a field only one side has populated")
					}
				case has == "false" && notZero:
					sawNo = true
					if fieldCall != "" || valueCall != "" || !(storedConst || retFalse) {
						fail("a field only one side has populated (and that is not zero-comparable) does not make the messages unequal")
					}
				default:
					fail("path not covered by the table (a comparison that does not depend on which side has the field populated, or an incomplete zero-comparable test)")
				}
			}
			if okTable && !(sawHas && sawZero && sawNo) {
				okTable, why = false, fmt.Sprintf("rows missing (both populated: %v, zero-comparable: %v, one side only: %v)", sawHas, sawZero, sawNo)
			}
			c.SawFunc(an.FuncName(ps.cb))
			c.Check(sawIgnored, rule, name+"|"+which+": change_time of a Change is skipped whichever side carries it", ps.cb.Pos(), "the exception is decided before presence is looked at",
				"the "+which+" has no path that skips change_time of a Change message before looking at which side has it populated: the exception only applies when both messages carry the field, so Change{change_time: T} and Change{} compare unequal although the comparer is specified to ignore change_time")
			c.Check(okTable, rule, name+"|"+which+": populated on both sides, zero-comparable, or unequal", ps.cb.Pos(), fmt.Sprintf("%d paths", len(leaves)),
				"the per-field verdict of the "+which+" is not the specified table: "+why+". With the default comparer a populated field must never equal an unpopulated one (proto.Equal); with a value comparer the zero value of a field without presence is a value like any other (FloatValueApprox(0,1) accepts 0 and 0.5)")
		}
		okUnknown := false
		an.Instrs(fn, func(in ssa.Instruction) {
			if call, ok := in.(*ssa.Call); ok && strings.HasSuffix(an.CalleeName(call), "equator).equalUnknown") {
				okUnknown = true
			}
		})
		c.Check(okUnknown, rule, name+"|unknown fields are compared", fn.Pos(), "", "unknown fields are ignored")
	}
	// compare: nil handling
	if fn := mustFunc(c, rule, cmpPkg, "equator", "compare"); fn != nil {
		names := map[ssa.Value]string{fn.Params[0]: "eq", fn.Params[1]: "x", fn.Params[2]: "y"}
		leaves := an.DecisionTree(fn, an.DTConfig{Names: names})
		ok := len(leaves) > 0
		for _, l := range leaves {
			if l.Undec != "" {
				ok = false
				continue
			}
			xn, yn := l.Get("x==nil"), l.Get("y==nil")
			if xn == "true" || yn == "true" {
				want := xn == "true" && yn == "true"
				// (with one side nil, `x == y` on the two interfaces is true exactly when the other is nil too)
				both := xn == "true" && yn == "true"
				got, okb := evalBool(l.Returns[0].S, map[string]bool{"x==nil": xn == "true", "y==nil": yn == "true", "x==y": both, "y==x": both})
				if yn == "" {
					// x nil, y unknown: result must be `y == nil`
					g1, ok1 := evalBool(l.Returns[0].S, map[string]bool{"x==nil": true, "y==nil": true, "x==y": true, "y==x": true})
					g2, ok2 := evalBool(l.Returns[0].S, map[string]bool{"x==nil": true, "y==nil": false, "x==y": false, "y==x": false})
					if !ok1 || !ok2 || !g1 || g2 {
						ok = false
					}
					continue
				}
				if !okb || got != want {
					ok = false
				}
			}
		}
		c.Check(ok, rule, "(pkg/cmp.equator).compare|nil messages are equal only to nil", fn.Pos(), "", "nil handling differs from proto.Equal")
	}
}

// comparers lists the closures returned by the tolerance comparer constructors.
func comparerClosures(c *an.Ctx, rule string) map[string]*ssa.Function {
	out := map[string]*ssa.Function{}
	for _, n := range []string{"FloatValueApprox", "TimeValueWithin", "DurationValueWithin", "DurationValueWithinP"} {
		fn := mustFunc(c, rule, cmpPkg, "", n)
		if fn == nil || len(fn.AnonFuncs) != 1 {
			continue
		}
		out[n] = fn.AnonFuncs[0]
		c.SawFunc(an.FuncName(fn.AnonFuncs[0]))
	}
	return out
}

// depsOn computes which of the closure's x / y parameters a value depends on.
func depsOn(v ssa.Value, px, py *ssa.Parameter, c *an.Ctx, depth int) (onX, onY bool) {
	seen := map[ssa.Value]bool{}
	var walk func(v ssa.Value)
	walk = func(v ssa.Value) {
		if v == nil || seen[v] {
			return
		}
		seen[v] = true
		if v == ssa.Value(px) {
			onX = true
			return
		}
		if v == ssa.Value(py) {
			onY = true
			return
		}
		// result i of a module helper: follow into the callee
		if ex, ok := v.(*ssa.Extract); ok {
			if call, ok := ex.Tuple.(*ssa.Call); ok {
				if f := call.Call.StaticCallee(); f != nil && c.Prog.AllFuncs[f] && depth > 0 {
					for _, r := range an.Returns(f) {
						if ex.Index < len(r.Results) {
							for pi, prm := range f.Params {
								var dx, dy bool
								// dependence of the result on callee param pi
								dx, _ = depsOn(r.Results[ex.Index], prm, prm, c, depth-1)
								_ = dy
								if dx && pi < len(call.Call.Args) {
									walk(call.Call.Args[pi])
								}
							}
						}
					}
					return
				}
			}
		}
		if in, ok := v.(ssa.Instruction); ok {
			var ops []*ssa.Value
			for _, op := range in.Operands(ops) {
				if op != nil && *op != nil {
					walk(*op)
				}
			}
		}
		// loads of local cells
		if u, ok := v.(*ssa.UnOp); ok && u.Op == token.MUL {
			if cell := an.CellOf(u.X); cell != nil {
				for _, st := range an.StoresTo(cell) {
					walk(st.Val)
				}
			}
		}
	}
	walk(v)
	return
}

func r162and3(c *an.Ctx) {
	cl := comparerClosures(c, "R16.2")
	ownKind := map[string]func(atom string) bool{
		"FloatValueApprox": func(a string) bool { return strings.Contains(a, "fd.Kind()") },
	}
	_ = ownKind
	for _, name := range an.SortedKeys(cl) {
		f := cl[name]
		cons := "pkg/cmp." + name
		if len(f.Params) != 3 {
			c.Unk("R16.2", cons+"|signature", f.Pos(), "unexpected comparer signature")
			continue
		}
		px, py := f.Params[1], f.Params[2]
		// R16.2: on every path that decides (ok=true) a field-kind equality test came out true
		leaves := an.DecisionTree(f, an.DTConfig{Names: map[ssa.Value]string{f.Params[0]: "fd", px: "x", py: "y"}})
		c.Count("table_rows", len(leaves))
		nOK, okKind := 0, true
		for _, l := range leaves {
			if l.Undec != "" || l.Panics || len(l.Returns) != 2 {
				continue
			}
			if l.Returns[1].S != "true" {
				continue
			}
			nOK++
			has := false
			for a, v := range l.AssignM {
				if strings.Contains(a, "fd.Kind()") && strings.Contains(a, "==") && v == "true" {
					has = true
				}
			}
			// helper-based comparers: the decision was delegated (the helper is checked separately)
			for a := range l.AssignM {
				if strings.Contains(a, "cmpDuration") {
					has = true
				}
			}
			if !has {
				okKind = false
			}
		}
		c.Check(okKind && nOK > 0, "R16.2", cons+"|speaks (ok=true) only for fields of its own kind", f.Pos(), fmt.Sprintf("%d deciding path(s)", nOK), "the comparer reports ok=true on a path where no field-kind test succeeded: it overrides the comparison of fields of other kinds")

		// R16.6: a float is always within any tolerance of itself. The arithmetic |x-y| <= max(margin, fraction*min(|x|,|y|))
		// has no answer for NaN and for equal infinities (Inf-Inf is NaN, NaN <= t is false), so the identical pair has
		// to be accepted before it: every deciding path on which x == y, or on which both are NaN, returns true, and the
		// arithmetic verdict is only reached when neither holds.
		if name == "FloatValueApprox" {
			isEq := func(a string) bool {
				// the two values compared directly: `x-y == 0` is not the same test (Inf-Inf is NaN)
				return strings.Contains(a, "Float(x)") && strings.Contains(a, "Float(y)") && strings.Contains(a, "==") && !strings.Contains(a, "math.") && !strings.Contains(a, "-") && !strings.Contains(a, "+")
			}
			isNaN := func(a, side string) bool {
				return strings.HasPrefix(a, "call math.IsNaN(") && strings.Contains(a, "Float("+side+")") && !strings.Contains(a, "Float("+map[string]string{"x": "y", "y": "x"}[side]+")")
			}
			sawEq, sawNaN, okIdent, why := false, false, true, ""
			for _, l := range leaves {
				if l.Undec != "" || l.Panics || len(l.Returns) != 2 || l.Returns[1].S != "true" {
					continue
				}
				eq, nx, ny := "", "", ""
				for a, v := range l.AssignM {
					switch {
					case isEq(a):
						eq = v
					case isNaN(a, "x"):
						nx = v
					case isNaN(a, "y"):
						ny = v
					}
				}
				accepted := l.Returns[0].S == "true"
				switch {
				case eq == "true":
					sawEq = true
					if !accepted {
						okIdent, why = false, "a pair of equal values is not accepted"
					}
				case nx == "true" && ny == "true":
					sawNaN = true
					if !accepted {
						okIdent, why = false, "NaN is not equivalent to NaN"
					}
				case !accepted && l.Returns[0].S != "false":
					// the arithmetic verdict
					if eq != "false" || !(nx == "false" || ny == "false") {
						okIdent, why = false, "the arithmetic verdict is reached without the identical pair (x == y, both NaN) having been ruled out"
					}
				}
			}
			if okIdent && !(sawEq && sawNaN) {
				okIdent, why = false, fmt.Sprintf("no path accepts the identical pair up front (x == y handled: %v, both NaN handled: %v)", sawEq, sawNaN)
			}
			c.Check(okIdent, "R16.6", cons+"|a value is equivalent to itself (equal infinities, NaN)", f.Pos(), "x == y and both-NaN are accepted before the arithmetic",
				why+": |x-y| <= tolerance is false for x = y = +Inf (Inf-Inf is NaN) and for NaN, so the comparer is not reflexive there, while the default comparer and proto.Equal treat such a value as equal to itself; a resource with this equivalence re-emits an unchanged NaN/Inf reading on every write")
		}
		// R16.3
		for i, r := range an.Returns(f) {
			okFlag := false
			for _, v := range an.ValuesAt(r.Results[1]) {
				if b, isC := an.ConstBool(v); isC && b {
					okFlag = true
				}
			}
			if !okFlag {
				continue
			}
			verdict := r.Results[0]
			key := fmt.Sprintf("%s|verdict #%d is a symmetric bound on the absolute difference", cons, i+1)
			why := symmetricVerdict(c, verdict, r, px, py)
			if why == "" {
				c.Ok("R16.3", key, r.Pos(), "")
			} else {
				c.Bad("R16.3", cons+"|verdict is a symmetric bound on the absolute difference", r.Pos(), why)
			}
		}
	}
	// cmpDuration helper: ok=true only for Duration messages
	if fn := mustFunc(c, "R16.2", cmpPkg, "", "cmpDuration"); fn != nil {
		good := true
		n := 0
		isKindTest := func(e an.CondEdge) bool {
			bo, ok := e.If.Cond.(*ssa.BinOp)
			if !ok {
				return false
			}
			for _, op := range []ssa.Value{bo.X, bo.Y} {
				if call, ok := op.(*ssa.Call); ok && call.Call.IsInvoke() && call.Call.Method.Name() == "Kind" {
					return true
				}
			}
			return false
		}
		for _, r := range an.Returns(fn) {
			// every way the ok result becomes true (in cmpDuration or in a helper whose verdict it passes on) lies behind the kind test
			for _, lf := range an.PhiLeaves(r.Results[3]) {
				if b, isC := an.ConstBool(lf.Val); !isC || !b {
					continue
				}
				n++
				g := false
				for _, e := range append(append([]an.CondEdge{}, lf.Conds...), an.GuardingEdges(r)...) {
					g = g || isKindTest(e)
				}
				if !g {
					good = false
				}
			}
		}
		c.Check(good && n > 0, "R16.2", "pkg/cmp.cmpDuration|speaks only for message fields holding a Duration", fn.Pos(), "", "cmpDuration reports ok=true without the kind test")
		// the name test: both early exits for non-durations
		nameTest := false
		isDurationName := func(v ssa.Value) bool {
			cst, ok := v.(*ssa.Const)
			return ok && cst.Value != nil && cst.Value.ExactString() == `"google.protobuf.Duration"`
		}
		an.Instrs(fn, func(in ssa.Instruction) {
			if bo, ok := in.(*ssa.BinOp); ok && bo.Op == token.EQL && (isDurationName(bo.Y) || isDurationName(bo.X)) {
				nameTest = true
			}
			// the test sits in a helper that is given the name to look for
			if call, ok := in.(*ssa.Call); ok {
				if h := an.TransparentCallee(call); h != nil {
					for i, a := range call.Call.Args {
						if i >= len(h.Params) || !isDurationName(stripConvs(a)) {
							continue
						}
						prm := h.Params[i]
						an.Instrs(h, func(x ssa.Instruction) {
							if bo, ok := x.(*ssa.BinOp); ok && bo.Op == token.EQL && (stripConvs(bo.X) == ssa.Value(prm) || stripConvs(bo.Y) == ssa.Value(prm)) {
								nameTest = true
							}
						})
					}
				}
			}
		})
		c.Check(nameTest, "R16.2", "pkg/cmp.cmpDuration|identifies durations by full name", fn.Pos(), "", "no test for google.protobuf.Duration")
	}
}

// symmetricVerdict checks the form of a deciding verdict. "" = accepted.
func symmetricVerdict(c *an.Ctx, verdict ssa.Value, ret *ssa.Return, px, py *ssa.Parameter) string {
	for _, v := range an.ValuesAt(verdict) {
		if _, isC := an.ConstBool(v); isC {
			continue
		}
		bo, ok := v.(*ssa.BinOp)
		if !ok {
			// delegated to a helper's result (cmpDuration's early verdict): constants or validity agreement there
			if ex, isEx := v.(*ssa.Extract); isEx {
				if call, isCall := ex.Tuple.(*ssa.Call); isCall && strings.HasSuffix(an.CalleeName(call), "cmpDuration") {
					continue
				}
			}
			return "the verdict is not a comparison"
		}
		switch bo.Op {
		case token.EQL:
			// agreement of validity: mx.IsValid() == my.IsValid()
			cx, okx := bo.X.(*ssa.Call)
			cy, oky := bo.Y.(*ssa.Call)
			if okx && oky && cx.Call.IsInvoke() && cy.Call.IsInvoke() && cx.Call.Method.Name() == "IsValid" && cy.Call.Method.Name() == "IsValid" {
				continue
			}
			return "the verdict is an equality that is not an agreement of validity"
		case token.LEQ, token.LSS:
		case token.GEQ, token.GTR:
			// T >= absdiff: the same bound written the other way round
			bo = &ssa.BinOp{Op: token.LEQ, X: bo.Y, Y: bo.X}
		default:
			return "the verdict is not of the form absdiff <= T"
		}
		if why := absDiff(c, bo.X, ret, px, py); why != "" {
			return "the left-hand side of the verdict is not an absolute difference of a quantity of x and a quantity of y (" + why + "): the relation is not reflexive/symmetric (a value need not be equivalent to its own clone, and Compare(a, b) can differ from Compare(b, a))"
		}
		if why := symmetricBound(c, bo.Y, px, py); why != "" {
			return "the bound depends on the compared values asymmetrically (" + why + ")"
		}
	}
	return ""
}

// absDiff recognises the accepted absolute-difference idioms.
func absDiff(c *an.Ctx, d ssa.Value, ret *ssa.Return, px, py *ssa.Parameter) string {
	oneEach := func(a, b ssa.Value) bool {
		ax, ay := depsOn(a, px, py, c, 2)
		bx, by := depsOn(b, px, py, c, 2)
		return (ax && !ay && by && !bx) || (ay && !ax && bx && !by)
	}
	sub := func(v ssa.Value) (a, b ssa.Value, ok bool) {
		switch x := v.(type) {
		case *ssa.BinOp:
			if x.Op == token.SUB {
				return x.X, x.Y, true
			}
		case *ssa.Call:
			if an.CalleeName(x) == "(time.Time).Sub" && len(x.Call.Args) == 2 {
				return x.Call.Args[0], x.Call.Args[1], true
			}
		}
		return nil, nil, false
	}
	vals := an.ValuesAt(d)
	// (v) max(a, b) - min(a, b) over the same two quantities (builtins or math.Max/math.Min)
	if len(vals) == 1 {
		if bo, ok := vals[0].(*ssa.BinOp); ok && bo.Op == token.SUB {
			hi, okH := bo.X.(*ssa.Call)
			lo, okL := bo.Y.(*ssa.Call)
			if okH && okL && len(hi.Call.Args) == 2 && len(lo.Call.Args) == 2 {
				hn, ln := an.CalleeName(hi), an.CalleeName(lo)
				isMax := hn == "builtin max" || hn == "math.Max"
				isMin := ln == "builtin min" || ln == "math.Min"
				same := (hi.Call.Args[0] == lo.Call.Args[0] && hi.Call.Args[1] == lo.Call.Args[1]) || (hi.Call.Args[0] == lo.Call.Args[1] && hi.Call.Args[1] == lo.Call.Args[0])
				if isMax && isMin && same && oneEach(hi.Call.Args[0], hi.Call.Args[1]) {
					return ""
				}
			}
		}
	}
	// (i) math.Abs(a-b)
	if len(vals) == 1 {
		if call, ok := vals[0].(*ssa.Call); ok && an.CalleeName(call) == "math.Abs" {
			if a, b, ok := sub(call.Call.Args[0]); ok && oneEach(a, b) {
				return ""
			}
			return "math.Abs of something that is not x-quantity minus y-quantity"
		}
	}
	// (iii) d := a-b; if d < 0 { d = -d }  => phi(a-b, -(a-b)) selected by (a-b) < 0
	if len(vals) == 2 {
		var s, n ssa.Value
		for _, v := range vals {
			if u, ok := v.(*ssa.UnOp); ok && u.Op == token.SUB {
				n = u
			} else {
				s = v
			}
		}
		if s != nil && n != nil && n.(*ssa.UnOp).X == s {
			if a, b, ok := sub(s); ok && oneEach(a, b) {
				// the negation is chosen exactly when the difference is negative
				if ph, isPhi := d.(*ssa.Phi); isPhi {
					for i, e := range ph.Edges {
						if e == n {
							pred := ph.Block().Preds[i]
							g := false
							for _, ed := range an.GuardingEdges(pred.Instrs[0]) {
								if bo, ok := ed.If.Cond.(*ssa.BinOp); ok && bo.Op == token.LSS && bo.X == s && ed.Branch {
									if k, isC := an.ConstInt(bo.Y); isC && k == 0 {
										g = true
									}
								}
							}
							if g {
								return ""
							}
						}
					}
				}
				return "negation not selected by `difference < 0`"
			}
		}
	}
	// (iv) gap := b-a under a<b, else a-b, kept in a variable: every incoming difference is taken in the direction
	// its own path established as non-negative, or is the complement of such a test (the else side)
	if len(vals) == 2 {
		leaves := an.PhiLeaves(d)
		if len(leaves) == 2 {
			okAll := true
			ordered := 0
			for _, lf := range leaves {
				a, b, isSub := sub(lf.Val)
				if !isSub || !oneEach(a, b) {
					okAll = false
					continue
				}
				// computing hi-lo = a-b: look for lo<hi (true) / hi<lo (false) among the conditions of this path
				for _, e := range append(append([]an.CondEdge{}, lf.Conds...), an.GuardingEdges(ret)...) {
					hi, lo := a, b
					switch cond := e.If.Cond.(type) {
					case *ssa.BinOp:
						if (cond.Op == token.LSS || cond.Op == token.LEQ) && ((cond.X == lo && cond.Y == hi && e.Branch) || (cond.X == hi && cond.Y == lo && !e.Branch)) {
							ordered++
						}
						if (cond.Op == token.GTR || cond.Op == token.GEQ) && ((cond.X == hi && cond.Y == lo && e.Branch) || (cond.X == lo && cond.Y == hi && !e.Branch)) {
							ordered++
						}
					case *ssa.Call:
						n := an.CalleeName(cond)
						if len(cond.Call.Args) == 2 {
							x0, x1 := cond.Call.Args[0], cond.Call.Args[1]
							if n == "(time.Time).Before" && ((x0 == lo && x1 == hi && e.Branch) || (x0 == hi && x1 == lo && !e.Branch)) {
								ordered++
							}
							if n == "(time.Time).After" && ((x0 == hi && x1 == lo && e.Branch) || (x0 == lo && x1 == hi && !e.Branch)) {
								ordered++
							}
						}
					}
				}
			}
			if okAll && ordered >= 2 {
				return ""
			}
		}
	}
	// (ii) b-a under a<b, a-b otherwise: this return is guarded by the ordering test
	if len(vals) == 1 {
		if a, b, ok := sub(vals[0]); ok && oneEach(a, b) {
			for _, e := range an.GuardingEdges(ret) {
				switch cond := e.If.Cond.(type) {
				case *ssa.BinOp:
					// computing hi-lo: need lo<hi true, or hi<lo false …
					hi, lo := a, b
					if cond.Op == token.LSS && ((cond.X == lo && cond.Y == hi && e.Branch) || (cond.X == hi && cond.Y == lo && !e.Branch)) {
						return ""
					}
					if cond.Op == token.GTR && ((cond.X == hi && cond.Y == lo && e.Branch) || (cond.X == lo && cond.Y == hi && !e.Branch)) {
						return ""
					}
				case *ssa.Call:
					if an.CalleeName(cond) == "(time.Time).Before" && len(cond.Call.Args) == 2 {
						hi, lo := a, b
						if (cond.Call.Args[0] == lo && cond.Call.Args[1] == hi && e.Branch) || (cond.Call.Args[0] == hi && cond.Call.Args[1] == lo && !e.Branch) {
							return ""
						}
					}
					if an.CalleeName(cond) == "(time.Time).After" && len(cond.Call.Args) == 2 {
						hi, lo := a, b
						if (cond.Call.Args[0] == hi && cond.Call.Args[1] == lo && e.Branch) || (cond.Call.Args[0] == lo && cond.Call.Args[1] == hi && !e.Branch) {
							return ""
						}
					}
				}
			}
			return "a plain difference that is not guarded by the ordering of its operands (it can be negative, so the bound holds trivially in one direction)"
		}
	}
	return "no difference of the two compared quantities found"
}

// symmetricBound: T may depend on x and y only through min/max of f(x), f(y).
func symmetricBound(c *an.Ctx, t ssa.Value, px, py *ssa.Parameter) string {
	onX, onY := depsOn(t, px, py, c, 2)
	if !onX && !onY {
		return ""
	}
	// find the calls through which the dependence enters: every path from t to x/y must pass a symmetric math.Min/Max
	bad := ""
	seen := map[ssa.Value]bool{}
	var walk func(v ssa.Value)
	walk = func(v ssa.Value) {
		if v == nil || seen[v] {
			return
		}
		seen[v] = true
		if call, ok := v.(*ssa.Call); ok {
			n := an.CalleeName(call)
			if (n == "math.Min" || n == "math.Max" || n == "builtin min" || n == "builtin max") && len(call.Call.Args) == 2 {
				ax, ay := depsOn(call.Call.Args[0], px, py, c, 2)
				bx, by := depsOn(call.Call.Args[1], px, py, c, 2)
				if (ax && !ay && by && !bx) || (ay && !ax && bx && !by) {
					// same function applied to both?
					f1, ok1 := call.Call.Args[0].(*ssa.Call)
					f2, ok2 := call.Call.Args[1].(*ssa.Call)
					if ok1 && ok2 && an.CalleeName(f1) == an.CalleeName(f2) {
						// a relative scale must be a magnitude: for floating point quantities both operands are math.Abs(.)
						if b, isB := f1.Type().Underlying().(*types.Basic); isB && b.Info()&types.IsFloat != 0 && an.CalleeName(f1) != "math.Abs" {
							bad = "the scale of the relative margin is taken from the signed values (" + n + " of " + an.CalleeName(f1) + " results, not of their absolute values): for negative values the tolerance is scaled by the larger magnitude, so pairs outside the stated fraction are accepted and Compare(x, y) differs from Compare(-x, -y)"
						}
						return
					}
					if !ok1 && !ok2 {
						return
					}
				}
			}
		}
		if v == ssa.Value(px) || v == ssa.Value(py) {
			bad = "the bound uses one of the compared values directly"
			return
		}
		dx, dy := depsOn(v, px, py, c, 2)
		if !dx && !dy {
			return
		}
		if in, ok := v.(ssa.Instruction); ok {
			var ops []*ssa.Value
			for _, op := range in.Operands(ops) {
				if op != nil && *op != nil {
					walk(*op)
				}
			}
		}
	}
	walk(t)
	return bad
}

// r165writeSide: the configured equivalence is a statement about what ONE subscriber holds, so it is consulted only
// where a subscription forwards events (Pull and the functions that belong to it) - never on the write path, where a
// suppressed publication hides the write from every subscriber whatever each of them last saw.
func r165writeSide(c *an.Ctx) {
	const rule = "R16.5"
	n := 0
	for _, fn := range c.Prog.FuncsIn(resPkg) {
		if c.Prog.IsGenerated(fn.Pos()) {
			continue
		}
		for _, cl := range an.CallsIn(fn, func(s string) bool { return strings.HasSuffix(s, "pkg/resource.Comparer).Compare") }) {
			n++
			okOwner := true
			var owner string
			for _, o := range an.Owners(fn) {
				if o.Name() != "Pull" && o.Name() != "PullID" {
					okOwner, owner = false, an.FuncName(o)
				}
			}
			c.SawFunc(an.FuncName(fn))
			c.Check(okOwner, rule, an.FuncName(fn)+"|the equivalence is consulted per subscriber, not by the writer", cl.Pos(), "called from a Pull subscription",
				"the configured equivalence is evaluated in "+owner+", outside a Pull subscription: a write whose new value is equivalent to the stored one is not published at all, so a run of small steps is never delivered (each step is within the tolerance of the previous stored value although the subscriber's value is far behind) and an updates-only subscriber, which holds nothing, misses the write")
		}
	}
	c.Count("equivalence_calls", n)
}

// combinerBody: the function value a combinator (And, Or, ValueAnd, ValueOr) returns: its own literal, or the literal
// of a shared helper it delegates to (read in the combinator's context, see an.Focus).
func combinerBody(fn *ssa.Function) *ssa.Function {
	if len(fn.AnonFuncs) == 1 {
		return fn.AnonFuncs[0]
	}
	for _, r := range an.Returns(fn) {
		if len(r.Results) != 1 {
			continue
		}
		for _, s0 := range an.Sources(r.Results[0]) {
			if f := an.ClosureFn(s0); f != nil {
				return f
			}
		}
	}
	return nil
}

// boolOf: the constant v evaluates to in the focused context (a parameter of a shared helper bound to a constant at
// the combinator's call, its negation, a comparison of two such constants).
func boolOf(v ssa.Value) (bool, bool) {
	if b, ok := an.ConstBool(v); ok {
		return b, true
	}
	if u, ok := v.(*ssa.UnOp); ok && u.Op == token.NOT {
		if b, ok := boolOf(u.X); ok {
			return !b, true
		}
		return false, false
	}
	vals := an.ValuesAt(v)
	if len(vals) == 1 && vals[0] != v {
		return boolOf(vals[0])
	}
	return false, false
}

// comparerOutcome: what a conditional edge says about the result of a dynamic comparer call: `eq(x,y)`, `!eq(x,y)`,
// `eq(x,y) == K` / `!= K` with K a constant in the focused context. Returns the call and its result on the edge.
func comparerOutcome(e an.CondEdge, idx int) (*ssa.Call, bool, bool) {
	cond, branch := e.If.Cond, e.Branch
	for {
		if u, ok := cond.(*ssa.UnOp); ok && u.Op == token.NOT {
			cond, branch = u.X, !branch
			continue
		}
		break
	}
	asCall := func(v ssa.Value) *ssa.Call {
		if idx < 0 {
			if cl, ok := v.(*ssa.Call); ok && an.CalleeName(cl) == "dynamic" {
				return cl
			}
			return nil
		}
		if ex, ok := v.(*ssa.Extract); ok && ex.Index == idx {
			if cl, ok := ex.Tuple.(*ssa.Call); ok && an.CalleeName(cl) == "dynamic" {
				return cl
			}
		}
		return nil
	}
	if cl := asCall(cond); cl != nil {
		return cl, branch, true
	}
	if bo, ok := cond.(*ssa.BinOp); ok && (bo.Op == token.EQL || bo.Op == token.NEQ) {
		for _, pair := range [][2]ssa.Value{{bo.X, bo.Y}, {bo.Y, bo.X}} {
			cl := asCall(pair[0])
			k, isK := boolOf(pair[1])
			if cl == nil || !isK {
				continue
			}
			same := branch == (bo.Op == token.EQL) // the edge says call == k
			if same {
				return cl, k, true
			}
			return cl, !k, true
		}
	}
	return nil, false, false
}

// containsFuncCombiner: the body is `return [!]slices.ContainsFunc(eqs, func(eq) bool { return [!]eq(x, y) })` with
// no negation for a disjunction (stopOn true) and both negations for a conjunction; argsOK: the inner call passes the
// body's two parameters in order.
func containsFuncCombiner(a *ssa.Function, stopOn bool) (ok bool, argsOK bool) {
	rets := an.Returns(a)
	if len(rets) != 1 || len(rets[0].Results) != 1 {
		return false, false
	}
	strip := func(v ssa.Value) (ssa.Value, bool) {
		if u, isU := v.(*ssa.UnOp); isU && u.Op == token.NOT {
			return u.X, true
		}
		return v, false
	}
	v, neg1 := strip(rets[0].Results[0])
	// slices.IndexFunc(…) >= 0 is ContainsFunc, … < 0 its negation
	if bo, isBo := v.(*ssa.BinOp); isBo {
		if k, isC := an.ConstInt(bo.Y); isC {
			if ic, isIC := bo.X.(*ssa.Call); isIC && strings.HasPrefix(an.CalleeName(ic), "slices.IndexFunc") {
				switch {
				case bo.Op == token.GEQ && k == 0, bo.Op == token.GTR && k == -1, bo.Op == token.NEQ && k == -1:
					v = ic
				case bo.Op == token.LSS && k == 0, bo.Op == token.EQL && k == -1, bo.Op == token.LEQ && k == -1:
					v, neg1 = ic, !neg1
				}
			}
		}
	}
	call, isCall := v.(*ssa.Call)
	if !isCall || !(strings.HasPrefix(an.CalleeName(call), "slices.ContainsFunc") || strings.HasPrefix(an.CalleeName(call), "slices.IndexFunc")) || len(call.Call.Args) != 2 {
		return false, false
	}
	if strings.HasPrefix(an.CalleeName(call), "slices.IndexFunc") && v != ssa.Value(call) {
		return false, false
	}
	mc, isMC := call.Call.Args[1].(*ssa.MakeClosure)
	if !isMC {
		return false, false
	}
	inner, _ := mc.Fn.(*ssa.Function)
	if inner == nil || len(inner.Params) != 1 {
		return false, false
	}
	irets := an.Returns(inner)
	if len(irets) != 1 || len(irets[0].Results) != 1 {
		return false, false
	}
	iv, neg2 := strip(irets[0].Results[0])
	icall, isIC := iv.(*ssa.Call)
	if !isIC || icall.Call.Value != ssa.Value(inner.Params[0]) || len(icall.Call.Args) != 2 {
		return false, false
	}
	if neg1 != neg2 || neg1 == stopOn {
		return false, false
	}
	bound := func(arg ssa.Value) ssa.Value {
		// captured by reference: the closure loads the variable's cell, which the body filled from its parameter
		if u, isU := arg.(*ssa.UnOp); isU && u.Op == token.MUL {
			arg = u.X
		}
		for i, fv := range inner.FreeVars {
			if arg == ssa.Value(fv) && i < len(mc.Bindings) {
				b := mc.Bindings[i]
				if al, isAl := b.(*ssa.Alloc); isAl {
					var val ssa.Value
					cnt := 0
					for _, r := range *al.Referrers() {
						if st, isSt := r.(*ssa.Store); isSt && st.Addr == ssa.Value(al) {
							val = st.Val
							cnt++
						}
					}
					if cnt == 1 {
						return val
					}
					return nil
				}
				return b
			}
		}
		return nil
	}
	argsOK = len(a.Params) >= 2 && bound(icall.Call.Args[0]) == ssa.Value(a.Params[0]) && bound(icall.Call.Args[1]) == ssa.Value(a.Params[1])
	return true, argsOK
}

func r164(c *an.Ctx) {
	const rule = "R16.4"
	for _, t := range []struct {
		fn        string
		stopOn    bool // verdict that ends the loop early
		afterLoop bool
	}{{"And", false, true}, {"Or", true, false}} {
		fn := mustFunc(c, rule, cmpPkg, "", t.fn)
		if fn == nil {
			continue
		}
		restore := an.Focus(fn)
		a := combinerBody(fn)
		if a == nil {
			restore()
			continue
		}
		c.SawFunc(an.FuncName(a))
		if ok2, args2 := containsFuncCombiner(a, t.stopOn); ok2 {
			// the library spelling of the same loop: Or = ContainsFunc(eqs, eq(x, y)), And = !ContainsFunc(eqs, !eq(x, y))
			c.Ok(rule, "pkg/cmp."+t.fn+"|stops at the first deciding comparer", a.Pos(), "slices.ContainsFunc stops at the first match")
			c.Ok(rule, "pkg/cmp."+t.fn+"|verdict when no comparer decided", a.Pos(), "slices.ContainsFunc answers false without a match")
			c.Check(args2, rule, "pkg/cmp."+t.fn+"|comparers see (x, y) in order", a.Pos(), "", "a combined comparer is not called with (x, y)")
			restore()
			continue
		}
		okEarly, okAfter := false, false
		for _, r := range an.Returns(a) {
			b, isC := boolOf(r.Results[0])
			if !isC {
				continue
			}
			inLoop := false
			for _, e := range an.GuardingEdges(r) {
				if call, outcome, ok := comparerOutcome(e, -1); ok && call != nil {
					inLoop = true
					if outcome == t.stopOn && b == t.stopOn {
						okEarly = true
					}
				}
			}
			if !inLoop && b == t.afterLoop {
				okAfter = true
			}
		}
		c.Check(okEarly, rule, "pkg/cmp."+t.fn+"|stops at the first deciding comparer", a.Pos(), "", fmt.Sprintf("%s does not return %v as soon as a comparer returns %v", t.fn, t.stopOn, t.stopOn))
		c.Check(okAfter, rule, "pkg/cmp."+t.fn+"|verdict when no comparer decided", a.Pos(), "", fmt.Sprintf("%s does not return %v after all comparers", t.fn, t.afterLoop))
		// every comparer sees the same (x, y)
		sameArgs := true
		an.Instrs(a, func(in ssa.Instruction) {
			if call, ok := in.(*ssa.Call); ok && an.CalleeName(call) == "dynamic" {
				if len(call.Call.Args) != 2 || call.Call.Args[0] != ssa.Value(a.Params[0]) || call.Call.Args[1] != ssa.Value(a.Params[1]) {
					sameArgs = false
				}
			}
		})
		c.Check(sameArgs, rule, "pkg/cmp."+t.fn+"|comparers see (x, y) in order", a.Pos(), "", "a combined comparer is not called with (x, y)")
		restore()
	}
	for _, t := range []struct {
		fn     string
		stopOn bool
	}{{"ValueAnd", false}, {"ValueOr", true}} {
		fn := mustFunc(c, rule, cmpPkg, "", t.fn)
		if fn == nil {
			continue
		}
		restore := an.Focus(fn)
		defer restore()
		a := combinerBody(fn)
		if a == nil {
			continue
		}
		c.SawFunc(an.FuncName(a))
		var call *ssa.Call
		an.Instrs(a, func(in ssa.Instruction) {
			if cl, ok := in.(*ssa.Call); ok && an.CalleeName(cl) == "dynamic" {
				call = cl
			}
		})
		if call == nil {
			c.Bad(rule, "pkg/cmp."+t.fn+"|combines", a.Pos(), "no comparer is invoked")
			continue
		}
		okEarly, okAfter := false, false
		for _, r := range an.Returns(a) {
			eqv, isC := boolOf(r.Results[0])
			if !isC {
				continue
			}
			okConst, isOkC := boolOf(r.Results[1])
			// early return: guarded by ok2 true and equal == stopOn
			guardOk, guardEq := false, false
			for _, e := range an.GuardingEdges(r) {
				if cl, outcome, ok := comparerOutcome(e, 1); ok && cl == call && outcome {
					guardOk = true
				}
				if cl, outcome, ok := comparerOutcome(e, 0); ok && cl == call && outcome == t.stopOn {
					guardEq = true
				}
			}
			if guardOk && guardEq && eqv == t.stopOn && isOkC && okConst {
				okEarly = true
			}
			if !guardEq && eqv == !t.stopOn && !isOkC {
				// after the loop: ok is the accumulated flag: a phi of false and comparer oks
				acc := true
				for _, lf := range an.PhiLeaves(r.Results[1]) {
					v := lf.Val
					if b, isB := an.ConstBool(v); isB {
						if b {
							// `ok = true` is fine where a comparer has just reported ok; otherwise it speaks although nobody did
							spoke := false
							// the accumulator itself: phis of the web this value belongs to
							web := map[ssa.Value]bool{}
							var collect func(v ssa.Value)
							collect = func(v ssa.Value) {
								if ph, isPhi := v.(*ssa.Phi); isPhi && !web[ph] {
									web[ph] = true
									for _, e := range ph.Edges {
										collect(e)
									}
								}
							}
							collect(r.Results[1])
							for _, e := range lf.Conds {
								neg := false
								cond := e.If.Cond
								if u, isNot := cond.(*ssa.UnOp); isNot && u.Op == token.NOT {
									cond, neg = u.X, true
								}
								if cl, outcome, ok := comparerOutcome(e, 1); ok && cl == call && outcome {
									spoke = true
								}
								// `ok = ok || applies`: true because the flag was already true
								if web[cond] && e.Branch != neg {
									spoke = true
								}
							}
							if !spoke {
								acc = false
							}
						}
						continue
					}
					if !an.IsExtractOf(v, call, 1) {
						if _, isP := v.(*ssa.Parameter); !isP {
							acc = false
						}
					}
				}
				if acc {
					okAfter = true
				}
			}
		}
		c.Check(okEarly, rule, "pkg/cmp."+t.fn+"|a comparer that spoke decides early", a.Pos(), "", fmt.Sprintf("%s does not return (%v, true) when a comparer reports ok and %v", t.fn, t.stopOn, t.stopOn))
		c.Check(okAfter, rule, "pkg/cmp."+t.fn+"|ok only if some comparer spoke", a.Pos(), "", t.fn+" reports ok although no combined comparer spoke for the field (it then overrides the default comparison)")
	}
}

// r165held: the value the configured equivalence is judged against is what the subscriber holds:
// a loop-carried state of the Pull goroutine (Value: the `last` variable; Collection: a per-id map)
// that advances only on the path that goes on to deliver the change.
func r165held(c *an.Ctx, rule string) {
	for _, t := range [][2]string{{"Value", "Pull"}, {"Collection", "Pull"}} {
		fn := mustFunc(c, rule, resPkg, t[0], t[1])
		if fn == nil {
			continue
		}
		name := "(*pkg/resource." + t[0] + ")." + t[1]
		cons := name + "|equivalence is judged against what the subscriber holds"
		found := false
		for _, g := range an.GoStmts(fn) {
			f := an.GoTarget(g)
			if f == nil {
				continue
			}
			var loop *ssa.BasicBlock
			for _, rl := range an.RecvLoops(f) {
				loop = rl.Header
			}
			if loop == nil {
				continue
			}
			// the loop function and the local closures / unseen helpers it calls directly
			type site struct {
				fn   *ssa.Function
				call *ssa.Call // nil for f itself
			}
			bodies := []site{{fn: f}}
			an.Instrs(f, func(in ssa.Instruction) {
				if call, ok := in.(*ssa.Call); ok && loop.Dominates(call.Block()) {
					if g := an.TransparentCallee(call); g != nil && g != f {
						bodies = append(bodies, site{fn: g, call: call})
					}
				}
			})
			var cmpCall *ssa.Call
			for _, b := range bodies {
				an.Instrs(b.fn, func(in ssa.Instruction) {
					if call, ok := in.(*ssa.Call); ok && call.Call.IsInvoke() && call.Call.Method.Name() == "Compare" && len(call.Call.Args) == 2 {
						cmpCall = call
					}
				})
			}
			if cmpCall == nil {
				continue
			}
			found = true
			hasSend := false
			an.Instrs(f, func(in ssa.Instruction) {
				if an.IsSendSite(in) && loop.Dominates(in.Block()) {
					hasSend = true
				}
			})
			if !hasSend {
				c.Unk(rule, cons, f.Pos(), "no select that delivers the change found in the update loop")
				continue
			}
			// the loop-carried state the reference derives from: a phi at the loop header, a captured variable, or a map
			var hdrPhis []*ssa.Phi
			var cells []*an.Cell
			var mapVals []ssa.Value
			var mapCells []*an.Cell
			seen := map[ssa.Value]bool{}
			var walk func(v ssa.Value)
			walk = func(v ssa.Value) {
				if v == nil || seen[v] {
					return
				}
				seen[v] = true
				switch x := v.(type) {
				case *ssa.Phi:
					if x.Block() == loop {
						hdrPhis = append(hdrPhis, x)
						return
					}
					for _, e := range x.Edges {
						walk(e)
					}
				case *ssa.Extract:
					walk(x.Tuple)
				case *ssa.Lookup:
					if _, isMap := x.X.Type().Underlying().(*types.Map); isMap {
						if ld, isLoad := x.X.(*ssa.UnOp); isLoad && ld.Op == token.MUL {
							if cell := an.CellOf(ld.X); cell != nil {
								mapCells = append(mapCells, cell)
								return
							}
						}
						mapVals = append(mapVals, x.X)
					}
				case *ssa.UnOp:
					if x.Op == token.MUL {
						if cell := an.CellOf(x.X); cell != nil {
							// a variable shared between the loop and its closures (captured), e.g. `last`
							cells = append(cells, cell)
						}
					}
				case *ssa.ChangeInterface:
					walk(x.X)
				case *ssa.MakeInterface:
					walk(x.X)
				}
			}
			walk(cmpCall.Call.Args[0])
			if len(hdrPhis) == 0 && len(cells) == 0 && len(mapVals) == 0 && len(mapCells) == 0 {
				c.Bad(rule, cons, cmpCall.Pos(), "the first operand of equivalence.Compare does not derive from state carried across iterations of the update loop (the last delivered value): each change is compared with its immediate predecessor only, so with a tolerance comparer a run of small steps is suppressed one by one and the subscriber keeps a value that is no longer equivalent to the stored one")
				continue
			}
			why := ""
			// deliveredAfter: every way from instruction `in` (inside body b) to the next iteration delivers the change
			deliveredAfter := func(b site, in ssa.Instruction) bool {
				if b.call == nil {
					t, _ := an.PathQuery{Target: func(x ssa.Instruction) bool { return x.Block() == loop }, Avoid: an.IsSendSite}.From(f, in)
					return t == nil
				}
				// inside a closure: delivered before it returns ...
				t, _ := an.PathQuery{Target: func(x ssa.Instruction) bool { _, isRet := x.(*ssa.Return); return isRet }, Avoid: an.IsSendSite}.From(b.fn, in)
				if t == nil {
					return true
				}
				// ... or it reports one constant verdict after this point, and the caller delivers on that verdict
				var verdict *bool
				same := true
				for _, r := range an.Returns(b.fn) {
					if !an.Reaches(in, r) || len(r.Results) != 1 {
						continue
					}
					for _, lf := range an.PhiLeaves(r.Results[0]) {
						k, isC := an.ConstBool(lf.Val)
						if !isC {
							same = false
							continue
						}
						if verdict == nil {
							verdict = &k
						} else if *verdict != k {
							same = false
						}
					}
				}
				if verdict == nil || !same {
					return false
				}
				avoidEdge := func(from, to *ssa.BasicBlock) bool {
					iff, isIf := from.Instrs[len(from.Instrs)-1].(*ssa.If)
					if !isIf || from.Succs[0] == from.Succs[1] {
						return false
					}
					cond, neg := iff.Cond, false
					if u, isNot := cond.(*ssa.UnOp); isNot && u.Op == token.NOT {
						cond, neg = u.X, true
					}
					if cond != ssa.Value(b.call) {
						return false
					}
					// the edge on which the call's result differs from the verdict is infeasible here
					other := !*verdict
					if neg {
						other = !other
					}
					if other {
						return to == from.Succs[0]
					}
					return to == from.Succs[1]
				}
				t2, _ := an.PathQuery{Target: func(x ssa.Instruction) bool { return x.Block() == loop }, Avoid: an.IsSendSite, AvoidEdge: avoidEdge}.From(f, b.call)
				return t2 == nil
			}
			for _, phi := range hdrPhis {
				for i, e := range phi.Edges {
					pred := loop.Preds[i]
					if !loop.Dominates(pred) {
						continue // entry edge: the seed
					}
					var chk func(v ssa.Value, p *ssa.BasicBlock, depth int)
					chk = func(v ssa.Value, p *ssa.BasicBlock, depth int) {
						if v == ssa.Value(phi) || depth > 6 {
							return
						}
						if inner, ok := v.(*ssa.Phi); ok && inner.Block() != loop {
							for j, ie := range inner.Edges {
								chk(ie, inner.Block().Preds[j], depth+1)
							}
							return
						}
						// the new reference value arrives over this edge: a delivery must dominate it
						delivered := false
						an.Instrs(f, func(in ssa.Instruction) {
							if an.IsSendSite(in) && loop.Dominates(in.Block()) && in.Block().Dominates(p) {
								delivered = true
							}
						})
						if !delivered {
							why = fmt.Sprintf("the reference value is replaced on the edge from block %d to the loop header, which is taken without delivering the change (at %s)", p.Index, c.Prog.Rel(cmpCall.Pos()))
						}
					}
					chk(e, pred, 0)
				}
			}
			for _, b := range bodies {
				an.Instrs(b.fn, func(in ssa.Instruction) {
					if b.call == nil && !loop.Dominates(in.Block()) {
						return
					}
					isWrite := false
					isOurMap := func(m ssa.Value) bool {
						for _, mv := range mapVals {
							if m == mv {
								return true
							}
						}
						if ld, isLoad := m.(*ssa.UnOp); isLoad && ld.Op == token.MUL {
							if cell := an.CellOf(ld.X); cell != nil {
								for _, mc := range mapCells {
									if mc.Alloc == cell.Alloc {
										return true
									}
								}
							}
						}
						return false
					}
					switch x := in.(type) {
					case *ssa.MapUpdate:
						isWrite = isOurMap(x.Map)
					case *ssa.Call:
						isWrite = an.CalleeName(x) == "builtin delete" && len(x.Call.Args) == 2 && isOurMap(x.Call.Args[0])
					case *ssa.Store:
						if cell := an.CellOf(x.Addr); cell != nil {
							for _, sc := range cells {
								if sc.Alloc == cell.Alloc {
									isWrite = true
								}
							}
						}
					}
					if !isWrite {
						return
					}
					if !deliveredAfter(b, in) {
						why = "the reference (last delivered value) is written at " + c.Prog.Rel(in.Pos()) + " on a path that reaches the next iteration without delivering the change"
					}
				})
			}
			// the value looked up in the per-id reference is used exactly when the look-up found an entry; the fallback (the
			// change's own old value) when it did not. The other way round the held value is never consulted
			if len(mapVals)+len(mapCells) > 0 {
				okPol, sawLookup := true, false
				for _, lf := range an.PhiLeaves(cmpCall.Call.Args[0]) {
					ex, isEx := lf.Val.(*ssa.Extract)
					var lk *ssa.Lookup
					if isEx {
						lk, _ = ex.Tuple.(*ssa.Lookup)
					}
					fromLookup := lk != nil && lk.CommaOk && ex.Index == 0
					if fromLookup {
						sawLookup = true
					}
					for _, ce := range lf.Conds {
						cond, pol := ce.If.Cond, ce.Branch
						if u, isU := cond.(*ssa.UnOp); isU && u.Op == token.NOT {
							cond, pol = u.X, !pol
						}
						okEx, isOkEx := cond.(*ssa.Extract)
						if !isOkEx || okEx.Index != 1 {
							continue
						}
						if l2, isL := okEx.Tuple.(*ssa.Lookup); !isL || !l2.CommaOk {
							continue
						}
						// pol: the look-up's ok on this edge
						if fromLookup != pol {
							okPol = false
						}
					}
				}
				if sawLookup {
					c.Check(okPol, rule, name+"|the held value is used when there is one", cmpCall.Pos(), "lookup value on ok, the change's old value otherwise",
						"the value the subscriber holds is replaced by the change's own old value exactly when there IS a held entry (and the missing entry is used when there is none): the equivalence is judged against the previous stored value again, so a run of small steps is suppressed although the subscriber's value is no longer equivalent to the stored one")
				}
			}
			// the other direction, for a reference kept per id in a map: every delivery made while an equivalence is
			// configured records what the subscriber now holds (a removal forgets the entry), else a later change is
			// compared with a value the subscriber no longer has
			if len(mapVals)+len(mapCells) > 0 && cmpCall.Parent() == f {
				isOurMap := func(m ssa.Value) bool {
					for _, mv := range mapVals {
						if m == mv {
							return true
						}
					}
					if ld, isLoad := m.(*ssa.UnOp); isLoad && ld.Op == token.MUL {
						if cell := an.CellOf(ld.X); cell != nil {
							for _, mc := range mapCells {
								if mc.Alloc == cell.Alloc {
									return true
								}
							}
						}
					}
					return false
				}
				isRefWrite := func(in ssa.Instruction) bool {
					switch x := in.(type) {
					case *ssa.MapUpdate:
						return isOurMap(x.Map)
					case *ssa.Call:
						return an.CalleeName(x) == "builtin delete" && len(x.Call.Args) == 2 && isOurMap(x.Call.Args[0])
					}
					return false
				}
				// edges on which no equivalence is configured are exempt
				noEquivalence := func(from, to *ssa.BasicBlock) bool {
					iff, isIf := from.Instrs[len(from.Instrs)-1].(*ssa.If)
					if !isIf || len(from.Succs) != 2 || from.Succs[0] == from.Succs[1] {
						return false
					}
					x, trueMeansNil, ok := an.NilTest(iff.Cond)
					// (the reference map itself is only made when an equivalence is configured: `held == nil` says the same)
					if !ok || !(isFieldLoad(x, "equivalence") || isOurMap(x)) {
						return false
					}
					if trueMeansNil {
						return to == from.Succs[0]
					}
					return to == from.Succs[1]
				}
				cons2 := name + "|every delivery updates what the subscriber holds"
				var first ssa.Instruction
				for _, in := range loop.Instrs {
					if _, isPhi := in.(*ssa.Phi); !isPhi {
						first = in
						break
					}
				}
				if first != nil {
					t, _ := an.PathQuery{Target: func(x ssa.Instruction) bool { return an.IsSendSite(x) && loop.Dominates(x.Block()) }, Avoid: isRefWrite, AvoidEdge: noEquivalence}.From(f, first)
					pos := cmpCall.Pos()
					if t != nil {
						pos = t.Pos()
					}
					c.Check(t == nil, rule, cons2, pos, "every path to the delivery writes or deletes the per-id reference",
						"with an equivalence configured a change can be delivered without the per-id reference being written or deleted: after a delivered removal (or whichever kind of change skips the bookkeeping) the next change of that id is compared with a value the subscriber no longer holds, so a re-added item equivalent to the removed one is never announced")
				}
			}
			c.Check(why == "", rule, cons, cmpCall.Pos(), fmt.Sprintf("%d loop-carried variable(s), %d shared variable(s), %d map(s)", len(hdrPhis), len(cells), len(mapVals)+len(mapCells)),
				why+": a suppressed change still moves the reference, so a run of small steps is never reported although the subscriber's value is no longer equivalent to the stored one")
		}
		if !found {
			c.Unk(rule, cons, fn.Pos(), "no equivalence.Compare call found in the Pull goroutine")
		}
	}
}

// r161unknown: unknown fields are compared per field number with ALL their occurrences: the per-number index is
// built by appending each raw entry to what was already recorded for that number.
func r161unknown(c *an.Ctx) {
	const rule = "R16.1"
	fn := mustFunc(c, rule, cmpPkg, "equator", "equalUnknown")
	if fn == nil {
		return
	}
	name := "(pkg/cmp.equator).equalUnknown"
	n, ok := 0, true
	var where ssa.Instruction
	scope := append([]*ssa.Function{fn}, an.AnonFuncsDeep(fn)...)
	// a parsing helper the rules have not seen counts once per call (`mx := group(x); my := group(y)`)
	for _, vc := range an.CallsToDeepMatch(fn, func(s string) bool { return strings.HasSuffix(s, "protowire.ConsumeField") }) {
		if vc.Via != nil {
			scope = append(scope, vc.Via)
		}
	}
	for _, f := range scope {
		an.Instrs(f, func(in ssa.Instruction) {
			mu, isMU := in.(*ssa.MapUpdate)
			if !isMU || !strings.Contains(mu.Map.Type().String(), "RawFields") {
				return
			}
			n++
			// the stored value is append(<the map's entry for the same key>, …)
			accumulates := false
			for _, v := range an.ValuesAt(mu.Value) {
				call, isCall := v.(*ssa.Call)
				if !isCall || an.CalleeName(call) != "builtin append" {
					continue
				}
				for _, b := range an.ValuesAt(call.Call.Args[0]) {
					if lk, isLk := b.(*ssa.Lookup); isLk && lk.X == mu.Map && an.SameValues(lk.Index, mu.Key) {
						accumulates = true
					}
				}
			}
			if !accumulates {
				ok, where = false, in
			}
		})
	}
	pos := fn.Pos()
	if where != nil {
		pos = where.Pos()
	}
	c.Check(ok && n >= 2, rule, name+"|every occurrence of an unknown field number is compared", pos, fmt.Sprintf("%d index updates", n),
		"the per-field-number index of unknown fields does not append to the entries already recorded for that number: with a repeated unknown field only the last occurrence is compared, so messages that differ in an earlier one are reported equal (proto.Equal says they differ)")
}

func stripConvs(v ssa.Value) ssa.Value {
	for {
		switch x := v.(type) {
		case *ssa.Convert:
			v = x.X
		case *ssa.ChangeType:
			v = x.X
		default:
			return v
		}
	}
}

// r167: equalList compares EVERY pair of elements: the loop over the indices admits index 0 (and the last index). A
// loop that stops above 0 never looks at the first element, so two lists that differ only there are "equal" - a
// resource with such an equivalence never announces a change of the first item of a repeated field.
func r167(c *an.Ctx, rule string) {
	fn := mustFunc(c, rule, cmpPkg, "equator", "equalList")
	if fn == nil {
		return
	}
	name := "(pkg/cmp.equator).equalList"
	n, ok := 0, true
	var where ssa.Instruction
	an.Instrs(fn, func(in ssa.Instruction) {
		call, isCall := in.(*ssa.Call)
		if !isCall || !call.Call.IsInvoke() || call.Call.Method.Name() != "Get" || len(call.Call.Args) != 1 {
			return
		}
		idx := call.Call.Args[0]
		var at int64
		if b, isB := idx.(*ssa.BinOp); isB && (b.Op == token.ADD || b.Op == token.SUB) {
			if k, isC := an.ConstInt(b.Y); isC {
				idx = b.X
				if b.Op == token.ADD {
					at = -k
				} else {
					at = k
				}
			}
		}
		for _, e := range an.GuardingEdges(call) {
			bo, isBO := e.If.Cond.(*ssa.BinOp)
			if !isBO {
				continue
			}
			var k int64
			op := bo.Op
			switch {
			case bo.X == idx:
				kk, isC := an.ConstInt(bo.Y)
				if !isC {
					continue
				}
				k = kk
			case bo.Y == idx:
				kk, isC := an.ConstInt(bo.X)
				if !isC {
					continue
				}
				k = kk
				op = map[token.Token]token.Token{token.LSS: token.GTR, token.LEQ: token.GEQ, token.GTR: token.LSS, token.GEQ: token.LEQ, token.EQL: token.EQL, token.NEQ: token.NEQ}[bo.Op]
			default:
				continue
			}
			var at0 bool
			switch op {
			case token.GEQ:
				at0 = at >= k
			case token.GTR:
				at0 = at > k
			case token.LEQ:
				at0 = at <= k
			case token.LSS:
				at0 = at < k
			case token.NEQ:
				at0 = at != k
			case token.EQL:
				at0 = at == k
			default:
				continue
			}
			if !e.Branch {
				at0 = !at0
			}
			n++
			if !at0 {
				ok, where = false, e.If
			}
		}
	})
	pos := fn.Pos()
	if where != nil {
		pos = where.Pos()
	}
	// an ascending loop `for i := 0; i < n; i++` has no constant bound on the element access: nothing to decide there
	if n == 0 {
		c.Ok(rule, name+"|every index is compared, index 0 included", fn.Pos(), "no constant lower bound on the index")
		return
	}
	c.Check(ok, rule, name+"|every index is compared, index 0 included", pos, fmt.Sprintf("%d bound(s) on the index admit 0", n),
		"the loop over the list elements stops above index 0: the first elements of two lists are never compared, so lists that differ only there count as equal (proto.Equal says they differ) and a change of the first item of a repeated field is suppressed as a duplicate")
}

// r168: "no duplicates" means no EQUIVALENT values in the module's own sense - cmp.Equal(), which leaves out what the
// default comparer documents as not part of a value (the change_time carried inside Change messages). proto.Equal is
// not the same relation: with it a write that differs only there is announced again. WithNoDuplicates configures the
// equivalence cmp.Equal() builds.
func r168(c *an.Ctx, rule string) {
	fn := mustFunc(c, rule, resPkg, "", "WithNoDuplicates")
	if fn == nil {
		return
	}
	name := an.FuncName(fn)
	c.SawFunc(name)
	uses := false
	for _, f := range append([]*ssa.Function{fn}, an.TransparentCalleesOf(fn, 1)...) {
		an.Instrs(f, func(in ssa.Instruction) {
			if call, ok := in.(*ssa.Call); ok && strings.HasSuffix(an.CalleeName(call), "pkg/cmp.Equal") {
				uses = true
			}
		})
	}
	c.Check(uses, rule, name+"|uses the module's default comparer", fn.Pos(), "cmp.Equal()",
		"WithNoDuplicates does not build its equivalence with cmp.Equal(): values the default comparer calls equal (differing only in a Change's change_time) are delivered again")
}
