package props

import (
	"fmt"
	"go/token"
	"go/types"
	"regexp"
	"strconv"
	"strings"

	"golang.org/x/tools/go/ssa"

	"scverif/an"
)

func init() {
	register(&Prop{
		ID:          "C15",
		Title:       "Paged List RPCs enumerate every item exactly once",
		Explanation: "Scope: every handler under pkg/trait that pages with a key token (discovered as the callers of a package-local capPageSize: electric ListModes, hail ListHails, parent ListChildren, publication ListPublications, vending ListConsumables and ListInventory) and waste ListWasteRecords. R15.1 the page size used is within [1, max] for every int32 request value or the handler has returned an error status first: capPageSize's table maps 0 to the default and anything above the maximum to the maximum, and negative sizes are rejected with InvalidArgument before use. R15.2 every failure of decodePageToken is an InvalidArgument status and the handler returns it before doing anything else. R15.3 request-controlled indexes are bounded by the length of the indexed slice (waste's index token). R15.4 progress without duplicates: the next token is the key of the last element of the page, the search predicate over the listing is strict on that same key field (or non-strict followed by an equality skip), and a handler that sorts the listing itself sorts ascending by that field. R15.5 the token is cleared when the page reaches the end and total_size is the length of the full listing. R15.6 the page is listing[next : min(next+size, len)]. R15.7 Collection.List is sorted by id on every path. R15.12 every error a paged handler answers with is a gRPC status (a status constructor, or a module function whose error returns are; the error of a parsing library handed back as it is is reported). Waste handler: count within [1,1000], token = start - count under full page and remaining records, page starts at the parsed token. Does NOT decide that the concatenation of pages equals the listing for all sizes (arithmetic over runtime lengths), nor that the model's listing is sorted by the key field (collection id = key is a runtime fact).",
		Assumptions: []string{"sort.Search(n, f) returns an index in [0, n]; Collection.List is sorted by id (C01 R01.4)"},
		Run:         runC15,
		Controls: []Control{
			{Name: "skip-stops-before-the-last-child", File: "pkg/trait/parentpb/model_server.go", Old: "\t\tif nextIndex < len(all) && all[nextIndex].Name == lastKey {\n", New: "\t\tif nextIndex < len(all)-1 && all[nextIndex].Name == lastKey {\n", Expect: "R15.4"},
			{Name: "waste-walk-stops-above-zero", File: "pkg/trait/wastepb/model.go", Old: "\tfor i := start - 1; i >= 0; i-- {\n", New: "\tfor i := start - 1; i > 0; i-- {\n", Expect: "R15.11"},
			{Name: "id-callback-writes-the-callers-copy", File: "pkg/trait/vendingpb/model.go", Old: "\treturn castConsumable(m.consumables.Add(consumable.Name, consumable, resource.WithGenIDIfAbsent()", New: "\trecord := proto.Clone(consumable).(*traits.Consumable)\n\treturn castConsumable(m.consumables.Add(consumable.Name, record, resource.WithGenIDIfAbsent()", Expect: "R15.10"},
			{Name: "revert-F44-listing-fetched-with-read-mask", File: "pkg/trait/hailpb/model_server.go", Old: "\tsortedItems := m.model.ListHails()\n", New: "\tsortedItems := m.model.ListHails(resource.WithReadMask(request.ReadMask))\n", Expect: "R15.9"},
			{Name: "token-alphabets-differ", File: "pkg/trait/vendingpb/pages.go", Old: "\t\treturn base64.StdEncoding.EncodeToString(tokenBytes), nil", New: "\t\treturn base64.URLEncoding.EncodeToString(tokenBytes), nil", Expect: "R15.8"},
			{Name: "waste-token-shadowed", File: "pkg/trait/wastepb/model_server.go", Old: "\t\tstartIndex, _ = strconv.Atoi(pageToken)", New: "\t\tstartIndex, _ := strconv.Atoi(pageToken)", Expect: "R15.4"},
			{Name: "remove-upper-cap", File: "pkg/trait/hailpb/pages.go", Old: "\tif pageSize > maxPageSize {\n\t\treturn maxPageSize\n\t}\n", New: "", Expect: "R15.1"},
			{Name: "search-not-strict", File: "pkg/trait/publicationpb/model_server.go", Old: "\t\t\treturn sortedItems[i].Id > lastKey", New: "\t\t\treturn sortedItems[i].Id >= lastKey", Expect: "R15.4"},
			{Name: "token-from-first-item", File: "pkg/trait/vendingpb/model_server.go", Old: "\t\t\tLastResourceName: sortedItems[upperBound-1].Consumable,", New: "\t\t\tLastResourceName: sortedItems[nextIndex].Consumable,", Expect: "R15.4"},
			{Name: "waste-token-raw-error", File: "pkg/trait/wastepb/model_server.go", Old: "\t\t\treturn nil, status.Errorf(codes.InvalidArgument, \"bad page token: %v\", err)", New: "\t\t\treturn nil, err", Expect: "R15.12"},
			{Name: "decode-error-internal", File: "pkg/trait/electricpb/pages.go", Old: "\t\tif err := proto.Unmarshal(tokenBytes, pageToken); err != nil {\n\t\t\treturn status.Errorf(codes.InvalidArgument, \"bad page token: %v\", err)", New: "\t\tif err := proto.Unmarshal(tokenBytes, pageToken); err != nil {\n\t\t\treturn status.Errorf(codes.Internal, \"bad page token: %v\", err)", Expect: "R15.2"},
			{Name: "token-kept-at-end", File: "pkg/trait/electricpb/model_server.go", Old: "\t\tupperBound = len(sortedModes)\n\t\tpageToken = nil", New: "\t\tupperBound = len(sortedModes)", Expect: "R15.5"},
			{Name: "total-size-of-page", File: "pkg/trait/parentpb/model_server.go", Old: "\t\tTotalSize: int32(len(all)),", New: "\t\tTotalSize: int32(pageSize),", Expect: "R15.5"},
			{Name: "page-ignores-size", File: "pkg/trait/hailpb/model_server.go", Old: "\tpage := sortedItems[nextIndex:upperBound]", New: "\tpage := sortedItems[nextIndex:]", Expect: "R15.6"},
			{Name: "revert-F13-negative-size", File: "pkg/trait/hailpb/model_server.go", Old: "\tif request.GetPageSize() < 0 {\n\t\treturn nil, status.Error(codes.InvalidArgument, \"page_size must not be negative\")\n\t}\n", New: "", Expect: "R15.1"},
			{Name: "revert-F14-token-unbounded", File: "pkg/trait/wastepb/model_server.go", Old: "\t\tif startIndex < 0 || startIndex > m.model.GetWasteRecordCount() {\n\t\t\treturn nil, status.Error(codes.InvalidArgument, \"bad page token\")\n\t\t}\n", New: "", Expect: "R15.3"},
			{Name: "clamp-negatives-to-default", Silent: true, File: "pkg/trait/hailpb/pages.go", Old: "\tif pageSize == 0 {\n\t\treturn defaultPageSize\n\t}", New: "\tif pageSize <= 0 {\n\t\treturn defaultPageSize\n\t}"},
			{Name: "waste-no-cap", File: "pkg/trait/wastepb/model_server.go", Old: "\t} else if count > 1000 {\n\t\tcount = 1000\n\t}", New: "\t}", Expect: "R15.1"},
			{Name: "waste-token-when-not-full", File: "pkg/trait/wastepb/model_server.go", Old: "\tif int(count) == len(resp.WasteRecords) {", New: "\tif int(count) >= len(resp.WasteRecords) {", Expect: "R15.4"},
			{Name: "waste-cap-written-as-switch", Silent: true, File: "pkg/trait/wastepb/model_server.go", Old: "\tif count == 0 {\n\t\tcount = 50\n\t} else if count > 1000 {\n\t\tcount = 1000\n\t}", New: "\tswitch {\n\tcase count == 0:\n\t\tcount = 50\n\tcase count >= 1000:\n\t\tcount = 1000\n\t}"},
			{Name: "parent-sorted-descending", File: "pkg/trait/parentpb/model_server.go", Old: "\t\treturn all[i].Name < all[j].Name", New: "\t\treturn all[i].Name > all[j].Name", Expect: "R15.4"},
		},
	})
}

func runC15(c *an.Ctx) {
	r1511(c, "R15.11")
	c.Min("R15.11", 1)
	hs := pagingHandlers(c)
	if len(hs) < 6 {
		c.Unk("R15.1", "paged handlers", 0, fmt.Sprintf("only %d key-token paging handlers found, 6 were confirmed by hand", len(hs)))
	}
	for _, h := range hs {
		r15handler(c, h)
	}
	r15pages(c)
	r15waste(c)
	var all []*ssa.Function
	for _, h := range hs {
		all = append(all, h.fn)
	}
	if w := mustFunc(c, "R15.12", "pkg/trait/wastepb", "ModelServer", "ListWasteRecords"); w != nil {
		all = append(all, w)
	}
	r1512(c, all)
	// the listing is "held fixed while paging" only if a request that is REFUSED does not rewrite items: a refused
	// dispense that stores an emptied stock record blanks the very field ListInventory searches and builds its tokens
	// from (the record keeps its collection key), so pages skip items or the token chain restarts (shared with
	// R20.12 / R14.8, vending model)
	r148as(c, "R15.14", func(fn *ssa.Function) bool {
		return fn.Package() != nil && strings.HasSuffix(fn.Package().Pkg.Path(), "/pkg/trait/vendingpb")
	})
	c.Min("R15.14", 3)
	r061as(c, "R15.13") // a page read with a mask does not alter the stored items: their key fields are what the next token is built from (shared with R06.1)
	c.Min("R15.13", 3)
	c.Min("R15.12", 7)
	// the handlers that do not sort themselves binary-search the listing by `id > lastKey` (byte order): that is
	// only right if Collection.List hands the items over in ascending byte order of their ids
	r014(c, "R15.7")
	r158(c)
	r1510(c)
	c.Min("R15.10", 3)
	c.Min("R15.8", 4)
	c.Min("R15.9", 5)
	c.Min("R15.7", 1)
	c.Min("R15.1", 8)
	c.Min("R15.2", 10)
	c.Min("R15.3", 1)
	c.Min("R15.4", 12)
	c.Min("R15.5", 12)
	c.Min("R15.6", 6)
}

type pagingHandler struct {
	fn  *ssa.Function
	cap *ssa.Call // call of capPageSize
}

func pagingHandlers(c *an.Ctx) []pagingHandler {
	var out []pagingHandler
	for _, fn := range c.Prog.FuncsIn("pkg/trait") {
		if c.Prog.IsGenerated(fn.Pos()) || fn.Parent() != nil {
			continue
		}
		for _, call := range an.CallsIn(fn, func(n string) bool { return strings.HasSuffix(n, ".capPageSize") }) {
			// the handler is the function the rules know; when the call sits in a helper they have never seen
			// (request validation split off), the handlers are that helper's callers
			handlers := []*ssa.Function{fn}
			for depth := 0; depth < 3; depth++ {
				var next []*ssa.Function
				moved := false
				for _, h := range handlers {
					if an.KnownFunc(an.FuncQName(h)) {
						next = append(next, h)
						continue
					}
					for _, caller := range c.Prog.FuncsIn("pkg/trait") {
						if caller.Parent() != nil || caller.Package() != h.Package() {
							continue
						}
						an.Instrs(caller, func(in ssa.Instruction) {
							if cl, ok := in.(*ssa.Call); ok && an.TransparentCallee(cl) == h {
								next = append(next, caller)
								moved = true
							}
						})
					}
				}
				handlers = next
				if !moved {
					break
				}
			}
			for _, h := range handlers {
				out = append(out, pagingHandler{h, call.(*ssa.Call)})
			}
		}
	}
	return out
}

// requestField reports whether v derives from field `name` of the request parameter (directly or through its getter).
func fromRequestField(v ssa.Value, name string) bool {
	for _, s := range an.Sources(v) {
		if _, _, f, ok := an.FieldOf(s); ok && f == name {
			return true
		}
		if call, ok := s.(*ssa.Call); ok {
			if f := call.Call.StaticCallee(); f != nil && f.Name() == "Get"+name {
				return true
			}
		}
		if cv, ok := s.(*ssa.Convert); ok && fromRequestField(cv.X, name) {
			return true
		}
	}
	return false
}

// negativeRejected: `at` is guarded by the false edge of (x < 0) [or equivalent] on a value derived
// from the request's page size, whose true edge returns an InvalidArgument status.
func negativeRejected(c *an.Ctx, fn *ssa.Function, at ssa.Instruction) bool {
	for _, e := range an.GuardingEdges(at) {
		bo, ok := e.If.Cond.(*ssa.BinOp)
		if !ok {
			continue
		}
		var x ssa.Value
		nonNegEdge := false
		if k, isC := an.ConstInt(bo.Y); isC {
			x = bo.X
			switch {
			case bo.Op == token.LSS && k == 0:
				nonNegEdge = !e.Branch
			case bo.Op == token.GEQ && k == 0:
				nonNegEdge = e.Branch
			case bo.Op == token.LEQ && k == -1:
				nonNegEdge = !e.Branch
			case bo.Op == token.GTR && k == -1:
				nonNegEdge = e.Branch
			}
		}
		if x == nil || !nonNegEdge || !fromRequestField(x, "PageSize") {
			continue
		}
		// the other edge returns an error status
		other := an.CondEdge{If: e.If, Branch: !e.Branch}
		for _, r := range an.Returns(e.If.Parent()) { // the test may sit in a helper the handler delegates to
			if an.EdgeGuards(other, r) {
				if cd, isSt := statusCodeOf(c, r.Results[len(r.Results)-1]); isSt && cd == an.CodeInvalidArgument {
					return true
				}
			}
		}
	}
	return false
}

// keyExpr: v is the key of listing[idx]: the field load `listing[idx].F`, or a call `key(idx)` of a function value
// that (in the handler under analysis) is a literal returning `listing[i].F` of its parameter i.
func keyExpr(v ssa.Value) (idx ssa.Value, field string, listing ssa.Value, ok bool) {
	if u, isU := v.(*ssa.UnOp); isU && u.Op == token.MUL {
		if fa, isFA := u.X.(*ssa.FieldAddr); isFA {
			base := fa.X
			if l, isLoad := base.(*ssa.UnOp); isLoad && l.Op == token.MUL {
				base = l.X
			}
			if ia, isIA := base.(*ssa.IndexAddr); isIA {
				return ia.Index, fieldNameOf(fa), ia.X, true
			}
		}
		return nil, "", nil, false
	}
	call, isCall := v.(*ssa.Call)
	if !isCall || call.Call.IsInvoke() || len(call.Call.Args) != 1 {
		return nil, "", nil, false
	}
	for _, s := range an.Sources(call.Call.Value) {
		k := an.ClosureFn(s)
		if k == nil {
			if f, isFn := s.(*ssa.Function); isFn && len(f.Blocks) > 0 {
				k = f
			}
		}
		if k == nil || len(k.Params) != 1 {
			continue
		}
		for _, r := range an.Returns(k) {
			if len(r.Results) != 1 {
				continue
			}
			// key(i): the function indexes the listing itself
			if i2, f, l2, ok2 := keyExpr(r.Results[0]); ok2 && i2 == ssa.Value(k.Params[0]) {
				return call.Call.Args[0], f, l2, true
			}
			// key(listing[i]): the function is given the item and returns one of its fields
			if base, _, f, isF := an.FieldOf(r.Results[0]); isF && base == ssa.Value(k.Params[0]) {
				arg := call.Call.Args[0]
				if ld, isLoad := arg.(*ssa.UnOp); isLoad && ld.Op == token.MUL {
					if ia, isIA := ld.X.(*ssa.IndexAddr); isIA {
						return ia.Index, f, ia.X, true
					}
				}
			}
		}
	}
	return nil, "", nil, false
}

func eachInstrDeep15(fn *ssa.Function, f func(ssa.Instruction)) {
	an.Instrs(fn, f)
	for _, h := range an.TransparentCalleesOf(fn, 2) {
		an.Instrs(h, f)
	}
}

func r15handler(c *an.Ctx, h pagingHandler) {
	fn := h.fn
	name := an.FuncName(fn)
	c.SawFunc(name)
	// helpers shared with other handlers are read in this handler's context
	defer an.Focus(fn)()
	// ---- R15.1
	c.Check(fromRequestField(h.cap.Call.Args[0], "PageSize"), "R15.1", name+"|page size comes from the request", h.cap.Pos(), "", "capPageSize is not applied to the request's page_size")
	lo := capLowerBound(c, h.cap.Call.StaticCallee())
	c.Check(lo >= 1 || negativeRejected(c, h.cap.Parent(), h.cap), "R15.1", name+"|negative page sizes are rejected before use", h.cap.Pos(), fmt.Sprintf("lower bound of capPageSize: %d", lo),
		"a negative page_size passes through capPageSize unchanged and is used as the page length: `listing[upperBound-1]` is indexed with a negative number (panic) instead of the request being answered with an error status")
	// ---- R15.2
	var dec *ssa.Call     // the decodePageToken call (possibly inside a helper the rules have not seen)
	var decSite *ssa.Call // the call in the handler that stands for it
	var decFn *ssa.Function
	for _, vc := range an.CallsToDeepMatch(fn, func(n string) bool { return strings.HasSuffix(n, ".decodePageToken") }) {
		if !vc.Must {
			continue
		}
		dec, decSite, decFn = vc.Inner.(*ssa.Call), vc.Site.(*ssa.Call), fn
		if vc.Via != nil {
			decFn = vc.Via
		}
	}
	if dec == nil {
		c.Bad("R15.2", name+"|token decoded first, failure returned", fn.Pos(), "the handler does not decode the page token")
	} else {
		okTok := fromRequestField(dec.Call.Args[0], "PageToken")
		// the decoding error is handed back: by the function that decodes, and (when that is a helper) by the handler
		returnsErrOf := func(f *ssa.Function, call *ssa.Call) bool {
			for _, r := range an.Returns(f) {
				for _, v := range an.ValuesAt(r.Results[len(r.Results)-1]) {
					if v == ssa.Value(call) || an.IsExtractOf(v, call, call.Call.Signature().Results().Len()-1) {
						return true
					}
				}
			}
			return false
		}
		okRet := returnsErrOf(decFn, dec) && (decSite == dec || returnsErrOf(fn, decSite))
		// nothing else (model access) before the decode result is checked
		early := false
		an.Instrs(fn, func(in ssa.Instruction) {
			if call, ok := in.(*ssa.Call); ok && call != decSite {
				if f := call.Call.StaticCallee(); f != nil && f.Signature.Recv() != nil && strings.Contains(an.NamedTypeName(f.Signature.Recv().Type()), ".Model") {
					guarded := guardedByNilValue(call, decSite)
					if decSite != dec {
						guarded = an.GuardedByNilResult(call, decSite, decSite.Call.Signature().Results().Len()-1)
					}
					if !guarded {
						early = true
					}
				}
			}
		})
		c.Check(okTok && okRet && !early, "R15.2", name+"|token decoded first, failure returned", dec.Pos(), "", "the request's page token is not decoded and its decoding error returned before the model is consulted")
	}
	// ---- the listing, search and page
	var page *ssa.Slice
	findPage := func(in ssa.Instruction) {
		if sl, ok := in.(*ssa.Slice); ok && sl.Low != nil && sl.High != nil {
			if _, isSlice := sl.X.Type().Underlying().(*types.Slice); isSlice {
				page = sl
			}
		}
	}
	an.Instrs(fn, findPage)
	if page == nil {
		// the page may be cut in a helper the handler shares with others (an instance of a generic pager)
		for _, h := range an.TransparentCalleesOf(fn, 2) {
			an.Instrs(h, findPage)
		}
	}
	if page == nil {
		c.Bad("R15.6", name+"|page is listing[next : min(next+size, len)]", fn.Pos(), "no listing[low:high] page found")
		return
	}
	listing := page.X
	sameListing := func(v ssa.Value) bool {
		for _, a := range an.Sources(v) {
			for _, b := range an.Sources(listing) {
				if a == b {
					return true
				}
			}
		}
		return false
	}
	isLenListing := func(v ssa.Value) bool {
		for _, s := range an.ValuesAt(v) {
			call, ok := s.(*ssa.Call)
			if !ok || an.CalleeName(call) != "builtin len" || !sameListing(call.Call.Args[0]) {
				return false
			}
		}
		return len(an.ValuesAt(v)) > 0
	}
	// R15.9: the key that the token and the search rely on is read from COMPLETE items: the listing is not produced
	// with the request's read mask (a mask that leaves the key out would make every token the empty key: the first
	// page for ever); the mask is applied to the page that is handed out
	{
		masked := false
		var where ssa.Instruction
		for _, src := range an.Sources(listing) {
			call, isCall := src.(*ssa.Call)
			if !isCall {
				continue
			}
			var walk func(v ssa.Value, depth int)
			walk = func(v ssa.Value, depth int) {
				if depth > 4 {
					return
				}
				for _, s0 := range an.Sources(v) {
					switch x := s0.(type) {
					case *ssa.Call:
						if an.CalleeName(x) == an.ModulePath+"/pkg/resource.WithReadMask" || an.CalleeName(x) == an.ModulePath+"/pkg/resource.WithReadPaths" {
							masked, where = true, x
						}
					case *ssa.Slice:
						an.Instrs(call.Parent(), func(in ssa.Instruction) {
							if st, ok := in.(*ssa.Store); ok {
								if ia, isIA := st.Addr.(*ssa.IndexAddr); isIA && ia.X == x.X {
									walk(st.Val, depth+1)
								}
							}
						})
					}
				}
			}
			for _, a := range call.Call.Args {
				walk(a, 0)
			}
		}
		pos := page.Pos()
		if where != nil {
			pos = where.Pos()
		}
		c.Check(!masked, "R15.9", name+"|the paging key is read from complete items", pos, "the listing is fetched without the read mask",
			"the listing that is searched and whose last key becomes the page token is fetched WITH the request's read mask: a read_mask that leaves the key field out makes every key empty, so each response carries the same next_page_token and returns the first page again - an endless token chain")
	}
	// High = min(next+size, len(listing)), however the selection is spelled
	okHigh := false
	var sum *ssa.BinOp
	sameQty := func(x, y ssa.Value) bool { return isLenListing(x) && isLenListing(y) }
	if a, b, isMin := an.MinSelect(page.High, sameQty); isMin {
		for _, pair := range [][2]ssa.Value{{a, b}, {b, a}} {
			if bo, isBO := stripIntConv(pair[0]).(*ssa.BinOp); isBO && bo.Op == token.ADD && isLenListing(pair[1]) {
				sum, okHigh = bo, true
			}
		}
	}
	sameSet := func(x, y ssa.Value) bool {
		if x == y {
			return true
		}
		xs, ys := map[ssa.Value]bool{}, map[ssa.Value]bool{}
		for _, v := range an.ValuesAt(x) {
			xs[stripIntConv(v)] = true
		}
		for _, v := range an.ValuesAt(y) {
			ys[stripIntConv(v)] = true
		}
		if len(xs) == 0 || len(xs) != len(ys) {
			return false
		}
		for v := range xs {
			if !ys[v] {
				// constants are equal by value
				kx, isC := an.ConstInt(v)
				found := false
				if isC {
					for w := range ys {
						if ky, isC2 := an.ConstInt(w); isC2 && ky == kx {
							found = true
						}
					}
				}
				if !found {
					return false
				}
			}
		}
		return true
	}
	isCap := func(v ssa.Value) bool {
		vs := an.ValuesAt(v)
		return len(vs) == 1 && vs[0] == ssa.Value(h.cap)
	}
	okSum := sum != nil && ((sameSet(sum.X, page.Low) && isCap(sum.Y)) || (sameSet(sum.Y, page.Low) && isCap(sum.X)))
	c.Check(okHigh && okSum, "R15.6", name+"|page is listing[next : min(next+size, len)]", page.Pos(), "", "the page's upper bound is not min(next + capped page size, len(listing)) with the page starting at `next`: pages can exceed the requested size or skip items")
	// Low = phi(0, search result [+ equality skip])
	var search *ssa.Call
	for _, v := range an.Sources(page.Low) {
		if call, ok := v.(*ssa.Call); ok && an.CalleeName(call) == "sort.Search" {
			search = call
		}
		if bo, ok := v.(*ssa.BinOp); ok && bo.Op == token.ADD {
			for _, s2 := range an.Sources(bo.X) {
				if call, ok := s2.(*ssa.Call); ok && an.CalleeName(call) == "sort.Search" {
					search = call
				}
			}
		}
	}
	if search == nil {
		c.Bad("R15.4", name+"|next index found by binary search on the key", page.Pos(), "the page's lower bound does not come from sort.Search over the listing")
		return
	}
	okN := isLenListing(search.Call.Args[0])
	pred := an.ClosureFn(search.Call.Args[1])
	keyField, strict := "", false
	var lastKey ssa.Value
	if pred != nil {
		c.SawFunc(an.FuncName(pred))
		for _, r := range an.Returns(pred) {
			if bo, ok := r.Results[0].(*ssa.BinOp); ok {
				// item.key > lastKey, or lastKey < item.key
				x, y, op := bo.X, bo.Y, bo.Op
				if op == token.LSS || op == token.LEQ {
					x, y = y, x
					op = map[token.Token]token.Token{token.LSS: token.GTR, token.LEQ: token.GEQ}[op]
				}
				if op == token.GTR || op == token.GEQ {
					if idx, f, _, isKey := keyExpr(x); isKey && idx == ssa.Value(pred.Params[0]) {
						keyField = f
						strict = op == token.GTR
						lastKey = y
					}
				}
			}
		}
	}
	// lastKey is the token's last resource name
	okLast := false
	if lastKey != nil {
		for _, s := range an.Sources(lastKey) {
			if call, ok := s.(*ssa.Call); ok && strings.HasSuffix(an.CalleeName(call), "PageToken).GetLastResourceName") {
				okLast = true
			}
		}
	}
	// non-strict search needs the equality skip: Low can be search+1 guarded by listing[idx].key == lastKey
	skip := false
	var tight ssa.Instruction
	if !strict {
		for _, v := range an.Sources(page.Low) {
			if bo, ok := v.(*ssa.BinOp); ok && bo.Op == token.ADD {
				if one, isC := an.ConstInt(bo.Y); isC && one == 1 {
					for _, e := range an.GuardingEdges(bo) {
						if cb, isC := e.If.Cond.(*ssa.BinOp); isC && cb.Op == token.EQL && e.Branch {
							if _, f := indexedField(cb.X); f == keyField {
								skip = true
							}
						}
						// the index test in front of it admits every index of the listing, the last one included: `i < len-1`
						// leaves the last item un-skipped, which is then sent again (for ever, with a page size of one)
						if cb, isC := e.If.Cond.(*ssa.BinOp); isC && e.Branch && (cb.Op == token.LSS || cb.Op == token.LEQ) {
							if sub, isSub := cb.Y.(*ssa.BinOp); isSub && sub.Op == token.SUB {
								if k, isK := an.ConstInt(sub.Y); isK {
									if lc, isCall := sub.X.(*ssa.Call); isCall && an.CalleeName(lc) == "builtin len" {
										if (cb.Op == token.LSS && k >= 1) || (cb.Op == token.LEQ && k >= 2) {
											tight = e.If
										}
									}
								}
							}
						}
					}
				}
			}
		}
	}
	if tight != nil {
		c.Bad("R15.4", name+"|the skip of the last key sent reaches the end of the listing", tight.Pos(), "the test that steps over the item equal to the token's key only looks at indices below len-1: when a page ends on the last item that item is returned again on the next request, and with it the same token")
	}
	c.Check(okN && keyField != "" && okLast && (strict || skip), "R15.4", name+"|search resumes strictly after the last key sent", search.Pos(), fmt.Sprintf("key field %s, strict=%v skip=%v", keyField, strict, skip),
		fmt.Sprintf("the search over the listing (len arg ok: %v) must find the first item whose key (field %q) is greater than the token's last key (from the token: %v), strictly or with an equality skip: otherwise the last item of a page is returned again at the start of the next", okN, keyField, okLast))
	// the token: key of the last element of the page: listing[high-1].key with the same field
	okTokVal, okClear, okTotal := false, false, false
	eachInstrDeep15(fn, func(in ssa.Instruction) {
		st, ok := in.(*ssa.Store)
		if !ok {
			return
		}
		_, _, f, isF := an.FieldOf(st.Addr)
		if !isF {
			return
		}
		switch f {
		case "LastResourceName":
			idx, kf, lst, isKey := keyExpr(st.Val)
			if !isKey || kf != keyField || !sameListing(lst) {
				return
			}
			// listing[end-1] with end = next+size, or the page's own upper bound (they coincide when the page is full)
			if bo, isBO := idx.(*ssa.BinOp); isBO && bo.Op == token.SUB && (bo.X == ssa.Value(sum) || bo.X == page.High || (sum != nil && an.SameExpr(bo.X, sum)) || an.SameValues(bo.X, page.High)) {
				if one, isC := an.ConstInt(bo.Y); isC && one == 1 {
					okTokVal = true
				}
			}
		case "TotalSize":
			if isLenListing(st.Val) {
				okTotal = true
			}
		}
	})
	// token cleared on the at-end edge: the value passed to encodePageToken is nil there
	var encodes []ssa.CallInstruction
	eachInstrDeep15(fn, func(in ssa.Instruction) {
		if cl, ok := in.(*ssa.Call); ok && strings.HasSuffix(an.CalleeName(cl), ".encodePageToken") {
			encodes = append(encodes, cl)
		}
	})
	for _, call := range encodes {
		if ph, ok := call.Common().Args[0].(*ssa.Phi); ok {
			for i, e := range ph.Edges {
				if an.IsNilConst(e) {
					predB := ph.Block().Preds[i]
					for _, ed := range an.GuardingEdges(predB.Instrs[len(predB.Instrs)-1]) {
						// the end is reached: len(listing) <= next+size, in any spelling
						if lo, hi, _, isOrd := an.OrderFact(ed); isOrd && sum != nil && an.SameExpr(hi, sum) && isLenListing(lo) {
							okClear = true
						}
					}
				}
			}
		}
		// and its result is the response's next_page_token
	}
	// or: where the end is reached the handler returns its response without ever giving it a token
	if !okClear && sum != nil {
		var tokenStores []ssa.Instruction
		an.Instrs(fn, func(in ssa.Instruction) {
			if st, ok := in.(*ssa.Store); ok {
				if _, _, f, isF := an.FieldOf(st.Addr); isF && f == "NextPageToken" {
					tokenStores = append(tokenStores, st)
				}
			}
		})
		for _, r := range an.Returns(fn) {
			if len(r.Results) != 2 || !an.IsNilConst(r.Results[1]) {
				continue
			}
			atEnd := false
			for _, ed := range an.GuardingEdges(r) {
				if lo, hi, _, isOrd := an.OrderFact(ed); isOrd && an.SameExpr(hi, sum) && isLenListing(lo) {
					atEnd = true
				}
			}
			if !atEnd {
				continue
			}
			untouched := len(tokenStores) > 0
			for _, st := range tokenStores {
				if an.Reaches(st, r) {
					untouched = false
				}
			}
			if untouched {
				okClear = true
			}
		}
	}
	c.Check(okTokVal, "R15.4", name+"|next token is the key of the last item of the page", fn.Pos(), "", "the token handed out is not listing[next+size-1]."+keyField+" (the key field the search uses): the next page does not resume after this one")
	c.Check(okClear, "R15.5", name+"|token cleared when the page reaches the end", fn.Pos(), "", "when the page reaches the end of the listing the token is not cleared: the client never sees an empty next_page_token")
	c.Check(okTotal, "R15.5", name+"|total_size is the size of the full listing", fn.Pos(), "", "total_size is not len(full listing)")
	// a handler that sorts the listing itself sorts ascending by the key
	for _, call := range an.CallsTo(fn, "sort.Slice", "sort.SliceStable") {
		if !sameListing(call.Common().Args[0]) {
			continue
		}
		less := an.ClosureFn(call.Common().Args[1])
		good := false
		if less != nil {
			for _, r := range an.Returns(less) {
				if bo, ok := r.Results[0].(*ssa.BinOp); ok && bo.Op == token.LSS {
					li, lf := indexedField(bo.X)
					ri, rf := indexedField(bo.Y)
					if lf == keyField && rf == keyField && li == ssa.Value(less.Params[0]) && ri == ssa.Value(less.Params[1]) {
						good = true
					}
				}
			}
		}
		c.Check(good && an.Dominates(call, search), "R15.4", name+"|the handler's own sort is ascending by the key", call.Pos(), "", "the listing is sorted by something other than ascending "+keyField+" before the binary search")
	}
}

// capAt evaluates capPageSize's decision table at a concrete argument value: the leaf whose atoms
// (comparisons of the argument with constants) all hold at n. ok=false when the table has atoms of
// another form or no leaf matches.
func capAt(leaves []*an.Leaf, n int64) (int64, bool) {
	evalAtom := func(a string) (bool, bool) {
		a2 := strings.ReplaceAll(a, " ", "")
		var k int64
		for _, f := range []struct {
			format string
			eval   func(n, k int64) bool
		}{
			{"(n<%d)", func(n, k int64) bool { return n < k }}, {"(n<=%d)", func(n, k int64) bool { return n <= k }},
			{"(n>%d)", func(n, k int64) bool { return n > k }}, {"(n>=%d)", func(n, k int64) bool { return n >= k }},
			{"%d==n", func(n, k int64) bool { return n == k }}, {"n==%d", func(n, k int64) bool { return n == k }},
			{"(%d<n)", func(n, k int64) bool { return k < n }}, {"(%d<=n)", func(n, k int64) bool { return k <= n }},
			{"(%d>n)", func(n, k int64) bool { return k > n }}, {"(%d>=n)", func(n, k int64) bool { return k >= n }},
		} {
			if cnt, err := fmt.Sscanf(a2, f.format, &k); err == nil && cnt == 1 && fmt.Sprintf(f.format, k) == a2 {
				return f.eval(n, k), true
			}
		}
		return false, false
	}
	for _, l := range leaves {
		if l.Undec != "" || len(l.Returns) != 1 {
			return 0, false
		}
		match := true
		for a, v := range l.AssignM {
			got, ok := evalAtom(a)
			if !ok {
				return 0, false
			}
			if fmt.Sprint(got) != v {
				match = false
			}
		}
		if !match {
			continue
		}
		if l.Returns[0].I != nil {
			return *l.Returns[0].I, true
		}
		if l.Returns[0].S == "n" {
			return n, true
		}
		// the builtins: min(n, k) / max(n, k) in either argument order
		if m := capMinMax.FindStringSubmatch(strings.ReplaceAll(l.Returns[0].S, " ", "")); m != nil {
			arg := func(a string) (int64, bool) {
				if a == "n" {
					return n, true
				}
				k, err := strconv.ParseInt(a, 10, 64)
				return k, err == nil
			}
			a, oka := arg(m[2])
			b, okb := arg(m[3])
			if oka && okb {
				if (m[1] == "min") == (a < b) {
					return a, true
				}
				return b, true
			}
		}
		return 0, false
	}
	return 0, false
}

var capMinMax = regexp.MustCompile(`^(?:call)?(min|max)\((n|-?\d+)(?::int)?,(n|-?\d+)(?::int)?\)$`)

// capLowerBound: the least value capPageSize returns for negative arguments (sampled at -1 and a large
// negative number; the table only compares with constants, so these two points cover all negative inputs
// below the smallest constant and just below zero).
func capLowerBound(c *an.Ctx, fn *ssa.Function) int64 {
	const minInt = -1 << 62
	if fn == nil || len(fn.Params) != 1 {
		return minInt
	}
	leaves := an.DecisionTree(fn, an.DTConfig{Names: map[ssa.Value]string{fn.Params[0]: "n"}})
	lo := int64(1 << 62)
	for _, n := range []int64{-1, -1 << 40} {
		v, ok := capAt(leaves, n)
		if !ok {
			return minInt
		}
		if v < lo {
			lo = v
		}
	}
	return lo
}

// r15pages checks every package-local capPageSize / decodePageToken.
func r15pages(c *an.Ctx) {
	seen := map[*ssa.Function]bool{}
	for _, h := range pagingHandlers(c) {
		f := h.cap.Call.StaticCallee()
		if f == nil || seen[f] {
			continue
		}
		seen[f] = true
		name := an.FuncName(f)
		c.SawFunc(name)
		leaves := an.DecisionTree(f, an.DTConfig{Names: map[ssa.Value]string{f.Params[0]: "n"}})
		c.Count("table_rows", len(leaves))
		// 0 -> default in [1,max]; > max -> max; constants from the package
		pk := f.Pkg.Pkg.Path()
		def, okd := c.Prog.ConstInt(pk, "defaultPageSize")
		max, okm := c.Prog.ConstInt(pk, "maxPageSize")
		v0, ok0 := capAt(leaves, 0)
		v1, ok1 := capAt(leaves, 1)
		vmax, okmx := capAt(leaves, max)
		vover, okov := capAt(leaves, max+1)
		vbig, okbig := capAt(leaves, 1<<40)
		okZero := ok0 && okd && v0 == def && def >= 1 && def <= max
		okCap := ok1 && okmx && okov && okbig && v1 == 1 && vmax == max && vover == max && vbig == max
		hi := max
		if !okCap {
			hi = 1 << 62
		}
		c.Check(okZero && okd && okm, "R15.1", name+"|0 means the default page size", f.Pos(), fmt.Sprintf("default %d", def), "a page size of 0 is not mapped to the default (a constant within [1, max])")
		c.Check(okCap && hi <= max, "R15.1", name+"|page size is capped at the maximum", f.Pos(), fmt.Sprintf("max %d", max), "page sizes above the maximum are not capped: a single response can carry an unbounded page")
	}
	seenD := map[*ssa.Function]bool{}
	for _, fn := range c.Prog.FuncsIn("pkg/trait") {
		if fn.Name() != "decodePageToken" || fn.Parent() != nil || seenD[fn] {
			continue
		}
		seenD[fn] = true
		name := an.FuncName(fn)
		c.SawFunc(name)
		n, good := 0, true
		for _, r := range an.Returns(fn) {
			if provablyNilAt(r.Results[0], r) {
				continue
			}
			n++
			if cd, ok := statusCodeOf(c, r.Results[0]); !ok || cd != an.CodeInvalidArgument {
				good = false
			}
		}
		// both failure points are checked: the base64 and the unmarshal error
		checks := 0
		an.Instrs(fn, func(in ssa.Instruction) {
			if call, ok := in.(*ssa.Call); ok {
				nm := an.CalleeName(call)
				if strings.HasSuffix(nm, "Encoding).DecodeString") || strings.HasSuffix(nm, "proto.Unmarshal") {
					for _, u := range an.Referrers(call) {
						if ex, isEx := u.(*ssa.Extract); isEx {
							if len(flowsToIfNil(ex)) > 0 {
								checks++
							}
						}
					}
					if len(flowsToIfNil(call)) > 0 {
						checks++
					}
				}
			}
		})
		c.Check(good && n >= 1 && checks >= 2, "R15.2", name+"|every decoding failure is InvalidArgument", fn.Pos(), fmt.Sprintf("%d failure returns", n), "a malformed page token is not answered with codes.InvalidArgument at every failure point (base64 and message decoding)")
	}
}

// flowsToIfNil: v (an error) is nil-tested by some If.
func flowsToIfNil(v ssa.Value) []*ssa.If {
	var out []*ssa.If
	if !an.IsErrorType(v.Type()) {
		return nil
	}
	seen := map[ssa.Value]bool{}
	var walk func(x ssa.Value)
	walk = func(x ssa.Value) {
		if seen[x] {
			return
		}
		seen[x] = true
		for _, u := range an.Referrers(x) {
			switch y := u.(type) {
			case *ssa.BinOp:
				for _, u2 := range an.Referrers(y) {
					if iff, ok := u2.(*ssa.If); ok {
						out = append(out, iff)
					}
				}
			case *ssa.Phi:
				// several failure points share one error variable (`if err == nil { err = next() }; if err != nil`)
				walk(y)
			case *ssa.Store:
				if cell := an.CellOf(y.Addr); cell != nil {
					for _, l := range an.LoadsOf(cell) {
						walk(l)
					}
				}
			}
		}
	}
	walk(v)
	return out
}

func stripIntConv(v ssa.Value) ssa.Value {
	for {
		switch x := v.(type) {
		case *ssa.Convert:
			v = x.X
		case *ssa.ChangeType:
			v = x.X
		default:
			return v
		}
	}
}

func r15waste(c *an.Ctx) {
	h := mustFunc(c, "R15.1", "pkg/trait/wastepb", "ModelServer", "ListWasteRecords")
	m := mustFunc(c, "R15.3", "pkg/trait/wastepb", "Model", "ListWasteRecords")
	if h == nil || m == nil {
		return
	}
	hn, mn := an.FuncName(h), an.FuncName(m)
	// the call into the model
	var call *ssa.Call
	for _, cl := range an.CallsTo(h, an.FuncQName(m)) {
		call = cl.(*ssa.Call)
	}
	if call == nil {
		c.Unk("R15.1", hn+"|model call", h.Pos(), "the handler does not call Model.ListWasteRecords")
		return
	}
	c.Check(negativeRejected(c, h, call), "R15.1", hn+"|negative page sizes are rejected before use", call.Pos(), "",
		"a negative page_size is neither rejected nor normalised: the model's loop ends after the first record, so the page has 1 record although a negative size was requested, and no error status is returned")
	// R15.1 (waste): the count handed to the model lies in [1, 1000] whatever the request says
	lo, hi, okLo, okHi := an.IntBounds(call.Call.Args[2], call)
	c.Check(okLo && okHi && lo >= 1 && hi <= 1000, "R15.1", hn+"|the count given to the model is within [1, 1000]", call.Pos(), fmt.Sprintf("bounds [%d,%d]", lo, hi),
		fmt.Sprintf("the count passed to Model.ListWasteRecords is not bounded to [1,1000] by the handler (lower bound known=%v %d, upper bound known=%v %d): a page can exceed the cap, or the handler's `page is full` test compares with a size the model never returns so the token chain ends early", okLo, lo, okHi, hi))
	// R15.4 (waste): the next token is start - count, handed out only when the page is full and records remain;
	// count is the very value given to the model
	cnt := stripIntConv(call.Call.Args[2])
	okTok := false
	// a value inside a helper the handler calls once: its parameters are the handler's arguments
	res := func(v ssa.Value) ssa.Value {
		v = stripIntConv(v)
		p, isP := v.(*ssa.Parameter)
		if !isP || p.Parent() == h {
			return v
		}
		g := p.Parent()
		var site *ssa.Call
		sites := 0
		an.Instrs(h, func(in ssa.Instruction) {
			if cl, ok := in.(*ssa.Call); ok && cl.Call.StaticCallee() == g {
				site = cl
				sites++
			}
		})
		if sites != 1 {
			return v
		}
		for i, gp := range g.Params {
			if gp == p && i < len(site.Call.Args) {
				return stripIntConv(site.Call.Args[i])
			}
		}
		return v
	}
	an.Instrs(h, func(in ssa.Instruction) {
		st, ok := in.(*ssa.Store)
		if !ok {
			return
		}
		if _, _, f, isF := an.FieldOf(st.Addr); !isF || f != "NextPageToken" {
			return
		}
		// every way the field gets a non-empty value: strconv.Itoa(start - count), under the two conditions - whether the
		// store itself is conditional or an unconditional store of a variable assigned under them
		all, any := true, false
		for _, lf := range an.PhiLeaves(st.Val) {
			if k, isC := lf.Val.(*ssa.Const); isC && k.Value != nil && k.Value.ExactString() == `""` {
				continue
			}
			itoa, ok := lf.Val.(*ssa.Call)
			if !ok || an.CalleeName(itoa) != "strconv.Itoa" {
				all = false
				continue
			}
			sub, ok := stripIntConv(itoa.Call.Args[0]).(*ssa.BinOp)
			if !ok || sub.Op != token.SUB || !(stripIntConv(sub.Y) == cnt || an.SameExpr(sub.Y, cnt) || res(sub.Y) == cnt) || !(an.SameValue(stripIntConv(sub.X), stripIntConv(call.Call.Args[1])) || an.SameExpr(sub.X, call.Call.Args[1]) || an.SameValue(res(sub.X), stripIntConv(call.Call.Args[1]))) {
				all = false
				continue
			}
			full, remain := false, false
			for _, e := range append(append([]an.CondEdge{}, lf.Conds...), an.GuardingEdges(st)...) {
				bo, ok := e.If.Cond.(*ssa.BinOp)
				if !ok {
					continue
				}
				if bo.Op == token.EQL && e.Branch {
					for _, pair := range [][2]ssa.Value{{bo.X, bo.Y}, {bo.Y, bo.X}} {
						if !(stripIntConv(pair[0]) == cnt || an.SameExpr(pair[0], cnt) || res(pair[0]) == cnt) {
							continue
						}
						if ln, ok := pair[1].(*ssa.Call); ok && an.CalleeName(ln) == "builtin len" {
							full = true
						}
						if ln, ok := res(pair[1]).(*ssa.Call); ok && an.CalleeName(ln) == "builtin len" {
							full = true
						}
					}
				}
				if k, isC := an.ConstInt(bo.Y); isC && k == 0 && bo.Op == token.GTR && e.Branch {
					if s2, ok := stripIntConv(bo.X).(*ssa.BinOp); ok && s2.Op == token.SUB && (stripIntConv(s2.Y) == cnt || an.SameExpr(s2.Y, cnt) || res(s2.Y) == cnt) {
						remain = true
					}
				}
			}
			if full && remain {
				any = true
			} else {
				all = false
			}
		}
		if !(all && any) {
			return
		}
		okTok = true
	})
	c.Check(okTok, "R15.4", hn+"|next token is start - count, only when the page is full and records remain", h.Pos(), "", "next_page_token is not strconv.Itoa(start - count) guarded by count == len(page) and start - count > 0, with count the value given to the model")
	// R15.6 (waste): the model's loop stops at exactly `count` records: the exit compares the number
	// of collected records with the count parameter itself
	okLoop := false
	if len(m.Params) == 3 {
		an.Instrs(m, func(in ssa.Instruction) {
			iff, ok := in.(*ssa.If)
			if !ok {
				return
			}
			bo, ok := iff.Cond.(*ssa.BinOp)
			if !ok {
				return
			}
			// the loop is left (break / return) once count <= len(collected), in any spelling, or on equality
			isLen := func(v ssa.Value) bool {
				ln, ok := v.(*ssa.Call)
				return ok && an.CalleeName(ln) == "builtin len"
			}
			for _, br := range []bool{true, false} {
				if lo, hi, strict, isOrd := an.OrderFact(an.CondEdge{If: iff, Branch: br}); isOrd && !strict && lo == ssa.Value(m.Params[2]) && isLen(hi) {
					okLoop = true
				}
			}
			if bo.Op == token.EQL && ((isLen(bo.X) && bo.Y == ssa.Value(m.Params[2])) || (isLen(bo.Y) && bo.X == ssa.Value(m.Params[2]))) {
				okLoop = true
			}
		})
	}
	c.Check(okLoop, "R15.6", mn+"|the page ends at exactly count records", m.Pos(), "", "the model's collecting loop does not stop by comparing the number of collected records with its count parameter (unaltered): the handler's `page is full` test assumes exactly min(count, remaining) records")
	// R15.4 (waste): a page asked for with a token starts where the token says: the start handed to the model is the
	// number parsed from the token on the path where a token was given
	fromToken := false
	for _, v := range an.ValuesAt(call.Call.Args[1]) {
		if ex, isEx := v.(*ssa.Extract); isEx && ex.Index == 0 {
			if ac, isCall := ex.Tuple.(*ssa.Call); isCall && an.CalleeName(ac) == "strconv.Atoi" {
				fromToken = true
			}
		}
	}
	c.Check(fromToken, "R15.4", hn+"|the page starts at the index parsed from the token", call.Pos(), "", "the start index given to Model.ListWasteRecords never comes from strconv.Atoi(page token) (e.g. the parsed value is assigned to a shadowed variable): every request returns the newest page with the same next_page_token - an endless token chain")
	// R15.3: the index into allWasteRecords derives from `start`; it must be bounded by the length
	idxOK := true
	n := 0
	an.Instrs(m, func(in ssa.Instruction) {
		ia, ok := in.(*ssa.IndexAddr)
		if !ok {
			return
		}
		if _, _, f, isF := an.FieldOf(ia.X); !isF || f != "allWasteRecords" {
			return
		}
		n++
		bounded := false
		for _, e := range an.GuardingEdges(ia) {
			bo, isBO := e.If.Cond.(*ssa.BinOp)
			if !isBO {
				continue
			}
			isLen := func(v ssa.Value) bool {
				cl, ok := v.(*ssa.Call)
				if !ok || an.CalleeName(cl) != "builtin len" {
					return false
				}
				_, _, f, isF := an.FieldOf(cl.Call.Args[0])
				return isF && f == "allWasteRecords"
			}
			// i < len, start <= len, start-1 < len …
			if (bo.Op == token.LSS || bo.Op == token.LEQ) && isLen(bo.Y) && e.Branch {
				bounded = true
			}
			if (bo.Op == token.GTR || bo.Op == token.GEQ) && isLen(bo.Y) && !e.Branch {
				bounded = true
			}
			if (bo.Op == token.GTR || bo.Op == token.GEQ) && isLen(bo.X) && e.Branch {
				bounded = true
			}
		}
		// or the start value was clamped: start is a phi with len(...)
		for _, s := range an.Sources(ia.Index) {
			if cl, ok := s.(*ssa.Call); ok && an.CalleeName(cl) == "builtin len" {
				bounded = true
			}
		}
		if !bounded {
			idxOK = false
		}
	})
	// alternatively the handler validates the token against the count before calling: every path from
	// parsing the token to the model call passes a comparison with the record count
	handlerBound := false
	cmpWithCount := func(in ssa.Instruction) bool {
		iff, ok := in.(*ssa.If)
		if !ok {
			return false
		}
		bo, ok := iff.Cond.(*ssa.BinOp)
		if !ok {
			return false
		}
		for _, v := range []ssa.Value{bo.X, bo.Y} {
			for _, s := range an.Sources(v) {
				if cl, ok := s.(*ssa.Call); ok && strings.HasSuffix(an.CalleeName(cl), "Model).GetWasteRecordCount") {
					return true
				}
			}
		}
		return false
	}
	// the function that parses the token: the handler, or a helper it delegates to (looked through)
	isAtoi := func(in ssa.Instruction) bool { return an.IsCallTo(in, "strconv.Atoi") }
	tb := an.BodyWith(h, isAtoi)
	if tb == nil {
		tb = h
	}
	var tbSite *ssa.Call // the handler's call of that helper
	if tb != h {
		an.Instrs(h, func(in ssa.Instruction) {
			if cl, ok := in.(*ssa.Call); ok && an.TransparentCallee(cl) == tb {
				tbSite = cl
			}
		})
	}
	atois := an.CallsTo(tb, "strconv.Atoi")
	if len(atois) > 0 {
		handlerBound = true
		for _, a := range atois {
			// only the conversions whose value reaches the model call matter
			flows := false
			for _, s := range an.Sources(call.Call.Args[1]) {
				if an.IsExtractOf(s, a.(*ssa.Call), 0) {
					flows = true
				}
			}
			if !flows {
				continue
			}
			target := func(x ssa.Instruction) bool { return x == ssa.Instruction(call) }
			if tb != h {
				// in a helper: the parsed value leaves through a successful return
				target = func(x ssa.Instruction) bool {
					r, isRet := x.(*ssa.Return)
					return isRet && len(r.Results) > 0 && an.IsNilConst(r.Results[len(r.Results)-1])
				}
			}
			t, _ := an.PathQuery{Target: target, Avoid: cmpWithCount}.From(tb, a)
			if t != nil {
				handlerBound = false
			}
		}
	}
	c.Check((idxOK && n > 0) || handlerBound, "R15.3", mn+"|the token-controlled index is bounded by the number of records", m.Pos(), "",
		"allWasteRecords[start-1] is indexed with a start taken from the client's page token without comparing it with the number of records: a token beyond the end panics (index out of range) instead of yielding an error status")
	// a malformed token is answered with an error
	errHandedBack := func(f *ssa.Function, cl *ssa.Call) bool {
		errIdx := cl.Call.Signature().Results().Len() - 1
		for _, u := range an.Referrers(cl) {
			if ex, isEx := u.(*ssa.Extract); isEx && ex.Index == errIdx {
				for _, iff := range flowsToIfNil(ex) {
					for _, r := range an.Returns(f) {
						if an.EdgeGuards(an.CondEdge{If: iff, Branch: true}, r) && !provablyNilAt(r.Results[len(r.Results)-1], r) {
							return true
						}
					}
				}
			}
		}
		return false
	}
	okErr := false
	for _, cl := range atois {
		if errHandedBack(tb, cl.(*ssa.Call)) && (tb == h || (tbSite != nil && errHandedBack(h, tbSite))) {
			okErr = true
		}
	}
	c.Check(okErr, "R15.2", hn+"|a malformed token is answered with an error", h.Pos(), "", "a page token that is not a number is not rejected")
	// total size
	okTotal := false
	an.Instrs(h, func(in ssa.Instruction) {
		if st, ok := in.(*ssa.Store); ok {
			if _, _, f, isF := an.FieldOf(st.Addr); isF && f == "TotalSize" {
				for _, s := range an.Sources(st.Val) {
					if cl, ok := s.(*ssa.Call); ok && strings.HasSuffix(an.CalleeName(cl), "Model).GetWasteRecordCount") {
						okTotal = true
					}
				}
			}
		}
	})
	c.Check(okTotal, "R15.5", hn+"|total_size is the number of records", h.Pos(), "", "total_size is not the model's record count")
}

// r158: a page token is decoded with the encoding it was produced with: in every package that has the pair,
// encodePageToken and decodePageToken use the same base64 alphabet (the server must accept the tokens it hands out).
func r158(c *an.Ctx) {
	const rule = "R15.8"
	byPkg := map[string]map[string]string{}
	var pos = map[string]ssa.Instruction{}
	for _, fn := range c.Prog.FuncsIn("pkg/trait") {
		if c.Prog.IsGenerated(fn.Pos()) || (fn.Name() != "encodePageToken" && fn.Name() != "decodePageToken") {
			continue
		}
		for _, f := range append(an.WithClosures(fn), an.TransparentCalleesOf(fn, 1)...) {
			an.Instrs(f, func(in ssa.Instruction) {
				call, ok := in.(*ssa.Call)
				if !ok {
					return
				}
				n := an.CalleeName(call)
				if n != "(*encoding/base64.Encoding).EncodeToString" && n != "(*encoding/base64.Encoding).DecodeString" {
					return
				}
				enc := "?"
				for _, s0 := range an.Sources(call.Call.Args[0]) {
					if u, isU := s0.(*ssa.UnOp); isU {
						if g, isG := u.X.(*ssa.Global); isG {
							enc = g.Pkg.Pkg.Path() + "." + g.Name()
						}
					}
				}
				pk := fn.Package().Pkg.Path()
				if byPkg[pk] == nil {
					byPkg[pk] = map[string]string{}
				}
				byPkg[pk][fn.Name()] = enc
				pos[pk+fn.Name()] = in
			})
		}
	}
	for _, pk := range an.SortedKeys(byPkg) {
		m := byPkg[pk]
		e, d := m["encodePageToken"], m["decodePageToken"]
		if e == "" || d == "" {
			continue
		}
		c.Check(e == d && e != "?", rule, an.ModRel(pk)+"|tokens are decoded with the alphabet they are encoded with", pos[pk+"encodePageToken"].Pos(), e,
			"encodePageToken uses "+e+" and decodePageToken "+d+": for names whose token bytes contain the characters on which the alphabets differ the server hands out a next_page_token that it then rejects itself, and the listing stops part way through")
	}
}

// r1510: an item is stored under the key it carries. Where a model lets the collection invent the id
// (WithGenIDIfAbsent) and copies it into the item through WithIDCallback, the message the callback writes is the very
// message handed to the collection as the value - not the caller's original next to a clone that is stored: the stored
// item would keep an empty key, the listing's search and tokens read that key, and the token chain never ends.
func r1510(c *an.Ctx) {
	const rule = "R15.10"
	n := 0
	for _, fn := range c.Prog.FuncsIn("pkg/trait") {
		if c.Prog.IsGenerated(fn.Pos()) || fn.Parent() != nil {
			continue
		}
		an.Instrs(fn, func(in ssa.Instruction) {
			call, ok := in.(*ssa.Call)
			if !ok {
				return
			}
			name := an.CalleeName(call)
			if !strings.HasSuffix(name, "pkg/resource.Collection).Add") && !strings.HasSuffix(name, "pkg/resource.Collection).Update") {
				return
			}
			if len(call.Call.Args) < 4 {
				return
			}
			written := call.Call.Args[2]
			// the id callbacks among the options of this call
			var cbs []*ssa.Function
			var walk func(v ssa.Value, depth int)
			walk = func(v ssa.Value, depth int) {
				if depth > 4 {
					return
				}
				for _, s0 := range an.Sources(v) {
					switch x := s0.(type) {
					case *ssa.Call:
						if an.CalleeName(x) == an.ModulePath+"/pkg/resource.WithIDCallback" {
							if f := an.ClosureFn(x.Call.Args[0]); f != nil {
								cbs = append(cbs, f)
							}
						}
					case *ssa.Slice:
						an.Instrs(fn, func(y ssa.Instruction) {
							if st, isSt := y.(*ssa.Store); isSt {
								if ia, isIA := st.Addr.(*ssa.IndexAddr); isIA && ia.X == x.X {
									walk(st.Val, depth+1)
								}
							}
						})
					}
				}
			}
			walk(call.Call.Args[3], 0)
			for _, cb := range cbs {
				an.Instrs(cb, func(y ssa.Instruction) {
					st, isSt := y.(*ssa.Store)
					if !isSt || len(cb.Params) != 1 {
						return
					}
					fromID := false
					for _, s0 := range an.Sources(st.Val) {
						if s0 == ssa.Value(cb.Params[0]) {
							fromID = true
						}
					}
					base, _, _, isF := an.FieldOf(st.Addr)
					if !fromID || !isF {
						return
					}
					n++
					same := false
					for _, a := range an.Sources(base) {
						for _, b := range an.Sources(written) {
							if a == b {
								same = true
							}
						}
					}
					c.SawFunc(an.FuncName(fn))
					c.Check(same, rule, an.FuncName(fn)+"|the generated id is written into the message that is stored", st.Pos(), "",
						"the id callback copies the generated id into a message other than the one handed to the collection (e.g. the caller's original while a clone is stored): the stored item keeps an empty key, so a listing that pages by that key issues the token of the empty key again and again")
				})
			}
		})
	}
	c.Count("id_callbacks", n)
}

// r1511: the waste model lists from the newest record down to the oldest, which is index 0: the loop that walks the
// records downwards still runs for index 0. Stopping above it drops the oldest record from the last page, so paging to
// the end enumerates one record fewer than total_size says.
func r1511(c *an.Ctx, rule string) {
	fn := mustFunc(c, rule, "pkg/trait/wastepb", "Model", "ListWasteRecords")
	if fn == nil {
		return
	}
	name := "(*pkg/trait/wastepb.Model).ListWasteRecords"
	n, ok := 0, true
	var where ssa.Instruction
	an.Instrs(fn, func(in ssa.Instruction) {
		ia, isIA := in.(*ssa.IndexAddr)
		if !isIA {
			return
		}
		// the index variable of the records slice: the loop variable itself, or the loop variable plus a constant
		// (`records[next-1]` under `next > 0`); the bound is evaluated at the loop variable's value for index 0
		idx := ia.Index
		var at int64
		if b, isB := idx.(*ssa.BinOp); isB && (b.Op == token.ADD || b.Op == token.SUB) {
			if k, isC := an.ConstInt(b.Y); isC {
				idx = b.X
				if b.Op == token.ADD {
					at = -k
				} else {
					at = k
				}
			}
		}
		for _, e := range an.GuardingEdges(ia) {
			bo, isBO := e.If.Cond.(*ssa.BinOp)
			if !isBO {
				continue
			}
			var k int64
			var op token.Token
			switch {
			case bo.X == idx:
				kk, isC := an.ConstInt(bo.Y)
				if !isC {
					continue
				}
				k, op = kk, bo.Op
			case bo.Y == idx:
				kk, isC := an.ConstInt(bo.X)
				if !isC {
					continue
				}
				k = kk
				switch bo.Op {
				case token.LSS:
					op = token.GTR
				case token.LEQ:
					op = token.GEQ
				case token.GTR:
					op = token.LSS
				case token.GEQ:
					op = token.LEQ
				default:
					op = bo.Op
				}
			default:
				continue
			}
			// does the edge admit index 0?
			var at0 bool
			switch op {
			case token.GEQ:
				at0 = at >= k
			case token.GTR:
				at0 = at > k
			case token.LEQ:
				at0 = at <= k
			case token.LSS:
				at0 = at < k
			case token.NEQ:
				at0 = at != k
			case token.EQL:
				at0 = at == k
			default:
				continue
			}
			if !e.Branch {
				at0 = !at0
			}
			n++
			if !at0 {
				ok, where = false, e.If
			}
		}
	})
	pos := fn.Pos()
	if where != nil {
		pos = where.Pos()
	}
	c.Check(ok && n > 0, rule, name+"|the walk down the records reaches index 0", pos, fmt.Sprintf("%d bound(s) on the index admit 0", n),
		"the loop over the stored records stops before index 0: the oldest record is never listed, so following next_page_token to the end yields total_size-1 records")
}

// r1512: whatever a paged handler answers a rejected request with is a gRPC status. A handler that hands back
// the error of a parsing or decoding library as it is answers with something status.FromError does not
// recognise (the client sees Unknown, or a bare Go error in process). Only errors whose origin is certain are
// judged: a status constructor, a module function (followed), or a function of another library.
func r1512(c *an.Ctx, hs []*ssa.Function) {
	const rule = "R15.12"
	for _, h := range hs {
		bad := rawErrorReturned(c, h, 0, map[*ssa.Function]bool{})
		c.Check(bad == "", rule, an.FuncName(h)+"|every error answered is a status", h.Pos(), "", "the handler answers a rejected request with an error that is not a gRPC status: "+bad)
	}
}

func rawErrorReturned(c *an.Ctx, fn *ssa.Function, depth int, seen map[*ssa.Function]bool) string {
	if seen[fn] || depth > 3 {
		return ""
	}
	seen[fn] = true
	for _, r := range an.Returns(fn) {
		if len(r.Results) == 0 || !an.IsErrorType(r.Results[len(r.Results)-1].Type()) {
			continue
		}
		errOp := r.Results[len(r.Results)-1]
		if provablyNilAt(errOp, r) {
			continue
		}
		for _, v := range an.ValuesAt(errOp) {
			if an.IsNilConst(v) {
				continue
			}
			if _, ok := an.StatusCode(v); ok {
				continue
			}
			var call *ssa.Call
			switch x := v.(type) {
			case *ssa.Call:
				call = x
			case *ssa.Extract:
				call, _ = x.Tuple.(*ssa.Call)
			}
			if call == nil {
				continue // a parameter, a field, a global: origin not certain
			}
			callee := call.Call.StaticCallee()
			if callee == nil {
				continue // dynamic call
			}
			if an.InModule(callee) {
				if bad := rawErrorReturned(c, callee, depth+1, seen); bad != "" {
					return bad
				}
				continue
			}
			pkg := ""
			if callee.Pkg != nil && callee.Pkg.Pkg != nil {
				pkg = callee.Pkg.Pkg.Path()
			} else if o := callee.Origin(); o != nil && o.Pkg != nil {
				pkg = o.Pkg.Pkg.Path()
			}
			if strings.HasPrefix(pkg, "google.golang.org/grpc") || strings.HasPrefix(pkg, an.ModulePath) {
				continue
			}
			return fmt.Sprintf("%s returns the error of %s as it is (%s)", an.FuncName(fn), an.CalleeName(call), c.Prog.Fset.Position(r.Pos()))
		}
	}
	return ""
}
