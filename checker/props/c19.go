package props

import (
	"fmt"
	"go/token"
	"go/types"
	"strings"

	"golang.org/x/tools/go/ssa"

	"scverif/an"
)

func init() {
	register(&Prop{
		ID:          "C19",
		Title:       "The electric model keeps its documented mode invariants",
		Explanation: "R19.1 every write of the modes collection and of the active mode (Collection.Add/Update/Delete, Value.Set on those two fields) happens with Model.mu held exclusively, every read of them that an invariant depends on (findMode, normalMode, the active id in deleteMode) with mu held, lock sets propagated from the exported methods to the unexported helpers; no function outside Model's methods touches the two resources. R19.2 every path to modes.Add / modes.Update either passes the false edge of a test of the written mode's Normal field or consults normalMode() and tests its result before the write. R19.3 modes.Delete is guarded by the comparison of the id with the active mode's id (ErrDeleteActiveMode otherwise) and activeMode.Set by a successful findMode. R19.4 ClearActiveMode goes through ChangeToNormalMode = normalMode() then changeActiveMode(normal id); the InterceptAfter of changeActiveMode stamps StartTime from the model clock exactly when the id changes. R19.5 deleteMode does not turn Collection.Delete's (nil, nil) - produced only under allow-missing - into an error, and reports a missing mode otherwise. Does NOT decide the invariants under all interleavings beyond serialisation, nor the interplay with the initial dummy active mode.",
		Assumptions: []string{"resource.Collection/Value semantics (C01/C02)"},
		Run:         runC19,
		Controls: []Control{
			{Name: "updates-normal-with-nil-safe-getpaths", File: "pkg/trait/electricpb/model.go", Old: "\tif mask == nil {\n\t\treturn true // all fields are updated\n\t}\n\tfor _, path := range mask.Paths {", New: "\tfor _, path := range mask.GetPaths() {", Expect: "R19.13"},
			{Name: "update-mode-writes-without-options", File: "pkg/trait/electricpb/model.go", Old: "m.modes.Update(mode.Id, mode, opts...)", New: "m.modes.Update(mode.Id, mode)", Expect: "R19.8"},
			{Name: "electric-defaults-after-callers-options", File: "pkg/trait/electricpb/model_opts.go", Old: "\targs.apply(DefaultModelOptions...)\n\targs.apply(opts...)\n", New: "\targs.apply(opts...)\n\targs.apply(DefaultModelOptions...)\n", Expect: "R19.7"},
			{Name: "update-mode-rewrites-the-mask-after-the-check", File: "pkg/trait/electricpb/model.go", Old: "\tmsg, err := m.modes.Update(mode.Id, mode, opts...)", New: "\tmsg, err := m.modes.Update(mode.Id, mode, append(opts[:len(opts):len(opts)], resource.WithUpdateMask(nil))...)", Expect: "R19.2"},
			{Name: "default-id-interceptor-on-modes", File: "pkg/trait/electricpb/model_opts.go", Old: "var DefaultModelOptions = []resource.Option{", New: "var _ = resource.WithIDInterceptor(func(s string) string { return s })\n\nvar DefaultModelOptions = []resource.Option{", Expect: "R19.6"},
			{Name: "updatemode-without-lock", File: "pkg/trait/electricpb/model.go", Old: "func (m *Model) UpdateMode(mode *traits.ElectricMode, opts ...resource.WriteOption) (*traits.ElectricMode, error) {\n\tm.mu.Lock()\n\tdefer m.mu.Unlock()\n", New: "func (m *Model) UpdateMode(mode *traits.ElectricMode, opts ...resource.WriteOption) (*traits.ElectricMode, error) {\n", Expect: "R19.1"},
			{Name: "findmode-rlock-dropped", File: "pkg/trait/electricpb/model.go", Old: "\tm.mu.RLock()\n\tdefer m.mu.RUnlock()\n\n\treturn m.findMode(id)", New: "\treturn m.findMode(id)", Expect: "R19.1"},
			{Name: "delete-active-allowed", File: "pkg/trait/electricpb/model.go", Old: "\tif id == active.Id {\n\t\treturn ErrDeleteActiveMode\n\t}\n", New: "\t_ = active\n", Expect: "R19.3"},
			{Name: "setactive-without-findmode", File: "pkg/trait/electricpb/model.go", Old: "\tif _, ok := m.findMode(mode.Id); !ok {\n\t\treturn ErrModeNotFound\n\t}\n\n\t_, err := m.activeMode.Set(mode)", New: "\t_, err := m.activeMode.Set(mode)", Expect: "R19.3"},
			{Name: "starttime-unconditional", File: "pkg/trait/electricpb/model.go", Old: "\t\tif oldMode.Id != newMode.Id {\n\t\t\tnewMode.StartTime = timestamppb.New(m.clock.Now())\n\t\t}", New: "\t\t_ = oldMode\n\t\tnewMode.StartTime = timestamppb.New(m.clock.Now())", Expect: "R19.4"},
			{Name: "starttime-wall-clock", File: "pkg/trait/electricpb/model.go", Old: "newMode.StartTime = timestamppb.New(m.clock.Now())", New: "newMode.StartTime = timestamppb.Now()", Expect: "R19.4"},
			{Name: "create-skips-normal-check", File: "pkg/trait/electricpb/model.go", Old: "\tif mode.Normal {\n\t\t_, ok := m.normalMode()\n\t\tif ok {\n\t\t\treturn nil, ErrNormalModeExists\n\t\t}\n\t}\n\n\tmsg, err := m.modes.Add(", New: "\tmsg, err := m.modes.Add(", Expect: "R19.2"},
			{Name: "revert-F19-update-skips-normal-check", File: "pkg/trait/electricpb/model.go", Old: "\t\tif normal, ok := m.normalMode(); ok && normal.Id != mode.Id {\n\t\t\treturn nil, ErrNormalModeExists\n\t\t}", New: "\t\t_ = m", Expect: "R19.2"},
			{Name: "revert-F20-nil-is-notfound", File: "pkg/trait/electricpb/model.go", Old: "\t_, err := m.modes.Delete(id, opts...)\n\tif status.Code(err) == codes.NotFound {\n\t\treturn ErrModeNotFound\n\t}\n\t// a missing mode without an error means the caller allowed the mode to be missing\n\treturn err", New: "\tmsg, err := m.modes.Delete(id, opts...)\n\tif err != nil {\n\t\treturn err\n\t}\n\tif msg == nil {\n\t\treturn ErrModeNotFound\n\t}\n\treturn nil", Expect: "R19.5"},
			{Name: "clear-shortcut-on-stale-snapshot", File: "pkg/trait/electricpb/model.go", Old: "\tnormal, ok := m.normalMode()\n\tif !ok {\n\t\treturn nil, ErrModeNotFound\n\t}\n\n\treturn m.changeActiveMode(normal.Id)", New: "\tif active := m.activeMode.Get().(*traits.ElectricMode); active.Normal {\n\t\treturn active, nil\n\t}\n\tnormal, ok := m.normalMode()\n\tif !ok {\n\t\treturn nil, ErrModeNotFound\n\t}\n\n\treturn m.changeActiveMode(normal.Id)", Expect: "R19.4"},
			{Name: "updates-normal-only-when-all-paths-normal", File: "pkg/trait/electricpb/model.go", Old: "\t\tif path == \"normal\" {\n\t\t\treturn true\n\t\t}\n\t}\n\treturn false", New: "\t\tif path != \"normal\" {\n\t\t\treturn false\n\t\t}\n\t}\n\treturn true", Expect: "R19.2"},
			{Name: "updates-normal-always-true", Silent: true, File: "pkg/trait/electricpb/model.go", Old: "\t\tif path == \"normal\" {\n\t\t\treturn true\n\t\t}\n\t}\n\treturn false", New: "\t\tif path == \"normal\" {\n\t\t\treturn true\n\t\t}\n\t}\n\treturn true"},
			{Name: "clear-uses-first-mode", File: "pkg/trait/electricpb/model.go", Old: "\tnormal, ok := m.normalMode()\n\tif !ok {\n\t\treturn nil, ErrModeNotFound\n\t}\n\n\treturn m.changeActiveMode(normal.Id)", New: "\tnormal, ok := m.normalMode()\n\tif !ok {\n\t\treturn nil, ErrModeNotFound\n\t}\n\t_ = normal\n\n\treturn m.changeActiveMode(m.activeMode.Get().(*traits.ElectricMode).Id)", Expect: "R19.4"},
		},
	})
}

const elecPkg = "pkg/trait/electricpb"

func runC19(c *an.Ctx) {
	r196(c)
	r192mask(c)
	r191(c)
	r192(c)
	r193(c)
	r194(c)
	r195(c)
	rDefaultsFirst(c, "R19.7", "pkg/trait/electricpb")
	c.Min("R19.7", 1)
	rWriteOptsForwarded(c, "R19.8", "pkg/trait/electricpb")
	c.Min("R19.8", 3)
	r1913(c, "R19.13")
	c.Min("R19.13", 1)
	r054as(c, "R19.10") // an empty update mask writes nothing, so the "does this write `normal`" guard and the write agree (shared with R05.4)
	c.Min("R19.10", 1)
	shareAs(c, "R01.2", "R19.11", r012, nil) // the after-interceptor (which stamps the start time) works on the message that is stored (shared with R01.2)
	c.Min("R19.11", 3)
	r0113(c, "R19.12") // DeleteMode/UpdateMode hand their options on: allow_missing reaches the collection (shared with R01.13)
	c.Min("R19.12", 40)
	r0112(c, "R19.9") // allow_missing, create-if-absent, expected checks: an option does what its argument says (shared with R01.12)
	c.Min("R19.9", 60)
	c.Min("R19.1", 8)
	c.Min("R19.2", 2)
	c.Min("R19.3", 3)
	c.Min("R19.4", 4)
	c.Min("R19.5", 2)
}

// modelResourceCall classifies a call on Model.modes / Model.activeMode.
func modelResourceCall(in ssa.Instruction) (field, method string, ok bool) {
	call, isCall := in.(*ssa.Call)
	if !isCall {
		return
	}
	n := an.CalleeName(call)
	if !strings.Contains(n, "/pkg/resource.Collection).") && !strings.Contains(n, "/pkg/resource.Value).") {
		return
	}
	if len(call.Call.Args) == 0 {
		return
	}
	_, sn, f, isF := an.FieldOf(call.Call.Args[0])
	if !isF || !strings.HasSuffix(sn, "/pkg/trait/electricpb.Model") || (f != "modes" && f != "activeMode") {
		return
	}
	return f, n[strings.LastIndex(n, ".")+1:], true
}

func r191(c *an.Ctx) {
	const rule = "R19.1"
	w := lockWorld(c)
	n := 0
	// the active-id check of deleteMode, wherever it is written (deleteMode itself or a helper it delegates to)
	inDelete := map[*ssa.Function]bool{}
	if dm := deletingMethod(c); dm != nil {
		inDelete[dm] = true
		for _, h := range an.TransparentCalleesOf(dm, 2) {
			inDelete[h] = true
		}
	}
	for _, fn := range c.Prog.FuncsIn(elecPkg) {
		if c.Prog.IsGenerated(fn.Pos()) {
			continue
		}
		an.Instrs(fn, func(in ssa.Instruction) {
			f, m, ok := modelResourceCall(in)
			if !ok {
				return
			}
			isWrite := m == "Add" || m == "Update" || m == "Delete" || m == "Set"
			isInvRead := (f == "modes" && (m == "Get" || m == "List")) || (f == "activeMode" && m == "Get" && inDelete[fn])
			// plain projections for clients (Modes, ActiveMode, Pull…) need no model lock: the resources lock themselves
			if !isWrite && !isInvRead {
				return
			}
			if !isWrite && (fn.Name() == "Modes") {
				return
			}
			n++
			held := w.At(in)
			lockPath := strings.TrimSuffix(an.AccessPath(in.(*ssa.Call).Call.Args[0]), "."+f) + ".mu"
			need := an.RLock
			what := "read that an invariant depends on"
			if isWrite {
				need = an.WLock
				what = "write"
			}
			c.SawFunc(an.FuncName(fn))
			c.Check(held[lockPath] >= need, rule, fmt.Sprintf("%s|%s.%s under Model.mu", an.FuncName(fn), f, m), in.Pos(), "lock set "+held.String(),
				fmt.Sprintf("%s of Model.%s (%s) with lock set %s (entry of %s: %s): mode operations are not serialised, so check-then-act sequences (normal-mode check, active-id check, find-then-set) can interleave and break the documented invariants", what, f, m, held.String(), an.FuncName(fn), w.Why[fn]))
			// only Model's methods touch the resources
			isModelMethod := false
			root := fn
			for root.Parent() != nil {
				root = root.Parent()
			}
			if root.Signature.Recv() != nil && strings.HasSuffix(an.NamedTypeName(root.Signature.Recv().Type()), "/pkg/trait/electricpb.Model") {
				isModelMethod = true
			}
			if !isModelMethod {
				c.Bad(rule, fmt.Sprintf("%s|%s.%s outside Model", an.FuncName(fn), f, m), in.Pos(), "the model's resources are used from outside Model's methods, bypassing its mutex")
			}
		})
	}
	if n == 0 {
		c.Unk(rule, "pkg/trait/electricpb.Model|resource calls", 0, "no call on Model.modes / Model.activeMode found")
	}
}

func r192(c *an.Ctx) {
	const rule = "R19.2"
	n := 0
	for _, fn := range c.Prog.FuncsIn(elecPkg) {
		if c.Prog.IsGenerated(fn.Pos()) {
			continue
		}
		an.Instrs(fn, func(in ssa.Instruction) {
			f, m, ok := modelResourceCall(in)
			if !ok || f != "modes" || (m != "Add" && m != "Update") {
				return
			}
			n++
			call := in.(*ssa.Call)
			written := call.Call.Args[2] // (recv, id, msg, opts...)
			// paths to the write avoiding (a) the false edge of a `written.Normal` test and (b) a tested normalMode() call
			normalFalse := func(from, to *ssa.BasicBlock) bool {
				iff, isIf := from.Instrs[len(from.Instrs)-1].(*ssa.If)
				if !isIf || from.Succs[0] == from.Succs[1] {
					return false
				}
				cond := iff.Cond
				neg := false
				if u, isNot := cond.(*ssa.UnOp); isNot && u.Op == token.NOT {
					cond, neg = u.X, true
				}
				_, _, fld, isF := an.FieldOf(cond)
				if !isF || fld != "Normal" {
					return false
				}
				falseSucc := from.Succs[1]
				if neg {
					falseSucc = from.Succs[0]
				}
				return to == falseSucc
			}
			checked := func(x ssa.Instruction) bool {
				cl, isCall := x.(*ssa.Call)
				if !isCall {
					return false
				}
				// a helper the rules have not seen that reports normalMode()'s verdict (e.g. hasNormalMode)
				if h := an.TransparentCallee(cl); h != nil && h.Signature.Results().Len() == 1 {
					reports := false
					for _, inner := range an.CallsIn(h, func(s string) bool { return strings.HasSuffix(s, "electricpb.Model).normalMode") }) {
						for _, r := range an.Returns(h) {
							for _, v := range an.ValuesAt(r.Results[0]) {
								if an.IsExtractOf(v, inner.(*ssa.Call), 1) {
									reports = true
								}
							}
						}
					}
					return reports && len(flowsToIf(cl)) > 0
				}
				if !strings.HasSuffix(an.CalleeName(cl), "electricpb.Model).normalMode") {
					return false
				}
				// its result is tested
				for _, u := range an.Referrers(cl) {
					if ex, isEx := u.(*ssa.Extract); isEx {
						if len(flowsToIf(ex)) > 0 {
							return true
						}
					}
				}
				return false
			}
			_ = written
			// The ways around a tested normalMode() call C that are accepted: the opposite branch of any
			// condition that guards C, provided one of those conditions is the Normal test of the written
			// mode (e.g. `if mode.Normal && <the update writes the normal field> { normalMode() … }`).
			var guardOpp []an.CondEdge
			eachInstrDeep(fn, func(x ssa.Instruction) {
				if !checked(x) {
					return
				}
				gs := an.GuardingEdges(x)
				hasNormal := false
				for _, g := range gs {
					cond := g.If.Cond
					if u, isNot := cond.(*ssa.UnOp); isNot && u.Op == token.NOT {
						cond = u.X
					}
					if _, _, fld, isF := an.FieldOf(cond); isF && fld == "Normal" {
						hasNormal = true
					}
				}
				if hasNormal {
					for _, g := range gs {
						cond := g.If.Cond
						if u, isNot := cond.(*ssa.UnOp); isNot && u.Op == token.NOT {
							cond = u.X
						}
						if _, _, fld, isF := an.FieldOf(cond); !(isF && fld == "Normal") {
							// another condition that lets a write skip the check: it must be a sound
							// "this update does not write the normal field" test
							if why := writesNormalHelper(cond); why != "" {
								c.Bad(rule, fmt.Sprintf("%s|the condition that skips the normal-mode check is sound", an.FuncName(fn)), g.If.Pos(), why)
								continue
							}
							c.Ok(rule, fmt.Sprintf("%s|the condition that skips the normal-mode check is sound", an.FuncName(fn)), g.If.Pos(), "mask helper answers false only after comparing every path with \"normal\"")
						}
						guardOpp = append(guardOpp, an.CondEdge{If: g.If, Branch: !g.Branch})
					}
				}
			})
			avoidEdge := func(from, to *ssa.BasicBlock) bool {
				if normalFalse(from, to) {
					return true
				}
				for _, g := range guardOpp {
					if g.If.Block() == from && g.Target() == to {
						return true
					}
				}
				return false
			}
			t, path := an.PathQuery{Target: func(x ssa.Instruction) bool { return x == in }, Avoid: checked, AvoidEdge: avoidEdge}.From(fn, nil)
			c.SawFunc(an.FuncName(fn))
			c.Check(t == nil, rule, fmt.Sprintf("%s|modes.%s keeps at most one normal mode", an.FuncName(fn), m), in.Pos(), "every path sees Normal == false or consults normalMode()",
				"a path reaches modes."+m+" with a mode that may have Normal == true without consulting normalMode(): a second normal mode can be stored (invariant 1: at most one mode has normal = true)", an.BlockPath(c.Prog, path)...)
		})
	}
	if n == 0 {
		c.Unk(rule, "pkg/trait/electricpb.Model|mode writes", 0, "no modes.Add / modes.Update found")
	}
}

func r193(c *an.Ctx) {
	const rule = "R19.3"
	for _, fn := range c.Prog.FuncsIn(elecPkg) {
		if c.Prog.IsGenerated(fn.Pos()) {
			continue
		}
		an.Instrs(fn, func(in ssa.Instruction) {
			f, m, ok := modelResourceCall(in)
			if !ok {
				return
			}
			switch {
			case f == "modes" && m == "Delete":
				// guarded by id != active.Id, the other edge returns ErrDeleteActiveMode
				call := in.(*ssa.Call)
				good := false
				for _, e := range an.GuardingEdges(in) {
					for _, fact := range an.BinOpFacts(e) {
						bo := fact.Op
						if bo.Op != token.EQL && bo.Op != token.NEQ {
							continue
						}
						var idSide, activeSide ssa.Value
						for _, pair := range [][2]ssa.Value{{bo.X, bo.Y}, {bo.Y, bo.X}} {
							if _, _, fld, isF := an.FieldOf(pair[1]); isF && fld == "Id" {
								idSide, activeSide = pair[0], pair[1]
							}
						}
						if idSide == nil || !an.SameValues(idSide, call.Call.Args[1]) {
							continue
						}
						// activeSide derives from activeMode.Get()
						fromActive := false
						base, _, _, _ := an.FieldOf(activeSide)
						for _, s := range an.Sources(base) {
							if g, isCall := s.(*ssa.Call); isCall {
								if af, am, okr := modelResourceCall(g); okr && af == "activeMode" && am == "Get" {
									fromActive = true
								}
							}
						}
						differs := (bo.Op == token.EQL && !fact.Holds) || (bo.Op == token.NEQ && fact.Holds)
						if fromActive && differs {
							// the other edge returns the sentinel
							other := an.CondEdge{If: e.If, Branch: !e.Branch}
							for _, r := range an.Returns(fn) {
								if an.EdgeGuards(other, r) {
									for _, v := range an.ValuesAt(r.Results[len(r.Results)-1]) {
										if u, isU := v.(*ssa.UnOp); isU {
											if g, isG := u.X.(*ssa.Global); isG && g.Name() == "ErrDeleteActiveMode" {
												good = true
											}
										}
									}
								}
							}
						}
					}
				}
				c.SawFunc(an.FuncName(fn))
				c.Check(good, rule, an.FuncName(fn)+"|the active mode is never deleted", in.Pos(), "modes.Delete guarded by id != active id, else ErrDeleteActiveMode",
					"modes.Delete(id) is not guarded by a comparison of id with the active mode's id that returns ErrDeleteActiveMode: the active mode can be deleted (invariant 2)")
			case f == "activeMode" && m == "Set":
				// dominated by a successful findMode of the id being activated
				good := false
				for _, e := range an.GuardingEdges(in) {
					for _, v := range an.Sources(e.If.Cond) {
						if ex, isEx := v.(*ssa.Extract); isEx && ex.Index == 1 {
							if fc, isCall := ex.Tuple.(*ssa.Call); isCall && strings.HasSuffix(an.CalleeName(fc), "electricpb.Model).findMode") && e.Branch {
								good = true
							}
						}
					}
				}
				c.SawFunc(an.FuncName(fn))
				c.Check(good, rule, an.FuncName(fn)+"|only an existing mode becomes active", in.Pos(), "activeMode.Set guarded by findMode's ok",
					"activeMode.Set is not dominated by a successful findMode: a mode that does not exist can become active (invariant 3)")
			}
		})
	}
}

func r194(c *an.Ctx) {
	const rule = "R19.4"
	// ClearActiveMode -> ChangeToNormalMode
	if fn := mustFunc(c, rule, elecPkg, "ModelServer", "ClearActiveMode"); fn != nil {
		ok := false
		for _, r := range an.Returns(fn) {
			for _, v := range an.ValuesAt(r.Results[0]) {
				if ex, isEx := v.(*ssa.Extract); isEx {
					if call, isCall := ex.Tuple.(*ssa.Call); isCall && strings.HasSuffix(an.CalleeName(call), "electricpb.Model).ChangeToNormalMode") {
						ok = true
					}
				}
			}
		}
		c.Check(ok, rule, "(*pkg/trait/electricpb.ModelServer).ClearActiveMode|selects the normal mode", fn.Pos(), "", "ClearActiveMode does not return Model.ChangeToNormalMode()")
	}
	if fn := mustFunc(c, rule, elecPkg, "Model", "ChangeToNormalMode"); fn != nil {
		ok := false
		for _, call := range an.CallsTo(fn, "(*"+an.ModulePath+"/pkg/trait/electricpb.Model).changeActiveMode") {
			// argument: Id of normalMode()'s result, guarded by its ok
			base, _, f, isF := an.FieldOf(call.Common().Args[1])
			if !isF || f != "Id" {
				continue
			}
			for _, s := range an.Sources(base) {
				if ex, isEx := s.(*ssa.Extract); isEx && ex.Index == 0 {
					if nc, isCall := ex.Tuple.(*ssa.Call); isCall && strings.HasSuffix(an.CalleeName(nc), "electricpb.Model).normalMode") {
						if an.GuardedByTrueResult(call, nc, 1) {
							ok = true
						}
					}
				}
			}
		}
		c.Check(ok, rule, "(*pkg/trait/electricpb.Model).ChangeToNormalMode|changes to the id of normalMode()", fn.Pos(), "", "ChangeToNormalMode does not activate the id of the mode normalMode() found (guarded by its ok)")
		// every return that can report success hands back changeActiveMode's result: there is no way to
		// succeed without switching to the mode normalMode() found just now
		okRet := true
		where := fn.Pos()
		for _, r := range an.Returns(fn) {
			for _, v := range an.ValuesAt(r.Results[1]) {
				if u, isLoad := v.(*ssa.UnOp); isLoad {
					if _, isG := u.X.(*ssa.Global); isG {
						continue // a sentinel error
					}
				}
				if ex, isEx := v.(*ssa.Extract); isEx {
					if call, isCall := ex.Tuple.(*ssa.Call); isCall && strings.HasSuffix(an.CalleeName(call), "electricpb.Model).changeActiveMode") {
						continue
					}
				}
				okRet = false
				where = r.Pos()
			}
		}
		c.Check(okRet, rule, "(*pkg/trait/electricpb.Model).ChangeToNormalMode|succeeds only through changeActiveMode(normal id)", where, "", "ChangeToNormalMode can return without an error from changeActiveMode: a shortcut (e.g. `the stored active mode says normal`) keeps a stale active mode after the normal flag moved to another mode, and the new normal mode's start time is never stamped")
	}
	// normalMode returns a mode whose Normal is true
	if fn := mustFunc(c, rule, elecPkg, "Model", "normalMode"); fn != nil {
		ok := false
		for _, r := range an.Returns(fn) {
			if b, isC := an.ConstBool(r.Results[1]); isC && b {
				for _, e := range an.GuardingEdges(r) {
					if _, _, f, isF := an.FieldOf(e.If.Cond); isF && f == "Normal" && e.Branch {
						ok = true
					}
				}
			}
		}
		c.Check(ok, rule, "(*pkg/trait/electricpb.Model).normalMode|finds the mode with Normal == true", fn.Pos(), "", "normalMode's positive result is not guarded by mode.Normal")
	}
	// start time
	if fn := mustFunc(c, rule, elecPkg, "Model", "changeActiveMode"); fn != nil {
		n := 0
		for _, call := range an.CallsTo(fn, an.ModulePath+"/pkg/resource.InterceptAfter") {
			f, _, newP := an.CallbackBody(call.Common().Args[0])
			if f == nil || newP == nil {
				continue
			}
			c.SawFunc(an.FuncName(f))
			an.Instrs(f, func(in ssa.Instruction) {
				st, ok := in.(*ssa.Store)
				if !ok {
					return
				}
				base, _, fld, isF := an.FieldOf(st.Addr)
				if !isF || fld != "StartTime" {
					return
				}
				n++
				// written to `new`
				toNew := false
				for _, s := range an.Sources(base) {
					if s == ssa.Value(newP) {
						toNew = true
					}
				}
				// value: timestamppb.New(m.clock.Now())
				fromClock := false
				for _, v := range an.ValuesAt(st.Val) {
					if tc, isCall := v.(*ssa.Call); isCall && strings.HasSuffix(an.CalleeName(tc), "timestamppb.New") {
						if nc, isCall := tc.Call.Args[0].(*ssa.Call); isCall && nc.Call.IsInvoke() && nc.Call.Method.Name() == "Now" {
							if _, _, cf, isF := an.FieldOf(nc.Call.Value); isF && cf == "clock" {
								fromClock = true
							}
						}
					}
				}
				// guarded by old.Id != new.Id
				guard := false
				for _, e := range an.GuardingEdges(st) {
					bo, isBO := e.If.Cond.(*ssa.BinOp)
					if !isBO {
						continue
					}
					bx, _, fx, okx := an.FieldOf(bo.X)
					by, _, fy, oky := an.FieldOf(bo.Y)
					if okx && oky && fx == "Id" && fy == "Id" && bx != by {
						if (bo.Op == token.NEQ && e.Branch) || (bo.Op == token.EQL && !e.Branch) {
							guard = true
						}
					}
				}
				c.Check(toNew && fromClock && guard, rule, an.FuncName(f)+"|StartTime stamped from the model clock exactly when the id changes", st.Pos(), "",
					fmt.Sprintf("StartTime is written to the new mode: %v, from the model clock: %v, only when old.Id != new.Id: %v", toNew, fromClock, guard))
			})
		}
		if n == 0 {
			c.Bad(rule, "(*pkg/trait/electricpb.Model).changeActiveMode|StartTime stamped", fn.Pos(), "switching the active mode never stamps its start time")
		}
	}
}

func r195(c *an.Ctx) {
	const rule = "R19.5"
	// the method that deletes from the modes collection: deleteMode, or DeleteMode when the helper was folded into it
	fn := deletingMethod(c)
	if fn == nil {
		c.Unk(rule, "(*pkg/trait/electricpb.Model).deleteMode|delete", 0, "no method of Model calls modes.Delete")
		return
	}
	name := "(*pkg/trait/electricpb.Model).deleteMode"
	var del *ssa.Call
	an.Instrs(fn, func(in ssa.Instruction) {
		if f, m, ok := modelResourceCall(in); ok && f == "modes" && m == "Delete" {
			del = in.(*ssa.Call)
		}
	})
	if del == nil {
		c.Unk(rule, name+"|delete", fn.Pos(), "modes.Delete not found")
		return
	}
	// (nil, nil) is produced only under allow-missing: a return guarded by (err == nil) and (msg == nil) must be nil
	bad := false
	for _, r := range an.Returns(fn) {
		if !an.GuardedByNilResult(r, del, 1) {
			continue
		}
		msgNil := false
		for _, e := range an.GuardingEdges(r) {
			x, trueMeansNil, ok := an.NilTest(e.If.Cond)
			if ok && e.Branch == trueMeansNil {
				for _, v := range an.ValuesAt(x) {
					if an.IsExtractOf(v, del, 0) {
						msgNil = true
					}
				}
			}
		}
		if msgNil && !provablyNilAt(r.Results[0], r) {
			bad = true
		}
	}
	c.Check(!bad, rule, name+"|allow-missing delete of an absent mode succeeds", fn.Pos(), "", "Collection.Delete returns (nil, nil) only when allow-missing was requested and the item is absent, and deleteMode turns exactly that into ErrModeNotFound: DeleteMode(allow_missing) of an absent mode fails instead of succeeding")
	// the options reach Delete, and its error is returned
	passes := len(del.Call.Args) >= 3 && func() bool {
		for _, s := range an.Sources(del.Call.Args[2]) {
			if p, ok := s.(*ssa.Parameter); ok && p.Parent() == fn {
				return true
			}
		}
		return false
	}()
	errRet := false
	for _, r := range an.Returns(fn) {
		for _, v := range an.ValuesAt(r.Results[0]) {
			if an.IsExtractOf(v, del, 1) {
				errRet = true
			}
			// or mapped to the sentinel
			if u, ok := v.(*ssa.UnOp); ok {
				if g, ok := u.X.(*ssa.Global); ok && g.Name() == "ErrModeNotFound" && !an.GuardedByNilResult(r, del, 1) {
					errRet = true
				}
			}
		}
	}
	c.Check(passes && errRet, rule, name+"|write options reach Delete and a missing mode is reported", fn.Pos(), "", "the caller's options (allow-missing) are not passed to modes.Delete, or Delete's NotFound is swallowed")
	// the server passes allow_missing
	if sf := c.Prog.Func(elecPkg, "ModelServer", "DeleteMode"); sf != nil {
		ok := false
		for _, call := range an.CallsTo(sf, an.ModulePath+"/pkg/resource.WithAllowMissing") {
			if _, _, f, isF := an.FieldOf(call.Common().Args[0]); isF && f == "AllowMissing" {
				ok = true
			}
		}
		c.Check(ok, rule, "(*pkg/trait/electricpb.ModelServer).DeleteMode|allow_missing is forwarded", sf.Pos(), "", "the request's allow_missing does not reach the model")
	}
}

// writesNormalHelper validates a condition under which updateMode skips the normal-mode check: a call of a
// package function over the update mask that may answer false only when no path of the mask is "normal"
// (nil mask = all fields). Accepted shape: `return false` only after the loop over mask.Paths has finished,
// every `path == "normal"` hit returns true, a nil mask returns true. "" = sound.
func writesNormalHelper(cond ssa.Value) string {
	call, ok := cond.(*ssa.Call)
	if !ok {
		return "the check for an existing normal mode is skipped under a condition that is neither the written mode's Normal flag nor a call of a mask helper"
	}
	h := call.Call.StaticCallee()
	if h == nil || len(h.Blocks) == 0 {
		return "the condition that skips the normal-mode check calls something that cannot be resolved"
	}
	var loopHdr *ssa.BasicBlock
	for _, b := range h.Blocks {
		if b.Comment == "rangeindex.loop" || b.Comment == "rangeiter.loop" {
			loopHdr = b
		}
	}
	inLoop := func(b *ssa.BasicBlock) bool {
		if loopHdr == nil {
			return false
		}
		body := loopHdr.Succs[0]
		return body.Dominates(b)
	}
	for _, r := range an.Returns(h) {
		for _, v := range an.ValuesAt(r.Results[0]) {
			b, isC := an.ConstBool(v)
			if !isC {
				if cl, isCall := v.(*ssa.Call); isCall && strings.HasSuffix(an.CalleeName(cl), "slices.Contains") {
					continue
				}
				return an.FuncName(h) + " returns a computed verdict of a form this rule does not know"
			}
			if b {
				continue // answering true only ever adds a check
			}
			if loopHdr == nil {
				return an.FuncName(h) + " answers false without looking at the mask's paths"
			}
			if inLoop(r.Block()) {
				return an.FuncName(h) + " answers `does not write normal` from inside the loop over the mask's paths, i.e. before every path has been compared: an update with the mask [title, normal] skips the check for an existing normal mode and a second mode becomes normal (invariant 1)"
			}
			// the mask is known non-nil and the loop is over
			if !loopHdr.Dominates(r.Block()) {
				return an.FuncName(h) + " answers false on a path that never iterated the mask's paths"
			}
		}
	}
	// every comparison with "normal" that hits leads to true
	hit := false
	bad := ""
	an.Instrs(h, func(in ssa.Instruction) {
		iff, ok := in.(*ssa.If)
		if !ok {
			return
		}
		bo, ok := iff.Cond.(*ssa.BinOp)
		if !ok || (bo.Op != token.EQL && bo.Op != token.NEQ) {
			return
		}
		k, isK := bo.Y.(*ssa.Const)
		if !isK || k.Value == nil || k.Value.ExactString() != "\"normal\"" {
			return
		}
		hit = true
		e := an.CondEdge{If: iff, Branch: bo.Op == token.EQL}
		okTrue := false
		for _, r := range an.Returns(h) {
			if b, isC := an.ConstBool(r.Results[0]); isC && b && an.EdgeGuards(e, r) {
				okTrue = true
			}
		}
		if !okTrue {
			bad = an.FuncName(h) + ": a path equal to \"normal\" does not lead to the answer true"
		}
	})
	if bad != "" {
		return bad
	}
	if loopHdr != nil && !hit {
		return an.FuncName(h) + " never compares a path with \"normal\""
	}
	return ""
}

// eachInstrDeep visits the instructions of fn and of the callees of fn the analyses look through.
func eachInstrDeep(fn *ssa.Function, f func(ssa.Instruction)) {
	an.Instrs(fn, f)
	for _, h := range an.TransparentCalleesOf(fn, 2) {
		an.Instrs(h, f)
	}
}

// deletingMethod: the function of the electric model that calls modes.Delete.
func deletingMethod(c *an.Ctx) *ssa.Function {
	var out *ssa.Function
	for _, fn := range c.Prog.FuncsIn(elecPkg) {
		if c.Prog.IsGenerated(fn.Pos()) {
			continue
		}
		an.Instrs(fn, func(in ssa.Instruction) {
			if f, m, ok := modelResourceCall(in); ok && f == "modes" && m == "Delete" && out == nil {
				out = fn
			}
		})
	}
	return out
}

// r196: the model compares mode ids itself (the id to delete against the active mode's id, the normal mode's id
// against the updated mode's) with ids exactly as its callers spell them. That is only sound while the modes collection
// stores ids as given: an id interceptor on it makes the collection resolve a spelling ("eco ") that the model's
// own comparison treats as a different id, so the active mode can be deleted.
func r196(c *an.Ctx) {
	const rule = "R19.6"
	n := 0
	for _, fn := range c.Prog.FuncsIn(elecPkg) {
		if c.Prog.IsGenerated(fn.Pos()) {
			continue
		}
		for _, cl := range an.CallsTo(fn, an.ModulePath+"/pkg/resource.WithIDInterceptor") {
			n++
			c.Bad(rule, an.FuncName(fn)+"|mode ids are stored as given", cl.Pos(),
				"an id interceptor is installed on a resource of the electric model: DeleteMode compares the id it is given with the active mode's id before the collection maps it, so a spelling the interceptor maps onto the active mode's id passes the guard and removes the active mode (invariant 2)")
		}
	}
	if sp := c.Prog.SSAPackage(elecPkg); sp != nil {
		if ini := sp.Func("init"); ini != nil {
			for _, cl := range an.CallsTo(ini, an.ModulePath+"/pkg/resource.WithIDInterceptor") {
				n++
				c.Bad(rule, "pkg/trait/electricpb.init|mode ids are stored as given", cl.Pos(),
					"an id interceptor is installed by the model's default options: DeleteMode compares the id it is given with the active mode's id before the collection maps it, so a spelling the interceptor maps onto the active mode's id passes the guard and removes the active mode (invariant 2)")
			}
		}
	}
	if n == 0 {
		c.Ok(rule, "pkg/trait/electricpb|mode ids are stored as given", 0, "no id interceptor is installed by the electric model")
	}
}

// r192mask: the update mask that decides whether the normal-mode check may be skipped is the mask the collection goes
// on to apply: the function that updates a mode does not add mask options of its own to the caller's options (an empty
// mask judged as "does not write normal" and then turned into "full update" stores a second normal mode).
func r192mask(c *an.Ctx) {
	const rule = "R19.2"
	for _, fn := range c.Prog.FuncsIn(elecPkg) {
		if c.Prog.IsGenerated(fn.Pos()) || fn.Parent() != nil {
			continue
		}
		an.Instrs(fn, func(in ssa.Instruction) {
			f, m, ok := modelResourceCall(in)
			if !ok || f != "modes" || m != "Update" {
				return
			}
			call := in.(*ssa.Call)
			a := call.Call.Args
			bad := ""
			seen := map[ssa.Value]bool{}
			var walk func(v ssa.Value, depth int)
			walk = func(v ssa.Value, depth int) {
				if depth > 6 || seen[v] {
					return
				}
				seen[v] = true
				for _, s0 := range an.Sources(v) {
					switch x := s0.(type) {
					case *ssa.Call:
						n := an.CalleeName(x)
						if strings.HasPrefix(n, an.ModulePath+"/pkg/resource.With") && (strings.Contains(n, "UpdateMask") || strings.Contains(n, "UpdatePaths")) {
							bad = an.ModRel(n)
						}
						if n == "builtin append" {
							for _, arg := range x.Call.Args {
								walk(arg, depth+1)
							}
						}
					case *ssa.Slice:
						walk(x.X, depth+1)
						owner := x.Parent()
						an.Instrs(owner, func(y ssa.Instruction) {
							if st, isSt := y.(*ssa.Store); isSt {
								if ia, isIA := st.Addr.(*ssa.IndexAddr); isIA && ia.X == x.X {
									walk(st.Val, depth+1)
								}
							}
						})
					case *ssa.MakeInterface:
						walk(x.X, depth+1)
					}
				}
			}
			walk(a[len(a)-1], 0)
			c.SawFunc(an.FuncName(fn))
			c.Check(bad == "", rule, an.FuncName(fn)+"|the mask that was judged is the mask that is applied", call.Pos(), "the caller's options reach modes.Update unchanged in their masks",
				"the options handed to modes.Update contain a mask option added here ("+bad+"): the normal-mode check was made against the caller's mask (an empty mask writes nothing, so the check is skipped) while the collection applies another one (a full update): a second normal mode is stored")
		})
	}
}

// rWriteOptsForwarded: a model's write function performs its resource write with the options it was given. The
// update mask, the expected-value checks and the interceptors of the caller are part of the write; a function that
// reads them for its own guard (`ComputeWriteConfig(opts...)`) but writes without them turns a masked update into
// a whole-message replace - fields the mask did not name (electric: `normal` carried along in the message) are
// stored. Every Value.Set / Collection.Update/Add/Delete in a function that takes ...resource.WriteOption receives
// a list that derives from that parameter.
func rWriteOptsForwarded(c *an.Ctx, rule, prefix string) {
	n := 0
	for _, fn := range c.Prog.FuncsIn(prefix) {
		if c.Prog.IsGenerated(fn.Pos()) || fn.Parent() != nil || !fn.Signature.Variadic() || len(fn.Params) == 0 || strings.HasSuffix(c.Prog.RelFile(fn.Pos()), "_test.go") {
			continue
		}
		vp := fn.Params[len(fn.Params)-1]
		if sl, isSl := vp.Type().Underlying().(*types.Slice); !isSl || !strings.HasSuffix(an.NamedTypeName(sl.Elem()), "pkg/resource.WriteOption") {
			continue
		}
		ord := 0
		an.Instrs(fn, func(in ssa.Instruction) {
			call, ok := in.(*ssa.Call)
			if !ok {
				return
			}
			cn := an.CalleeName(call)
			isWrite := false
			for _, w := range []string{"pkg/resource.Value).Set", "pkg/resource.Collection).Update", "pkg/resource.Collection).Add", "pkg/resource.Collection).Delete"} {
				if strings.HasSuffix(cn, w) {
					isWrite = true
				}
			}
			if !isWrite {
				return
			}
			ord++
			n++
			derives := false
			seen := map[ssa.Value]bool{}
			var visit func(v ssa.Value)
			visit = func(v ssa.Value) {
				if v == nil || seen[v] {
					return
				}
				seen[v] = true
				for _, s := range localValues(v, 0) {
					if s == ssa.Value(vp) {
						derives = true
					}
					switch x := s.(type) {
					case *ssa.Call:
						// append(...) and options computed from the caller's (m.withComputed(calcArgs(opts...)))
						for _, a := range x.Call.Args {
							visit(a)
						}
					case *ssa.Slice:
						visit(x.X)
						for _, e := range variadicElems(x) {
							visit(e)
						}
					case *ssa.Extract:
						visit(x.Tuple)
					}
				}
			}
			visit(call.Call.Args[len(call.Call.Args)-1])
			c.SawFunc(an.FuncName(fn))
			c.Check(derives, rule, fmt.Sprintf("%s|write #%d is made with the caller's options", an.FuncName(fn), ord), call.Pos(), "the option list derives from the function's own ...WriteOption",
				"the resource write is made without the options the function was given: the caller's update mask, preconditions and interceptors are dropped, so a masked update replaces the whole message")
		})
	}
	c.Count("writes_in_option_taking_functions", n)
}

// r1913: a write without an update mask writes every field, `normal` included. updatesNormal answers true for a nil
// mask; answered false (a nil-safe GetPaths() reads a nil mask as "no paths") an unmasked UpdateMode skips the
// one-normal-mode check and a second mode can be marked normal.
func r1913(c *an.Ctx, rule string) {
	fn := c.Prog.Func(elecPkg, "", "updatesNormal")
	if fn == nil || len(fn.Params) != 1 {
		c.Ok(rule, "pkg/trait/electricpb|no separate updatesNormal helper", 0, "")
		return
	}
	name := an.FuncName(fn)
	c.SawFunc(name)
	okNil := false
	for _, r := range an.Returns(fn) {
		if len(r.Results) != 1 {
			continue
		}
		b, isC := an.ConstBool(r.Results[0])
		if !isC || !b {
			continue
		}
		for _, e := range an.GuardingEdges(r) {
			x, trueMeansNil, ok := an.NilTest(e.If.Cond)
			if ok && x == ssa.Value(fn.Params[0]) && e.Branch == trueMeansNil {
				okNil = true
			}
		}
	}
	c.Check(okNil, rule, name+"|a nil mask writes normal", fn.Pos(), "mask == nil -> true",
		"updatesNormal does not answer true for a nil mask: an update without a mask (which writes every field) skips the one-normal-mode check")
}
