package props

import (
	"fmt"
	"go/token"
	"go/types"
	"strings"

	"golang.org/x/tools/go/ssa"

	"scverif/an"
)

func init() {
	register(&Prop{
		ID:          "C06",
		Title:       "Reads return exactly the read-mask projection and never mutate",
		Explanation: "R06.1 ResponseFilter.FilterClone's decision table: nil mask returns the message itself, nil message returns nil, an empty mask returns a reset clone, otherwise a clone filtered with the mask's paths; in every row the argument is never written (parameter-mutation analysis) and every mutator receives the clone. R06.2 every read goes through the filter built from the request's mask: Value.get, Collection.Get, every element of List, and the Value / OldValue / NewValue of events forwarded by Pull derive from FilterClone / change.filter with ReadRequest.ResponseFilter = NewResponseFilter(WithFieldMask(rr.ReadMask)); the filter helpers of change events project both values and keep the other fields. R06.3 no caller of the in-place ResponseFilter.Filter passes a published message or a container of published messages (E2). R06.4 ResponseFilter.Validate returns InvalidArgument exactly when a mask is set and invalid for the message. R06.8 also: ReadRequest.ResponseFilter hands its mask to WithFieldMask on every path not taken for a nil mask. Does NOT decide equality with an independent projection nor panic-freedom of fmutils for corrupted masks (third-party code).",
		Assumptions: []string{"fmutils.Filter(msg, paths) keeps exactly the listed paths of msg; proto.Clone is a deep copy"},
		Run:         runC06,
		Controls: []Control{
			{Name: "read-request-shortcut-for-empty-mask", File: "pkg/resource/opt.go", Old: "func (rr *ReadRequest) ResponseFilter() *masks.ResponseFilter {\n", New: "func (rr *ReadRequest) ResponseFilter() *masks.ResponseFilter {\n\tif len(rr.ReadMask.GetPaths()) == 0 {\n\t\treturn masks.NewResponseFilter()\n\t}\n", Expect: "R06.8"},
			{Name: "sanitiser-appends-the-raw-path", File: "pkg/masks/get.go", Old: "\t\tif path = traversablePrefix(md, path); path != \"\" {", New: "\t\tif prefix := traversablePrefix(md, path); prefix != \"\" {", Expect: "R06.15"},
			{Name: "emptiness-tested-on-the-raw-mask", File: "pkg/masks/get.go", Old: "\tclone := proto.Clone(msg)\n\tpaths := filterPaths(msg, r.fields.GetPaths())\n\tif len(paths) == 0 {", New: "\tclone := proto.Clone(msg)\n\tpaths := filterPaths(msg, r.fields.GetPaths())\n\tif len(r.fields.GetPaths()) == 0 {", Expect: "R06.13"},
			{Name: "walker-descends-into-the-containing-message", File: "pkg/masks/get.go", Old: "\t\tmd = fd.Message()\n", New: "\t\tmd = fd.ContainingMessage()\n", Expect: "R06.14"},
			{Name: "revert-F69-empty-segment-handed-back", File: "pkg/masks/get.go", Old: "\t\tif name == \"\" {\n", New: "\t\tif false {\n", Expect: "R06.14"},
			{Name: "pullid-drops-its-options", File: "pkg/resource/collection.go", Old: "\tchanges := c.Pull(ctx, opts...)\n", New: "\tchanges := c.Pull(ctx)\n", Expect: "R06.9"},
			{Name: "sanitiser-cuts-at-every-list", File: "pkg/masks/get.go", Old: "\t\tif fd.IsMap() || fd.Message() == nil {\n", New: "\t\tif fd.IsList() || fd.IsMap() || fd.Message() == nil {\n", Expect: "paths through repeated messages"},
			{Name: "inventory-mask-rebuilt-from-paths", File: "pkg/trait/vendingpb/model_server.go", Old: "\tfilter := masks.NewResponseFilter(masks.WithFieldMask(request.ReadMask))\n\tpage := sortedItems[nextIndex:upperBound]\n\tresult.Inventory", New: "\tfilter := masks.NewResponseFilter(masks.WithFieldMaskPaths(request.GetReadMask().GetPaths()...))\n\tpage := sortedItems[nextIndex:upperBound]\n\tresult.Inventory", Expect: "R06.10"},
			{Name: "empty-mask-treated-as-nil", File: "pkg/masks/get.go", Old: "func WithFieldMask(fm *fieldmaskpb.FieldMask) ResponseFilterOption {\n\tif fm == nil {\n", New: "func WithFieldMask(fm *fieldmaskpb.FieldMask) ResponseFilterOption {\n\tif len(fm.GetPaths()) == 0 {\n", Expect: "R06.8"},
			{Name: "filterclone-filters-original", File: "pkg/masks/get.go", Old: "\tfmutils.Filter(clone, paths)\n\treturn clone", New: "\tfmutils.Filter(msg, paths)\n\treturn msg", Expect: "R06.1"},
			{Name: "empty-mask-returns-everything", File: "pkg/masks/get.go", Old: "\tif len(paths) == 0 {\n\t\tproto.Reset(clone)\n\t\treturn clone\n\t}\n\tfmutils.Filter(clone, paths)", New: "\tif len(paths) == 0 {\n\t\treturn msg\n\t}\n\tfmutils.Filter(clone, paths)", Expect: "R06.1"},
			{Name: "revert-F52-raw-paths", File: "pkg/masks/get.go", Old: "\tfmutils.Filter(clone, paths)\n\treturn clone", New: "\tfmutils.Filter(clone, r.fields.GetPaths())\n\treturn clone", Expect: "R06.6"},
			{Name: "walker-ignores-maps", File: "pkg/masks/get.go", Old: "\t\tif fd.IsMap() || fd.Message() == nil {", New: "\t\tif fd.Message() == nil {", Expect: "R06.6"},
			{Name: "revert-F53-no-normalize", File: "pkg/masks/get.go", Old: "\tmask.Normalize()\n", New: "", Expect: "R06.7"},
			{Name: "normalise-through-union", Silent: true, File: "pkg/masks/get.go", Old: "\tmask.Normalize()\n\treturn mask.Paths\n", New: "\treturn fieldmaskpb.Union(mask, mask).Paths\n"},
			{Name: "get-unfiltered", File: "pkg/resource/value.go", Old: "\treturn req.FilterClone(r.value)", New: "\t_ = req\n\treturn r.value", Expect: "R06.2"},
			{Name: "list-unfiltered", File: "pkg/resource/collection.go", Old: "\t\tresult = append(result, filter.FilterClone(e.body))", New: "\t\t_ = filter\n\t\tresult = append(result, e.body)", Expect: "R06.2"},
			{Name: "filter-ignores-mask", File: "pkg/resource/opt.go", Old: "return masks.NewResponseFilter(masks.WithFieldMask(rr.ReadMask))", New: "return masks.NewResponseFilter()", Expect: "R06.2"},
			{Name: "old-value-unfiltered", File: "pkg/resource/change.go", Old: "\tnewOldValue := filter.FilterClone(c.OldValue)", New: "\tnewOldValue := c.OldValue", Expect: "R06.2"},
			{Name: "validate-code", File: "pkg/masks/get.go", Old: "return status.Errorf(codes.InvalidArgument, \"%v mentions unknown fields\", r.fields)", New: "return status.Errorf(codes.Internal, \"%v mentions unknown fields\", r.fields)", Expect: "R06.4"},
			{Name: "clone-for-nil-mask", Silent: true, File: "pkg/masks/get.go", Old: "func (r *ResponseFilter) FilterClone(msg proto.Message) proto.Message {\n\tif r.fields == nil {\n\t\treturn msg\n\t}", New: "func (r *ResponseFilter) FilterClone(msg proto.Message) proto.Message {\n\tif r.fields == nil {\n\t\tif msg == nil {\n\t\t\treturn msg\n\t\t}\n\t\treturn proto.Clone(msg)\n\t}"},
		},
	})
}

const filterCloneQ = "(*" + an.ModulePath + "/pkg/masks.ResponseFilter).FilterClone"

func runC06(c *an.Ctx) {
	r0113(c, "R06.9") // read options (the read mask among them) are passed on by every entry point (shared with R01.13)
	c.Min("R06.9", 40)
	r061(c)
	r062(c)
	r063(c)
	r064(c)
	r065(c)
	c.Min("R06.5", 2)
	c.Min("R06.1", 5)
	c.Min("R06.2", 9)
	c.Min("R06.3", 1)
	c.Min("R06.4", 2)
	r066(c)
	r068(c, "R06.8")
	c.Min("R06.8", 3)
	r1418(c, "R06.12") // a mask written for an aggregate is applied to the aggregate, not to the items it is assembled from (shared with R14.18)
	c.Min("R06.12", 2)
	r0615(c, "R06.15")
	c.Min("R06.15", 1)
	r0613(c, "R06.13")
	c.Min("R06.13", 1)
	r0614(c, "R06.14")
	c.Min("R06.14", 2)
	r0610(c, "R06.10")
	c.Min("R06.10", 3)
	// a read never alters what is stored: E2 (shared with R07.1) over the read side - Get/List/Pull functions of the
	// trait packages and the goroutines they start
	runE2(c, "R06.11", isReadSide)
	c.Min("R06.11", 20)
	c.Min("R06.6", 1)
	c.Min("R06.7", 1)
}

func r061(c *an.Ctx) { r061as(c, "R06.1") }

func r061as(c *an.Ctx, rule string) {
	fn := mustFunc(c, rule, "pkg/masks", "ResponseFilter", "FilterClone")
	if fn == nil {
		return
	}
	name := "(*pkg/masks.ResponseFilter).FilterClone"
	w := an.NewMutWorld(c.Prog)
	fs := w.AnalyseParams(fn, fn.Params[1])
	c.Check(len(fs) == 0, rule, name+"|never writes its argument", fn.Pos(), "no mutator reaches the argument", "FilterClone writes the message it was given: "+describeFindings(c, fs)+"; the stored value loses the fields outside the mask")
	names := map[ssa.Value]string{fn.Params[0]: "r", fn.Params[1]: "msg"}
	// FilterClone may be written as "clone, then Filter the clone": the sibling is read in place
	inline := func(caller, callee *ssa.Function) bool {
		return an.InlineNewHelpers(caller, callee) || an.FuncQName(callee) == "(*"+an.ModulePath+"/pkg/masks.ResponseFilter).Filter"
	}
	leaves := an.DecisionTree(fn, an.DTConfig{Names: names, Inline: inline})
	c.Count("table_rows", len(leaves))
	type rowAgg struct {
		ok  bool
		n   int
		why string
	}
	rows := map[string]*rowAgg{}
	rec := func(row string, good bool, why string) {
		a := rows[row]
		if a == nil {
			a = &rowAgg{ok: true}
			rows[row] = a
		}
		a.n++
		if !good && a.ok {
			a.ok, a.why = false, why
		}
	}
	for _, l := range leaves {
		if l.Undec != "" || l.Panics {
			c.Unk(rule, name+"|table", fn.Pos(), "decision tree not extracted: "+l.Undec)
			return
		}
		ret := l.Returns[0].S
		var emptyMask string
		for a, v := range l.AssignM {
			if strings.Contains(a, "len(") && strings.Contains(a, "r.fields") {
				emptyMask = v
			}
		}
		cloned := strings.Contains(ret, "proto.Clone(msg)")
		var didReset, didFilter bool
		filterArgOK := true
		for _, r := range l.Recs {
			if strings.HasSuffix(r.Callee, "proto.Reset") {
				didReset = true
				if !strings.Contains(r.Args[0].S, "proto.Clone(msg)") {
					filterArgOK = false
				}
			}
			if strings.HasSuffix(r.Callee, "fmutils.Filter") {
				didFilter = true
				if !strings.Contains(r.Args[0].S, "proto.Clone(msg)") || !strings.Contains(r.Args[1].S, "r.fields") {
					filterArgOK = false
				}
			}
		}
		switch {
		case l.Get("r.fields==nil") == "true":
			rec("nil mask: everything", (ret == "msg" || cloned) && !didReset && !didFilter, "with a nil mask FilterClone returns "+ret+" / mutates")
		case l.Get("msg==nil") == "true":
			rec("nil message: nil", ret == "msg" || ret == "nil", "nil message returns "+ret)
		case emptyMask == "true":
			rec("empty mask: nothing (reset clone)", cloned && didReset && filterArgOK, "with an empty mask FilterClone returns "+ret+" (expected a reset clone)")
		case emptyMask == "false":
			rec("mask with paths: filtered clone", cloned && didFilter && !didReset && filterArgOK, "with a non-empty mask FilterClone returns "+ret+" (expected proto.Clone(msg) filtered by fmutils.Filter(clone, mask paths))")
		default:
			rec("unclassified path", false, fmt.Sprintf("path %v not covered by the table", l.Assign))
		}
	}
	for _, row := range an.SortedKeys(rows) {
		a := rows[row]
		c.Check(a.ok, rule, name+"|row "+row, fn.Pos(), fmt.Sprintf("%d path(s)", a.n), a.why)
	}
}

// derivesFromFilterClone: v is (on every path) the result of a FilterClone
// call (directly, or through ReadRequest.FilterClone) applied to `of`.
func filterCloneOf(v ssa.Value, accept func(arg ssa.Value) bool) bool {
	vals := an.ValuesAt(v)
	if len(vals) == 0 {
		return false
	}
	for _, x := range vals {
		call, ok := x.(*ssa.Call)
		if !ok {
			return false
		}
		n := an.CalleeName(call)
		if n != filterCloneQ && n != "(*"+an.ModulePath+"/pkg/resource.ReadRequest).FilterClone" {
			return false
		}
		if !accept(call.Call.Args[1]) {
			return false
		}
	}
	return true
}

func isFieldLoad(v ssa.Value, field string) bool {
	if v == nil || len(an.ValuesAt(v)) == 0 {
		return false
	}
	for _, s := range an.ValuesAt(v) {
		if _, _, f, ok := an.FieldOf(s); !ok || f != field {
			return false
		}
	}
	return true
}

// filterFromRequest: the ResponseFilter value derives from rr.ResponseFilter()
// of the ReadRequest computed from this call's options.
func filterFromRequest(v ssa.Value) bool {
	for _, s := range an.Sources(v) {
		call, ok := s.(*ssa.Call)
		if !ok || an.CalleeName(call) != "(*"+an.ModulePath+"/pkg/resource.ReadRequest).ResponseFilter" {
			return false
		}
		okReq := false
		for _, r := range an.Sources(call.Call.Args[0]) {
			if rc, isCall := r.(*ssa.Call); isCall && an.CalleeName(rc) == an.ModulePath+"/pkg/resource.ComputeReadConfig" {
				okReq = true
			}
			if _, isP := r.(*ssa.Parameter); isP {
				okReq = true // helper given the request
			}
		}
		if !okReq {
			return false
		}
	}
	return true
}

func r062(c *an.Ctx) {
	const rule = "R06.2"
	// the filter is built from the request's read mask
	if fn := mustFunc(c, rule, resPkg, "ReadRequest", "ResponseFilter"); fn != nil {
		ok := false
		for _, r := range an.Returns(fn) {
			for _, v := range an.ValuesAt(r.Results[0]) {
				if call, isCall := v.(*ssa.Call); isCall && an.CalleeName(call) == an.ModulePath+"/pkg/masks.NewResponseFilter" {
					// its option is WithFieldMask(rr.ReadMask)
					an.Instrs(fn, func(in ssa.Instruction) {
						if wc, isW := in.(*ssa.Call); isW && an.CalleeName(wc) == an.ModulePath+"/pkg/masks.WithFieldMask" {
							if _, _, f, isF := an.FieldOf(wc.Call.Args[0]); isF && f == "ReadMask" {
								ok = true
							}
						}
					})
				}
			}
		}
		c.Check(ok, rule, "(*pkg/resource.ReadRequest).ResponseFilter|built from the request's read mask", fn.Pos(), "NewResponseFilter(WithFieldMask(rr.ReadMask))", "the response filter is not built from the request's ReadMask: read masks are ignored")
	}
	if fn := mustFunc(c, rule, "pkg/masks", "", "WithFieldMask"); fn != nil {
		ok := false
		for _, a := range fn.AnonFuncs {
			an.Instrs(a, func(in ssa.Instruction) {
				if st, isSt := in.(*ssa.Store); isSt {
					if _, _, f, isF := an.FieldOf(st.Addr); isF && f == "fields" {
						for _, s := range an.Sources(st.Val) {
							if p, isP := s.(*ssa.Parameter); isP && p.Parent() == fn {
								ok = true
							}
						}
					}
				}
			})
		}
		c.Check(ok, rule, "pkg/masks.WithFieldMask|stores the mask in the filter", fn.Pos(), "", "WithFieldMask does not store the given mask")
	}
	if fn := readRequestFilterClone(c, rule); fn != nil {
	}
	// Value.get (or, when the helper has been folded into it, Value.Get itself)
	if c.Prog.Func(resPkg, "Value", "get") == nil {
		if fn := mustFunc(c, rule, resPkg, "Value", "Get"); fn != nil {
			ok, fromOpts := true, false
			for _, r := range an.Returns(fn) {
				if !filterCloneOf(r.Results[0], func(a ssa.Value) bool { return isFieldLoad(a, "value") }) {
					ok = false
				}
				for _, v := range an.ValuesAt(r.Results[0]) {
					if call, isCall := v.(*ssa.Call); isCall && len(call.Call.Args) > 0 {
						for _, s0 := range an.Sources(call.Call.Args[0]) {
							if rc, isRC := s0.(*ssa.Call); isRC && an.CalleeName(rc) == an.ModulePath+"/pkg/resource.ComputeReadConfig" {
								fromOpts = true
							}
						}
					}
				}
			}
			c.Check(ok, rule, "(*pkg/resource.Value).get|returns FilterClone(stored value)", fn.Pos(), "", "Value.Get does not return the read-mask projection of the stored value")
			c.Check(fromOpts, rule, "(*pkg/resource.Value).Get|reads with the request built from its options", fn.Pos(), "", "Value.Get does not project with ComputeReadConfig(opts)")
		}
	} else if fn := mustFunc(c, rule, resPkg, "Value", "get"); fn != nil {
		ok := true
		for _, r := range an.Returns(fn) {
			if !filterCloneOf(r.Results[0], func(a ssa.Value) bool { return isFieldLoad(a, "value") }) {
				ok = false
			}
		}
		c.Check(ok, rule, "(*pkg/resource.Value).get|returns FilterClone(stored value)", fn.Pos(), "", "Value.Get does not return the read-mask projection of the stored value")
	}
	if fn := mustFunc(c, rule, resPkg, "Value", "Get"); fn != nil && c.Prog.Func(resPkg, "Value", "get") != nil {
		ok := false
		for _, call := range an.CallsTo(fn, "(*"+an.ModulePath+"/pkg/resource.Value).get") {
			for _, s := range an.Sources(call.Common().Args[1]) {
				if rc, isCall := s.(*ssa.Call); isCall && an.CalleeName(rc) == an.ModulePath+"/pkg/resource.ComputeReadConfig" {
					ok = true
				}
			}
		}
		c.Check(ok, rule, "(*pkg/resource.Value).Get|reads with the request built from its options", fn.Pos(), "", "Value.Get does not pass ComputeReadConfig(opts) to get")
	}
	// Collection.Get
	if fn := mustFunc(c, rule, resPkg, "Collection", "Get"); fn != nil {
		ok := true
		n := 0
		for _, r := range an.Returns(fn) {
			if allAre(an.ValuesAt(r.Results[0]), an.IsNilConst) {
				continue
			}
			n++
			if !filterCloneOf(r.Results[0], func(a ssa.Value) bool { return isFieldLoad(a, "body") }) {
				ok = false
			}
		}
		c.Check(ok && n > 0, rule, "(*pkg/resource.Collection).Get|returns FilterClone(stored body)", fn.Pos(), "", "Collection.Get does not return the read-mask projection of the stored item")
	}
	// Collection.List: every appended element is FilterClone(e.body) with the request's filter
	if fn := mustFunc(c, rule, resPkg, "Collection", "List"); fn != nil {
		ok := true
		n := 0
		// every store into an element of a []proto.Message (the temporary of `append(result, x)` as well as
		// `result[i] = x`) stores FilterClone(e.body) with the request's filter
		an.Instrs(fn, func(in ssa.Instruction) {
			st, isSt := in.(*ssa.Store)
			if !isSt {
				return
			}
			ia, isIA := st.Addr.(*ssa.IndexAddr)
			if !isIA {
				return
			}
			et := ia.Type().(*types.Pointer).Elem().String()
			if !strings.Contains(et, "proto.Message") && !strings.Contains(et, "ProtoMessage") {
				return
			}
			n++
			if !filterCloneOf(st.Val, func(a ssa.Value) bool { return isFieldLoad(a, "body") }) {
				ok = false
				return
			}
			for _, v := range an.ValuesAt(st.Val) {
				if fc, isFC := v.(*ssa.Call); isFC && !filterFromRequest(fc.Call.Args[0]) && an.CalleeName(fc) == filterCloneQ {
					ok = false
				}
			}
		})
		c.Check(ok && n > 0, rule, "(*pkg/resource.Collection).List|every element is FilterClone(body) with the request's filter", fn.Pos(), "", "List returns stored bodies that did not pass through the request's response filter")
	}
	r062filters(c, rule)
	// Pull loops: every event sent derives from change.filter(filter) with the request's filter
	for _, t := range [][2]string{{"Value", "Pull"}, {"Collection", "Pull"}} {
		fn := mustFunc(c, rule, resPkg, t[0], t[1])
		if fn == nil {
			continue
		}
		name := "(*pkg/resource." + t[0] + ")." + t[1]
		ok := true
		n := 0
		for _, g := range an.GoStmts(fn) {
			f := an.GoTarget(g)
			if f == nil {
				continue
			}
			for _, s := range an.Sends(f) {
				n++
				for _, v := range an.ValuesAt(s.Val) {
					call, isCall := v.(*ssa.Call)
					if !isCall || !strings.HasSuffix(an.CalleeName(call), "Change).filter") {
						ok = false
						continue
					}
					if !filterFromRequest(call.Call.Args[1]) {
						ok = false
					}
				}
			}
		}
		c.Check(ok && n > 0, rule, name+"|every delivered event passed change.filter with the request's filter", fn.Pos(), fmt.Sprintf("%d send(s)", n), "an event is delivered without the read-mask projection of the request")
	}
}

func r063(c *an.Ctx) { r063as(c, "R06.3") }

func r063as(c *an.Ctx, rule string) {
	w := publishedWorld(c)
	n := 0
	fq := "(*" + an.ModulePath + "/pkg/masks.ResponseFilter).Filter"
	for _, fn := range e2Scope(c) {
		calls := an.CallsTo(fn, fq)
		if len(calls) == 0 {
			continue
		}
		_, taint := w.Analyse(fn)
		for _, call := range calls {
			n++
			t := taint[call.Common().Args[1]]
			c.SawFunc(an.FuncName(fn))
			c.Check(t == 0, rule, an.FuncName(fn)+"|in-place Filter on a fresh message", call.Pos(), "argument is not (and does not contain) a published message",
				"ResponseFilter.Filter clears fields in place and is given a published message or a fresh message holding published messages: stored values lose the fields outside the mask")
		}
	}
	if n == 0 {
		c.Ok(rule, "module|no caller of the in-place ResponseFilter.Filter", 0, "FilterClone is used everywhere")
	}
}

func r064(c *an.Ctx) {
	const rule = "R06.4"
	fn := mustFunc(c, rule, "pkg/masks", "ResponseFilter", "Validate")
	if fn == nil {
		return
	}
	name := "(*pkg/masks.ResponseFilter).Validate"
	// a hand-written path walker instead of FieldMask.IsValid: wherever it descends through a field's message
	// type it must stop at repeated AND map fields (a path cannot continue below either)
	usesIsValid := len(an.CallsIn(fn, func(s string) bool { return strings.HasSuffix(s, "fieldmaskpb.FieldMask).IsValid") })) > 0
	if !usesIsValid {
		seen := map[*ssa.Function]bool{}
		var walkers []*ssa.Function
		var visit func(f *ssa.Function, depth int)
		visit = func(f *ssa.Function, depth int) {
			if f == nil || seen[f] || depth > 3 || len(f.Blocks) == 0 {
				return
			}
			seen[f] = true
			walkers = append(walkers, f)
			an.Instrs(f, func(in ssa.Instruction) {
				if call, ok := in.(ssa.CallInstruction); ok {
					if cal := call.Common().StaticCallee(); cal != nil && cal.Package() == fn.Package() {
						visit(cal, depth+1)
					}
				}
			})
		}
		visit(fn, 0)
		found := false
		for _, f := range walkers {
			methods := map[string]bool{}
			an.Instrs(f, func(in ssa.Instruction) {
				if call, ok := in.(*ssa.Call); ok && call.Call.IsInvoke() {
					methods[call.Call.Method.Name()] = true
				}
			})
			// a segment is resolved by its proto name only: the filter (fmutils) matches on FieldDescriptor.Name, so a path the
			// walker accepts under another spelling (JSON / text name) selects nothing and the read silently drops the field
			for _, alt := range []string{"ByJSONName", "ByTextName"} {
				if methods[alt] {
					c.Bad(rule, name+"|a path walker resolves segments by proto name only", f.Pos(), an.FuncName(f)+" looks fields up with "+alt+": a read mask spelled that way is reported valid, but the filter only knows proto field names and drops the field from the response instead of the request being answered with InvalidArgument")
				}
			}
			if !methods["Message"] {
				continue
			}
			found = true
			c.Check(methods["IsList"] && methods["IsMap"], rule, name+"|a path walker stops at repeated and map fields", f.Pos(), an.FuncName(f),
				an.FuncName(f)+" descends through FieldDescriptor.Message() without testing both IsList() and IsMap(): a read mask path that continues below a map (or repeated) field is accepted as valid, and the filter then panics or projects nonsense instead of the request being answered with InvalidArgument")
		}
		if found {
			// the verdict of the walker decides; the status code is checked on the returns below
			okCode := false
			for _, r := range an.Returns(fn) {
				if cd, isSt := statusCodeOf(c, r.Results[0]); isSt && cd == an.CodeInvalidArgument {
					okCode = true
				}
			}
			c.Check(okCode, rule, name+"|invalid mask is InvalidArgument", fn.Pos(), "", "a read mask with unknown paths is not reported as codes.InvalidArgument")
			return
		}
	}
	names := map[ssa.Value]string{fn.Params[0]: "r", fn.Params[1]: "msg"}
	leaves := an.DecisionTree(fn, an.DTConfig{Names: names})
	c.Count("table_rows", len(leaves))
	okPass, okRej := true, true
	nRej := 0
	for _, l := range leaves {
		if l.Undec != "" || l.Panics {
			c.Unk(rule, name+"|table", fn.Pos(), l.Undec)
			return
		}
		valid := ""
		for a, v := range l.AssignM {
			if strings.Contains(a, "IsValid(r.fields, msg)") {
				valid = v
			}
		}
		ret := l.Returns[0]
		if l.Get("r.fields==nil") == "false" && valid == "false" {
			nRej++
			if !strings.Contains(ret.S, fmt.Sprintf("status.Errorf(%d,", an.CodeInvalidArgument)) && !strings.Contains(ret.S, fmt.Sprintf("status.Error(%d,", an.CodeInvalidArgument)) {
				okRej = false
			}
		} else if ret.K != "nil" {
			okPass = false
		}
	}
	c.Check(okRej && nRej > 0, rule, name+"|invalid mask is InvalidArgument", fn.Pos(), "", "a read mask with unknown paths is not reported as codes.InvalidArgument")
	c.Check(okPass, rule, name+"|nil or valid mask passes", fn.Pos(), "", "a nil or valid read mask is rejected")
}

// r062filters: the filter helpers of change events project the values and keep every other field.
func r062filters(c *an.Ctx, rule string) {
	// change.filter helpers
	if fn := mustFunc(c, rule, resPkg, "ValueChange", "filter"); fn != nil {
		okClone := false
		for _, call := range an.CallsTo(fn, filterCloneQ) {
			if call.Common().Args[0] == ssa.Value(fn.Params[1]) && isFieldLoad(call.Common().Args[1], "Value") {
				okClone = true
			}
		}
		okRet := true
		for _, r := range an.Returns(fn) {
			for _, v := range an.ValuesAt(r.Results[0]) {
				if v == ssa.Value(fn.Params[0]) {
					// returning the change itself is only allowed when the projection is the identity:
					// guarded by newValue == v.Value
					if len(projectionIsIdentity(r, []string{"Value"})) < 1 {
						okRet = false
					}
					continue
				}
				fields, lit := litFields(v)
				if fields == nil || !filterCloneOf(fields["Value"], func(a ssa.Value) bool { return isFieldLoad(a, "Value") }) {
					okRet = false
				}
				// kept: assigned from the change's own field, or left alone in a copy of the change (`filtered := *v`)
				copied := litCopiedFrom(lit) == ssa.Value(fn.Params[0])
				for _, f := range []string{"ChangeTime", "SeedValue", "LastSeedValue"} {
					if !isFieldLoad(fields[f], f) && !(copied && fields[f] == nil) {
						okRet = false
					}
				}
			}
		}
		c.Check(okClone && okRet, rule, "(*pkg/resource.ValueChange).filter|projects Value, keeps time and seed flags", fn.Pos(), "", "ValueChange.filter does not return the change with Value = filter.FilterClone(Value) and the other fields unchanged")
	}
	if fn := mustFunc(c, rule, resPkg, "CollectionChange", "filter"); fn != nil {
		okRet := true
		n := 0
		for _, r := range an.Returns(fn) {
			for _, v := range an.ValuesAt(r.Results[0]) {
				if v == ssa.Value(fn.Params[0]) {
					continue
				}
				n++
				fields, lit := litFields(v)
				if fields == nil || !filterCloneOf(fields["NewValue"], func(a ssa.Value) bool { return isFieldLoad(a, "NewValue") }) ||
					!filterCloneOf(fields["OldValue"], func(a ssa.Value) bool { return isFieldLoad(a, "OldValue") }) {
					okRet = false
					continue
				}
				copied := litCopiedFrom(lit) == ssa.Value(fn.Params[0])
				for _, f := range []string{"Id", "ChangeType", "ChangeTime", "SeedValue", "LastSeedValue"} {
					if !isFieldLoad(fields[f], f) && !(copied && fields[f] == nil) {
						okRet = false
					}
				}
			}
		}
		// identity return only when both projections are identities
		for _, r := range an.Returns(fn) {
			for _, v := range an.ValuesAt(r.Results[0]) {
				if v == ssa.Value(fn.Params[0]) {
					if len(projectionIsIdentity(r, []string{"NewValue", "OldValue"})) < 2 {
						okRet = false
					}
				}
			}
		}
		c.Check(okRet && n > 0, rule, "(*pkg/resource.CollectionChange).filter|projects OldValue and NewValue, keeps the rest", fn.Pos(), "", "CollectionChange.filter does not project both values with the filter or drops Id/kind/time/seed flags")
	}
}

// projectionIsIdentity: which of the named fields are known, at return r, to be equal to their own projection
// (`filter.FilterClone(c.F) == c.F` established on every path to r, however the test is spelled: ==, != with the
// branches swapped, a conjunction, a named boolean).
func projectionIsIdentity(r *ssa.Return, fields []string) map[string]bool {
	out := map[string]bool{}
	var fact func(cond ssa.Value, holds bool, depth int)
	fact = func(cond ssa.Value, holds bool, depth int) {
		if depth > 4 {
			return
		}
		switch x := cond.(type) {
		case *ssa.UnOp:
			if x.Op == token.NOT {
				fact(x.X, !holds, depth+1)
			}
		case *ssa.BinOp:
			if !((x.Op == token.EQL && holds) || (x.Op == token.NEQ && !holds)) {
				return
			}
			for _, pair := range [][2]ssa.Value{{x.X, x.Y}, {x.Y, x.X}} {
				for _, f := range fields {
					if isFieldLoad(pair[1], f) && filterCloneOf(pair[0], func(a ssa.Value) bool { return isFieldLoad(a, f) }) {
						out[f] = true
					}
				}
			}
		case *ssa.Phi:
			// a conjunction `a && b` evaluated into a value: when it holds, the only leaf that is not the constant
			// false holds, together with the conditions on its way in
			if !holds {
				return
			}
			var live []an.PhiLeaf
			for _, lf := range an.PhiLeaves(x) {
				if b, isC := an.ConstBool(lf.Val); isC && !b {
					continue
				}
				live = append(live, lf)
			}
			if len(live) == 1 {
				fact(live[0].Val, true, depth+1)
				for _, e := range live[0].Conds {
					fact(e.If.Cond, e.Branch, depth+1)
				}
			}
		}
	}
	for _, e := range an.GuardingEdges(r) {
		fact(e.If.Cond, e.Branch, 0)
	}
	return out
}

// r065: field-mask paths are compared by whole segments. Wherever pkg/masks tests one path for being a prefix of
// another, the prefix ends in the separator (a constant ending in "." or `path + "."`): `state` is not a parent of
// `state_change_time`, and a read mask naming both selects both.
func r065(c *an.Ctx) { r065as(c, "R06.5") }

func r065as(c *an.Ctx, rule string) {
	n := 0
	for _, fn := range c.Prog.FuncsIn("pkg/masks") {
		if c.Prog.IsGenerated(fn.Pos()) {
			continue
		}
		for _, cl := range an.CallsTo(fn, "strings.HasPrefix") {
			n++
			pre := cl.Common().Args[1]
			ok := false
			if k, isC := pre.(*ssa.Const); isC && k.Value != nil && strings.HasSuffix(strings.Trim(k.Value.ExactString(), "\""), ".") {
				ok = true
			}
			if bo, isBO := pre.(*ssa.BinOp); isBO && bo.Op == token.ADD {
				if k, isC := bo.Y.(*ssa.Const); isC && k.Value != nil && k.Value.ExactString() == `"."` {
					ok = true
				}
			}
			top := fn
			for top.Parent() != nil {
				top = top.Parent()
			}
			c.SawFunc(an.FuncName(top))
			c.Check(ok, rule, an.FuncName(top)+"|paths are compared by whole segments", cl.Pos(), "the prefix ends in the separator",
				"one mask path is tested for being a plain string prefix of another: a field whose name merely starts with another field's name (state_change_time next to state) is taken for a sub-path of it, so a read mask naming both loses the longer one (the field is missing from what Get/List/Pull return), or an update path is matched against the wrong writable field")
		}
	}
}

// readRequestFilterClone: ReadRequest.FilterClone hands back, on every path, what the request's own filter makes of
// the message (no shortcut for "empty" masks: a present mask without paths selects nothing, a nil mask everything).
func readRequestFilterClone(c *an.Ctx, rule string) *ssa.Function {
	fn := mustFunc(c, rule, resPkg, "ReadRequest", "FilterClone")
	if fn == nil {
		return nil
	}
	ok := true
	for _, r := range an.Returns(fn) {
		if !filterCloneOf(r.Results[0], func(a ssa.Value) bool { return a == ssa.Value(fn.Params[1]) }) {
			ok = false
		}
	}
	c.SawFunc(an.FuncName(fn))
	c.Check(ok, rule, "(*pkg/resource.ReadRequest).FilterClone|delegates to the request's filter", fn.Pos(), "", "ReadRequest.FilterClone does not return ResponseFilter().FilterClone(m) on every path (e.g. a shortcut returns the message untouched when the mask has no paths): Get with a present but empty read mask returns the whole value while Pull, which builds its filter itself, sends the empty projection")
	return fn
}

// r066: what fmutils is handed. fmutils.Filter/Prune assume valid, normalised paths: a path that continues below a map
// or a repeated scalar field makes them panic (they convert the map / the string to a message), and a path next to one
// that covers it ("a" and "a.b") narrows the selection to the child although a mask selects the union of its paths.
// Reads are not preceded by validation (Get/List/Pull never call Validate), so in the response filter the paths given
// to fmutils never are the mask's own list: they come out of a function of the module that (R06.6) looks the segments
// up in the message descriptor and tells maps and fields without a message type apart, and (R06.7) drops covered paths
// (FieldMask.Normalize / fieldmaskpb.Union) - or the call is only reached when FieldMask.IsValid said yes (R06.6).
func r066(c *an.Ctx) {
	n := 0
	for _, fn := range c.Prog.FuncsIn("pkg/masks") {
		if c.Prog.IsGenerated(fn.Pos()) || fn.Signature.Recv() == nil || !strings.HasSuffix(an.NamedTypeName(fn.Signature.Recv().Type()), "/pkg/masks.ResponseFilter") {
			continue
		}
		an.Instrs(fn, func(in ssa.Instruction) {
			call, ok := in.(*ssa.Call)
			if !ok {
				return
			}
			var paths ssa.Value
			switch an.CalleeName(call) {
			case "github.com/mennanov/fmutils.Filter", "github.com/mennanov/fmutils.Prune":
				paths = call.Call.Args[1]
			case "github.com/mennanov/fmutils.NestedMaskFromPaths":
				paths = call.Call.Args[0]
			default:
				return
			}
			n++
			name := an.FuncName(fn)
			c.SawFunc(name)
			// where the paths come from
			var makers []*ssa.Function
			raw := false
			for _, s0 := range localValues(paths, 0) {
				cl, isCall := s0.(*ssa.Call)
				if !isCall {
					raw = true
					continue
				}
				if h := cl.Call.StaticCallee(); h != nil && an.InModule(h) && len(h.Blocks) > 0 {
					makers = append(makers, h)
					continue
				}
				raw = true // the mask's own GetPaths() / Paths
			}
			consults := !raw && len(makers) > 0
			normalises := pathsNormalised(paths, call)
			for _, h := range makers {
				methods := map[string]bool{}
				seen := map[*ssa.Function]bool{}
				var visit func(f *ssa.Function, depth int)
				visit = func(f *ssa.Function, depth int) {
					if seen[f] || depth > 3 {
						return
					}
					seen[f] = true
					for _, g := range an.WithClosures(f) {
						an.Instrs(g, func(in ssa.Instruction) {
							cl, ok := in.(ssa.CallInstruction)
							if !ok {
								return
							}
							if cl.Common().IsInvoke() {
								methods[cl.Common().Method.Name()] = true
								return
							}
							if cal := cl.Common().StaticCallee(); cal != nil && an.InModule(cal) && len(cal.Blocks) > 0 {
								visit(cal, depth+1)
							}
						})
					}
				}
				visit(h, 0)
				if !(methods["ByName"] && methods["IsMap"] && (methods["Message"] || methods["Kind"])) {
					consults = false
				}
				// ... and it goes on below a repeated MESSAGE field: fmutils projects each element, and the property counts
				// paths through repeated messages as valid. Cutting the path at every list selects whole elements
				if cut := cutsAtLists(seen); cut != nil {
					c.Bad("R06.6", fmt.Sprintf("%s|paths through repeated messages are kept", name), cut.Pos(), "the function that prepares the paths cuts a path at a repeated field without asking whether its elements are messages: `segments.magnitude` becomes `segments`, and the read returns whole list elements instead of their projection")
				} else {
					c.Ok("R06.6", fmt.Sprintf("%s|paths through repeated messages are kept", name), call.Pos(), "")
				}
			}
			// validated first?
			validated := false
			for _, e := range an.GuardingEdges(call) {
				if cl, isCall := e.If.Cond.(*ssa.Call); isCall && strings.HasSuffix(an.CalleeName(cl), "fieldmaskpb.FieldMask).IsValid") && e.Branch {
					validated = true
				}
			}
			c.Check(consults || validated, "R06.6", fmt.Sprintf("%s|paths given to fmutils are checked against the descriptor", name), call.Pos(), "the paths come out of a descriptor-aware function of the module",
				"the read mask's own paths are handed to fmutils, which assumes they are valid: a path that continues below a map field (\"map_string_string.k\") or a repeated scalar (\"repeated_string.x\") makes the read panic (cannot convert map/string to message); Get, List and Pull never validate the mask first")
			c.Check(normalises, "R06.7", fmt.Sprintf("%s|paths given to fmutils are normalised", name), call.Pos(), "covered paths are dropped (Normalize)",
				"the read mask's paths reach fmutils without being normalised: with a path and one it covers (\"a\" and \"a.b\") fmutils keeps only a.b, although the mask selects the union of its paths, i.e. all of a")
		})
	}
	c.Count("fmutils_calls_in_response_filter", n)
}

// localValues resolves v through phis and local variables of its own function only (calls are not looked into).
func localValues(v ssa.Value, depth int) []ssa.Value {
	if depth > 6 {
		return []ssa.Value{v}
	}
	switch x := v.(type) {
	case *ssa.Phi:
		var out []ssa.Value
		for _, e := range x.Edges {
			out = append(out, localValues(e, depth+1)...)
		}
		return out
	case *ssa.UnOp:
		if x.Op == token.MUL {
			if _, isAlloc := x.X.(*ssa.Alloc); isAlloc {
				if rs, _ := an.ReachingStores(x); len(rs) > 0 {
					var out []ssa.Value
					for _, st := range rs {
						out = append(out, localValues(st.Val, depth+1)...)
					}
					return out
				}
			}
		}
	case *ssa.ChangeType:
		return localValues(x.X, depth+1)
	}
	return []ssa.Value{v}
}

// pathsNormalised reports whether the paths value handed to fmutils at call has had covered and duplicate paths removed:
// it is the result of a module function that (deep) calls FieldMask.Normalize / fieldmaskpb.Union, or the Paths of a
// FieldMask on which Normalize was called on every way to this point.
func pathsNormalised(paths ssa.Value, call ssa.Instruction) bool {
	vals := localValues(paths, 0)
	if len(vals) == 0 {
		return false
	}
	isNormalize := func(n string) bool {
		return n == "(*google.golang.org/protobuf/types/known/fieldmaskpb.FieldMask).Normalize" || n == "google.golang.org/protobuf/types/known/fieldmaskpb.Union"
	}
	for _, v := range vals {
		ok := false
		switch x := v.(type) {
		case *ssa.Call:
			if h := x.Call.StaticCallee(); h != nil && an.InModule(h) && len(h.Blocks) > 0 {
				seen := map[*ssa.Function]bool{}
				var visit func(f *ssa.Function, depth int)
				visit = func(f *ssa.Function, depth int) {
					if seen[f] || depth > 3 {
						return
					}
					seen[f] = true
					for _, g := range an.WithClosures(f) {
						an.Instrs(g, func(in ssa.Instruction) {
							cl, isCall := in.(ssa.CallInstruction)
							if !isCall {
								return
							}
							if isNormalize(an.CalleeName(cl)) {
								ok = true
							}
							if cal := cl.Common().StaticCallee(); cal != nil && an.InModule(cal) && len(cal.Blocks) > 0 {
								visit(cal, depth+1)
							}
						})
					}
				}
				visit(h, 0)
			}
			// Union(...).GetPaths()
			if strings.HasSuffix(an.CalleeName(x), "fieldmaskpb.FieldMask).GetPaths") && len(x.Call.Args) == 1 {
				for _, r := range localValues(x.Call.Args[0], 0) {
					if rc, isCall := r.(*ssa.Call); isCall && isNormalize(an.CalleeName(rc)) {
						ok = true
					}
				}
			}
		case *ssa.UnOp:
			// m.Paths with m.Normalize() before
			if fa, isFA := x.X.(*ssa.FieldAddr); isFA {
				if _, _, f, isF := an.FieldOf(fa); isF && f == "Paths" {
					for _, cl := range an.CallsTo(x.Parent(), "(*google.golang.org/protobuf/types/known/fieldmaskpb.FieldMask).Normalize") {
						if an.SameValues(cl.Common().Args[0], fa.X) && an.Dominates(cl.(ssa.Instruction), call) {
							ok = true
						}
					}
					for _, r := range localValues(fa.X, 0) {
						if rc, isCall := r.(*ssa.Call); isCall && isNormalize(an.CalleeName(rc)) {
							ok = true
						}
					}
				}
			}
		}
		if !ok {
			return false
		}
	}
	return true
}

// r058: the same on the write side. FieldUpdater hands update, writable and reset masks to fmutils: every list of paths
// fmutils receives outside the response filter has been normalised (see pathsNormalised), so that an update mask
// naming "a" and "a.b" writes all of a, a writable mask naming both lets all of a be written and a reset mask naming
// both clears all of a.
func r058(c *an.Ctx, rule string) {
	n := 0
	ord := map[*ssa.Function]int{}
	for _, fn := range c.Prog.FuncsIn("pkg/masks") {
		if c.Prog.IsGenerated(fn.Pos()) {
			continue
		}
		if fn.Signature.Recv() != nil && strings.HasSuffix(an.NamedTypeName(fn.Signature.Recv().Type()), "/pkg/masks.ResponseFilter") {
			continue
		}
		an.Instrs(fn, func(in ssa.Instruction) {
			call, ok := in.(*ssa.Call)
			if !ok {
				return
			}
			var paths ssa.Value
			switch an.CalleeName(call) {
			case "github.com/mennanov/fmutils.Filter", "github.com/mennanov/fmutils.Prune":
				paths = call.Call.Args[1]
			case "github.com/mennanov/fmutils.NestedMaskFromPaths":
				paths = call.Call.Args[0]
			default:
				return
			}
			n++
			c.SawFunc(an.FuncName(fn))
			what := "paths"
			for _, s0 := range an.Sources(paths) {
				if _, _, f, isF := an.FieldOf(s0); isF && f != "Paths" {
					what = f
				}
				if cl, isCall := s0.(*ssa.Call); isCall && len(cl.Call.Args) > 0 {
					for _, s1 := range an.Sources(cl.Call.Args[0]) {
						if _, _, f, isF := an.FieldOf(s1); isF && f != "Paths" {
							what = f
						}
					}
				}
			}
			ord[fn]++
			c.Check(pathsNormalised(paths, call), rule, fmt.Sprintf("%s|fmutils call #%d gets normalised paths", an.FuncName(fn), ord[fn]), call.Pos(), "covered and duplicate paths are dropped first ("+what+")",
				"a mask's own paths reach fmutils without being normalised: with a path and one it covers (\"a\" and \"a.b\") fmutils narrows the mask to a.b, so an update naming both writes only a.b (the rest of a keeps its old value although the mask names it), a writable mask naming both makes the rest of a read-only and a reset mask naming both leaves the rest of a in place")
		})
	}
	c.Count("fmutils_calls_on_the_write_side", n)
}

// r068: an empty mask is not "no mask". WithFieldMask declines to configure the filter (returns the do-nothing option)
// exactly when the mask is nil: a non-nil mask without paths selects nothing, and a filter that treats it like nil
// hands out the whole stored message (by reference) for a request that asked for no fields. The same for the update
// side's WithUpdateMask / WithWritableFields.
func r068(c *an.Ctx, rule string) {
	for _, name := range []string{"WithFieldMask", "WithUpdateMask", "WithWritableFields"} {
		fn := c.Prog.Func("pkg/masks", "", name)
		if fn == nil || len(fn.Params) != 1 {
			continue
		}
		leaves := an.DecisionTree(fn, an.DTConfig{Names: map[ssa.Value]string{fn.Params[0]: "fm"}})
		ok, why := len(leaves) > 0, ""
		sawNil, sawSet := false, false
		for _, l := range leaves {
			if l.Undec != "" || len(l.Returns) != 1 {
				ok, why = false, "decision table not extracted: "+l.Undec
				continue
			}
			declines := strings.Contains(l.Returns[0].S, "empty") && strings.Contains(l.Returns[0].S, "Option")
			isNil := l.Get("fm==nil")
			others := len(l.AssignM)
			if isNil != "" {
				others--
			}
			switch {
			case declines && isNil == "true" && others == 0:
				sawNil = true
			case !declines && isNil == "false" && others == 0:
				sawSet = true
			default:
				ok, why = false, fmt.Sprintf("path %v returns %s", l.Assign, l.Returns[0].S)
			}
		}
		if ok && !(sawNil && sawSet) {
			ok, why = false, "the nil / non-nil rows were not both found"
		}
		c.Check(ok, rule, "pkg/masks."+name+"|declines exactly for a nil mask", fn.Pos(), "nil -> do-nothing option, anything else is configured",
			"the option does not configure the mask in exactly the non-nil case ("+why+"): a non-nil mask without paths means `no fields` (reads return an empty message, updates change nothing); treated like nil it means `everything`, and reads hand out the stored message itself")
	}
	r068read(c, rule)
}

// r068read: the read request hands its mask to the response filter as it is. ResponseFilter passes ReadMask to
// WithFieldMask (which declines exactly for nil, above) on every path except one taken for a nil mask: a shortcut
// for "no paths" makes the empty mask read as the whole message again, one layer above the option.
func r068read(c *an.Ctx, rule string) {
	fn := c.Prog.Func("pkg/resource", "ReadRequest", "ResponseFilter")
	if fn == nil || len(fn.Params) != 1 {
		c.Unk(rule, "(*pkg/resource.ReadRequest).ResponseFilter", 0, "function not found")
		return
	}
	leaves := an.DecisionTree(fn, an.DTConfig{Names: map[ssa.Value]string{fn.Params[0]: "rr"}})
	ok, why := len(leaves) > 0, ""
	for _, l := range leaves {
		if l.Undec != "" || len(l.Returns) != 1 {
			ok, why = false, "decision table not extracted: "+l.Undec
			continue
		}
		ret := l.Returns[0].S + " " + strings.Join(l.Calls, " ; ")
		if strings.Contains(ret, "WithFieldMask(") && strings.Contains(ret, "ReadMask") {
			continue
		}
		nilOnly := len(l.AssignM) > 0
		for a, v := range l.AssignM {
			a2 := strings.ReplaceAll(a, " ", "")
			if !((a2 == "rr.ReadMask==nil" || a2 == "nil==rr.ReadMask") && v == "true") {
				nilOnly = false
			}
		}
		if !nilOnly {
			ok, why = false, fmt.Sprintf("path %v returns %s", l.Assign, l.Returns[0].S)
		}
	}
	c.Check(ok, rule, "(*pkg/resource.ReadRequest).ResponseFilter|the read mask reaches the filter unless it is nil", fn.Pos(), "NewResponseFilter(WithFieldMask(rr.ReadMask))",
		"the read request builds a filter without its mask on a path not taken for a nil mask ("+why+"): a non-nil mask without paths means `no fields`; read as `no mask` the whole stored message is returned, and returned uncloned")
}

// cutsAtLists: an `fd.IsList()` test whose "is a list" edge reaches a return of a shortened path (a slice expression)
// without a test of `fd.Message() == nil` (or Kind) in between.
func cutsAtLists(fns map[*ssa.Function]bool) ssa.Instruction {
	var found ssa.Instruction
	for f := range fns {
		an.Instrs(f, func(in ssa.Instruction) {
			iff, ok := in.(*ssa.If)
			if !ok {
				return
			}
			cond, neg := iff.Cond, false
			if u, isU := cond.(*ssa.UnOp); isU && u.Op == token.NOT {
				cond, neg = u.X, true
			}
			call, isCall := cond.(*ssa.Call)
			if !isCall || !call.Call.IsInvoke() || call.Call.Method.Name() != "IsList" {
				return
			}
			listEdge := iff.Block().Succs[0]
			if neg {
				listEdge = iff.Block().Succs[1]
			}
			isCut := func(x ssa.Instruction) bool {
				r, isR := x.(*ssa.Return)
				if !isR || len(r.Results) == 0 {
					return false
				}
				for _, v := range an.ValuesAt(r.Results[0]) {
					if _, isSl := v.(*ssa.Slice); isSl {
						return true
					}
				}
				return false
			}
			asksMessage := func(x ssa.Instruction) bool {
				i2, isIf := x.(*ssa.If)
				if !isIf {
					return false
				}
				for _, v := range an.Sources(i2.Cond) {
					if cl, isC := v.(*ssa.Call); isC && cl.Call.IsInvoke() && (cl.Call.Method.Name() == "Message" || cl.Call.Method.Name() == "Kind") {
						return true
					}
				}
				return false
			}
			if t, _ := (an.PathQuery{Target: isCut, Avoid: asksMessage}).FromBlock(listEdge); t != nil {
				found = iff
			}
		})
	}
	return found
}

// r0610: a request's mask keeps its nil-ness on the way to the filter. The path-list spellings of the mask options
// (masks.WithFieldMaskPaths, resource.WithReadPaths, WithUpdatePaths, ...) always build a non-nil mask; fed with
// `mask.GetPaths()...` of a mask that may be absent they turn "no mask: everything" into "no paths: nothing", and
// the response is a list of empty items. Every call of such an option in the module is looked at: its paths do not
// come from a FieldMask's own path list unless a non-nil test of a mask guards the call.
func r0610(c *an.Ctx, rule string) {
	isPathsOption := func(f *ssa.Function) bool {
		if f == nil || f.Pkg == nil || !f.Signature.Variadic() || f.Object() == nil || !f.Object().Exported() {
			return false
		}
		p := f.Pkg.Pkg.Path()
		if p != an.ModulePath+"/pkg/masks" && p != an.ModulePath+"/pkg/resource" {
			return false
		}
		last := f.Signature.Params().At(f.Signature.Params().Len() - 1).Type().String()
		return last == "[]string" && f.Signature.Results().Len() == 1 && strings.HasSuffix(f.Signature.Results().At(0).Type().String(), "Option")
	}
	n := 0
	for _, fn := range c.Prog.FuncsIn("") {
		if !an.InModule(fn) || strings.HasSuffix(c.Prog.RelFile(fn.Pos()), "_test.go") {
			continue
		}
		ord := 0
		an.Instrs(fn, func(in ssa.Instruction) {
			call, ok := in.(*ssa.Call)
			if !ok || !isPathsOption(call.Call.StaticCallee()) {
				return
			}
			ord++
			n++
			paths := call.Call.Args[len(call.Call.Args)-1]
			fromMask := false
			for _, v := range an.Sources(paths) {
				switch x := v.(type) {
				case *ssa.Call:
					if strings.HasSuffix(an.CalleeName(x), "fieldmaskpb.FieldMask).GetPaths") {
						fromMask = true
					}
				case *ssa.UnOp:
					if _, sn, f, isF := an.FieldOf(x.X); isF && f == "Paths" && strings.HasSuffix(sn, "fieldmaskpb.FieldMask") {
						fromMask = true
					}
				}
			}
			guarded := false
			for _, e := range an.GuardingEdges(call) {
				if x, trueMeansNil, ok := an.NilTest(e.If.Cond); ok && e.Branch != trueMeansNil && strings.HasSuffix(x.Type().String(), "fieldmaskpb.FieldMask") {
					guarded = true
				}
			}
			c.Check(!fromMask || guarded, rule, fmt.Sprintf("%s|paths option #%d does not rebuild a possibly absent mask", an.FuncName(fn), ord), call.Pos(), "",
				"the option is given the path list of a mask that may be nil: it builds a non-nil mask without paths, so a request without a mask (everything) is answered as if it had asked for no fields")
		})
	}
	c.Count("paths_option_calls", n)
}

// isReadSide: fn, or the function it is a closure of, is a Get…/List…/Pull… function.
func isReadSide(fn *ssa.Function) bool {
	f := fn
	for f.Parent() != nil {
		f = f.Parent()
	}
	n := f.Name()
	return strings.HasPrefix(n, "Get") || strings.HasPrefix(n, "List") || strings.HasPrefix(n, "Pull") || strings.HasPrefix(n, "pull") || strings.HasPrefix(n, "list")
}

// r0613: the list that decides "this mask selects nothing" is the list fmutils is given. FilterClone / Filter
// sanitise the mask's paths first (filterPaths drops what cannot be a path); fmutils.Filter with NO paths keeps
// every field, so the empty test has to be made on the sanitised list - made on the raw mask, a mask whose paths
// are all dropped ([""], ["."]) reaches fmutils empty and the whole stored message is returned.
func r0613(c *an.Ctx, rule string) {
	n := 0
	for _, fn := range c.Prog.FuncsIn("pkg/masks") {
		if c.Prog.IsGenerated(fn.Pos()) || strings.HasSuffix(c.Prog.RelFile(fn.Pos()), "_test.go") || !strings.HasSuffix(c.Prog.RelFile(fn.Pos()), "get.go") {
			continue
		}
		for _, ci := range an.CallsIn(fn, func(s string) bool { return strings.HasSuffix(s, "fmutils.Filter") }) {
			call, ok := ci.(*ssa.Call)
			if !ok || len(call.Call.Args) != 2 {
				continue
			}
			n++
			paths := call.Call.Args[1]
			tested := false
			for _, e := range an.GuardingEdges(call) {
				for _, s := range an.Sources(e.If.Cond) {
					bo, isBo := s.(*ssa.BinOp)
					if !isBo {
						continue
					}
					for _, side := range []ssa.Value{bo.X, bo.Y} {
						ln, isLen := side.(*ssa.Call)
						if !isLen || an.CalleeName(ln) != "builtin len" {
							continue
						}
						for _, a := range an.Sources(ln.Call.Args[0]) {
							for _, b := range an.Sources(paths) {
								if a == b {
									tested = true
								}
							}
						}
					}
				}
			}
			c.SawFunc(an.FuncName(fn))
			c.Check(tested, rule, an.FuncName(fn)+"|the list tested for emptiness is the list handed to fmutils", call.Pos(), "len(paths) of the very list passed to fmutils.Filter guards the call",
				"fmutils.Filter is reached without a test that the list it is given is non-empty (the test is made on another list): with every path dropped by the sanitiser fmutils keeps all fields, so a mask that selects nothing returns the whole message")
		}
	}
	c.Count("fmutils_filter_calls_on_the_read_side", n)
}

// r0614: the path walkers descend into the field's OWN message type (fd.Message()) and give up on an empty segment.
// Stepping to fd.ContainingMessage() keeps looking names up in the parent, so below the first level nothing is cut
// and a path through a nested repeated scalar or map reaches fmutils, which panics. An empty segment ("a..b") is
// skipped by fmutils, which then carries on below a with b, past every check made here: the walker must not hand
// such a path back (it selects nothing).
func r0614(c *an.Ctx, rule string) {
	fn := c.Prog.Func("pkg/masks", "", "traversablePrefix")
	if fn == nil {
		c.Unk(rule, "pkg/masks.traversablePrefix|descends by the field's own type", 0, "the path sanitiser's walker was not found")
		return
	}
	name := an.FuncName(fn)
	c.SawFunc(name)
	// (a) every loop-carried message descriptor comes from FieldDescriptor.Message()
	okDescend, nPhi := true, 0
	an.Instrs(fn, func(in ssa.Instruction) {
		phi, ok := in.(*ssa.Phi)
		if !ok || !strings.HasSuffix(phi.Type().String(), "protoreflect.MessageDescriptor") {
			return
		}
		nPhi++
		for _, e := range phi.Edges {
			if e == ssa.Value(fn.Params[0]) {
				continue
			}
			good := false
			for _, s := range an.Sources(e) {
				if s == ssa.Value(fn.Params[0]) || s == ssa.Value(phi) {
					good = true
				}
				if call, isCall := s.(*ssa.Call); isCall && call.Call.IsInvoke() && call.Call.Method.Name() == "Message" {
					good = true
				}
			}
			if !good {
				okDescend = false
			}
		}
	})
	c.Check(okDescend && nPhi > 0, rule, name+"|descends by the field's own type", fn.Pos(), "md = fd.Message()",
		"the walker's next descriptor is not the field's own message type: names below the first level are looked up in the wrong message, nothing is cut there, and a path through a nested repeated scalar or map makes the read panic in fmutils")
	// (b) an empty segment: a return of something other than the untouched path is guarded by name == ""
	okEmpty := false
	for _, r := range an.Returns(fn) {
		for _, e := range an.GuardingEdges(r) {
			bo, isBo := e.If.Cond.(*ssa.BinOp)
			if !isBo {
				continue
			}
			isEmptyStr := func(v ssa.Value) bool {
				k, isC := v.(*ssa.Const)
				return isC && k.Value != nil && k.Value.ExactString() == `""`
			}
			isZero := func(v ssa.Value) bool { k, isC := an.ConstInt(v); return isC && k == 0 }
			emptyTest := (bo.Op == token.EQL && e.Branch || bo.Op == token.NEQ && !e.Branch) && (isEmptyStr(bo.X) || isEmptyStr(bo.Y) || isZero(bo.X) || isZero(bo.Y))
			if !emptyTest {
				continue
			}
			for _, v := range an.ValuesAt(r.Results[0]) {
				if isEmptyStr(v) {
					okEmpty = true
				}
				if _, isSl := v.(*ssa.Slice); isSl {
					okEmpty = true
				}
			}
		}
	}
	c.Check(okEmpty, rule, name+"|an empty segment ends the walk", fn.Pos(), "name == \"\" returns without the rest of the path",
		"a path with an empty inner segment (\"a..b.c\") is handed back whole: fmutils skips the empty segment and continues below a with b.c, past the sanitiser's checks - a path through a repeated scalar or map there makes the read panic")
}

// r0615: what the sanitiser checked is what it passes on. filterPaths cuts each path with traversablePrefix and
// appends THE CUT PATH; testing the cut path and appending the raw one keeps the check and throws its result away:
// a path continuing below a map or repeated scalar reaches fmutils uncut and the read panics.
func r0615(c *an.Ctx, rule string) {
	fn := c.Prog.Func("pkg/masks", "", "filterPaths")
	if fn == nil {
		c.Unk(rule, "pkg/masks.filterPaths|passes on the cut path", 0, "the read-side path sanitiser was not found")
		return
	}
	name := an.FuncName(fn)
	c.SawFunc(name)
	n, ok := 0, true
	an.Instrs(fn, func(in ssa.Instruction) {
		call, isCall := in.(*ssa.Call)
		if !isCall || an.CalleeName(call) != "builtin append" || len(call.Call.Args) != 2 {
			return
		}
		for _, e := range variadicElems(call.Call.Args[1]) {
			if !strings.HasSuffix(e.Type().String(), "string") {
				continue
			}
			n++
			cut := false
			for _, s := range append(append([]ssa.Value{e}, an.SourcesOpaque(e)...), an.Sources(e)...) {
				if cl, isC := s.(*ssa.Call); isC && strings.HasSuffix(an.CalleeName(cl), "pkg/masks.traversablePrefix") {
					cut = true
				}
			}
			if !cut {
				ok = false
			}
		}
	})
	c.Check(ok && n > 0, rule, name+"|passes on the cut path", fn.Pos(), fmt.Sprintf("%d appended path(s), each the result of traversablePrefix", n),
		"the path appended to the sanitised mask is not the result of traversablePrefix (the raw path is appended after the cut one was tested): a path continuing below a map or repeated scalar reaches fmutils and the read panics")
}
