package props

import (
	"fmt"
	"sort"
	"strings"

	"golang.org/x/tools/go/ssa"

	"scverif/an"
)

// per-run caches keyed by program
var lockWorlds = map[*an.Program]*an.LockWorld{}

func lockWorld(c *an.Ctx) *an.LockWorld {
	if w, ok := lockWorlds[c.Prog]; ok {
		return w
	}
	// keep only one program's world alive (control mutants reload the program)
	for k := range lockWorlds {
		delete(lockWorlds, k)
	}
	w := an.BuildLockWorld(c.Prog)
	lockWorlds[c.Prog] = w
	return w
}

// mustFunc resolves an anchor or records an undecided obligation (G3).
func mustFunc(c *an.Ctx, rule, pkg, recv, name string) *ssa.Function {
	f := c.Prog.Func(pkg, recv, name)
	if f == nil {
		n := name
		if recv != "" {
			n = recv + "." + name
		}
		c.Unk(rule, "anchor "+pkg+"."+n, 0, "anchor function not found in the current tree (renamed or removed): the rule cannot be evaluated")
		return nil
	}
	c.SawFunc(an.FuncName(f))
	return f
}

// GuardedAccessRow is one evaluated access of the guarded-field rule.
type guardedField struct {
	Struct, Field string
}

// confirmedGuarded is the hand-confirmed table of guarded fields (DESIGN E1):
// struct -> field -> reason. The inference must find at least these; they are
// enforced even if the inference no longer finds a locked write (e.g. because
// the lock was removed from the only writer).
var confirmedGuarded = map[string]map[string]string{
	"pkg/resource.Value":        {"value": "value.go: mu guards value", "changeTime": "value.go: written with value in the save callback"},
	"pkg/resource.Collection":   {"byId": "collection.go:22 'mu protects byId and rng'"},
	"internal/minibus.Bus":      {"listeners": "bus.go: listenerM"},
	"internal/minibus.listener": {"ch": "bus.go: close/send exclusion"},
	"pkg/router.router":         {"registry": "router.go: mu"},
	"pkg/trait/wastepb.Model":   {"allWasteRecords": "model.go:28 'guards allWasteRecords and genId'", "genId": "same"},
}

// guardedExcluded: structs excluded from the inference with the reason.
var guardedExcluded = map[string]string{
	"pkg/wrap.ClientServerStream": "fields are handed over by channel close, not by headerM (covered by R11.3 / R13.5)",
}

// guardedResult is the outcome of the guarded-field analysis over a set of packages.
type guardedResult struct {
	Guarded  map[guardedField]string // field -> why guarded
	Accesses []guardedAccess
}

type guardedAccess struct {
	an.FieldAccess
	Held an.LockSet
	OK   bool
	Fn   *ssa.Function
}

// analyseGuarded infers guarded fields (a field of a mutex-bearing struct is
// guarded when some write outside constructors happens with the sibling
// mutex held, or when it is in the confirmed table) and evaluates every
// access outside constructors: reads need the lock in any mode, writes need
// it exclusively.
func analyseGuarded(c *an.Ctx) *guardedResult {
	w := lockWorld(c)
	res := &guardedResult{Guarded: map[guardedField]string{}}
	type acc struct {
		fa an.FieldAccess
		fn *ssa.Function
	}
	var all []acc
	var fns []*ssa.Function
	for fn := range w.Info {
		fns = append(fns, fn)
	}
	an.SortFuncs(fns)
	for _, fn := range fns {
		for _, fa := range an.FieldAccesses(fn) {
			if _, ex := guardedExcluded[fa.Struct]; ex {
				continue
			}
			all = append(all, acc{fa, fn})
		}
	}
	for s, fs := range confirmedGuarded {
		for f, why := range fs {
			res.Guarded[guardedField{s, f}] = "confirmed by hand: " + why
		}
	}
	for _, a := range all {
		if !a.fa.Write || a.fa.Fresh || a.fa.LockPath == "" {
			continue
		}
		held := w.At(a.fa.Instr)
		if held[a.fa.LockPath] >= an.RLock {
			k := guardedField{a.fa.Struct, a.fa.Field}
			if _, ok := res.Guarded[k]; !ok {
				res.Guarded[k] = fmt.Sprintf("inferred: written under %s in %s", a.fa.LockPath, an.FuncName(a.fn))
			}
		}
	}
	for _, a := range all {
		k := guardedField{a.fa.Struct, a.fa.Field}
		if _, g := res.Guarded[k]; !g {
			continue
		}
		if a.fa.Fresh {
			continue
		}
		held := w.At(a.fa.Instr)
		need := an.RLock
		if a.fa.Write {
			need = an.WLock
		}
		ok := a.fa.LockPath != "" && held[a.fa.LockPath] >= need
		res.Accesses = append(res.Accesses, guardedAccess{a.fa, held, ok, a.fn})
	}
	sort.SliceStable(res.Accesses, func(i, j int) bool { return res.Accesses[i].Instr.Pos() < res.Accesses[j].Instr.Pos() })
	return res
}

// reportGuarded records one obligation per (function, field, read/write) for
// the structs selected by keep.
func reportGuarded(c *an.Ctx, rule string, g *guardedResult, keep func(structName string) bool) {
	type key struct{ fn, fld, kind string }
	type agg struct {
		ok   bool
		pos  ssa.Instruction
		held string
		n    int
	}
	m := map[key]*agg{}
	var order []key
	for _, a := range g.Accesses {
		if !keep(a.Struct) {
			continue
		}
		kind := "read"
		if a.Write {
			kind = "write"
		}
		k := key{an.FuncName(a.Fn), a.Struct + "." + a.Field, kind}
		x := m[k]
		if x == nil {
			x = &agg{ok: true, pos: a.Instr, held: a.Held.String()}
			m[k] = x
			order = append(order, k)
		}
		x.n++
		if !a.OK && x.ok {
			x.ok = false
			x.pos = a.Instr
			x.held = a.Held.String()
		}
	}
	w := lockWorld(c)
	for _, k := range order {
		x := m[k]
		c.SawFunc(k.fn)
		construct := fmt.Sprintf("%s|%s %s", k.fn, k.kind, k.fld)
		if x.ok {
			c.Ok(rule, construct, x.pos.Pos(), fmt.Sprintf("%d access(es), lock set %s", x.n, x.held))
		} else {
			need := "held (any mode)"
			if k.kind == "write" {
				need = "held exclusively"
			}
			why := w.Why[x.pos.Parent()]
			c.Bad(rule, construct, x.pos.Pos(), fmt.Sprintf("%s of guarded field %s with lock set %s; the sibling mutex must be %s (entry lock set of %s: %s; %s)",
				k.kind, k.fld, x.held, need, k.fn, w.Entry[x.pos.Parent()].String(), why))
		}
	}
}

func hasPrefixAny(s string, pre ...string) bool {
	for _, p := range pre {
		if strings.HasPrefix(s, p) {
			return true
		}
	}
	return false
}

// errorReturnsDeep lists the returns of fn that can hand back a non-nil error, where a return that merely
// propagates the error of a local closure / unseen helper (`if err := f.helper(…); err != nil { return err }`) is
// replaced by that helper's own error returns (two levels). Rules that classify rejections by their guards can
// then work where the rejection is decided.
func errorReturnsDeep(fn *ssa.Function) []*ssa.Return {
	return errorReturnsDeepN(fn, 0)
}

func errorReturnsDeepN(fn *ssa.Function, depth int) []*ssa.Return {
	var out []*ssa.Return
	for _, r := range an.Returns(fn) {
		if len(r.Results) == 0 {
			continue
		}
		errOp := r.Results[len(r.Results)-1]
		if !an.IsErrorType(errOp.Type()) || provablyNilAt(errOp, r) {
			continue
		}
		propagated := false
		if depth < 2 {
			for _, v := range an.ValuesAt(errOp) {
				var call *ssa.Call
				switch x := v.(type) {
				case *ssa.Call:
					call = x
				case *ssa.Extract:
					call, _ = x.Tuple.(*ssa.Call)
				}
				if call == nil {
					continue
				}
				if h := an.TransparentCallee(call); h != nil && h != fn {
					propagated = true
					out = append(out, errorReturnsDeepN(h, depth+1)...)
				}
			}
		}
		if !propagated {
			out = append(out, r)
		}
	}
	return out
}
