package props

import (
	"fmt"
	"go/token"
	"go/types"
	"strings"

	"golang.org/x/tools/go/ssa"

	"scverif/an"
)

func init() {
	register(&Prop{
		ID:          "C10",
		Title:       "Subscriptions and the event bus shut down cleanly under any timing",
		Explanation: "R10.1 every channel send in the forwarding goroutines of Value.Pull, Collection.Pull, Collection.PullID and in listener.send is a select alternative next to a receive on the subscription context's Done channel (for the lossy stages: next to a receive from their input). R10.2 every forwarding goroutine closes the channel it hands out with a defer that covers every exit. R10.3 listener.ch is closed only under the listener's exclusive lock, guarded by a non-nil test and followed by setting it to nil in the same region; it is sent on only under the read lock. R10.4 listener.send's select has both the listen-context and the send-context case. R10.5 Bus.Listen starts a goroutine that waits for the context and stops the listener; Bus.Send collects dead listeners. R10.6 a consumer loop over a context-bound producer that can leave the loop for a reason other than the channel closing or its own context ending must own a cancel function for the producer's context and call/defer it. R10.7 Bus.Send delivers without holding the registry lock. Does NOT decide absence of deadlock in general, timing bounds, or exactly-once delivery under concurrent cancel.",
		Assumptions: []string{"a closed Done channel makes the select case ready", "close(ch) by the only sender-side owner"},
		Run:         runC10,
		Controls: []Control{
			{Name: "merge-stage-asserts-before-ok", File: "pkg/resource/backpressure.go", Old: "\t\t\t\t\tif !ok {\n\t\t\t\t\t\treturn\n\t\t\t\t\t}\n\t\t\t\t\tnewMessage := *(newAny.(*CollectionChange))\n\t\t\t\t\toldMessage", New: "\t\t\t\t\tnewMessage := *(newAny.(*CollectionChange))\n\t\t\t\t\tif !ok {\n\t\t\t\t\t\treturn\n\t\t\t\t\t}\n\t\t\t\t\toldMessage", Expect: "R10.15"},
			{Name: "collection-lossy-wrapper-inverted", File: "pkg/resource/collection.go", Old: "\tch := c.bus.Listen(ctx)\n\tif !config.Backpressure {\n", New: "\tch := c.bus.Listen(ctx)\n\tif config.Backpressure {\n", Expect: "R10.10"},
			{Name: "send-results-read-the-other-way-round", File: "internal/minibus/bus.go", Old: "\t\tok, active := l.send(ctx, event)\n", New: "\t\tactive, ok := l.send(ctx, event)\n", Expect: "R10.9"},
			{Name: "alive-flipped", File: "internal/minibus/bus.go", Old: "\treturn l.ctx.Err() == nil\n", New: "\treturn l.ctx.Err() != nil\n", Expect: "R10.9"},
			{Name: "pullid-subscribes-on-callers-context", File: "pkg/resource/collection.go", Old: "\tctx, cancel := context.WithCancel(ctx)\n\tchanges := c.Pull(ctx, opts...)\n", New: "\tchanges := c.Pull(ctx, opts...)\n\tctx, cancel := context.WithCancel(ctx)\n", Expect: "R10.6"},
			{Name: "pullid-forces-backpressure", File: "pkg/resource/collection.go", Old: "\tchanges := c.Pull(ctx, opts...)\n", New: "\tchanges := c.Pull(ctx, append(append([]ReadOption{}, opts...), WithBackpressure(true))...)\n", Expect: "R10.8"},
			{Name: "collect-filters-in-place", File: "internal/minibus/bus.go", Old: "\tvar activeListeners []*listener\n", New: "\tactiveListeners := b.listeners[:0]\n", Expect: "R10.5"},
			{Name: "onoff-forwarder-bare-send", File: "pkg/trait/onoffpb/model.go", Old: "\t\t\tselect {\n\t\t\tcase <-ctx.Done():\n\t\t\t\treturn\n\t\t\tcase send <- PullOnOffChange{\n\t\t\t\tValue:      value,\n\t\t\t\tChangeTime: change.ChangeTime,\n\t\t\t}:\n\t\t\t}\n", New: "\t\t\tsend <- PullOnOffChange{\n\t\t\t\tValue:      value,\n\t\t\t\tChangeTime: change.ChangeTime,\n\t\t\t}\n", Expect: "R10.11"},
			{Name: "waste-replay-keeps-lock-on-failure", File: "pkg/trait/wastepb/model.go", Old: "\t\t\t\tm.mu.Unlock()\n\t\t\t\treturn err\n", New: "\t\t\t\treturn err\n", Expect: "R10.12"},
			{Name: "value-pull-unconditional-send", File: "pkg/resource/value.go", Old: "\t\t\t\tcontinue\n\t\t\t}\n\t\t\tlast = change.Value\n\t\t\tselect {\n\t\t\tcase <-ctx.Done():\n\t\t\t\treturn // give up sending\n\t\t\tcase typedEvents <- change:\n\t\t\t}", New: "\t\t\t\tcontinue\n\t\t\t}\n\t\t\tlast = change.Value\n\t\t\ttypedEvents <- change", Expect: "R10.1"},
			{Name: "collection-pull-no-defer-close", File: "pkg/resource/collection.go", Old: "\tgo func() {\n\t\tdefer close(send)\n\n\t\t// held tracks", New: "\tgo func() {\n\t\t// held tracks", Expect: "R10.2"},
			{Name: "stop-without-nil", File: "internal/minibus/bus.go", Old: "\t\tclose(l.ch)\n\t\tl.ch = nil", New: "\t\tclose(l.ch)", Expect: "R10.3"},
			{Name: "send-outside-rlock", File: "internal/minibus/bus.go", Old: "\tl.m.RLock()\n\tdefer l.m.RUnlock()\n\n\tselect {", New: "\tselect {", Expect: "R10.3"},
			{Name: "listener-no-listen-ctx", File: "internal/minibus/bus.go", Old: "\tcase <-l.ctx.Done():\n\t\t// listen context cancelled\n\t\t// this is considered a success even though the message is not sent\n\t\treturn true, false\n\n", New: "", Expect: "R10.4"},
			{Name: "listen-never-stops", File: "internal/minibus/bus.go", Old: "\t\t<-ctx.Done()\n\t\tl.stop()", New: "\t\t<-ctx.Done()", Expect: "R10.5"},
			{Name: "no-gc", File: "internal/minibus/bus.go", Old: "\tif needGc {\n\t\tb.collect()\n\t}", New: "\t_ = needGc", Expect: "R10.5"},
			{Name: "deliver-under-registry-lock", File: "internal/minibus/bus.go", Old: "\t\tlisteners = append(listeners, l)\n\t}\n\tb.listenerM.RUnlock()", New: "\t\tlisteners = append(listeners, l)\n\t}\n\tdefer b.listenerM.RUnlock()", Expect: "R10.7"},
			{Name: "pullid-no-cancel", File: "pkg/resource/collection.go", Old: "\t\tdefer cancel()\n\t\tfor change := range changes {", New: "\t\t_ = cancel\n\t\tfor change := range changes {", Expect: "R10.6"},
			{Name: "buffered-output", Silent: true, File: "pkg/resource/value.go", Old: "typedEvents := make(chan *ValueChange)", New: "typedEvents := make(chan *ValueChange, 4)"},
		},
	})
}

func runC10(c *an.Ctx) {
	r093(c, "R10.10") // the lossy wrapper is installed exactly when backpressure is off (shared with R09.3)
	c.Min("R10.10", 2)
	r101(c)
	r103(c)
	r104(c)
	r105(c)
	r106(c, "R10.6")
	r107(c)
	r108(c, "R10.8")
	r109(c, "R10.9")
	c.Min("R10.9", 3)
	c.Min("R10.1", 5)
	c.Min("R10.2", 5)
	c.Min("R10.3", 3)
	c.Min("R10.4", 1)
	c.Min("R10.5", 2)
	c.Min("R10.6", 1)
	c.Min("R10.7", 1)
	c.Min("R10.8", 1)
	r1011(c, "R10.11")
	c.Min("R10.11", 20)
	r165held(c, "R10.13") // a removal is never judged a duplicate: a single-item subscription ends when its item goes (shared with R16.5)
	c.Min("R10.13", 2)
	shareAs(c, "R01.7", "R10.14", r017, func(k string) bool { return strings.Contains(k, "PullID") || strings.Contains(k, "Pull") }) // a single-item subscription watches the id the collection stores (shared with R01.7)
	c.Min("R10.14", 1)
	r1012(c, "R10.12")
	r1015(c, "R10.15")
	c.Min("R10.15", 1)
	c.Min("R10.12", 30)
}

// forwarders of pkg/resource: function -> its goroutine bodies.
// forwarderOuter: the Pull function that starts each forwarding goroutine (a literal's parent, or the caller of a
// named function started with `go f(…)`).
var forwarderOuter = map[*ssa.Function]*ssa.Function{}

func resourceForwarders(c *an.Ctx, rule string) map[string][]*ssa.Function {
	out := map[string][]*ssa.Function{}
	for _, t := range [][2]string{{"Value", "Pull"}, {"Collection", "Pull"}, {"Collection", "PullID"}} {
		fn := mustFunc(c, rule, resPkg, t[0], t[1])
		if fn == nil {
			continue
		}
		name := "(*pkg/resource." + t[0] + ")." + t[1]
		for _, g := range an.GoStmts(fn) {
			if f := an.GoTarget(g); f != nil {
				out[name] = append(out[name], f)
				forwarderOuter[f] = fn
				c.SawFunc(an.FuncName(f))
			}
		}
		if len(out[name]) == 0 {
			c.Unk(rule, name+"|goroutine", fn.Pos(), "no forwarding goroutine found")
		}
	}
	return out
}

// ctxOfFunction: contexts that denote the subscription context inside a
// forwarding goroutine: context.Context parameters of the enclosing function
// (captured), or contexts derived from them by WithCancel/WithTimeout.
func isSubscriptionCtx(v ssa.Value, outer *ssa.Function) bool {
	return isSubscriptionCtxSeen(v, outer, map[ssa.Value]bool{})
}

func isSubscriptionCtxSeen(v ssa.Value, outer *ssa.Function, seen map[ssa.Value]bool) bool {
	if seen[v] {
		return false
	}
	seen[v] = true
	isSubscriptionCtx := func(v ssa.Value, outer *ssa.Function) bool { return isSubscriptionCtxSeen(v, outer, seen) }
	for _, s := range an.Sources(v) {
		switch x := s.(type) {
		case *ssa.Parameter:
			if x.Parent() == outer && an.NamedTypeName(x.Type()) == "context.Context" {
				return true
			}
		case *ssa.Extract:
			if call, ok := x.Tuple.(*ssa.Call); ok && x.Index == 0 {
				n := an.CalleeName(call)
				if n == "context.WithCancel" || n == "context.WithTimeout" || n == "context.WithDeadline" {
					if isSubscriptionCtx(call.Call.Args[0], outer) {
						return true
					}
				}
			}
		case *ssa.UnOp:
			// a context kept in a field of an object that `outer` builds from its own context (the goroutine is a
			// method of that object: `go l.stopWhenDone()` reading l.ctx)
			if x.Parent() == outer {
				continue
			}
			_, sn, fld, isF := an.FieldOf(x.X)
			if !isF || an.NamedTypeName(x.Type()) != "context.Context" {
				continue
			}
			found := false
			an.Instrs(outer, func(in ssa.Instruction) {
				st, isSt := in.(*ssa.Store)
				if !isSt {
					return
				}
				if _, sn2, fld2, isF2 := an.FieldOf(st.Addr); isF2 && sn2 == sn && fld2 == fld && isSubscriptionCtx(st.Val, outer) {
					found = true
				}
			})
			if found {
				return true
			}
		}
	}
	return false
}

// isAliveEdge: the edge is taken when a listener's context has not ended (`l.alive()` or `l.ctx.Err() == nil`).
func isAliveEdge(e an.CondEdge) bool {
	if call, isC := e.If.Cond.(*ssa.Call); isC && strings.HasSuffix(an.CalleeName(call), "listener).alive") {
		return e.Branch
	}
	x, trueMeansNil, ok := an.NilTest(e.If.Cond)
	if !ok || e.Branch != trueMeansNil {
		return false
	}
	for _, s := range an.Sources(x) {
		call, isC := s.(*ssa.Call)
		if !isC || !call.Call.IsInvoke() || call.Call.Method.Name() != "Err" {
			continue
		}
		for _, r := range an.Sources(call.Call.Value) {
			if u, isU := r.(*ssa.UnOp); isU {
				if _, sn, fld, isF := an.FieldOf(u.X); isF && fld == "ctx" && strings.HasSuffix(sn, "minibus.listener") {
					return true
				}
			}
		}
	}
	return false
}

func r101(c *an.Ctx) {
	const rule = "R10.1"
	fw := resourceForwarders(c, rule)
	for _, name := range an.SortedKeys(fw) {
		for _, g := range fw[name] {
			outer := forwarderOuter[g]
			n := 0
			for _, s := range an.Sends(g) {
				n++
				cons := fmt.Sprintf("%s|goroutine send#%d cancellable", name, n)
				if s.Select == nil {
					// buffered with enough capacity is fine
					c.Bad(rule, cons, s.Instr.Pos(), "unconditional channel send in a subscription goroutine: if the subscriber stops receiving and cancels, the goroutine (and with backpressure the writer) blocks forever")
					continue
				}
				ok := false
				for _, ctx := range an.SelectHasCtxDone(s.Select) {
					if isSubscriptionCtx(ctx, outer) {
						ok = true
					}
				}
				c.Check(ok, rule, cons, s.Instr.Pos(), "select has <-ctx.Done() of the subscription context",
					"the select around the send has no receive on the subscription context's Done channel")
			}
			// R10.2 output closed
			var outCh []ssa.Value
			for _, r := range an.Returns(outer) {
				if r.Block() == outer.Recover {
					continue
				}
				for _, s := range an.Sources(r.Results[0]) {
					if _, isMC := s.(*ssa.MakeChan); isMC {
						outCh = append(outCh, s)
					}
				}
			}
			chans, entry := an.DeferredCloses(g)
			closed := false
			for i, ch := range chans {
				for _, s := range an.Sources(ch) {
					for _, o := range outCh {
						if s == o && entry[i] {
							closed = true
						}
					}
				}
			}
			c.Check(closed, "R10.2", name+"|goroutine closes the returned channel on every exit", g.Pos(), "defer close(out) covers every exit",
				"the channel returned to the subscriber is not closed by a defer that covers every exit of the forwarding goroutine")
		}
	}
	// lossy stages share the shape rule of C09 (send next to input receive, close, exit on closed input)
	stageShape(c, "R10.2", c.Prog.Func("internal/minibus", "", "DropExcess"), "internal/minibus.DropExcess", false)
	stageShape(c, "R10.2", c.Prog.Func(resPkg, "", "mergeCollectionExcess"), "pkg/resource.mergeCollectionExcess", false)
}

func r103(c *an.Ctx) {
	const rule = "R10.3"
	g := analyseGuarded(c)
	reportGuarded(c, rule, g, func(s string) bool { return s == "internal/minibus.listener" })
	// the send itself (not only the load of l.ch) happens under the listener's read lock
	if ls := mustFunc(c, rule, "internal/minibus", "listener", "send"); ls != nil {
		w := lockWorld(c)
		for i, s := range an.Sends(ls) {
			if _, _, f, ok := an.FieldOf(sourceField(s.Chan)); !ok || f != "ch" {
				continue
			}
			held := w.At(s.Instr)
			okl := false
			for k, m := range held {
				if strings.HasSuffix(k, ".m") && m >= an.RLock {
					okl = true
				}
			}
			c.Check(okl, rule, fmt.Sprintf("(*internal/minibus.listener).send|send#%d on l.ch under the listener lock", i+1), s.Instr.Pos(), "lock set "+held.String(),
				"the channel is sent on with lock set "+held.String()+": stop() can close it while the send is in flight (send on closed channel panic)")
		}
	}
	stop := mustFunc(c, rule, "internal/minibus", "listener", "stop")
	if stop == nil {
		return
	}
	name := "(*internal/minibus.listener).stop"
	li := lockWorld(c).Info[stop]
	var closes []*ssa.Call
	an.Instrs(stop, func(in ssa.Instruction) {
		if cl, ok := in.(*ssa.Call); ok && an.CalleeName(cl) == "builtin close" {
			closes = append(closes, cl)
		}
	})
	if len(closes) == 0 {
		c.Bad(rule, name+"|close", stop.Pos(), "listener.stop never closes the listener channel: the subscriber's range never ends")
		return
	}
	for i, cl := range closes {
		cons := fmt.Sprintf("%s|close#%d idempotent", name, i+1)
		chv := cl.Call.Args[0]
		// guarded by ch != nil
		nonNil := an.KnownNonNil(chv, cl)
		if !nonNil {
			// same field loaded twice: compare by access path
			for _, e := range an.GuardingEdges(cl) {
				x, trueMeansNil, ok := an.NilTest(e.If.Cond)
				if ok && an.AccessPath(x) != "" && an.AccessPath(x) == an.AccessPath(chv) && e.Branch != trueMeansNil {
					nonNil = true
				}
			}
		}
		// followed by a nil store to the same field under the same lock
		nilled := false
		an.Instrs(stop, func(in ssa.Instruction) {
			st, ok := in.(*ssa.Store)
			if !ok || !an.IsNilConst(st.Val) {
				return
			}
			if an.AccessPath(st.Addr) == an.AccessPath(chv) && an.Dominates(cl, st) {
				lock := strings.TrimSuffix(an.AccessPath(chv), ".ch") + ".m"
				if li != nil && an.HeldContinuously(li, lock, an.WLock, cl, st) {
					nilled = true
				}
			}
		})
		c.Check(nonNil && nilled, rule, cons, cl.Pos(), "close guarded by ch != nil and followed by ch = nil under the same exclusive lock",
			fmt.Sprintf("close(l.ch) must be guarded by a non-nil test (%v) and followed by l.ch = nil in the same exclusive region (%v): otherwise a second stop closes a closed channel, or a later send hits the closed channel (panic)", nonNil, nilled))
	}
}

func r104(c *an.Ctx) {
	const rule = "R10.4"
	ls := mustFunc(c, rule, "internal/minibus", "listener", "send")
	if ls == nil {
		return
	}
	name := "(*internal/minibus.listener).send"
	for i, s := range an.Sends(ls) {
		cons := fmt.Sprintf("%s|send#%d has listen-context and send-context cases", name, i+1)
		if s.Select == nil {
			c.Bad(rule, cons, s.Instr.Pos(), "unconditional send: a cancelled subscriber blocks the sender")
			continue
		}
		hasParam, hasField := false, false
		for _, ctx := range an.SelectHasCtxDone(s.Select) {
			if p, ok := ctx.(*ssa.Parameter); ok && p.Parent() == ls {
				hasParam = true
			}
			if _, _, f, ok := an.FieldOf(ctx); ok && f == "ctx" {
				hasField = true
			}
		}
		c.Check(hasParam && hasField, rule, cons, s.Instr.Pos(), "both cases present",
			fmt.Sprintf("select lacks a case (send context: %v, listen context: %v): a send to a cancelled listener or with an expired send context can stick", hasParam, hasField))
	}
}

// callsSync reports whether fn, on some path, synchronously calls target
// (directly or through module callees, depth-bounded).
func callsSync(c *an.Ctx, fn *ssa.Function, target string, depth int) []ssa.Instruction {
	var out []ssa.Instruction
	an.Instrs(fn, func(in ssa.Instruction) {
		call, ok := in.(*ssa.Call)
		if !ok {
			return
		}
		if an.CalleeName(call) == target {
			out = append(out, in)
			return
		}
		if depth > 0 {
			if f := call.Call.StaticCallee(); f != nil && c.Prog.AllFuncs[f] && f != fn {
				if len(callsSync(c, f, target, depth-1)) > 0 && reachesOnAllPaths(c, f, target, depth-1) {
					out = append(out, in)
				}
			}
		}
	})
	return out
}

// reachesOnAllPaths: every path from entry to a normal return of fn passes a
// synchronous call reaching target.
func reachesOnAllPaths(c *an.Ctx, fn *ssa.Function, target string, depth int) bool {
	sites := map[ssa.Instruction]bool{}
	for _, s := range callsSync(c, fn, target, depth) {
		sites[s] = true
	}
	if len(sites) == 0 {
		return false
	}
	t, _ := an.PathQuery{
		Target: func(in ssa.Instruction) bool { _, isR := in.(*ssa.Return); return isR },
		Avoid:  func(in ssa.Instruction) bool { return sites[in] },
	}.From(fn, nil)
	return t == nil
}

func r105(c *an.Ctx) {
	const rule = "R10.5"
	listen := mustFunc(c, rule, "internal/minibus", "Bus", "Listen")
	if listen != nil {
		name := "(*internal/minibus.Bus).Listen"
		ok := false
		for _, g := range an.GoStmts(listen) {
			f := an.GoTarget(g)
			if f == nil {
				continue
			}
			// waits for ctx.Done() then calls stop
			var wait ssa.Instruction
			for _, r := range an.Recvs(f) {
				if ctx, isDone := an.CtxDone(r.Chan); isDone && isSubscriptionCtx(ctx, listen) {
					wait = r.Instr
				}
			}
			if wait == nil {
				continue
			}
			for _, st := range an.CallsTo(f, "(*"+an.ModulePath+"/internal/minibus.listener).stop") {
				if an.Dominates(wait, st) {
					// every path from the wait to return passes stop
					t, _ := an.PathQuery{Target: func(in ssa.Instruction) bool { _, isR := in.(*ssa.Return); return isR },
						Avoid: func(in ssa.Instruction) bool { return in == st }}.From(f, wait)
					if t == nil {
						ok = true
					}
				}
			}
		}
		c.Check(ok, rule, name+"|cancel stops the listener", listen.Pos(), "goroutine waits for ctx.Done() and calls listener.stop()",
			"Bus.Listen starts no goroutine that waits for the listen context and then stops the listener: cancelling a subscription never closes its channel")
	}
	send := mustFunc(c, rule, "internal/minibus", "Bus", "Send")
	if send != nil {
		name := "(*internal/minibus.Bus).Send"
		cols := an.CallsTo(send, "(*"+an.ModulePath+"/internal/minibus.Bus).collect")
		good := false
		for _, col := range cols {
			// reachable when some listener.send reported inactive: collect must be reachable from the send loop
			for _, ls := range an.CallsTo(send, "(*"+an.ModulePath+"/internal/minibus.listener).send") {
				if an.Reaches(ls, col) {
					good = true
				}
			}
		}
		c.Check(good, rule, name+"|dead listeners are collected", send.Pos(), "collect() reachable after deliveries", "Bus.Send never collects listeners whose context ended: the listener set grows without bound and every send keeps visiting dead listeners")
		col := c.Prog.Func("internal/minibus", "Bus", "collect")
		if col != nil {
			// collect keeps exactly the alive listeners: append guarded by alive() true
			okc := false
			an.Instrs(col, func(in ssa.Instruction) {
				if !an.IsCallTo(in, "builtin append") {
					return
				}
				for _, e := range an.GuardingEdges(in) {
					if isAliveEdge(e) {
						okc = true
					}
				}
			})
			c.Check(okc, rule, "(*internal/minibus.Bus).collect|keeps live listeners only", col.Pos(), "append guarded by alive()", "collect does not keep exactly the listeners that are alive")
		}
	}
	registryRebuild(c, rule)
}

// r106: early-exit consumers cancel their producer (E6c), applied to pkg/resource.
func r106(c *an.Ctx, rule string) {
	n := 0
	for _, fn := range c.Prog.FuncsIn("pkg/resource") {
		if c.Prog.IsGenerated(fn.Pos()) {
			continue
		}
		for _, rl := range an.RecvLoops(fn) {
			b, recv := rl.Header, rl.Recv
			// producer: a call with a context argument whose result is the ranged channel
			var prod *ssa.Call
			for _, s := range an.Sources(recv.X) {
				if call, ok := s.(*ssa.Call); ok {
					for _, a := range call.Call.Args {
						if an.NamedTypeName(a.Type()) == "context.Context" {
							prod = call
						}
					}
				}
			}
			if prod == nil {
				continue
			}
			var prodCtx ssa.Value
			for _, a := range prod.Call.Args {
				if an.NamedTypeName(a.Type()) == "context.Context" {
					prodCtx = a
				}
			}
			n++
			cons := an.FuncName(fn) + "|range over " + an.ModRel(an.CalleeName(prod))
			c.SawFunc(an.FuncName(fn))
			// early exits: returns reachable from the loop body other than via the closed edge,
			// not guarded by a select on the producer context's Done
			iff, _ := b.Instrs[len(b.Instrs)-1].(*ssa.If)
			if iff == nil {
				continue
			}
			body := b.Succs[0]
			var early []*ssa.Return
			for _, r := range an.Returns(fn) {
				if r.Block() == fn.Recover {
					continue
				}
				t, _ := an.PathQuery{Target: func(in ssa.Instruction) bool { return in == ssa.Instruction(r) },
					Avoid: func(in ssa.Instruction) bool { return in == ssa.Instruction(recv) }}.FromBlock(body)
				if t == nil {
					continue
				}
				// is this return only reachable through a select case on the same context's Done?
				viaDone := false
				for _, e := range an.GuardingEdges(r) {
					bo, ok := e.If.Cond.(*ssa.BinOp)
					if !ok || !e.Branch {
						continue
					}
					ex, ok := bo.X.(*ssa.Extract)
					if !ok {
						continue
					}
					sel, ok := ex.Tuple.(*ssa.Select)
					if !ok || ex.Index != 0 {
						continue
					}
					idx, isC := an.ConstInt(bo.Y)
					if !isC || int(idx) >= len(sel.States) {
						continue
					}
					st := sel.States[idx]
					if st.Dir == types.RecvOnly {
						if ctx, isDone := an.CtxDone(st.Chan); isDone && sameCtx(ctx, prodCtx) {
							viaDone = true
						}
					}
				}
				if !viaDone {
					early = append(early, r)
				}
			}
			if len(early) == 0 {
				c.Ok(rule, cons, recv.Pos(), "the loop only ends when the channel closes or the shared context ends")
				continue
			}
			// the producer context must be cancellable here and cancelled on those exits
			// (what the context variable holds AT the producer call: a cancellable context derived only afterwards does
			// not stop the producer)
			var cancel ssa.Value
			atCall := an.ValuesAt(prodCtx)
			if ld, isLoad := prodCtx.(*ssa.UnOp); isLoad && ld.Op == token.MUL {
				if _, isAlloc := ld.X.(*ssa.Alloc); isAlloc {
					if stores, _ := an.ReachingStores(ld); len(stores) > 0 {
						atCall = nil
						for _, st := range stores {
							atCall = append(atCall, an.ValuesAt(st.Val)...)
						}
					}
				}
			}
			for _, s := range atCall {
				if ex, ok := s.(*ssa.Extract); ok && ex.Index == 0 {
					if call, ok := ex.Tuple.(*ssa.Call); ok {
						nm := an.CalleeName(call)
						if nm == "context.WithCancel" || nm == "context.WithTimeout" || nm == "context.WithDeadline" {
							for _, u := range an.Referrers(call) {
								if e2, ok := u.(*ssa.Extract); ok && e2.Index == 1 {
									cancel = e2
								}
							}
						}
					}
				}
			}
			if cancel == nil {
				c.Bad(rule, cons, early[0].Pos(), fmt.Sprintf("the consumer leaves the loop early (%d exit(s), e.g. here) but the producer was started on a context this function cannot cancel: the producer keeps running and, with backpressure, the next writer blocks on a subscriber nobody reads", len(early)))
				continue
			}
			allCancelled := true
			for _, r := range early {
				covered := false
				an.Instrs(fn, func(in ssa.Instruction) {
					var cv ssa.Value
					switch x := in.(type) {
					case *ssa.Defer:
						cv = x.Call.Value
					case *ssa.Call:
						cv = x.Call.Value
					default:
						return
					}
					for _, s := range an.Sources(cv) {
						if s == cancel && an.Dominates(in, r) {
							covered = true
						}
					}
				})
				if !covered {
					allCancelled = false
				}
			}
			c.Check(allCancelled, rule, cons, early[0].Pos(), "every early exit is covered by a (deferred) cancel of the producer's context",
				"an early exit of the consumer loop does not cancel the producer's context")
		}
	}
	if n == 0 {
		c.Note("%s: no consumer loop over a context-bound producer found in pkg/resource", rule)
	}
}

func sameCtx(a, b ssa.Value) bool {
	for _, x := range an.Sources(a) {
		for _, y := range an.Sources(b) {
			if x == y {
				return true
			}
		}
	}
	return false
}

func r107(c *an.Ctx) {
	const rule = "R10.7"
	send := mustFunc(c, rule, "internal/minibus", "Bus", "Send")
	if send == nil {
		return
	}
	w := lockWorld(c)
	calls := an.CallsTo(send, "(*"+an.ModulePath+"/internal/minibus.listener).send")
	if len(calls) == 0 {
		c.Bad(rule, "(*internal/minibus.Bus).Send|delivery", send.Pos(), "Bus.Send does not deliver to listeners")
	}
	for i, cl := range calls {
		held := w.At(cl)
		free := true
		for k := range held {
			if strings.HasSuffix(k, ".listenerM") {
				free = false
			}
		}
		c.Check(free, rule, fmt.Sprintf("(*internal/minibus.Bus).Send|delivery#%d without the registry lock", i+1), cl.Pos(), "lock set "+held.String(),
			"listener.send is called with lock set "+held.String()+": a slow subscriber blocks Listen and collect (new subscriptions and other cancellations stall)")
	}
}

// sourceField returns the field load a value originates from (through local cells), or the value itself.
func sourceField(v ssa.Value) ssa.Value {
	for _, s := range an.Sources(v) {
		if _, _, _, ok := an.FieldOf(s); ok {
			return s
		}
	}
	return v
}

// registryRebuild: every store to Bus.listeners writes a slice built (append
// chain / range filter) from a load of Bus.listeners made inside the same
// exclusive region - never a snapshot taken earlier, which would drop
// listeners registered in between.
func registryRebuild(c *an.Ctx, rule string) {
	w := lockWorld(c)
	n := 0
	for _, fn := range c.Prog.FuncsIn("internal/minibus") {
		an.Instrs(fn, func(in ssa.Instruction) {
			st, ok := in.(*ssa.Store)
			if !ok {
				return
			}
			if _, sn, f, okf := an.FieldOf(st.Addr); !okf || f != "listeners" || !strings.HasSuffix(sn, "minibus.Bus") {
				return
			}
			n++
			cons := an.FuncName(fn) + "|listener set rebuilt from the live registry"
			c.SawFunc(an.FuncName(fn))
			li := w.Info[fn]
			lock := strings.TrimSuffix(an.AccessPath(st.Addr), ".listeners") + ".listenerM"
			// collect the origins of the stored slice: follow append chains, phis, range elements
			seen := map[ssa.Value]bool{}
			fromLive, foreign := false, ""
			inPlace := false
			var walk func(v ssa.Value)
			walk = func(v ssa.Value) {
				if v == nil || seen[v] {
					return
				}
				seen[v] = true
				switch x := v.(type) {
				case *ssa.Phi:
					for _, e := range x.Edges {
						walk(e)
					}
				case *ssa.Call:
					if an.CalleeName(x) == "builtin append" {
						walk(x.Call.Args[0])
						return
					}
					foreign = "call " + an.CalleeName(x)
				case *ssa.Slice:
					// b.listeners[:k] shares the live backing array: appending to it overwrites entries that a Send,
					// which iterates its snapshot outside the lock, may be reading
					if x.High != nil || x.Low != nil {
						for _, src := range an.Sources(x.X) {
							if _, sn, f, okf := an.FieldOf(src); okf && f == "listeners" && strings.HasSuffix(sn, "minibus.Bus") {
								inPlace = true
							}
						}
					}
					walk(x.X)
				case *ssa.Const:
				case *ssa.Alloc:
					// new slice literal / array
				case *ssa.UnOp:
					if _, sn, f, okf := an.FieldOf(x); okf && f == "listeners" && strings.HasSuffix(sn, "minibus.Bus") {
						if li != nil && an.HeldContinuously(li, lock, an.WLock, x, st) {
							fromLive = true
						} else {
							foreign = "a load of b.listeners outside the exclusive region of the store"
						}
						return
					}
					if cell := an.CellOf(x.X); cell != nil {
						for _, s2 := range an.StoresTo(cell) {
							walk(s2.Val)
						}
						return
					}
					foreign = x.Name()
				case *ssa.Parameter:
					foreign = "parameter " + x.Name()
				case *ssa.FreeVar:
					foreign = "captured " + x.Name()
				default:
					foreign = v.Name()
				}
			}
			walk(st.Val)
			// appending to the live slice, or rebuilding from it by filtering (elements come from ranging the live slice)
			if !fromLive && foreign == "" {
				// built from nil by appending elements: the elements must come from ranging the live slice
				an.Instrs(fn, func(in2 ssa.Instruction) {
					if u, ok := in2.(*ssa.UnOp); ok {
						if _, sn, f, okf := an.FieldOf(u); okf && f == "listeners" && strings.HasSuffix(sn, "minibus.Bus") {
							if li != nil && an.HeldContinuously(li, lock, an.WLock, u, st) {
								fromLive = true
							}
						}
					}
				})
			}
			c.Check(!inPlace, rule, an.FuncName(fn)+"|the listener set is rebuilt into a fresh slice", st.Pos(), "",
				"the registry is filtered in place (append onto b.listeners[:k]): concurrent Sends iterate snapshots that share that backing array outside the lock, so an entry shifted into an earlier slot is delivered to twice (and the write races with their reads)")
			c.Check(fromLive && foreign == "", rule, cons, st.Pos(), "the stored slice derives from b.listeners read in the same exclusive region",
				"b.listeners is overwritten with a slice that does not derive (only) from the registry as read inside the same exclusive region ("+foreign+"): a listener registered since that snapshot is silently dropped and never receives another event")
		})
	}
	if n == 0 {
		c.Unk(rule, "internal/minibus.Bus|stores to listeners", 0, "no store to Bus.listeners found")
	}
}

// r108: the delivery mode of a subscription is the caller's choice. Library code never installs WithBackpressure with a
// value of its own: a layer that forces backpressure on makes every writer wait for a subscriber that asked to be lossy
// and has stopped receiving (writers and other subscribers stall until it cancels), one that forces it off loses events
// for a subscriber that asked for all of them (C09). The argument of every WithBackpressure call in hand-written,
// non-test code derives from a parameter or a request field, never from a constant.
func r108(c *an.Ctx, rule string) {
	wq := an.ModulePath + "/pkg/resource.WithBackpressure"
	n := 0
	for fn := range c.Prog.AllFuncs {
		if c.Prog.IsGenerated(fn.Pos()) {
			continue
		}
		for _, call := range an.CallsTo(fn, wq) {
			n++
			c.SawFunc(an.FuncName(fn))
			constant := false
			for _, v := range an.ValuesAt(call.Common().Args[0]) {
				if _, isC := an.ConstBool(v); isC {
					constant = true
				}
			}
			c.Check(!constant, rule, an.FuncName(fn)+"|delivery mode comes from the caller", call.Pos(), "argument is not a constant",
				"WithBackpressure is installed with a constant: this layer overrides the delivery mode its caller chose; forced on, a default (lossy) subscriber that stops receiving blocks bus.Send for every writer and every other subscriber until it cancels; forced off, a subscriber that asked for every event loses some")
		}
	}
	// the same through the field: only the option itself writes ReadRequest.Backpressure
	for fn := range c.Prog.AllFuncs {
		if c.Prog.IsGenerated(fn.Pos()) {
			continue
		}
		an.Instrs(fn, func(in ssa.Instruction) {
			st, ok := in.(*ssa.Store)
			if !ok {
				return
			}
			_, sn, f, isField := an.FieldOf(st.Addr)
			if !isField || f != "Backpressure" || !strings.HasSuffix(sn, "/pkg/resource.ReadRequest") {
				return
			}
			if p := fn.Parent(); p != nil && an.FuncQName(p) == wq {
				return
			}
			if an.IsFresh(st.Addr) {
				// a literal built from another request is R09.8's business
				if _, isC := an.ConstBool(st.Val); !isC {
					return
				}
			}
			n++
			c.Bad(rule, an.FuncName(fn)+"|delivery mode comes from the caller", st.Pos(), "ReadRequest.Backpressure is written outside the WithBackpressure option: this layer overrides the delivery mode its caller chose (writers stall behind a lossy subscriber, or a subscriber that asked for every event loses some)")
		})
	}
	c.Count("with_backpressure_calls", n)
	if n == 0 {
		c.Ok(rule, "module|no layer installs a delivery mode of its own", 0, "no call of resource.WithBackpressure outside tests")
	}
}

// r109: what listener.send reports, and that Bus.Send reads it that way. listener.send has three outcomes, one per
// select case: the sender's context is done (the send is abandoned), the listen context is done (nothing to deliver
// to, not a failure), the event was handed over. Whatever the encoding - (ok, active bool) or an enumeration - the three
// outcomes are reported by three different constant results, and Bus.Send gives up (returns false, skipping the
// remaining listeners) for exactly the first of them and looks at what tells the second from the third (to schedule
// the garbage collection). Read the other way round, one cancelled subscriber makes every Send stop at it: the
// listeners registered after it never see another event and it is never collected.
// Also: a listener counts as alive exactly while its listen context has no error.
func r109(c *an.Ctx, rule string) {
	ls := mustFunc(c, rule, "internal/minibus", "listener", "send")
	send := mustFunc(c, rule, "internal/minibus", "Bus", "Send")
	if ls == nil || send == nil {
		return
	}
	lname := "(*internal/minibus.listener).send"
	var sel *ssa.Select
	an.Instrs(ls, func(in ssa.Instruction) {
		if s, ok := in.(*ssa.Select); ok {
			sel = s
		}
	})
	nres := ls.Signature.Results().Len()
	if sel == nil || nres == 0 {
		c.Unk(rule, lname+"|result table", ls.Pos(), "no select / no result")
		return
	}
	kind := func(i int) string {
		st := sel.States[i]
		if st.Dir == types.SendOnly {
			return "delivered"
		}
		ctx, isDone := an.CtxDone(st.Chan)
		if !isDone {
			return "?"
		}
		for _, s0 := range an.Sources(ctx) {
			if p, isP := s0.(*ssa.Parameter); isP && p.Parent() == ls {
				return "sender done"
			}
			if _, _, f, isF := an.FieldOf(s0); isF && f == "ctx" {
				return "listener done"
			}
			if u, isU := s0.(*ssa.UnOp); isU {
				if _, _, f, isF := an.FieldOf(u.X); isF && f == "ctx" {
					return "listener done"
				}
			}
		}
		return "?"
	}
	constOf := func(v ssa.Value) (string, bool) {
		k, isC := v.(*ssa.Const)
		if !isC || k.Value == nil {
			return "", false
		}
		return k.Value.ExactString(), true
	}
	table := map[string][]string{}
	okTable, why := true, ""
	for _, r := range an.Returns(ls) {
		ci := -1
		for _, e := range an.GuardingEdges(r) {
			bo, isBO := e.If.Cond.(*ssa.BinOp)
			if !isBO || bo.Op != token.EQL {
				continue
			}
			ex, isEx := bo.X.(*ssa.Extract)
			if !isEx || ex.Tuple != ssa.Value(sel) || ex.Index != 0 {
				continue
			}
			k, isC := an.ConstInt(bo.Y)
			if !isC {
				continue
			}
			if e.Branch {
				ci = int(k)
			} else if int(k) == len(sel.States)-2 && ci < 0 {
				ci = len(sel.States) - 1 // the last case is the false edge of the last comparison
			}
		}
		if ci < 0 || ci >= len(sel.States) {
			continue
		}
		k := kind(ci)
		if k == "?" {
			okTable, why = false, "a select case that is neither a context's Done nor the delivery"
			continue
		}
		tuple := make([]string, nres)
		for i := 0; i < nres; i++ {
			vals := an.ValuesAt(r.Results[i])
			if len(vals) != 1 {
				okTable, why = false, "outcome "+k+" is not reported by constants"
				continue
			}
			cs, isC := constOf(vals[0])
			if !isC {
				okTable, why = false, "outcome "+k+" is not reported by constants"
			}
			tuple[i] = cs
		}
		if prev, dup := table[k]; dup && strings.Join(prev, ",") != strings.Join(tuple, ",") {
			okTable, why = false, "outcome "+k+" is reported in two ways"
		}
		table[k] = tuple
	}
	if okTable && len(table) != 3 {
		okTable, why = false, fmt.Sprintf("outcomes found: %v", an.SortedKeys(table))
	}
	if okTable {
		j := func(k string) string { return strings.Join(table[k], ",") }
		if j("sender done") == j("listener done") || j("sender done") == j("delivered") || j("listener done") == j("delivered") {
			okTable, why = false, fmt.Sprintf("two outcomes are reported alike: sender done (%s), listener done (%s), delivered (%s)", j("sender done"), j("listener done"), j("delivered"))
		}
	}
	c.Check(okTable, rule, lname+"|result table", ls.Pos(), "three outcomes, three different constant results",
		"listener.send does not report its three outcomes (sender's context done / listen context done / delivered) by three different constant results: "+why)
	if !okTable {
		return
	}
	// Bus.Send's reading
	sname := "(*internal/minibus.Bus).Send"
	for _, cl := range an.CallsTo(send, "(*"+an.ModulePath+"/internal/minibus.listener).send") {
		call, isCall := cl.(*ssa.Call)
		if !isCall {
			continue
		}
		// the value of a condition of Send under one outcome of the call
		var eval func(v ssa.Value, k string, depth int) (string, bool)
		eval = func(v ssa.Value, k string, depth int) (string, bool) {
			if depth > 6 {
				return "", false
			}
			if cs, isC := constOf(v); isC {
				return cs, true
			}
			switch x := v.(type) {
			case *ssa.Extract:
				if x.Tuple == ssa.Value(call) && x.Index < nres {
					return table[k][x.Index], true
				}
			case *ssa.Call:
				if x == call && nres == 1 {
					return table[k][0], true
				}
			case *ssa.UnOp:
				if x.Op == token.NOT {
					if b, ok := eval(x.X, k, depth+1); ok {
						return fmt.Sprint(b != "true"), true
					}
				}
			case *ssa.BinOp:
				if x.Op == token.EQL || x.Op == token.NEQ {
					a, oka := eval(x.X, k, depth+1)
					b, okb := eval(x.Y, k, depth+1)
					if oka && okb {
						return fmt.Sprint((a == b) == (x.Op == token.EQL)), true
					}
				}
			}
			if vals := an.ValuesAt(v); len(vals) == 1 && vals[0] != v {
				return eval(vals[0], k, depth+1)
			}
			return "", false
		}
		// abandoning: the edges that lead to `return false`
		abortOK, found := true, false
		for _, r := range an.Returns(send) {
			isFalse := false
			for _, v := range an.ValuesAt(r.Results[0]) {
				if b, isC := an.ConstBool(v); isC && !b {
					isFalse = true
				}
			}
			if !isFalse {
				continue
			}
			for _, e := range an.GuardingEdges(r) {
				verdict := map[string]string{}
				all := true
				for _, k := range []string{"sender done", "listener done", "delivered"} {
					b, ok := eval(e.If.Cond, k, 0)
					if !ok {
						all = false
						break
					}
					verdict[k] = fmt.Sprint((b == "true") == e.Branch)
				}
				if !all {
					continue // a condition about something else
				}
				found = true
				if !(verdict["sender done"] == "true" && verdict["listener done"] == "false" && verdict["delivered"] == "false") {
					abortOK = false
				}
			}
		}
		c.Check(found && abortOK, rule, sname+"|gives up only when the send itself was abandoned", call.Pos(), "returns false exactly for the outcome \"sender's context done\"",
			"Bus.Send returns false (and skips the remaining listeners) for an outcome of listener.send other than \"the sender's context is done\": a subscriber that has cancelled then stops every later Send at its place in the list, listeners registered after it receive nothing more and it is never collected")
		// the part of the result that tells a listener that is gone from a delivery is looked at
		consulted := false
		if nres == 1 {
			consulted = true // an enumeration: the abandoning test above already distinguishes; collect is checked by R10.5
			for _, u := range an.Referrers(call) {
				if _, isDbg := u.(*ssa.DebugRef); !isDbg {
					consulted = true
				}
			}
		} else {
			for i := 0; i < nres; i++ {
				if table["listener done"][i] == table["delivered"][i] {
					continue
				}
				for _, u := range an.Referrers(call) {
					if ex, isEx := u.(*ssa.Extract); isEx && ex.Index == i {
						for _, u2 := range an.Referrers(ex) {
							if _, isDbg := u2.(*ssa.DebugRef); !isDbg {
								consulted = true
							}
						}
					}
				}
			}
		}
		c.Check(consulted, rule, sname+"|a listener whose context ended is noticed", call.Pos(), "the result that tells a gone listener from a delivery is used",
			"Bus.Send never looks at the part of listener.send's result that says the listener is gone: cancelled listeners are never collected")
	}
	// alive (where it exists as a function of its own; R10.5 checks the test collect keeps a listener on)
	if al := c.Prog.Func("internal/minibus", "listener", "alive"); al != nil {
		ok := false
		for _, r := range an.Returns(al) {
			for _, v := range an.ValuesAt(r.Results[0]) {
				x, trueMeansNil, isNT := an.NilTest(v)
				if !isNT || !trueMeansNil {
					continue
				}
				for _, s0 := range an.Sources(x) {
					if cl, isC := s0.(*ssa.Call); isC && cl.Call.IsInvoke() && cl.Call.Method.Name() == "Err" {
						ok = true
					}
				}
			}
		}
		c.Check(ok, rule, "(*internal/minibus.listener).alive|true while the listen context has no error", al.Pos(), "returns ctx.Err() == nil",
			"listener.alive does not report `ctx.Err() == nil`: the garbage collection keeps the cancelled listeners and drops the live ones, which never receive another event")
	}
}

// r1011: the forwarding goroutines of the trait models (`for change := range recv { send <- convert(change) }`) are
// goroutines started for a subscription too. One that offers its value with a bare send waits for a receiver that
// may never come: a consumer that stops receiving and then cancels (a server handler whose stream.Send failed
// returns without draining) leaves the goroutine in that send forever, and the channel it handed out never closes.
// Every send in such a goroutine is a select alternative next to the Done channel of the subscription's context.
func r1011(c *an.Ctx, rule string) {
	for _, fn := range c.Prog.FuncsIn("pkg/trait") {
		if c.Prog.IsGenerated(fn.Pos()) || fn.Parent() == nil {
			continue
		}
		file := c.Prog.RelFile(fn.Pos())
		if !strings.HasSuffix(file, "/model.go") && !strings.HasSuffix(file, "/collection.go") {
			continue
		}
		outer := fn.Parent()
		for outer.Parent() != nil {
			outer = outer.Parent()
		}
		hasCtx := false
		for _, p := range outer.Params {
			if an.NamedTypeName(p.Type()) == "context.Context" {
				hasCtx = true
			}
		}
		if !hasCtx || len(an.RecvLoops(fn)) == 0 {
			continue
		}
		c.SawFunc(an.FuncName(fn))
		for i, s := range an.Sends(fn) {
			cons := fmt.Sprintf("%s|send#%d gives up when the subscription ends", an.FuncName(fn), i+1)
			ok := false
			if s.Select != nil {
				for _, ctx := range an.SelectHasCtxDone(s.Select) {
					if isSubscriptionCtx(ctx, outer) {
						ok = true
					}
				}
			}
			c.Check(ok, rule, cons, s.Instr.Pos(), "select has <-ctx.Done() of the subscription context",
				"the forwarding goroutine offers its value with a send that has no alternative: a subscriber that stops receiving and then cancels leaves the goroutine blocked in this send forever, and the channel it was given never closes")
		}
	}
}

// r1012: a lock taken inside a function is given back on every way out of it. The must-held set at each return
// (entry set empty, so everything in it was acquired here) has to be covered by a deferred unlock of the same
// lock; a return that leaves with a lock held and no deferred release is an exit on which every later user of
// that lock - writers, readers, new subscribers - blocks forever.
func r1012(c *an.Ctx, rule string) {
	for _, fn := range c.Prog.FuncsIn("") {
		if !an.InModule(fn) || len(fn.Blocks) == 0 || strings.HasSuffix(c.Prog.RelFile(fn.Pos()), "_test.go") {
			continue
		}
		hasLock := false
		deferred := map[string]bool{}
		released := map[string]bool{}
		deferredUnknown := false
		an.Instrs(fn, func(in ssa.Instruction) {
			if p, op, ok := an.LockOp(in); ok {
				if op == "Unlock" || op == "RUnlock" {
					released[p] = true
				}
				if _, isDefer := in.(*ssa.Defer); isDefer {
					if op == "Unlock" || op == "RUnlock" {
						deferred[p] = true
					}
					return
				}
				if op == "Lock" || op == "RLock" {
					hasLock = true
				}
				return
			}
			if d, isDefer := in.(*ssa.Defer); isDefer {
				if g := an.ClosureFn(d.Call.Value); g != nil {
					an.Instrs(g, func(x ssa.Instruction) {
						if _, op, ok := an.LockOp(x); ok && (op == "Unlock" || op == "RUnlock") {
							deferredUnknown = true
						}
					})
				}
			}
		})
		if !hasLock {
			continue
		}
		c.SawFunc(an.FuncName(fn))
		li := an.Locks(fn, nil)
		leaked, where := "", fn.Pos()
		if !deferredUnknown {
			for _, r := range an.Returns(fn) {
				if r.Block() == fn.Recover {
					continue
				}
				for p := range li.At(r) {
					// (a function that never releases the lock it takes is an acquire helper: its callers release)
					if !deferred[p] && released[p] {
						leaked, where = p, r.Pos()
					}
				}
			}
		}
		c.Check(leaked == "", rule, an.FuncName(fn)+"|locks taken here are released on every exit", where, "",
			fmt.Sprintf("the function returns at %s with %s still locked and no deferred unlock: every later user of that lock blocks forever", c.Prog.Fset.Position(where), leaked))
	}
}

// r1015: a value received with the comma-ok form is touched only once ok is known to be true. The lossy stages end
// when their input is closed (ok == false, value nil): a type assertion or dereference of the received value made
// before that test panics in the stage's goroutine when a subscription with queued changes is cancelled - and a
// panic in that goroutine takes the process down.
func r1015(c *an.Ctx, rule string) {
	n := 0
	check := func(fn *ssa.Function) {
		for _, f := range an.WithClosures(fn) {
			assertGuarded := func(val, okv ssa.Value) {
				for _, u := range an.Referrers(val) {
					ta, isTA := u.(*ssa.TypeAssert)
					if !isTA || ta.CommaOk {
						continue
					}
					n++
					guarded := false
					for _, e := range an.GuardingEdges(ta) {
						cond, want := e.If.Cond, true
						for {
							if un, isNot := cond.(*ssa.UnOp); isNot && un.Op == token.NOT {
								cond, want = un.X, !want
								continue
							}
							break
						}
						if cond == okv && e.Branch == want {
							guarded = true
						}
					}
					c.SawFunc(an.FuncName(fn))
					c.Check(guarded, rule, fmt.Sprintf("%s|received value #%d is asserted only after ok was tested", an.FuncName(fn), n), ta.Pos(), "guarded by ok == true",
						"the value received from the input is type-asserted before `ok` is tested: when the input closes (a cancelled subscription) the value is nil and the assertion panics in the stage's goroutine")
				}
			}
			an.Instrs(f, func(in ssa.Instruction) {
				if rcv, isRcv := in.(*ssa.UnOp); isRcv && rcv.Op == token.ARROW && rcv.CommaOk {
					var val, okv ssa.Value
					for _, u := range an.Referrers(rcv) {
						if ex, isEx := u.(*ssa.Extract); isEx {
							if ex.Index == 0 {
								val = ex
							} else {
								okv = ex
							}
						}
					}
					if val != nil && okv != nil {
						assertGuarded(val, okv)
					}
					return
				}
				sel, ok := in.(*ssa.Select)
				if !ok {
					return
				}
				recvIdx := 0
				for _, st := range sel.States {
					if st.Dir != types.RecvOnly {
						continue
					}
					var val, okv ssa.Value
					for _, u := range an.Referrers(sel) {
						if ex, isEx := u.(*ssa.Extract); isEx {
							if ex.Index == 2+recvIdx {
								val = ex
							}
						}
					}
					for _, u := range an.Referrers(sel) {
						if ex, isEx := u.(*ssa.Extract); isEx && ex.Index == 1 {
							okv = ex
						}
					}
					recvIdx++
					if val == nil || okv == nil {
						continue
					}
					assertGuarded(val, okv)
				}
			})
		}
	}
	if fn := c.Prog.Func(resPkg, "", "mergeCollectionExcess"); fn != nil {
		check(fn)
	}
	if fn := c.Prog.Func("internal/minibus", "", "DropExcess"); fn != nil {
		check(fn)
	}
	c.Count("asserted_received_values", n)
}
