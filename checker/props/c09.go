package props

import (
	"fmt"
	"go/token"
	"go/types"
	"strings"

	"golang.org/x/tools/go/ssa"

	"scverif/an"
)

func init() {
	register(&Prop{
		ID:          "C09",
		Title:       "Lossy delivery preserves the folded view; slow readers never block writers",
		Explanation: "R09.1 extracts the complete 4x4 (x last-seed flag) decision table of mergeChanges and checks fold-equivalence constraints on a per-id view: a trailing REMOVE stays a REMOVE (dropped exactly after a pending ADD), anything else is delivered present-making with b's new value, ADD then non-REMOVE stays ADD, REMOVE then ADD is REPLACE, old values chain from the older change, last-seed is the disjunction. R09.2 in DropExcess and mergeCollectionExcess every send on the output is a select alternative next to a receive from the input, the stage exits when the input closes, closes its output by defer, and DropExcess overwrites its slot with each received message. R09.3 the lossy wrapper is applied exactly when !Backpressure (decision tables of both onUpdate functions). R09.4 Value.set publishes with a context from context.WithTimeout(positive constant), returns an error when the deadline was exceeded, and listener.send selects on the send context. R09.17 DropExcess clears its has-a-message flag only on the path through the successful send. Does NOT decide fold-equivalence of the merge queue over all interleavings (FIFO-of-ids logic), nor timing.",
		Assumptions: []string{"select chooses a ready case", "context.WithTimeout cancels at the deadline"},
		Run:         runC09,
		Controls: []Control{
			{Name: "drop-excess-clears-the-slot-after-the-select", File: "internal/minibus/util.go", Old: "\t\t\t\t\t// message sent successfully\n\t\t\t\t\thasMessage = false\n\t\t\t\t}\n", New: "\t\t\t\t\t// message sent successfully\n\t\t\t\t}\n\t\t\t\thasMessage = false\n", Expect: "R09.17"},
			{Name: "backpressure-false-is-a-no-op", File: "pkg/resource/opt.go", Old: "func WithBackpressure(backpressure bool) ReadOption {\n", New: "func WithBackpressure(backpressure bool) ReadOption {\n\tif !backpressure {\n\t\treturn EmptyReadOption{}\n\t}\n", Expect: "R09.16"},
			{Name: "timeout-returns-the-nil-update-error", File: "pkg/resource/value.go", Old: "\t\treturn nil, errors.New(\"bus.Send blocked for too long\")\n\t}\n\n\treturn newValue, err", New: "\t\treturn nil, err\n\t}\n\n\treturn newValue, err", Expect: "R09.4"},
			{Name: "backpressure-on-by-default", File: "pkg/resource/opt.go", Old: "\trr := &ReadRequest{}\n", New: "\trr := &ReadRequest{Backpressure: true}\n", Expect: "R09.10"},
			{Name: "timeout-tested-as-canceled", File: "pkg/resource/value.go", Old: "\tif errors.Is(ctx.Err(), context.DeadlineExceeded) {\n\t\treturn nil, errors.New(\"bus.Send blocked for too long\")\n", New: "\tif errors.Is(ctx.Err(), context.Canceled) {\n\t\treturn nil, errors.New(\"bus.Send blocked for too long\")\n", Expect: "R09.4"},
			{Name: "derived-request-drops-backpressure", File: "pkg/resource/collection.go", Old: "func (c *Collection) onUpdate(", New: "func derivedRequestForControl(rr *ReadRequest) *ReadRequest {\n\treturn &ReadRequest{ReadMask: rr.ReadMask, Include: rr.Include}\n}\n\nfunc (c *Collection) onUpdate(", Expect: "R09.8"},
			{Name: "add-remove-delivered", File: "pkg/resource/backpressure.go", Old: "\t\tcase types.ChangeType_REMOVE:\n\t\t\treturn CollectionChange{}, false", New: "\t\tcase types.ChangeType_REMOVE:\n\t\t\treturn b, true", Expect: "R09.1"},
			{Name: "remove-add-is-add", File: "pkg/resource/backpressure.go", Old: "\t\tif b.ChangeType != types.ChangeType_REMOVE {\n\t\t\tb.ChangeType = types.ChangeType_REPLACE\n\t\t}", New: "", Expect: "R09.1"},
			{Name: "old-value-not-chained", File: "pkg/resource/backpressure.go", Old: "\tcase types.ChangeType_UPDATE:\n\t\tb.OldValue = a.OldValue", New: "\tcase types.ChangeType_UPDATE:", Expect: "R09.1"},
			{Name: "dropexcess-send-outside-select", File: "internal/minibus/util.go", Old: "\t\t\t\tmessage = newMessage\n\t\t\t\thasMessage = true", New: "\t\t\t\tout <- newMessage", Expect: "R09.2"},
			{Name: "dropexcess-keeps-old", File: "internal/minibus/util.go", Old: "\t\t\t\t\t// replace the buffered message, discarding the old one\n\t\t\t\t\tmessage = newMessage\n", New: "\t\t\t\t\t_ = newMessage\n", Expect: "R09.2"},
			{Name: "invert-backpressure", File: "pkg/resource/collection.go", Old: "\tif !config.Backpressure {\n\t\tch = mergeCollectionExcess(ch)", New: "\tif config.Backpressure {\n\t\tch = mergeCollectionExcess(ch)", Expect: "R09.3"},
			{Name: "timeout-tested-on-another-error", File: "pkg/resource/value.go", Old: "\tif errors.Is(ctx.Err(), context.DeadlineExceeded) {\n\t\treturn nil, errors.New(\"bus.Send blocked for too long\")\n", New: "\tif errors.Is(err, context.DeadlineExceeded) {\n\t\treturn nil, errors.New(\"bus.Send blocked for too long\")\n", Expect: "R09.4"},
			{Name: "collection-pull-buffered", File: "pkg/resource/collection.go", Old: "\tsend := make(chan *CollectionChange)\n\n\tgo func() {\n\t\tdefer close(send)\n", New: "\tsend := make(chan *CollectionChange, 1)\n\n\tgo func() {\n\t\tdefer close(send)\n", Expect: "R09.11"},
			{Name: "no-send-timeout", File: "pkg/resource/value.go", Old: "ctx, cancel := context.WithTimeout(context.TODO(), time.Second*5)", New: "ctx, cancel := context.WithCancel(context.TODO())", Expect: "R09.4"},
			{Name: "listener-ignores-send-ctx", File: "internal/minibus/bus.go", Old: "\tcase <-ctx.Done():\n\t\t// send context cancelled\n\t\treturn false, true\n\n", New: "", Expect: "R09.4"},
			{Name: "reorder-switch-arms", Silent: true, File: "pkg/resource/backpressure.go",
				Old: "\t\tcase types.ChangeType_ADD: // not sure how this happens, but sure\n\t\t\treturn b, true\n\t\tcase types.ChangeType_UPDATE, types.ChangeType_REPLACE:\n\t\t\tb.ChangeType = types.ChangeType_ADD\n\t\t\tb.OldValue = nil\n\t\t\treturn b, true\n",
				New: "\t\tcase types.ChangeType_UPDATE, types.ChangeType_REPLACE:\n\t\t\tb.ChangeType = types.ChangeType_ADD\n\t\t\tb.OldValue = nil\n\t\t\treturn b, true\n\t\tcase types.ChangeType_ADD: // not sure how this happens, but sure\n\t\t\treturn b, true\n"},
		},
	})
}

func runC09(c *an.Ctx) {
	r108(c, "R09.10") // lossy delivery is the default: nothing switches backpressure on for the caller (shared with R10.8)
	c.Min("R09.10", 1)
	r091(c)
	r092(c)
	r093(c, "R09.3")
	r094(c)
	r095(c, "R09.5")
	registryRebuild(c, "R09.6")
	r045as(c, "R09.7") // a forwarding loop drops an event only by configuration: with or without backpressure the last event is the final value
	c.Min("R09.7", 2)
	r098(c)
	// the merge stage of a slow reader works on its own copies: the event object the bus hands to every subscriber is
	// never written (E2; otherwise what a diligent subscriber holds changes under it)
	runE2(c, "R09.9", func(fn *ssa.Function) bool {
		return fn.Package() != nil && strings.HasSuffix(fn.Package().Pkg.Path(), "/pkg/resource")
	})
	c.Min("R09.9", 10)
	c.Min("R09.5", 5)
	c.Min("R09.1", 32)
	c.Min("R09.2", 8)
	c.Min("R09.3", 4)
	c.Min("R09.4", 3)
	shareAs(c, "R03.3", "R09.12", r033, func(k string) bool { return strings.Contains(k, "Delete") }) // a removal is announced before the next write of that id can commit (shared with R03.3)
	c.Min("R09.12", 1)
	r062filters(c, "R09.13") // the projected copy of a change keeps old and new value: old values chain per id under a read mask too (shared with R06.2)
	c.Min("R09.13", 2)
	r034(c, "R09.14") // what is announced is what was stored (shared with R03.4)
	c.Min("R09.14", 2)
	shareAs(c, "R10.5", "R09.15", r105, nil) // dead listeners are collected, live ones are kept: a subscriber that keeps receiving gets the most recent value (shared with R10.5)
	c.Min("R09.15", 2)
	r0916(c, "R09.16")
	c.Min("R09.16", 2)
	r0917(c, "R09.17")
	c.Min("R09.17", 1)
	r0911(c, "R09.11")
	c.Min("R09.11", 3)
}

func r091(c *an.Ctx) { r091as(c, "R09.1") }

func r091as(c *an.Ctx, rule string) {
	fn := mustFunc(c, rule, resPkg, "", "mergeChanges")
	if fn == nil {
		return
	}
	add, upd, rem, rep, ok := changeTypeConsts(c)
	if !ok || len(fn.Params) != 2 {
		c.Unk(rule, "mergeChanges|signature", fn.Pos(), "unexpected signature or constants")
		return
	}
	kindName := map[int64]string{add: "ADD", upd: "UPDATE", rem: "REMOVE", rep: "REPLACE"}
	kinds := []int64{add, upd, rep, rem}
	names := map[ssa.Value]string{fn.Params[0]: "a", fn.Params[1]: "b"}
	leaves := an.DecisionTree(fn, an.DTConfig{Names: names, Domains: map[string][]int64{"a.ChangeType": kinds, "b.ChangeType": kinds}})
	c.Count("table_rows", len(leaves))
	for _, l := range leaves {
		if l.Undec != "" {
			c.Unk(rule, "mergeChanges|table", fn.Pos(), "decision table could not be extracted: "+l.Undec)
			return
		}
	}
	present := func(k int64) bool { return k == add || k == upd || k == rep }
	for _, ka := range kinds {
		for _, kb := range kinds {
			for _, aSeed := range []bool{false, true} {
				cons := fmt.Sprintf("mergeChanges|row a=%s b=%s a.lastSeed=%v", kindName[ka], kindName[kb], aSeed)
				var hit []*an.Leaf
				for _, l := range leaves {
					if v := l.Get("a.ChangeType"); v != "" && v != fmt.Sprint(ka) {
						continue
					}
					if v := l.Get("b.ChangeType"); v != "" && v != fmt.Sprint(kb) {
						continue
					}
					if v := l.Get("a.LastSeedValue"); v != "" && v != fmt.Sprint(aSeed) {
						continue
					}
					unknownAtom := ""
					for atom := range l.AssignM {
						if atom != "a.ChangeType" && atom != "b.ChangeType" && atom != "a.LastSeedValue" && atom != "b.LastSeedValue" {
							unknownAtom = atom
						}
					}
					if unknownAtom != "" {
						c.Unk(rule, cons, l.RetPos, "mergeChanges branches on "+unknownAtom+", outside the atoms of the table")
						continue
					}
					hit = append(hit, l)
				}
				if len(hit) == 0 {
					c.Unk(rule, cons, fn.Pos(), "no path for this row")
					continue
				}
				for _, l := range hit {
					if l.Panics || len(l.Returns) != 2 {
						c.Bad(rule, cons, l.RetPos, "mergeChanges panics / unexpected results on this row")
						continue
					}
					send, okb := evalBool(l.Returns[1].S, map[string]bool{})
					if !okb {
						c.Unk(rule, cons, l.RetPos, "send verdict is not constant on this row: "+l.Returns[1].S)
						continue
					}
					m := l.Returns[0]
					var problems []string
					kindS := symField(m, "ChangeType")
					var kind int64 = -1
					if kindS == "b.ChangeType" {
						kind = kb
					} else if kindS == "a.ChangeType" {
						kind = ka
					} else {
						fmt.Sscan(kindS, &kind)
					}
					if kb == rem {
						// (1) trailing REMOVE
						if ka == add {
							if send {
								problems = append(problems, "ADD followed by REMOVE must cancel out (not be delivered): the subscriber never saw the item")
							}
						} else if !send || kind != rem {
							problems = append(problems, fmt.Sprintf("a trailing REMOVE must be delivered as REMOVE, got send=%v kind=%s", send, kindName[kind]))
						}
					} else {
						if !send {
							problems = append(problems, "the merged change must be delivered")
						} else {
							if !present(kind) {
								problems = append(problems, fmt.Sprintf("merged kind %q does not make the item present although b does", kindName[kind]))
							}
							if nv := symField(m, "NewValue"); nv != "b.NewValue" {
								problems = append(problems, "merged NewValue is "+nv+", expected b.NewValue")
							}
							if id := symField(m, "Id"); id != "b.Id" && id != "a.Id" {
								problems = append(problems, "merged Id is "+id)
							}
							// (2)
							if ka == add && kind != add {
								problems = append(problems, fmt.Sprintf("ADD followed by %s must stay an ADD (the subscriber has never seen the item), got %s", kindName[kb], kindName[kind]))
							}
							// (3)
							if ka == rem && kb == add && kind != rep {
								problems = append(problems, fmt.Sprintf("REMOVE followed by ADD must become REPLACE, got %s", kindName[kind]))
							}
						}
					}
					if send {
						// (4) old values chain
						ov := symField(m, "OldValue")
						if ka != add {
							if ov != "a.OldValue" {
								problems = append(problems, "merged OldValue is "+ov+", expected a.OldValue (old values chain per id)")
							}
						} else if !(isUnset(ov) || (kb == add && ov == "b.OldValue")) {
							problems = append(problems, "merged OldValue after a pending ADD is "+ov+", expected none")
						}
						// (5) last seed flag
						ls := symField(m, "LastSeedValue")
						if aSeed {
							if ls != "true" {
								problems = append(problems, "LastSeedValue is "+ls+" although a carried the last-seed flag")
							}
						} else if ls != "b.LastSeedValue" {
							problems = append(problems, "LastSeedValue is "+ls+", expected b.LastSeedValue")
						}
					}
					got := fmt.Sprintf("-> (%s, send=%v)", m.S, send)
					if len(problems) == 0 {
						c.Ok(rule, cons, l.RetPos, got)
					} else {
						c.Bad(rule, cons, l.RetPos, got+": "+strings.Join(problems, "; "))
					}
				}
			}
		}
	}
}

// stageShape checks a lossy stage goroutine (R09.2 / R10.x share this).
// r0917: the lossy stage forgets its pending message only by delivering it. DropExcess keeps one message and a flag
// saying that it has one; the flag goes back to false on the path through the successful send and on no other. Cleared
// after the select as a whole, taking a newer message from the input also marks the slot empty: the newest value is
// then never delivered to a subscriber that was slow for two writes.
func r0917(c *an.Ctx, rule string) {
	outer := mustFunc(c, rule, "internal/minibus", "", "DropExcess")
	if outer == nil {
		return
	}
	name := "internal/minibus.DropExcess"
	n, ok := 0, true
	var pos token.Pos
	for _, f := range an.WithClosures(outer) {
		var sel *ssa.Select
		sendIdx := -1
		an.Instrs(f, func(in ssa.Instruction) {
			if s0, isS := in.(*ssa.Select); isS {
				for i, st := range s0.States {
					if st.Dir == types.SendOnly {
						sel, sendIdx = s0, i
					}
				}
			}
		})
		if sel == nil {
			continue
		}
		// the block entered when the send case was chosen
		var sendBlock *ssa.BasicBlock
		for _, r := range *sel.Referrers() {
			ex, isE := r.(*ssa.Extract)
			if !isE || ex.Index != 0 {
				continue
			}
			for _, r2 := range *ex.Referrers() {
				bo, isB := r2.(*ssa.BinOp)
				if !isB || bo.Op != token.EQL {
					continue
				}
				k, isC := an.ConstInt(bo.Y)
				if !isC || int(k) != sendIdx {
					continue
				}
				for _, r3 := range *bo.Referrers() {
					if iff, isIf := r3.(*ssa.If); isIf && len(iff.Block().Succs[0].Preds) == 1 {
						sendBlock = iff.Block().Succs[0] // (a block other paths join is not "the send case")
					}
				}
			}
		}
		an.Instrs(f, func(in ssa.Instruction) {
			phi, isPhi := in.(*ssa.Phi)
			if !isPhi {
				return
			}
			if b, isB := phi.Type().Underlying().(*types.Basic); !isB || b.Kind() != types.Bool {
				return
			}
			for i, e := range phi.Edges {
				v, isC := an.ConstBool(e)
				if !isC || v {
					continue
				}
				pred := phi.Block().Preds[i]
				if !reachesAvoiding(sel.Block(), pred, phi.Block()) && pred != sel.Block() {
					continue // set before the loop
				}
				n++
				if sendBlock == nil || !(sendBlock == pred || sendBlock.Dominates(pred)) {
					ok = false
					pos = phi.Pos()
				}
			}
		})
	}
	if pos == token.NoPos {
		pos = outer.Pos()
	}
	c.SawFunc(name)
	c.Check(ok, rule, name+"|the pending message is forgotten only by sending it", pos, fmt.Sprintf("%d clearing edge(s), all behind the send case", n),
		"the has-a-message flag is cleared on a path that did not deliver the pending message (after the select as a whole): replacing the pending message by a newer one empties the slot, and the most recent value never reaches the subscriber")
}

func stageShape(c *an.Ctx, rule string, outer *ssa.Function, label string, slotOverwrite bool) {
	if outer == nil {
		return
	}
	var gos []*ssa.Go
	gos = an.GoStmts(outer)
	if len(gos) != 1 || an.GoTarget(gos[0]) == nil {
		c.Unk(rule, label+"|goroutine", outer.Pos(), fmt.Sprintf("expected exactly one goroutine, found %d", len(gos)))
		return
	}
	g := an.GoTarget(gos[0])
	c.SawFunc(an.FuncName(g))
	in := outer.Params[0]
	isIn := func(v ssa.Value) bool {
		for _, s := range an.Sources(v) {
			if s == in {
				return true
			}
		}
		return false
	}
	// the output channel: returned by outer
	var outCh ssa.Value
	for _, r := range an.Returns(outer) {
		for _, s := range an.Sources(r.Results[0]) {
			if _, ok := s.(*ssa.MakeChan); ok {
				outCh = s
			}
		}
	}
	if outCh == nil {
		c.Unk(rule, label+"|output", outer.Pos(), "the returned channel is not a make(chan) of this function")
		return
	}
	isOut := func(v ssa.Value) bool {
		for _, s := range an.Sources(v) {
			if s == outCh {
				return true
			}
		}
		return false
	}
	// every send on out is a select case with a receive from in
	ns := 0
	for _, s := range an.Sends(g) {
		if !isOut(s.Chan) {
			continue
		}
		ns++
		cons := fmt.Sprintf("%s|send#%d on output", label, ns)
		if s.Select == nil {
			c.Bad(rule, cons, s.Instr.Pos(), "unconditional send on the output: while the consumer is not receiving the stage cannot accept the producer's next message, so the writer blocks")
			continue
		}
		hasIn := false
		for _, st := range s.Select.States {
			if st.Dir == types.RecvOnly && isIn(st.Chan) {
				hasIn = true
			}
		}
		c.Check(hasIn && s.Select.Blocking, rule, cons, s.Instr.Pos(), "send is a select alternative next to a receive from the input",
			"the select that sends on the output has no receive from the input: the stage cannot take the next message while the consumer is slow")
	}
	if ns == 0 {
		c.Bad(rule, label+"|send on output", g.Pos(), "the stage never sends on its output")
	}
	// exits when input closes: every receive from in is comma-ok and the !ok edge leads to return
	nr := 0
	for _, r := range an.Recvs(g) {
		if !isIn(r.Chan) {
			continue
		}
		nr++
		cons := fmt.Sprintf("%s|recv#%d closed input ends the stage", label, nr)
		var okVal ssa.Value
		if r.Select != nil {
			for _, u := range an.Referrers(r.Select) {
				if e, isE := u.(*ssa.Extract); isE && e.Index == 1 {
					okVal = e
				}
			}
		} else if u, isU := r.Instr.(*ssa.UnOp); isU && u.CommaOk {
			for _, ref := range an.Referrers(u) {
				if e, isE := ref.(*ssa.Extract); isE && e.Index == 1 {
					okVal = e
				}
			}
		}
		if okVal == nil {
			c.Bad(rule, cons, r.Instr.Pos(), "receive from the input ignores the closed flag: the goroutine spins or blocks forever after the subscription ends")
			continue
		}
		good := false
		for _, u := range an.Referrers(okVal) {
			iff, isIf := u.(*ssa.If)
			if !isIf {
				continue
			}
			// false edge must lead straight to a return
			t, _ := an.PathQuery{Target: func(x ssa.Instruction) bool {
				switch x.(type) {
				case *ssa.Send, *ssa.Select:
					return true
				case *ssa.UnOp:
					return x.(*ssa.UnOp).Op == token.ARROW
				}
				return false
			}}.FromBlock(iff.Block().Succs[1])
			if t == nil {
				good = true
			}
		}
		c.Check(good, rule, cons, r.Instr.Pos(), "!ok leads to return", "after the input is closed the stage keeps communicating instead of returning")
	}
	if nr == 0 {
		c.Bad(rule, label+"|recv from input", g.Pos(), "the stage never receives from its input")
	}
	// output closed by a defer that dominates all exits
	chans, entry := an.DeferredCloses(g)
	closed := false
	for i, ch := range chans {
		if isOut(ch) && entry[i] {
			closed = true
		}
	}
	c.Check(closed, rule, label+"|output closed on exit", g.Pos(), "defer close(out) covers every exit", "the output channel is not closed by a defer covering every exit: the consumer's range never ends")
	if slotOverwrite {
		// the value sent is (a phi over) the last received value
		okSlot := false
		for _, s := range an.Sends(g) {
			if !isOut(s.Chan) || s.Select == nil {
				continue
			}
			// every received value must flow to the sent value
			allFlow := true
			nrecv := 0
			for _, r := range an.Recvs(g) {
				if !isIn(r.Chan) {
					continue
				}
				nrecv++
				var val ssa.Value
				if r.Select != nil {
					for _, u := range an.Referrers(r.Select) {
						if e, isE := u.(*ssa.Extract); isE && e.Index == 2+recvOrdinal(r.Select, r.Index) {
							val = e
						}
					}
				} else {
					for _, u := range an.Referrers(r.Instr.(*ssa.UnOp)) {
						if e, isE := u.(*ssa.Extract); isE && e.Index == 0 {
							val = e
						}
					}
					if !r.CommaOk {
						val = r.Instr.(*ssa.UnOp)
					}
				}
				if val == nil {
					allFlow = false
					continue
				}
				flows := false
				for _, src := range an.Sources(s.Val) {
					if src == val {
						flows = true
					}
				}
				if !flows {
					allFlow = false
				}
			}
			if allFlow && nrecv > 0 {
				okSlot = true
			}
		}
		c.Check(okSlot, rule, label+"|slot overwritten by each received message", g.Pos(), "the message offered to the consumer is the most recently received one",
			"a received message does not replace the buffered one: the consumer is handed a stale value instead of the most recent")
	}
}

func recvOrdinal(sel *ssa.Select, idx int) int {
	n := 0
	for i, st := range sel.States {
		if i == idx {
			return n
		}
		if st.Dir == types.RecvOnly {
			n++
		}
	}
	return n
}

func r092(c *an.Ctx) {
	const rule = "R09.2"
	stageShape(c, rule, mustFunc(c, rule, "internal/minibus", "", "DropExcess"), "internal/minibus.DropExcess", true)
	stageShape(c, rule, mustFunc(c, rule, resPkg, "", "mergeCollectionExcess"), "pkg/resource.mergeCollectionExcess", false)
}

// r093: the lossy wrapper is applied iff !Backpressure.
func r093(c *an.Ctx, rule string) {
	for _, t := range []struct{ recv, wrapper string }{{"Value", "internal/minibus.DropExcess"}, {"Collection", "pkg/resource.mergeCollectionExcess"}} {
		fn := mustFunc(c, rule, resPkg, t.recv, "onUpdate")
		if fn == nil {
			continue
		}
		name := "(*pkg/resource." + t.recv + ").onUpdate"
		if len(fn.Params) != 3 {
			c.Unk(rule, name+"|signature", fn.Pos(), "unexpected parameters")
			continue
		}
		names := map[ssa.Value]string{fn.Params[0]: "r", fn.Params[1]: "ctx", fn.Params[2]: "config"}
		leaves := an.DecisionTree(fn, an.DTConfig{Names: names})
		c.Count("table_rows", len(leaves))
		listen := "call (*internal/minibus.Bus).Listen(&r.bus, ctx)"
		for _, bp := range []bool{true, false} {
			cons := fmt.Sprintf("%s|row backpressure=%v", name, bp)
			n := 0
			for _, l := range leaves {
				if l.Undec != "" {
					c.Unk(rule, cons, fn.Pos(), l.Undec)
					n++
					continue
				}
				v := l.Get("config.Backpressure")
				if v == "" {
					c.Bad(rule, cons, l.RetPos, "a path of onUpdate does not depend on ReadRequest.Backpressure")
					n++
					continue
				}
				if v != fmt.Sprint(bp) {
					continue
				}
				n++
				got := l.Returns[0].S
				want := listen
				if !bp {
					want = "call " + t.wrapper + "(" + listen + ")"
				}
				c.Check(got == want, rule, cons+" updatesOnly="+l.Get("config.UpdatesOnly"), l.RetPos, "subscription channel = "+got,
					"subscription channel = "+got+", expected "+want+" (lossy wrapper exactly when backpressure is off)")
			}
			if n == 0 {
				c.Unk(rule, cons, fn.Pos(), "no path for this row")
			}
		}
	}
}

func r094(c *an.Ctx) {
	const rule = "R09.4"
	set := mustFunc(c, rule, resPkg, "Value", "set")
	if set != nil {
		name := "(*pkg/resource.Value).set"
		outer := set
		deep := an.CallsToDeep(set, "(*"+an.ModulePath+"/internal/minibus.Bus).Send")
		if len(deep) == 0 {
			c.Bad(rule, name+"|publish", set.Pos(), "Value.set does not publish on the bus")
		}
		for i, vc := range deep {
			s := vc.Inner
			set := outer
			if vc.Via != nil {
				set = vc.Via // the timeout and its error are raised where the send happens
			}
			cons := fmt.Sprintf("%s|publish#%d bounded by a timeout", name, i+1)
			ctxArg := s.Common().Args[1]
			var wt *ssa.Call
			for _, v := range an.ValuesAt(ctxArg) {
				if e, ok := v.(*ssa.Extract); ok && e.Index == 0 {
					if call, ok := e.Tuple.(*ssa.Call); ok && an.CalleeName(call) == "context.WithTimeout" {
						wt = call
					}
				}
			}
			if wt == nil {
				c.Bad(rule, cons, s.Pos(), "the context given to Bus.Send does not come from context.WithTimeout: with backpressure and a stuck subscriber the write hangs forever")
				continue
			}
			d, isConst := an.ConstInt(wt.Call.Args[1])
			c.Check(isConst && d > 0, rule, cons, s.Pos(), fmt.Sprintf("timeout %d ns", d), "the send timeout is not a positive constant")
			// DeadlineExceeded after the send leads to an error return
			found := false
			an.Instrs(set, func(in ssa.Instruction) {
				call, ok := in.(*ssa.Call)
				if !ok || an.CalleeName(call) != "errors.Is" || !an.Dominates(s, call) {
					return
				}
				// what it is compared with is the deadline error: the context is cancelled by the deferred cancel only after
				// this point, so a test for context.Canceled can never be true here
				isDeadline := false
				for _, a := range call.Call.Args {
					for _, v := range an.Sources(a) {
						if u, isU := v.(*ssa.UnOp); isU {
							if g, isG := u.X.(*ssa.Global); isG && g.Pkg != nil && g.Pkg.Pkg.Path() == "context" && g.Name() == "DeadlineExceeded" {
								isDeadline = true
							}
						}
					}
				}
				if !isDeadline {
					return
				}
				// what is tested is the send context's own error (ctx.Err() of the context handed to Bus.Send): any
				// other error value says nothing about whether this send ran out of time
				ofSendCtx := false
				for _, a := range call.Call.Args {
					for _, v := range an.ValuesAt(a) {
						ec, isCall := v.(*ssa.Call)
						if !isCall || !ec.Call.IsInvoke() || ec.Call.Method.Name() != "Err" {
							continue
						}
						for _, x := range an.ValuesAt(ec.Call.Value) {
							for _, y := range an.ValuesAt(ctxArg) {
								if x == y {
									ofSendCtx = true
								}
							}
						}
					}
				}
				if !ofSendCtx {
					return
				}
				// true edge returns a non-nil error
				for _, u := range an.Referrers(call) {
					if iff, isIf := u.(*ssa.If); isIf {
						for _, r := range an.Returns(set) {
							if an.EdgeGuards(an.CondEdge{If: iff, Branch: true}, r) {
								nonNil := !provablyNilAt(r.Results[len(r.Results)-1], r) // (`return nil, err` with an err already tested nil is no error)
								for _, v := range an.ValuesAt(r.Results[len(r.Results)-1]) {
									if an.IsNilConst(v) {
										nonNil = false
									}
								}
								if nonNil {
									found = true
								}
							}
						}
					}
				}
			})
			c.Check(found, rule, fmt.Sprintf("%s|publish#%d timeout is reported", name, i+1), s.Pos(), "an exceeded deadline returns an error", "an exceeded send deadline is not turned into an error return")
		}
	}
	ls := mustFunc(c, rule, "internal/minibus", "listener", "send")
	if ls != nil {
		name := "(*internal/minibus.listener).send"
		ss := an.Sends(ls)
		if len(ss) == 0 {
			c.Bad(rule, name+"|send", ls.Pos(), "listener.send never sends")
		}
		for i, s := range ss {
			cons := fmt.Sprintf("%s|send#%d selects on the send context", name, i+1)
			if s.Select == nil {
				c.Bad(rule, cons, s.Instr.Pos(), "unconditional send to the listener channel: a stuck subscriber blocks the writer forever")
				continue
			}
			hasSendCtx := false
			for _, ctx := range an.SelectHasCtxDone(s.Select) {
				if p, ok := ctx.(*ssa.Parameter); ok && p.Parent() == ls {
					hasSendCtx = true
				}
			}
			c.Check(hasSendCtx, rule, cons, s.Instr.Pos(), "select has <-ctx.Done() of the send context", "the select around the delivery has no case for the sender's context: the send timeout cannot take effect")
		}
	}
}

// r095: bookkeeping of the merge queue in mergeCollectionExcess. The pending
// map and the FIFO of ids must describe the same set: an emitted change is
// removed from both, a merged change replaces its queue entry, a cancelled
// pair (ADD then REMOVE) disappears from both, and an entry is queued exactly
// when it is stored.
func r095(c *an.Ctx, rule string) {
	outer := mustFunc(c, rule, resPkg, "", "mergeCollectionExcess")
	if outer == nil {
		return
	}
	name := "pkg/resource.mergeCollectionExcess"
	gos := an.GoStmts(outer)
	if len(gos) != 1 || an.GoTarget(gos[0]) == nil {
		c.Unk(rule, name+"|goroutine", outer.Pos(), "goroutine not found")
		return
	}
	g := an.GoTarget(gos[0])
	isMapDelete := func(in ssa.Instruction) bool {
		cl, ok := in.(*ssa.Call)
		return ok && an.CalleeName(cl) == "builtin delete" && strings.Contains(cl.Call.Args[0].Type().String(), "CollectionChange")
	}
	isMapStore := func(in ssa.Instruction) bool {
		mu, ok := in.(*ssa.MapUpdate)
		return ok && strings.Contains(mu.Map.Type().String(), "CollectionChange")
	}
	isRemove := func(in ssa.Instruction) bool { return an.IsCallToDeep(in, "(*container/list.List).Remove") }
	isPush := func(in ssa.Instruction) bool { return an.IsCallToDeep(in, "(*container/list.List).PushBack") }
	isComm := func(in ssa.Instruction) bool {
		switch x := in.(type) {
		case *ssa.Select:
			return true
		case *ssa.UnOp:
			return x.Op == token.ARROW
		}
		return false
	}
	// (a) after a successful send the front entry leaves both structures
	var sel *ssa.Select
	sendIdx := -1
	an.Instrs(g, func(in ssa.Instruction) {
		if s, ok := in.(*ssa.Select); ok {
			for i, st := range s.States {
				if st.Dir == types.SendOnly {
					sel, sendIdx = s, i
				}
			}
		}
	})
	if sel == nil {
		c.Unk(rule, name+"|select", g.Pos(), "no select with a send case found")
		return
	}
	var sendBody *ssa.BasicBlock
	for _, u := range an.Referrers(sel) {
		ex, ok := u.(*ssa.Extract)
		if !ok || ex.Index != 0 {
			continue
		}
		for _, u2 := range an.Referrers(ex) {
			if bo, ok := u2.(*ssa.BinOp); ok && bo.Op == token.EQL {
				if k, isC := an.ConstInt(bo.Y); isC && int(k) == sendIdx {
					for _, u3 := range an.Referrers(bo) {
						if iff, ok := u3.(*ssa.If); ok {
							sendBody = iff.Block().Succs[0]
						}
					}
				}
			}
		}
	}
	if sendBody == nil {
		c.Unk(rule, name+"|send case", sel.Pos(), "body of the send case not found")
		return
	}
	t1, _ := an.PathQuery{Target: isComm, Avoid: isMapDelete}.FromBlock(sendBody)
	t2, _ := an.PathQuery{Target: isComm, Avoid: isRemove}.FromBlock(sendBody)
	c.Check(t1 == nil, rule, name+"|emitted change leaves the pending map", sel.Pos(), "delete(messages, id) on every path after the send",
		"after a change has been handed to the subscriber its entry stays in the pending map: the next change of that id is merged with history the subscriber already consumed (e.g. a delivered ADD followed by a REMOVE cancels out and the REMOVE is lost)")
	c.Check(t2 == nil, rule, name+"|emitted change leaves the queue", sel.Pos(), "queue.Remove on every path after the send", "after a change has been sent its id stays queued: it is sent again")
	// (b) stored <=> queued. The bookkeeping may live in the goroutine or in helpers it delegates to (put/merge
	// methods of a small queue type): each function is judged on the stores and pushes it makes itself; in a helper
	// the return to the caller ends the step like a communication does.
	bodies := append([]*ssa.Function{g}, an.TransparentCalleesOf(g, 2)...)
	isDirectPush := func(in ssa.Instruction) bool { return an.IsCallTo(in, "(*container/list.List).PushBack") }
	okPush, okStore := true, true
	nPush := 0
	for _, f := range bodies {
		f := f
		boundary := func(in ssa.Instruction) bool {
			if isComm(in) {
				return true
			}
			_, isRet := in.(*ssa.Return)
			return isRet && f != g
		}
		an.Instrs(f, func(in ssa.Instruction) {
			if isDirectPush(in) {
				nPush++
				found := false
				an.Instrs(f, func(m ssa.Instruction) {
					if isMapStore(m) && an.Dominates(m, in) {
						t, _ := an.PathQuery{Target: func(x ssa.Instruction) bool { return x == in }, Avoid: isComm}.From(f, m)
						if t != nil {
							found = true
						}
					}
				})
				if !found {
					okPush = false
				}
			}
			if isMapStore(in) {
				t, _ := an.PathQuery{Target: boundary, Avoid: isPush}.From(f, in)
				if t != nil {
					okStore = false
				}
			}
		})
	}
	c.Check(okPush && okStore && nPush > 0, rule, name+"|an id is queued exactly when its change is stored", g.Pos(), fmt.Sprintf("%d PushBack site(s)", nPush),
		"messages[id] = … and queue.PushBack(id) do not come in pairs: a stored change is never emitted, or a queued id has no change")
	// (c) a cancelled pair disappears, (d) a merged change replaces its queue entry - in whichever function merges
	for _, mf := range bodies {
		g := mf
		isComm := func(in ssa.Instruction) bool {
			if isComm(in) {
				return true
			}
			_, isRet := in.(*ssa.Return)
			return isRet && mf != bodies[0]
		}
		for _, cl := range an.CallsTo(g, an.ModulePath+"/pkg/resource.mergeChanges") {
			for _, u := range an.Referrers(cl.(*ssa.Call)) {
				ex, ok := u.(*ssa.Extract)
				if !ok || ex.Index != 1 {
					continue
				}
				checked := false
				for _, v := range flowsToIf(ex) {
					checked = true
					dropTarget := v.Block().Succs[1]
					if u, isNot := v.Cond.(*ssa.UnOp); isNot && u.Op == token.NOT {
						dropTarget = v.Block().Succs[0]
					}
					t, _ := an.PathQuery{Target: isComm, Avoid: isMapDelete}.FromBlock(dropTarget)
					c.Check(t == nil, rule, name+"|a cancelled pair leaves the pending map", v.Pos(), "", "when mergeChanges says 'do not send' the pending entry is kept: the cancelled ADD is still delivered")
					tp, _ := an.PathQuery{Target: isPush, Avoid: isComm}.FromBlock(dropTarget)
					c.Check(tp == nil, rule, name+"|a cancelled pair is not queued", v.Pos(), "", "a cancelled pair is queued again")
				}
				if !checked {
					c.Bad(rule, name+"|a cancelled pair leaves the pending map", cl.Pos(), "the send verdict of mergeChanges is ignored")
				}
			}
			// (d): between the merge and the PushBack the old queue entry can be removed (the search loop for the
			// entry may in principle find nothing, so only the presence of the removal on some path is required)
			found := false
			an.Instrs(g, func(in ssa.Instruction) {
				if !isRemove(in) {
					return
				}
				t1, _ := an.PathQuery{Target: func(x ssa.Instruction) bool { return x == in }, Avoid: isComm}.From(g, cl)
				t2, _ := an.PathQuery{Target: isPush, Avoid: isComm}.From(g, in)
				if t1 != nil && t2 != nil {
					found = true
				}
			})
			c.Check(found, rule, name+"|a merged change replaces its queue entry", cl.Pos(), "queue.Remove lies between the merge and PushBack", "after merging with a pending change the id is queued a second time and its old queue entry is never removed")
		}
	}
}

// flowsToIf returns the If instructions whose condition is v, !v, or a local copy of v.
func flowsToIf(v ssa.Value) []*ssa.If {
	var out []*ssa.If
	seen := map[ssa.Value]bool{}
	var walk func(x ssa.Value)
	walk = func(x ssa.Value) {
		if seen[x] {
			return
		}
		seen[x] = true
		for _, u := range an.Referrers(x) {
			switch y := u.(type) {
			case *ssa.If:
				out = append(out, y)
			case *ssa.UnOp:
				if y.Op == token.NOT {
					walk(y)
				}
			case *ssa.Phi:
				walk(y)
			case *ssa.Store:
				if cell := an.CellOf(y.Addr); cell != nil {
					for _, l := range an.LoadsOf(cell) {
						walk(l)
					}
				}
			}
		}
	}
	walk(v)
	return out
}

// r098: a read request that is derived from the caller's request keeps the options that decide HOW events are
// delivered: a literal of ReadRequest that takes some field from another ReadRequest also carries Backpressure,
// UpdatesOnly and the read mask over (or starts as a copy of it). Otherwise a subscription asked for with
// backpressure silently becomes a lossy one (or the reverse: writers start waiting for a reader that asked not to be
// waited for).
func r098(c *an.Ctx) {
	const rule = "R09.8"
	n := 0
	for _, fn := range c.Prog.FuncsIn(resPkg) {
		if c.Prog.IsGenerated(fn.Pos()) {
			continue
		}
		an.Instrs(fn, func(in ssa.Instruction) {
			al, ok := in.(*ssa.Alloc)
			if !ok || !strings.HasSuffix(an.NamedTypeName(deref(al.Type())), "/pkg/resource.ReadRequest") {
				return
			}
			fields, _ := litFields(al)
			if len(fields) == 0 {
				return
			}
			// does it take a field from another request?
			var src ssa.Value
			for _, v := range fields {
				for _, s0 := range an.SourcesOpaque(v) {
					if base, sn, _, isF := an.FieldOf(s0); isF && strings.HasSuffix(sn, "/pkg/resource.ReadRequest") {
						src = base
					}
				}
			}
			if src == nil || litCopiedFrom(al) != nil {
				return
			}
			n++
			var missing []string
			for _, f := range []string{"Backpressure", "UpdatesOnly", "ReadMask"} {
				if _, set := fields[f]; !set {
					missing = append(missing, f)
				}
			}
			c.SawFunc(an.FuncName(fn))
			c.Check(len(missing) == 0, rule, an.FuncName(fn)+"|a derived read request keeps the delivery options", al.Pos(), "",
				"a ReadRequest is assembled from another request's fields without "+strings.Join(missing, ", ")+": the subscription made with it no longer honours what the caller asked for (WithBackpressure(true) becomes a lossy merge stage: writes stop waiting and intermediate events are merged away)")
		})
	}
	c.Count("derived_read_requests", n)
}

// r0911: with backpressure a writer waits until the subscriber has TAKEN the event. The chain bus -> forwarding
// goroutine -> subscriber only has that property if the channel a Pull hands out has no buffer: with capacity n
// the forwarder parks n events (or the seed) and goes back to the bus, so a writer returns while the subscriber has
// received nothing.
func r0911(c *an.Ctx, rule string) {
	for _, t := range [][2]string{{"Value", "Pull"}, {"Collection", "Pull"}, {"Collection", "PullID"}} {
		fn := mustFunc(c, rule, resPkg, t[0], t[1])
		if fn == nil {
			continue
		}
		name := "(*pkg/resource." + t[0] + ")." + t[1]
		n, bad := 0, ""
		for _, r := range an.Returns(fn) {
			if r.Block() == fn.Recover || len(r.Results) == 0 {
				continue
			}
			for _, s := range an.Sources(r.Results[0]) {
				mc, ok := s.(*ssa.MakeChan)
				if !ok {
					continue
				}
				n++
				if k, isC := an.ConstInt(mc.Size); !isC || k != 0 {
					bad = c.Prog.Fset.Position(mc.Pos()).String()
				}
			}
		}
		if n == 0 {
			c.Unk(rule, name+"|the channel handed out is unbuffered", fn.Pos(), "the returned channel's make was not found")
			continue
		}
		c.Check(bad == "", rule, name+"|the channel handed out is unbuffered", fn.Pos(), "", "the channel given to the subscriber has a buffer (made at "+bad+"): the forwarding goroutine parks events there and returns to the bus, so with backpressure a writer completes before the subscriber has received anything")
	}
}

// r0916: an option does what its argument says for EVERY argument. The read options that carry a bool
// (WithBackpressure, WithUpdatesOnly) return, on every path, the closure that stores that bool: returning a no-op for
// the default value saves an allocation and breaks "the last option wins" - WithBackpressure(true) followed by
// WithBackpressure(false) stays blocking, and an idle subscriber stalls the writer it asked not to stall.
func r0916(c *an.Ctx, rule string) {
	n := 0
	for _, fn := range c.Prog.FuncsIn(resPkg) {
		if fn.Parent() != nil || fn.Object() == nil || !fn.Object().Exported() || !strings.HasPrefix(fn.Name(), "With") || len(fn.Params) != 1 {
			continue
		}
		if b, isB := fn.Params[0].Type().Underlying().(*types.Basic); !isB || b.Kind() != types.Bool {
			continue
		}
		n++
		ok := true
		for _, r := range an.Returns(fn) {
			if len(r.Results) != 1 {
				continue
			}
			stores := false
			var cands []ssa.Value
			cands = append(cands, r.Results[0])
			cands = append(cands, an.SourcesOpaque(r.Results[0])...)
			cands = append(cands, an.Sources(r.Results[0])...)
			for _, v := range cands {
				var g *ssa.Function
				if mc, isMC := v.(*ssa.MakeClosure); isMC {
					g, _ = mc.Fn.(*ssa.Function)
				} else {
					g = an.ClosureFn(v)
				}
				if g == nil {
					continue
				}
				an.Instrs(g, func(in ssa.Instruction) {
					if st, isSt := in.(*ssa.Store); isSt {
						vals := append([]ssa.Value{st.Val}, an.Sources(st.Val)...)
						for _, s := range vals {
							if fv, isFV := s.(*ssa.FreeVar); isFV && fv.Name() == fn.Params[0].Name() {
								stores = true
							}
							if u, isU := s.(*ssa.UnOp); isU {
								if fv, isFV := u.X.(*ssa.FreeVar); isFV && fv.Name() == fn.Params[0].Name() {
									stores = true
								}
							}
						}
					}
				})
			}
			if !stores {
				ok = false
			}
		}
		c.SawFunc(an.FuncName(fn))
		c.Check(ok, rule, an.FuncName(fn)+"|stores its argument whatever it is", fn.Pos(), "every return is the closure that stores the parameter",
			"for some argument the option returns something that does not store it (a no-op for the default value): a later option can no longer override an earlier one")
	}
	c.Count("bool_options", n)
}
