package props

import (
	"fmt"
	"go/constant"
	"go/token"
	"go/types"
	"strings"

	"golang.org/x/tools/go/ssa"

	"scverif/an"
)

func init() {
	register(&Prop{
		ID:          "C13",
		Title:       "The in-process wrapper is indistinguishable from a real gRPC connection",
		Explanation: "Decides the clauses the statement spells out structurally. R13.1 a message received from the other side of the in-process stream is used only as the source of permissiveProtoMerge (copied into the receiver's own message), which itself only reads it. R13.2 Invoke answers an unknown method with ErrMethodNotFound (Unimplemented) and NewStream with Unimplemented for unknown methods and ErrMethodShape (Internal) for a streaming-shape mismatch, all before a handler goroutine is started. R13.3 every path of both handler goroutines ends in ClientServerStream.Close, every channel operation in stream.go that can block is a select alternative to the stream context's Done, and Close cancels that context after closing serverSend. R13.4 the server's incoming metadata is a clone of the client's outgoing metadata and header/trailer handed to call options are clones. R13.5 headerC is closed only under headerM behind a not-yet-closed test. R13.6 Close assigns the error, then closes serverSend, then cancels. Also R13.7 ServerToClient registers every method and stream of the descriptor under /service/method. R13.8 header/trailer call options are honoured on the error path. R13.9 Invoke never returns SendMsg's io.EOF as the outcome. R13.10 pending headers go out with the status. R13.11 metadata kept by the server side is metadata.Join(current, md). R13.12 no UnmarshalOptions of the package discards unknown fields. R13.13 clientSend is closed at most once. Does NOT decide the property's core: equality of transcripts with a real gRPC transport for every script, status mapping of cancellation and deadlines, ordering of header versus messages.",
		Assumptions: []string{"proto.Merge / Marshal+Unmarshal copy; select picks a ready case"},
		Run:         runC13,
		Controls: []Control{
			{Name: "revert-F70-send-after-half-close-unchecked", File: "pkg/wrap/stream.go", Old: "\tif c.sendClosed.Load() {", New: "\tif false {", Expect: "R13.21"},
			{Name: "merge-fast-path-by-descriptor-name", File: "pkg/wrap/stream.go", Old: "\tif dst.ProtoReflect().Descriptor() == src.ProtoReflect().Descriptor() {", New: "\tif dst.ProtoReflect().Descriptor().FullName() == src.ProtoReflect().Descriptor().FullName() {", Expect: "R13.19"},
			{Name: "client-send-answers-with-the-context-error", File: "pkg/wrap/stream.go", Old: "\tm = copyOfMessage(m)\n\tselect {\n\tcase <-c.ctx.Done():\n\t\treturn c.closeErrLocked()", New: "\tm = copyOfMessage(m)\n\tselect {\n\tcase <-c.ctx.Done():\n\t\treturn c.ctx.Err()", Expect: "R13.20"},
			{Name: "trailer-join-without-the-kept-trailer", File: "pkg/wrap/stream.go", Old: "\ts.trailer = metadata.Join(s.trailer, md)", New: "\ts.trailer = metadata.Join(md)", Expect: "R13.11"},
			{Name: "revert-F68-client-send-hands-over-the-callers-message", File: "pkg/wrap/stream.go", Old: "\t}\n\tm = copyOfMessage(m)\n\tselect {\n\tcase <-c.ctx.Done():", New: "\t}\n\tselect {\n\tcase <-c.ctx.Done():", Expect: "R13.16"},
			{Name: "trailer-joined-in-reverse", File: "pkg/wrap/stream.go", Old: "\ts.trailer = metadata.Join(s.trailer, md)\n", New: "\ts.trailer = metadata.Join(md, s.trailer)\n", Expect: "R13.11"},
			{Name: "transport-setheader-sends", File: "pkg/wrap/wrap.go", Old: "func (ts *serverTransportStream) SetHeader(md metadata.MD) error {\n\treturn ts.ss.SetHeader(md)\n", New: "func (ts *serverTransportStream) SetHeader(md metadata.MD) error {\n\treturn ts.ss.SendHeader(md)\n", Expect: "R13.14"},
			{Name: "cancel-reported-as-close-outcome", File: "pkg/wrap/stream.go", Old: "\t\treturn c.Context().Err()\n", New: "\t\treturn c.closeErrLocked()\n", Expect: "R13.15"},
			{Name: "revert-F41-closesend-every-time", File: "pkg/wrap/stream.go", Old: "\tc.closeSend.Do(func() {\n\t\tc.sendClosed.Store(true)\n\t\tclose(c.clientSend)\n\t})\n", New: "\tc.sendClosed.Store(true)\n\tclose(c.clientSend)\n", Expect: "R13.13"},
			{Name: "trailer-replaced-not-joined", File: "pkg/wrap/stream.go", Old: "\ts.trailer = metadata.Join(s.trailer, md)", New: "\tfor k, v := range md {\n\t\tif s.trailer == nil {\n\t\t\ts.trailer = metadata.MD{}\n\t\t}\n\t\ts.trailer.Set(k, v...)\n\t}", Expect: "R13.11"},
			{Name: "discard-unknown-fields", File: "pkg/wrap/stream.go", Old: "proto.UnmarshalOptions{Merge: true}", New: "proto.UnmarshalOptions{Merge: true, DiscardUnknown: true}", Expect: "R13.12"},
			{Name: "revert-F36-headers-lost-on-early-error", File: "pkg/wrap/stream.go", Old: "\ts.headerM.Lock()\n\tselect {\n\tcase <-s.headerC:\n\tdefault:\n\t\tclose(s.headerC)\n\t}\n\ts.headerM.Unlock()\n\n\ts.closeErrM.Lock()", New: "\ts.closeErrM.Lock()", Expect: "R13.10"},
			{Name: "incoming-metadata-only-when-outgoing", File: "pkg/wrap/wrap.go", Old: "\tctx = metadata.NewIncomingContext(ctx, md)\n", New: "\tif len(md) > 0 {\n\t\tctx = metadata.NewIncomingContext(ctx, md)\n\t}\n", Expect: "R13.4"},
			{Name: "revert-F34-eof-is-the-outcome", File: "pkg/wrap/wrap.go", Old: "if err := cs.SendMsg(args); err != nil && err != io.EOF {", New: "if err := cs.SendMsg(args); err != nil {", More: []Edit{{File: "pkg/wrap/wrap.go", Old: "\t\"io\"\n", New: ""}}, Expect: "R13.9"},
			{Name: "unknown-method-internal", File: "pkg/wrap/wrap.go", Old: "var ErrMethodNotFound = status.Error(codes.Unimplemented, \"method not found\")", New: "var ErrMethodNotFound = status.Error(codes.Internal, \"method not found\")", Expect: "R13.2"},
			{Name: "shape-check-after-go", File: "pkg/wrap/wrap.go", Old: "\tif matched.ServerStreams != desc.ServerStreams || matched.ClientStreams != desc.ClientStreams {\n\t\treturn nil, ErrMethodShape\n\t}\n", New: "\tif matched.ServerStreams != desc.ServerStreams {\n\t\treturn nil, ErrMethodShape\n\t}\n", Expect: "R13.2"},
			{Name: "handler-path-without-close", File: "pkg/wrap/wrap.go", Old: "\t\tif err != nil {\n\t\t\tclientServerStream.Close(err)\n\t\t\treturn\n\t\t}\n\t\terr = ss.SendMsg(res)", New: "\t\tif err != nil {\n\t\t\treturn\n\t\t}\n\t\terr = ss.SendMsg(res)", Expect: "R13.3"},
			{Name: "blocking-send-without-ctx", File: "pkg/wrap/stream.go", Old: "\tm = copyOfMessage(m)\n\tselect {\n\tcase <-s.ctx.Done():\n\t\treturn s.closeErrLocked()\n\tcase s.serverSend <- m:\n\t\treturn nil\n\t}", New: "\tm = copyOfMessage(m)\n\ts.serverSend <- m\n\treturn nil", Expect: "R13.3"},
			{Name: "close-without-cancel", File: "pkg/wrap/stream.go", Old: "\tclose(s.serverSend)\n\ts.closed()\n}", New: "\tclose(s.serverSend)\n}", Expect: "R13.3"},
			{Name: "drop-clonemd", File: "pkg/wrap/wrap.go", Old: "\tmd = cloneMD(md) // to prevent client from concurrently modifying the metadata\n", New: "", Expect: "R13.4"},
			{Name: "header-shared", File: "pkg/wrap/wrap.go", Old: "\t\t\t*opt.HeaderAddr = cloneMD(hdr)", New: "\t\t\t*opt.HeaderAddr = hdr", Expect: "R13.4"},
			{Name: "header-latch-no-test", File: "pkg/wrap/stream.go", Old: "\tselect {\n\tcase <-s.headerC:\n\t\treturn errors.New(\"headers already sent\")\n\tdefault:\n\t}\n\ts.header = metadata.Join(s.header, md)", New: "\t_ = errors.New\n\ts.header = metadata.Join(s.header, md)", Expect: "R13.5"},
			{Name: "cancel-before-close", File: "pkg/wrap/stream.go", Old: "\tclose(s.serverSend)\n\ts.closed()\n}", New: "\ts.closed()\n\tclose(s.serverSend)\n}", Expect: "R13.6"},
			{Name: "recv-keeps-reference", File: "pkg/wrap/stream.go", Old: "\t\treturn permissiveProtoMerge(m.(proto.Message), val.(proto.Message))\n\t}\n}\n\ntype serverStream struct {", New: "\t\tlastReceived = val\n\t\treturn permissiveProtoMerge(m.(proto.Message), val.(proto.Message))\n\t}\n}\n\nvar lastReceived any\n\ntype serverStream struct {", Expect: "R13.1"},
		},
	})
}

func runC13(c *an.Ctx) {
	r1314(c)
	c.Min("R13.14", 3)
	r1315(c)
	c.Min("R13.15", 1)
	r1316as(c, "R13.16")
	c.Min("R13.16", 2)
	r1319(c, "R13.19")
	c.Min("R13.19", 1)
	r1320(c, "R13.20")
	c.Min("R13.20", 2)
	r1321(c, "R13.21")
	c.Min("R13.21", 1)
	// metadata the client can read is exactly what was sent: headers are written only while they have not gone out,
	// and read only once they have (shared with R11.5 / R11.3, which report the same constructs as races)
	shareAs(c, "R11.5", "R13.17", r115, nil)
	c.Min("R13.17", 2)
	shareAs(c, "R11.3", "R13.18", func(sub *an.Ctx) { r113(sub); r113header(sub) }, nil)
	c.Min("R13.18", 3)
	r131(c)
	r132(c)
	r133(c)
	r134(c)
	r135(c)
	r136(c)
	r137(c)
	r138(c)
	r139(c)
	c.Min("R13.9", 1)
	r1310(c)
	r1311(c)
	r1312(c)
	c.Min("R13.11", 3)
	c.Min("R13.12", 1)
	r1313(c)
	c.Min("R13.13", 1)
	c.Min("R13.10", 1)
	c.Min("R13.8", 1)
	c.Min("R13.1", 3)
	c.Min("R13.2", 5)
	c.Min("R13.3", 8)
	c.Min("R13.4", 3)
	c.Min("R13.5", 1)
	c.Min("R13.6", 1)
	c.Min("R13.7", 2)
}

const wrapPkg = "pkg/wrap"

func isStreamField(v ssa.Value, f string) bool {
	_, sn, fld, ok := an.FieldOf(v)
	return ok && fld == f && strings.HasSuffix(sn, "/pkg/wrap.ClientServerStream")
}

func r131(c *an.Ctx) {
	const rule = "R13.1"
	ppm := an.ModulePath + "/pkg/wrap.permissiveProtoMerge"
	for _, t := range [][2]string{{"clientStream", "serverSend"}, {"serverStream", "clientSend"}} {
		fn := mustFunc(c, rule, wrapPkg, t[0], "RecvMsg")
		if fn == nil {
			continue
		}
		name := "(*pkg/wrap." + t[0] + ").RecvMsg"
		// values received from the peer channel
		var received []ssa.Value
		an.Instrs(fn, func(in ssa.Instruction) {
			switch x := in.(type) {
			case *ssa.Select:
				recvIdx := 0
				for _, st := range x.States {
					if st.Dir != types.RecvOnly {
						continue
					}
					if isStreamField(st.Chan, t[1]) {
						for _, u := range an.Referrers(x) {
							if ex, ok := u.(*ssa.Extract); ok && ex.Index == 2+recvIdx {
								received = append(received, ex)
							}
						}
					}
					recvIdx++
				}
			case *ssa.UnOp:
				if x.Op == token.ARROW && isStreamField(x.X, t[1]) {
					if x.CommaOk {
						for _, u := range an.Referrers(x) {
							if ex, ok := u.(*ssa.Extract); ok && ex.Index == 0 {
								received = append(received, ex)
							}
						}
					} else {
						received = append(received, x)
					}
				}
			}
		})
		if len(received) == 0 {
			c.Bad(rule, name+"|received message is only copied", fn.Pos(), "RecvMsg never receives from "+t[1])
			continue
		}
		bad := ""
		copied := false
		for _, rv := range received {
			// every use: type assertion whose result is only argument #1 of permissiveProtoMerge
			var visit func(v ssa.Value)
			seen := map[ssa.Value]bool{}
			visit = func(v ssa.Value) {
				if seen[v] {
					return
				}
				seen[v] = true
				for _, u := range an.Referrers(v) {
					switch x := u.(type) {
					case *ssa.TypeAssert:
						visit(x)
					case *ssa.Extract:
						visit(x)
					case *ssa.DebugRef:
					case *ssa.Call:
						if an.CalleeName(x) == ppm && len(x.Call.Args) == 2 && x.Call.Args[1] == v && x.Call.Args[0] != v {
							copied = true
							continue
						}
						bad = "passed to " + an.ModRel(an.CalleeName(x)) + " at " + c.Prog.Rel(x.Pos())
					default:
						bad = fmt.Sprintf("used by %T at %s", u, c.Prog.Rel(u.Pos()))
					}
				}
			}
			visit(rv)
		}
		c.Check(bad == "" && copied, rule, name+"|received message is only copied", fn.Pos(), "the received message is only the source of permissiveProtoMerge",
			"the message received from the peer is not only copied into the receiver's message ("+bad+"): both sides share one message and can alter each other's copy")
	}
	if fn := mustFunc(c, rule, wrapPkg, "", "permissiveProtoMerge"); fn != nil {
		w := an.NewMutWorld(c.Prog)
		fs := w.AnalyseParams(fn, fn.Params[1])
		// src is never stored or returned
		escapes := false
		an.Instrs(fn, func(in ssa.Instruction) {
			switch x := in.(type) {
			case *ssa.Store:
				if x.Val == ssa.Value(fn.Params[1]) {
					escapes = true
				}
			case *ssa.Return:
				for _, r := range x.Results {
					if r == ssa.Value(fn.Params[1]) {
						escapes = true
					}
				}
			}
		})
		// dst receives through proto.Merge(dst, src) or Unmarshal(bytes, dst)
		okCopy := false
		for _, call := range an.CallsTo(fn, "google.golang.org/protobuf/proto.Merge") {
			if call.Common().Args[0] == ssa.Value(fn.Params[0]) && call.Common().Args[1] == ssa.Value(fn.Params[1]) {
				okCopy = true
			}
		}
		// when every SendMsg already hands over a private clone (R13.16), the receiver may fill its message from
		// that clone in any way - sharing parts with an object nobody else holds is no sharing across the boundary
		if !okCopy {
			sub := an.NewCtx(c.Prog, c.Property, c.Tier)
			r1316as(sub, "R13.16")
			all, n := true, 0
			for _, o := range sub.Obls {
				n++
				if o.Verdict != an.OK {
					all = false
				}
			}
			if all && n >= 2 {
				okCopy = true
			}
		}
		c.Check(len(fs) == 0 && !escapes && okCopy, rule, "pkg/wrap.permissiveProtoMerge|copies src into dst without keeping or changing src", fn.Pos(), "",
			"permissiveProtoMerge writes, keeps or does not copy its source: "+describeFindings(c, fs))
	}
}

func r132(c *an.Ctx) {
	const rule = "R13.2"
	sp := c.Prog.SSAPackage(wrapPkg)
	if sp == nil {
		c.Unk(rule, "pkg/wrap", 0, "package not found")
		return
	}
	for _, t := range []struct {
		g    string
		code int64
		lbl  string
	}{{"ErrMethodNotFound", an.CodeUnimplemented, "Unimplemented"}, {"ErrMethodShape", an.CodeInternal, "Internal"}} {
		g, _ := sp.Members[t.g].(*ssa.Global)
		if g == nil {
			c.Unk(rule, "pkg/wrap."+t.g, 0, "sentinel not found")
			continue
		}
		cd, ok := globalStatusCode(g)
		c.Check(ok && cd == t.code, rule, "pkg/wrap."+t.g+"|is "+t.lbl, g.Pos(), "", fmt.Sprintf("status code %d, expected %s", cd, t.lbl))
	}
	retGlobal := func(r *ssa.Return) string {
		for _, v := range an.ValuesAt(r.Results[len(r.Results)-1]) {
			if u, ok := v.(*ssa.UnOp); ok && u.Op == token.MUL {
				if g, ok := u.X.(*ssa.Global); ok {
					return g.Name()
				}
			}
		}
		return ""
	}
	// Invoke
	if fn := mustFunc(c, rule, wrapPkg, "wrapper", "Invoke"); fn != nil {
		name := "(*pkg/wrap.wrapper).Invoke"
		okMiss := false
		for _, r := range an.Returns(fn) {
			if retGlobal(r) != "ErrMethodNotFound" {
				continue
			}
			// guarded by the methods lookup failing, and no goroutine started before
			for _, e := range an.GuardingEdges(r) {
				for _, v := range an.Sources(e.If.Cond) {
					if ex, ok := v.(*ssa.Extract); ok && ex.Index == 1 && !e.Branch {
						if lk, ok := ex.Tuple.(*ssa.Lookup); ok && isFieldNamed(lk.X, "methods") {
							okMiss = true
						}
					}
				}
			}
			for _, g := range an.GoStmts(fn) {
				if an.Reaches(g, r) {
					okMiss = false
				}
			}
		}
		c.Check(okMiss, rule, name+"|unknown method is Unimplemented before anything starts", fn.Pos(), "", "a method missing from the descriptor is not answered with ErrMethodNotFound before a goroutine is started")
		// the goroutine / startStream only on the found edge
		for _, g := range an.GoStmts(fn) {
			found := false
			for _, e := range an.GuardingEdges(g) {
				for _, v := range an.Sources(e.If.Cond) {
					if ex, ok := v.(*ssa.Extract); ok && ex.Index == 1 && e.Branch {
						if _, ok := ex.Tuple.(*ssa.Lookup); ok {
							found = true
						}
					}
				}
			}
			c.Check(found, rule, name+"|handler starts only for known methods", g.Pos(), "", "a handler goroutine can start for an unknown method")
		}
	}
	// NewStream
	if fn := mustFunc(c, rule, wrapPkg, "wrapper", "NewStream"); fn != nil {
		name := "(*pkg/wrap.wrapper).NewStream"
		var miss, shape bool
		for _, r := range an.Returns(fn) {
			switch retGlobal(r) {
			case "ErrMethodNotFound":
				// both lookups failed
				n := 0
				for _, e := range an.GuardingEdges(r) {
					for _, v := range an.Sources(e.If.Cond) {
						if ex, ok := v.(*ssa.Extract); ok && ex.Index == 1 && !e.Branch {
							if lk, ok := ex.Tuple.(*ssa.Lookup); ok && (isFieldNamed(lk.X, "methods") || isFieldNamed(lk.X, "streams")) {
								n++
							}
						}
					}
				}
				miss = n >= 2
			case "ErrMethodShape":
				shape = true
			}
			if retGlobal(r) != "" {
				for _, g := range an.GoStmts(fn) {
					if an.Reaches(g, r) {
						miss, shape = false, false
					}
				}
			}
		}
		c.Check(miss, rule, name+"|unknown method is Unimplemented", fn.Pos(), "", "NewStream does not answer a method missing from both maps with ErrMethodNotFound")
		// shape: the goroutine is only reachable when BOTH flags match: path search avoiding the equal edges
		shapeViaHelper, unguarded := false, false
		for _, g := range an.GoStmts(fn) {
			flagsCompared := map[string]bool{}
			for _, e := range an.GuardingEdges(g) {
				bo, ok := e.If.Cond.(*ssa.BinOp)
				if !ok {
					continue
				}
				_, _, fx, okx := an.FieldOf(bo.X)
				_, _, fy, oky := an.FieldOf(bo.Y)
				if okx && oky && fx == fy && (fx == "ServerStreams" || fx == "ClientStreams") {
					if (bo.Op == token.NEQ && !e.Branch) || (bo.Op == token.EQL && e.Branch) {
						flagsCompared[fx] = true
					}
				}
			}
			// the comparison as a helper of the package: the goroutine lies behind the helper's nil verdict, and every
			// nil return of the helper lies behind both flags being equal (its other verdict is ErrMethodShape)
			for _, e := range an.GuardingEdges(g) {
				x, trueMeansNil, isNil := an.NilTest(e.If.Cond)
				if !isNil || e.Branch != trueMeansNil {
					continue
				}
				for _, s0 := range an.Sources(x) {
					hc, isCall := s0.(*ssa.Call)
					if !isCall {
						continue
					}
					h := hc.Call.StaticCallee()
					if h == nil || h.Pkg != fn.Pkg || len(h.Blocks) == 0 {
						continue
					}
					anyNil, both, saysShape := false, true, false
					for _, hr := range an.Returns(h) {
						if len(hr.Results) == 0 {
							continue
						}
						if retGlobal(hr) == "ErrMethodShape" {
							saysShape = true
						}
						if !provablyNilAt(hr.Results[len(hr.Results)-1], hr) {
							continue
						}
						anyNil = true
						fc := map[string]bool{}
						for _, e2 := range an.GuardingEdges(hr) {
							bo, ok := e2.If.Cond.(*ssa.BinOp)
							if !ok {
								continue
							}
							_, _, fx, okx := an.FieldOf(bo.X)
							_, _, fy, oky := an.FieldOf(bo.Y)
							if okx && oky && fx == fy && ((bo.Op == token.NEQ && !e2.Branch) || (bo.Op == token.EQL && e2.Branch)) {
								fc[fx] = true
							}
						}
						if !fc["ServerStreams"] || !fc["ClientStreams"] {
							both = false
						}
					}
					if anyNil && both && saysShape {
						flagsCompared["ServerStreams"], flagsCompared["ClientStreams"] = true, true
						shapeViaHelper = true
					}
				}
			}
			if !flagsCompared["ServerStreams"] || !flagsCompared["ClientStreams"] {
				unguarded = true
			}
		}
		// (NewStream answers ErrMethodShape itself, or hands back the verdict of the helper that does)
		okShape := (shape || shapeViaHelper) && !unguarded
		c.Check(okShape, rule, name+"|shape mismatch is Internal before the handler starts", fn.Pos(), "handler guarded by equal ServerStreams and ClientStreams flags",
			"the handler goroutine can start although the requested streaming shape (ServerStreams/ClientStreams) differs from the method's: the call is not answered with ErrMethodShape")
	}
}

func isFieldNamed(v ssa.Value, f string) bool {
	_, _, fld, ok := an.FieldOf(v)
	return ok && fld == f
}

func r133(c *an.Ctx) {
	const rule = "R13.3"
	closeQ := "(*" + an.ModulePath + "/pkg/wrap.ClientServerStream).Close"
	for _, m := range []string{"Invoke", "NewStream"} {
		fn := mustFunc(c, rule, wrapPkg, "wrapper", m)
		if fn == nil {
			continue
		}
		gos := an.GoStmts(fn)
		if len(gos) == 0 {
			c.Bad(rule, "(*pkg/wrap.wrapper)."+m+"|handler goroutine closes the stream", fn.Pos(), "no handler goroutine")
		}
		for i, g := range gos {
			f := an.GoTarget(g)
			if f == nil {
				continue
			}
			c.SawFunc(an.FuncName(f))
			closes := map[ssa.Instruction]bool{}
			for _, cl := range an.CallsTo(f, closeQ) {
				closes[cl] = true
			}
			t, path := an.PathQuery{Target: func(in ssa.Instruction) bool { _, ok := in.(*ssa.Return); return ok },
				Avoid: func(in ssa.Instruction) bool { return closes[in] }}.From(f, nil)
			c.Check(t == nil && len(closes) > 0, rule, fmt.Sprintf("(*pkg/wrap.wrapper).%s|handler goroutine #%d closes the stream on every exit", m, i+1), f.Pos(), fmt.Sprintf("%d Close site(s)", len(closes)),
				"a path of the handler goroutine returns without ClientServerStream.Close: the client blocks until its own context ends and the stream's goroutines are never released", an.BlockPath(c.Prog, path)...)
		}
	}
	// blocking channel operations in stream.go select on the stream context
	for _, fn := range c.Prog.FuncsIn(wrapPkg) {
		if !strings.HasSuffix(c.Prog.RelFile(fn.Pos()), "stream.go") {
			continue
		}
		n := 0
		check := func(in ssa.Instruction, what string, sel *ssa.Select) {
			n++
			cons := fmt.Sprintf("%s|%s #%d selects on the stream context", an.FuncName(fn), what, n)
			if sel == nil {
				c.Bad(rule, cons, in.Pos(), "a blocking "+what+" outside a select: when the peer has gone away the goroutine blocks forever")
				return
			}
			okCtx := !sel.Blocking
			for _, ctx := range an.SelectHasCtxDone(sel) {
				if isStreamField(ctx, "ctx") {
					okCtx = true
				}
				// c.Context() returns the stream context
				if call, ok := ctx.(*ssa.Call); ok && strings.HasSuffix(an.CalleeName(call), "Stream).Context") {
					okCtx = true
				}
			}
			c.Check(okCtx, rule, cons, in.Pos(), "", "the select has no case for the stream context's Done channel")
		}
		for _, s := range an.Sends(fn) {
			if isStreamField(s.Chan, "serverSend") || isStreamField(s.Chan, "clientSend") {
				check(s.Instr, "send", s.Select)
			}
		}
		for _, r := range an.Recvs(fn) {
			if isStreamField(r.Chan, "serverSend") || isStreamField(r.Chan, "clientSend") {
				check(r.Instr, "receive", r.Select)
			}
		}
	}
	// Close cancels the context
	if fn := mustFunc(c, rule, wrapPkg, "ClientServerStream", "Close"); fn != nil {
		cancels := false
		an.Instrs(fn, func(in ssa.Instruction) {
			if call, ok := in.(*ssa.Call); ok && an.CalleeName(call) == "dynamic" && isStreamField(call.Call.Value, "closed") {
				cancels = true
				for _, r := range an.Returns(fn) {
					if !an.Dominates(call, r) {
						cancels = false
					}
				}
			}
		})
		c.Check(cancels, rule, "(*pkg/wrap.ClientServerStream).Close|cancels the stream context", fn.Pos(), "", "Close does not cancel the stream context on every path: blocked senders/receivers of the other side are never released")
	}
	if fn := mustFunc(c, rule, wrapPkg, "", "NewClientServerStream"); fn != nil {
		ok := false
		an.Instrs(fn, func(in ssa.Instruction) {
			if st, isSt := in.(*ssa.Store); isSt && isStreamField(st.Addr, "closed") {
				for _, v := range an.Sources(st.Val) {
					if ex, isEx := v.(*ssa.Extract); isEx && ex.Index == 1 {
						if call, isCall := ex.Tuple.(*ssa.Call); isCall && an.CalleeName(call) == "context.WithCancel" {
							ok = true
						}
					}
				}
			}
		})
		c.Check(ok, rule, "pkg/wrap.NewClientServerStream|`closed` cancels the stream's own context", fn.Pos(), "", "the stream's `closed` function is not the cancel function of its context")
	}
}

func r134(c *an.Ctx) {
	const rule = "R13.4"
	cloneQ := an.ModulePath + "/pkg/wrap.cloneMD"
	if fn := mustFunc(c, rule, wrapPkg, "wrapper", "startStream"); fn != nil {
		ok := false
		for _, vc := range an.CallsToDeep(fn, "google.golang.org/grpc/metadata.NewIncomingContext") {
			call := vc.Inner
			for _, v := range an.ValuesAt(call.Common().Args[1]) {
				if cl, isCall := v.(*ssa.Call); isCall && an.CalleeName(cl) == cloneQ {
					for _, s := range an.ValuesAt(cl.Call.Args[0]) {
						if ex, isEx := s.(*ssa.Extract); isEx {
							if fc, isFC := ex.Tuple.(*ssa.Call); isFC && an.CalleeName(fc) == "google.golang.org/grpc/metadata.FromOutgoingContext" {
								ok = true
							}
						}
					}
				}
			}
		}
		// ... on every path: the context handed to the server always gets its incoming metadata replaced (with the
		// clone, possibly empty), otherwise the CALLER's own incoming metadata leaks into the wrapped server
		always := true
		sites := map[ssa.Instruction]bool{}
		for _, vc := range an.CallsToDeep(fn, "google.golang.org/grpc/metadata.NewIncomingContext") {
			if vc.Must {
				sites[vc.Site] = true
			}
		}
		if t, _ := (an.PathQuery{Target: func(x ssa.Instruction) bool { _, isRet := x.(*ssa.Return); return isRet }, Avoid: func(x ssa.Instruction) bool { return sites[x] }}).From(fn, nil); t != nil {
			always = false
		}
		c.Check(always && len(sites) > 0, rule, "(*pkg/wrap.wrapper).startStream|incoming metadata is replaced on every path", fn.Pos(), "", "a path of startStream returns without metadata.NewIncomingContext: when the caller has no outgoing metadata but carries incoming metadata (a client used inside a handler), the wrapped server sees the caller's incoming metadata - a real connection delivers none of it")
		c.Check(ok, rule, "(*pkg/wrap.wrapper).startStream|incoming metadata is a clone of the outgoing metadata", fn.Pos(), "", "the server's incoming metadata is not cloneMD(the client's outgoing metadata): client and server share (and race on) one metadata map")
	}
	if fn := mustFunc(c, rule, wrapPkg, "", "collectMetadata"); fn != nil {
		n, good := 0, true
		an.Instrs(fn, func(in ssa.Instruction) {
			st, ok := in.(*ssa.Store)
			if !ok || !strings.Contains(st.Val.Type().String(), "metadata.MD") {
				return
			}
			if _, _, f, isF := an.FieldOf(st.Addr); isF || f != "" {
				// *opt.HeaderAddr = …: the address is loaded from the option's field
			}
			n++
			isClone := false
			for _, v := range an.ValuesAt(st.Val) {
				if cl, isCall := v.(*ssa.Call); isCall && an.CalleeName(cl) == cloneQ {
					isClone = true
				}
			}
			if !isClone {
				good = false
			}
		})
		c.Check(good && n >= 2, rule, "pkg/wrap.collectMetadata|header and trailer are handed out as clones", fn.Pos(), fmt.Sprintf("%d stores", n), "header/trailer metadata handed to grpc.Header/grpc.Trailer call options is not cloned")
	}
	if fn := mustFunc(c, rule, wrapPkg, "", "cloneMD"); fn != nil {
		// fresh map, fresh slices
		fresh := false
		an.Instrs(fn, func(in ssa.Instruction) {
			if mu, ok := in.(*ssa.MapUpdate); ok {
				if _, isMake := mu.Map.(*ssa.MakeMap); isMake {
					for _, v := range an.ValuesAt(mu.Value) {
						if call, isCall := v.(*ssa.Call); isCall && an.CalleeName(call) == "builtin append" && an.IsNilConst(call.Call.Args[0]) {
							fresh = true
						}
					}
				}
			}
		})
		c.Check(fresh, rule, "pkg/wrap.cloneMD|deep copy", fn.Pos(), "new map with copied value slices", "cloneMD does not build a new map with copied value slices")
	}
}

func r135(c *an.Ctx) {
	const rule = "R13.5"
	w := lockWorld(c)
	n := 0
	for _, fn := range c.Prog.FuncsIn(wrapPkg) {
		an.Instrs(fn, func(in ssa.Instruction) {
			call, ok := in.(*ssa.Call)
			if !ok || an.CalleeName(call) != "builtin close" || !isStreamField(call.Call.Args[0], "headerC") {
				return
			}
			n++
			held := w.At(call)
			locked := false
			for k, m := range held {
				if strings.HasSuffix(k, ".headerM") && m >= an.WLock {
					locked = true
				}
			}
			// dominated by a non-blocking receive on headerC whose default branch leads here
			tested := false
			for _, e := range an.GuardingEdges(call) {
				bo, isBO := e.If.Cond.(*ssa.BinOp)
				if !isBO {
					continue
				}
				ex, isEx := bo.X.(*ssa.Extract)
				if !isEx {
					continue
				}
				sel, isSel := ex.Tuple.(*ssa.Select)
				if !isSel || sel.Blocking {
					continue
				}
				for _, st := range sel.States {
					if st.Dir == types.RecvOnly && isStreamField(st.Chan, "headerC") && !e.Branch {
						tested = true
					}
				}
			}
			c.SawFunc(an.FuncName(fn))
			c.Check(locked && tested, rule, an.FuncName(fn)+"|headerC closed once, under headerM", call.Pos(), "lock set "+held.String(),
				fmt.Sprintf("close(headerC) must happen under headerM (%v) behind a not-yet-closed test (%v): otherwise two SendHeader calls close it twice (panic)", locked, tested))
		})
	}
	if n == 0 {
		c.Bad(rule, "pkg/wrap|headerC is closed", 0, "headerC is never closed: clientStream.Header() blocks until the context ends")
	}
}

func r136(c *an.Ctx) {
	const rule = "R13.6"
	fn := mustFunc(c, rule, wrapPkg, "ClientServerStream", "Close")
	if fn == nil {
		return
	}
	var setErr, closeSend, cancel ssa.Instruction
	an.Instrs(fn, func(in ssa.Instruction) {
		switch x := in.(type) {
		case *ssa.Store:
			if isStreamField(x.Addr, "closeErr") {
				setErr = x
			}
		case *ssa.Call:
			if an.CalleeName(x) == "builtin close" && isStreamField(x.Call.Args[0], "serverSend") {
				closeSend = x
			}
			// the assignment as a helper of the package (lock, store, unlock in a function of its own)
			if g := x.Call.StaticCallee(); g != nil && len(g.Blocks) > 0 && g.Pkg == fn.Pkg {
				an.Instrs(g, func(in2 ssa.Instruction) {
					if st, isSt := in2.(*ssa.Store); isSt && isStreamField(st.Addr, "closeErr") {
						setErr = x
					}
				})
			}
			if an.CalleeName(x) == "dynamic" && isStreamField(x.Call.Value, "closed") {
				cancel = x
			}
		}
	})
	ok := setErr != nil && closeSend != nil && cancel != nil && an.Dominates(setErr, closeSend) && an.Dominates(closeSend, cancel) && !an.Reaches(closeSend, setErr) && !an.Reaches(cancel, closeSend)
	c.Check(ok, rule, "(*pkg/wrap.ClientServerStream).Close|error, then close(serverSend), then cancel", fn.Pos(), "",
		"Close does not assign the error, then close serverSend, then cancel the context in this order: a receiver woken by the cancel finds serverSend still open and reports a context error instead of the handler's status")
}

// r137: ServerToClient registers every method and stream of the descriptor.
func r137(c *an.Ctx) {
	const rule = "R13.7"
	fn := mustFunc(c, rule, wrapPkg, "", "ServerToClient")
	if fn == nil {
		return
	}
	for _, t := range [][2]string{{"Methods", "MethodName"}, {"Streams", "StreamName"}} {
		ok := false
		an.Instrs(fn, func(in ssa.Instruction) {
			mu, isMU := in.(*ssa.MapUpdate)
			if !isMU {
				return
			}
			// value: element of desc.<t[0]>; key: Sprintf("/%s/%s", desc.ServiceName, elem.<t[1]>)
			fromDesc := false
			for _, src := range an.Sources(mu.Value) {
				if _, _, vf, isF := an.FieldOf(rootLoad(src)); isF && vf == t[0] {
					fromDesc = true
				}
			}
			if !fromDesc {
				return
			}
			// the key reads "/" service "/" name, however it is put together (Sprintf, concatenation, a naming helper)
			for _, v := range an.ValuesAt(mu.Key) {
				parts := stringParts(v, nil, 0)
				if len(parts) == 4 && parts[0].text == "/" && parts[2].text == "/" && parts[1].val != nil && parts[3].val != nil &&
					derivesFromField(parts[1].val, "ServiceName") && derivesFromField(parts[3].val, t[1]) {
					ok = true
				}
			}
		})
		c.Check(ok, rule, "pkg/wrap.ServerToClient|every entry of desc."+t[0]+" is registered under /service/name", fn.Pos(), "", "ServerToClient does not register the descriptor's "+t[0]+" under \"/<service>/<name>\"")
	}
}

// rootLoad follows element loads back to the field the slice came from.
func rootLoad(v ssa.Value) ssa.Value {
	for depth := 0; depth < 8; depth++ {
		switch x := v.(type) {
		case *ssa.UnOp:
			if x.Op == token.MUL {
				v = x.X
				continue
			}
		case *ssa.IndexAddr:
			v = x.X
			continue
		case *ssa.Index:
			v = x.X
			continue
		case *ssa.Field:
			return x
		case *ssa.FieldAddr:
			return x
		}
		break
	}
	return v
}

// r138: a unary Invoke hands header and trailer metadata to the call options whatever the outcome of
// the call (a real connection delivers trailers with an error status too).
// invokeClientHalf: the function holding the client side of a unary call (Invoke itself, or the helper it hands
// the exchange to).
func invokeClientHalf(fn *ssa.Function, method string) *ssa.Function {
	if b := an.BodyWith(fn, func(in ssa.Instruction) bool {
		call, ok := in.(*ssa.Call)
		return ok && call.Call.IsInvoke() && call.Call.Method.Name() == method
	}); b != nil {
		return b
	}
	return fn
}

func r138(c *an.Ctx) {
	const rule = "R13.8"
	fn := mustFunc(c, rule, wrapPkg, "wrapper", "Invoke")
	if fn == nil {
		return
	}
	fn = invokeClientHalf(fn, "RecvMsg")
	var recv ssa.Instruction
	an.Instrs(fn, func(in ssa.Instruction) {
		if call, ok := in.(*ssa.Call); ok && call.Call.IsInvoke() && call.Call.Method.Name() == "RecvMsg" {
			recv = in
		}
	})
	collects := map[ssa.Instruction]bool{}
	for _, cl := range an.CallsTo(fn, an.ModulePath+"/pkg/wrap.collectMetadata") {
		collects[cl] = true
	}
	if recv == nil || len(collects) == 0 {
		c.Bad(rule, "(*pkg/wrap.wrapper).Invoke|metadata is collected after the response, error or not", fn.Pos(), "Invoke does not receive the reply and then collect header/trailer metadata")
		return
	}
	t, path := an.PathQuery{Target: func(in ssa.Instruction) bool { _, ok := in.(*ssa.Return); return ok }, Avoid: func(in ssa.Instruction) bool { return collects[in] }}.From(fn, recv)
	c.Check(t == nil, rule, "(*pkg/wrap.wrapper).Invoke|metadata is collected after the response, error or not", recv.Pos(), "every path from RecvMsg to a return passes collectMetadata",
		"a path returns after RecvMsg without collecting metadata: when the handler fails, the grpc.Header/grpc.Trailer call options stay empty although a real connection delivers the trailer with the error status", an.BlockPath(c.Prog, path)...)
	// the call's own error wins over a metadata error
	okErr := false
	for _, r := range an.Returns(fn) {
		if !an.Reaches(recv, r) {
			continue
		}
		for _, v := range an.ValuesAt(r.Results[0]) {
			if v == ssa.Value(recv.(*ssa.Call)) {
				okErr = true
			}
		}
	}
	c.Check(okErr, rule, "(*pkg/wrap.wrapper).Invoke|the handler's status is what the caller receives", fn.Pos(), "", "Invoke does not return RecvMsg's error")
}

// r139: the terminal outcome of a unary call is what RecvMsg reports. io.EOF from SendMsg only says
// "the call has already ended" (cancelled context, early server status); returning it hides the reason.
// r1310: headers that were set but not sent go out when the stream ends: Close releases the header latch (or
// finds it released) on every path before it publishes the outcome.
func r1310(c *an.Ctx) {
	const rule = "R13.10"
	fn := mustFunc(c, rule, wrapPkg, "ClientServerStream", "Close")
	if fn == nil {
		return
	}
	name := "(*pkg/wrap.ClientServerStream).Close"
	isCloseOf := func(in ssa.Instruction, field string) bool {
		call, ok := in.(*ssa.Call)
		if !ok || an.CalleeName(call) != "builtin close" {
			return false
		}
		return isStreamField(call.Call.Args[0], field) || func() bool {
			for _, s := range an.Sources(call.Call.Args[0]) {
				if isStreamField(s, field) {
					return true
				}
			}
			return false
		}()
	}
	var outcome ssa.Instruction
	for _, f := range append([]*ssa.Function{fn}, an.AnonFuncsDeep(fn)...) {
		an.Instrs(f, func(in ssa.Instruction) {
			if isCloseOf(in, "serverSend") {
				outcome = in
			}
		})
	}
	if outcome == nil {
		c.Unk(rule, name+"|headers go out with the status", fn.Pos(), "close(serverSend) not found in Close")
		return
	}
	// every path to the outcome releases the latch or has seen it released (a receive on headerC)
	t, _ := an.PathQuery{
		Target: func(x ssa.Instruction) bool { return x == outcome },
		Avoid:  func(x ssa.Instruction) bool { return isCloseOf(x, "headerC") },
		AvoidEdge: func(from, to *ssa.BasicBlock) bool {
			iff, isIf := from.Instrs[len(from.Instrs)-1].(*ssa.If)
			if !isIf || to != from.Succs[0] {
				return false
			}
			// the select case `<-s.headerC` was taken
			bo, isBO := iff.Cond.(*ssa.BinOp)
			if !isBO {
				return false
			}
			ex, isEx := bo.X.(*ssa.Extract)
			if !isEx {
				return false
			}
			sel, isSel := ex.Tuple.(*ssa.Select)
			idx, isC := an.ConstInt(bo.Y)
			if !isSel || !isC || int(idx) >= len(sel.States) {
				return false
			}
			return isStreamField(sel.States[idx].Chan, "headerC")
		},
	}.From(fn, nil)
	c.Check(t == nil, rule, name+"|headers go out with the status", outcome.Pos(), "", "a path through Close publishes the outcome while the header latch is still held: a handler that calls grpc.SetHeader and then fails before sending a message loses its headers (the client's grpc.Header option stays empty), whereas a real connection delivers them with the status")
}

func r139(c *an.Ctx) {
	const rule = "R13.9"
	fn := mustFunc(c, rule, wrapPkg, "wrapper", "Invoke")
	if fn == nil {
		return
	}
	fn = invokeClientHalf(fn, "SendMsg")
	cons := "(*pkg/wrap.wrapper).Invoke|io.EOF from sending is not the call's outcome"
	n := 0
	bad := ""
	var where token.Pos = fn.Pos()
	an.Instrs(fn, func(in ssa.Instruction) {
		call, ok := in.(*ssa.Call)
		if !ok || !call.Call.IsInvoke() || call.Call.Method.Name() != "SendMsg" {
			return
		}
		n++
		for _, r := range an.Returns(fn) {
			returnsIt := false
			for _, v := range an.ValuesAt(r.Results[0]) {
				if v == ssa.Value(call) {
					returnsIt = true
				}
			}
			if !returnsIt {
				continue
			}
			// guarded by `err != io.EOF` (or !errors.Is(err, io.EOF))
			notEOF := false
			for _, e := range an.GuardingEdges(r) {
				switch cond := e.If.Cond.(type) {
				case *ssa.BinOp:
					if cond.Op != token.NEQ && cond.Op != token.EQL {
						continue
					}
					for _, pair := range [][2]ssa.Value{{cond.X, cond.Y}, {cond.Y, cond.X}} {
						ld, isLoad := pair[1].(*ssa.UnOp)
						if !isLoad {
							continue
						}
						g, isG := ld.X.(*ssa.Global)
						if !isG || g.Pkg.Pkg.Path() != "io" || g.Name() != "EOF" {
							continue
						}
						same := false
						for _, s := range an.ValuesAt(pair[0]) {
							if s == ssa.Value(call) {
								same = true
							}
						}
						if same && e.Branch == (cond.Op == token.NEQ) {
							notEOF = true
						}
					}
				case *ssa.Call:
					if an.CalleeName(cond) == "errors.Is" && !e.Branch {
						if ld, isLoad := cond.Call.Args[1].(*ssa.UnOp); isLoad {
							if g, isG := ld.X.(*ssa.Global); isG && g.Pkg.Pkg.Path() == "io" && g.Name() == "EOF" {
								notEOF = true
							}
						}
					}
				}
			}
			if !notEOF {
				bad = "Invoke returns SendMsg's error as the outcome of the call even when it is io.EOF"
				where = r.Pos()
			}
		}
	})
	if n == 0 {
		c.Unk(rule, cons, fn.Pos(), "no SendMsg in Invoke")
		return
	}
	c.Check(bad == "", rule, cons, where, "", bad+": a unary call on an already cancelled (or expired) context returns io.EOF instead of the cancellation, and a status the server returned before reading the request is lost; grpc's own Invoke goes on to RecvMsg in that case")
}

// r1311: header and trailer metadata ACCUMULATE over the handler's calls: what SetHeader / SendHeader / SetTrailer
// keep is metadata.Join(<what was kept so far>, md) - values added to one key in several calls all reach the
// client, in order, as they do over a real connection.
func r1311(c *an.Ctx) {
	const rule = "R13.11"
	for _, t := range [][2]string{{"SetHeader", "header"}, {"SendHeader", "header"}, {"SetTrailer", "trailer"}} {
		fn := mustFunc(c, rule, wrapPkg, "serverStream", t[0])
		if fn == nil {
			continue
		}
		name := "(*pkg/wrap.serverStream)." + t[0]
		c.SawFunc(name)
		n := 0
		scan := append([]*ssa.Function{fn}, an.TransparentCalleesOf(fn, 2)...) // the store may sit in a shared helper
		for _, sf := range scan {
			an.Instrs(sf, func(in ssa.Instruction) {
				st, ok := in.(*ssa.Store)
				if !ok || !isStreamField(st.Addr, t[1]) {
					return
				}
				n++
				joined, replaces, swapped, dropped := false, false, false, false
				for _, v := range an.Sources(st.Val) { // through a helper the rules have not seen
					call, isCall := v.(*ssa.Call)
					if !isCall {
						continue
					}
					if an.CalleeName(call) == "google.golang.org/grpc/metadata.Join" {
						// variadic: the slice holds (current, md), in this order: Join appends the values of its arguments key by
						// key, so the values of an earlier call come before those of a later one, as on a real connection
						joined = true
						if el := variadicElems(call.Call.Args[0]); el != nil {
							curAt := -1
							for i, e := range el {
								for _, s0 := range an.Sources(e) {
									if u, isU := s0.(*ssa.UnOp); isU && isStreamField(u.X, t[1]) && curAt < 0 {
										curAt = i
									}
								}
							}
							switch {
							case curAt < 0:
								dropped = true // Join(md): what was kept so far is not among the operands
							case curAt != 0:
								swapped = true
							}
						}
					}
				}
				// a hand-written merge: MD.Set replaces what is there, append keeps it
				for _, h := range an.TransparentCalleesOf(fn, 2) {
					if len(an.CallsTo(h, "(google.golang.org/grpc/metadata.MD).Set")) > 0 {
						replaces = true
					}
				}
				if len(an.CallsTo(fn, "(google.golang.org/grpc/metadata.MD).Set")) > 0 {
					replaces = true
				}
				cons := name + "|metadata given in several calls accumulates"
				switch {
				case replaces:
					c.Bad(rule, cons, st.Pos(), "the "+t[1]+" metadata is merged with MD.Set, which replaces the values already kept for a key: when a handler adds to one key in more than one call only the last call's values reach the client (a real connection delivers all of them, in order)")
				case joined && dropped:
					c.Bad(rule, cons, st.Pos(), "the "+t[1]+" metadata is kept as metadata.Join(md) without what was kept so far: each call overwrites the previous one's metadata, so a handler that sets its "+t[1]+" in two steps delivers only the last part")
				case joined && swapped:
					c.Bad(rule, cons, st.Pos(), "the "+t[1]+" metadata is kept as metadata.Join(md, current): the values of a later call are put BEFORE those of the earlier ones, so a handler that adds to one key twice delivers [second first] where a real connection delivers [first second]")
				case joined:
					c.Ok(rule, cons, st.Pos(), "metadata.Join(current, md)")
				default:
					c.Unk(rule, cons, st.Pos(), "the "+t[1]+" metadata kept by "+t[0]+" is not metadata.Join(current, md): the merge is not recognised")
				}
			})
		}
		if n == 0 {
			c.Bad(rule, name+"|metadata given in several calls accumulates", fn.Pos(), t[0]+" does not keep the metadata it is given")
		}
	}
}

// r1312: a message crosses the boundary with everything it carries: the marshal/unmarshal path used when the two
// sides hold different Go types keeps fields the receiving type does not declare (as unknown fields), like the
// gRPC codec does.
func r1312(c *an.Ctx) {
	const rule = "R13.12"
	fn := mustFunc(c, rule, wrapPkg, "", "permissiveProtoMerge")
	if fn == nil {
		return
	}
	name := "pkg/wrap.permissiveProtoMerge"
	c.SawFunc(name)
	bad := ""
	var where token.Pos = fn.Pos()
	// every UnmarshalOptions value of the package: built in place, in a helper, or kept in a package variable
	// (initialised by the package initialiser)
	scope := c.Prog.FuncsIn(wrapPkg)
	if sp := c.Prog.SSAPackage(wrapPkg); sp != nil {
		if ini := sp.Func("init"); ini != nil {
			scope = append(scope, ini)
		}
	}
	for _, f := range scope {
		an.Instrs(f, func(in ssa.Instruction) {
			st, ok := in.(*ssa.Store)
			if !ok {
				return
			}
			_, sn, fld, isF := an.FieldOf(st.Addr)
			if !isF || !strings.HasSuffix(sn, "proto.UnmarshalOptions") {
				return
			}
			if b, isC := an.ConstBool(st.Val); fld == "DiscardUnknown" && (!isC || b) {
				bad, where = "the unmarshal options discard unknown fields", st.Pos()
			}
		})
	}
	c.Check(bad == "", rule, name+"|unknown fields survive the copy", where, "UnmarshalOptions leave DiscardUnknown off",
		bad+": fields the receiving message type does not declare are dropped at the boundary, so a forwarder that receives into a generic type and re-marshals loses the payload, and a server no longer sees fields sent by a newer client (over a real connection they are kept as unknown fields)")
}

// r1313: half-closing is idempotent. A real client stream accepts CloseSend any number of times; the wrapped one
// closes a channel, which Go allows once: the close of clientSend runs inside a sync.Once (or under a mutex behind a
// not-yet-closed test, like headerC).
func r1313(c *an.Ctx) {
	const rule = "R13.13"
	w := lockWorld(c)
	n := 0
	for _, fn := range c.Prog.FuncsIn(wrapPkg) {
		an.Instrs(fn, func(in ssa.Instruction) {
			call, ok := in.(*ssa.Call)
			if !ok || an.CalleeName(call) != "builtin close" {
				return
			}
			isClientSend := isStreamField(call.Call.Args[0], "clientSend")
			for _, s0 := range an.Sources(call.Call.Args[0]) {
				isClientSend = isClientSend || isStreamField(s0, "clientSend")
			}
			if !isClientSend {
				return
			}
			n++
			// inside a function handed to (*sync.Once).Do
			once := false
			top := fn
			for f := fn; f != nil; f = f.Parent() {
				top = f
				if f.Parent() == nil {
					break
				}
				an.Instrs(f.Parent(), func(x ssa.Instruction) {
					if cl, isCall := x.(*ssa.Call); isCall && an.CalleeName(cl) == "(*sync.Once).Do" && len(cl.Call.Args) == 2 {
						if an.ClosureFn(cl.Call.Args[1]) == f {
							once = true
						}
					}
				})
			}
			// or: under a mutex, behind a test that it has not happened yet
			guarded := false
			locked := false
			for _, m := range w.At(call) {
				if m >= an.WLock {
					locked = true
				}
			}
			if locked && len(an.GuardingEdges(call)) > 0 {
				guarded = true
			}
			c.SawFunc(an.FuncName(top))
			c.Check(once || guarded, rule, an.FuncName(top)+"|the send direction is closed at most once", call.Pos(), "close(clientSend) runs once",
				"close(clientSend) runs on every CloseSend: a second CloseSend panics (close of closed channel) where a real client stream returns nil")
		})
	}
	if n == 0 {
		c.Unk(rule, "pkg/wrap.clientStream|half-close", 0, "clientSend is never closed: the server never sees the end of the client's messages")
	}
}

// strPart is a piece of a string built by concatenation: literal text, or a value.
type strPart struct {
	text string
	val  ssa.Value
}

// stringParts splits a string value into the pieces it is concatenated from: the operands of +, the literal text and
// the %s/%v arguments of a constant Sprintf format, and the result of a module helper that builds the string from its
// parameters (which are replaced by the arguments of the call). Adjacent literals are merged.
func stringParts(v ssa.Value, bind map[*ssa.Parameter]ssa.Value, depth int) []strPart {
	var out []strPart
	add := func(ps ...strPart) {
		for _, p := range ps {
			if p.val == nil && len(out) > 0 && out[len(out)-1].val == nil {
				out[len(out)-1].text += p.text
				continue
			}
			if p.val == nil && p.text == "" {
				continue
			}
			out = append(out, p)
		}
	}
	if depth > 6 {
		return []strPart{{val: v}}
	}
	switch x := v.(type) {
	case *ssa.Const:
		if x.Value != nil && x.Value.Kind() == constant.String {
			add(strPart{text: constant.StringVal(x.Value)})
			return out
		}
	case *ssa.Parameter:
		if a, ok := bind[x]; ok {
			return stringParts(a, nil, depth+1)
		}
	case *ssa.BinOp:
		if x.Op == token.ADD {
			add(stringParts(x.X, bind, depth+1)...)
			add(stringParts(x.Y, bind, depth+1)...)
			return out
		}
	case *ssa.Call:
		if an.CalleeName(x) == "fmt.Sprintf" && len(x.Call.Args) == 2 {
			if f, ok := x.Call.Args[0].(*ssa.Const); ok && f.Value != nil && f.Value.Kind() == constant.String {
				args := variadicElems(x.Call.Args[1])
				format := constant.StringVal(f.Value)
				ai := 0
				okFmt := true
				for i := 0; i < len(format); i++ {
					if format[i] != '%' {
						add(strPart{text: string(format[i])})
						continue
					}
					if i+1 < len(format) && (format[i+1] == 's' || format[i+1] == 'v') && ai < len(args) {
						add(stringParts(args[ai], bind, depth+1)...)
						ai++
						i++
						continue
					}
					okFmt = false
					break
				}
				if okFmt && ai == len(args) {
					return out
				}
				out = nil
			}
		}
		if h := x.Call.StaticCallee(); h != nil && an.InModule(h) && len(h.Blocks) > 0 && h.Signature.Results().Len() == 1 {
			rets := an.Returns(h)
			if len(rets) == 1 {
				b := map[*ssa.Parameter]ssa.Value{}
				for i, p := range h.Params {
					if i < len(x.Call.Args) {
						b[p] = x.Call.Args[i]
					}
				}
				return stringParts(rets[0].Results[0], b, depth+1)
			}
		}
	case *ssa.MakeInterface:
		return stringParts(x.X, bind, depth+1)
	case *ssa.ChangeType:
		return stringParts(x.X, bind, depth+1)
	}
	if vals := an.ValuesAt(v); len(vals) == 1 && vals[0] != v {
		return stringParts(vals[0], bind, depth+1)
	}
	return []strPart{{val: v}}
}

// variadicElems lists the values stored into the slice literal passed as a variadic argument.
func variadicElems(v ssa.Value) []ssa.Value {
	sl, ok := v.(*ssa.Slice)
	if !ok {
		return nil
	}
	al, ok := sl.X.(*ssa.Alloc)
	if !ok {
		return nil
	}
	byIdx := map[int64]ssa.Value{}
	n := int64(-1)
	for _, u := range an.Referrers(al) {
		ia, ok := u.(*ssa.IndexAddr)
		if !ok {
			continue
		}
		idx, isC := ia.Index.(*ssa.Const)
		if !isC {
			return nil
		}
		for _, u2 := range an.Referrers(ia) {
			if st, ok := u2.(*ssa.Store); ok && st.Addr == ia {
				byIdx[idx.Int64()] = st.Val
				if idx.Int64() > n {
					n = idx.Int64()
				}
			}
		}
	}
	var out []ssa.Value
	for i := int64(0); i <= n; i++ {
		if byIdx[i] == nil {
			return nil
		}
		out = append(out, byIdx[i])
	}
	return out
}

func derivesFromField(v ssa.Value, field string) bool {
	for _, s0 := range an.Sources(v) {
		if _, _, f, ok := an.FieldOf(rootLoad(s0)); ok && f == field {
			return true
		}
	}
	return false
}

// r1314: the adapter that lets grpc.SetHeader / grpc.SendHeader / grpc.SetTrailer work inside a wrapped handler hands
// each call to the method of the same name of the server stream. Handing SetHeader to SendHeader flushes the header
// on the first grpc.SetHeader of a unary handler, so a second one fails with "headers already sent" where a real
// connection merges both.
func r1314(c *an.Ctx) {
	const rule = "R13.14"
	for _, m := range []string{"SetHeader", "SendHeader", "SetTrailer"} {
		fn := mustFunc(c, rule, wrapPkg, "serverTransportStream", m)
		if fn == nil {
			continue
		}
		var called []string
		for _, f := range append([]*ssa.Function{fn}, an.TransparentCalleesOf(fn, 1)...) {
			an.Instrs(f, func(in ssa.Instruction) {
				call, ok := in.(ssa.CallInstruction)
				if !ok || !call.Common().IsInvoke() {
					return
				}
				if an.NamedTypeName(call.Common().Value.Type()) == "google.golang.org/grpc.ServerStream" {
					called = append(called, call.Common().Method.Name())
				}
			})
		}
		ok := len(called) > 0
		for _, n := range called {
			if n != m {
				ok = false
			}
		}
		c.Check(ok, rule, "(*pkg/wrap.serverTransportStream)."+m+"|delegates to the stream's "+m, fn.Pos(), "calls ss."+m,
			fmt.Sprintf("serverTransportStream.%s calls %v on the server stream instead of %s: grpc.%s inside a wrapped handler behaves like a different operation (SetHeader handed to SendHeader sends the header at once, a second SetHeader then fails; a real connection merges them)", m, called, m, m))
	}
}

// r1315: how a receive that is abandoned because the call's context ended reports it. clientStream.RecvMsg returns the
// stream's own outcome (closeErr, io.EOF when the handler returned nil) only where it has seen serverSend closed;
// otherwise - the handler is still running, the client cancelled - it returns the context's error. Returning the close
// outcome there turns a cancellation into a clean end of stream (io.EOF).
func r1315(c *an.Ctx) {
	const rule = "R13.15"
	fn := mustFunc(c, rule, wrapPkg, "clientStream", "RecvMsg")
	if fn == nil {
		return
	}
	name := "(*pkg/wrap.clientStream).RecvMsg"
	n, ok := 0, true
	var where ssa.Instruction
	sawCtxErr := false
	// (the branch may have been moved into a helper of the stream: each function is read where its returns are written)
	var rets []*ssa.Return
	for _, f := range append([]*ssa.Function{fn}, an.TransparentCalleesOf(fn, 2)...) {
		rets = append(rets, an.Returns(f)...)
	}
	for _, r := range rets {
		if len(r.Results) == 0 {
			continue
		}
		for _, v := range localValues(r.Results[len(r.Results)-1], 0) {
			call, isCall := v.(*ssa.Call)
			if !isCall {
				continue
			}
			if call.Call.IsInvoke() && call.Call.Method.Name() == "Err" && an.NamedTypeName(call.Call.Value.Type()) == "context.Context" {
				sawCtxErr = true
				continue
			}
			if !strings.HasSuffix(an.CalleeName(call), "ClientServerStream).closeErrLocked") {
				continue
			}
			n++
			// behind "the receive reported the channel closed"
			closed := false
			for _, e := range an.GuardingEdges(r) {
				cond, pol := e.If.Cond, e.Branch
				if u, isU := cond.(*ssa.UnOp); isU && u.Op == token.NOT {
					cond, pol = u.X, !pol
				}
				ex, isEx := cond.(*ssa.Extract)
				if !isEx || pol {
					continue
				}
				switch t := ex.Tuple.(type) {
				case *ssa.Select:
					if ex.Index >= 1 {
						closed = true
					}
				case *ssa.UnOp:
					if t.Op == token.ARROW && t.CommaOk && ex.Index == 1 {
						closed = true
					}
				}
			}
			if !closed {
				ok, where = false, r
			}
		}
	}
	pos := fn.Pos()
	if where != nil {
		pos = where.Pos()
	}
	c.Check(ok && n > 0 && sawCtxErr, rule, name+"|the close outcome is reported only once the stream was seen closed", pos, fmt.Sprintf("%d return(s) of the close outcome, each behind a receive that reported the channel closed; the context's error otherwise", n),
		"RecvMsg returns the stream's close outcome on a path where it has not seen serverSend closed (or never returns the context's error): a client that cancels while the handler is still running is told io.EOF - a clean end of stream - where a real connection reports the cancellation")
}

// r1316: what crosses the boundary is a copy made BEFORE Send returns. A real connection serialises the message
// inside Send; the sender may reuse its message object as soon as the call is back. The in-process stream hands a
// pointer over a channel and the receiver merges from it after the hand-over - with the sender's own object on
// the channel the receiver reads it while the sender is already writing the next value (a data race, and the
// receiver can see a value written after Send returned). In both SendMsg methods the value put on the channel
// derives from a proto.Clone.
func r1316as(c *an.Ctx, rule string) {
	n := 0
	for _, fn := range c.Prog.FuncsIn("pkg/wrap") {
		if fn.Name() != "SendMsg" || fn.Parent() != nil || fn.Signature.Recv() == nil || fn.Synthetic != "" || len(fn.Params) < 2 {
			continue
		}
		name := an.FuncName(fn)
		c.SawFunc(name)
		sends := an.Sends(fn)
		if len(sends) == 0 {
			c.Unk(rule, name+"|the message is copied before it is handed over", fn.Pos(), "no channel send found in SendMsg")
			continue
		}
		for i, s := range sends {
			n++
			cloned := false
			for _, v := range an.Sources(s.Val) {
				if call, ok := v.(*ssa.Call); ok && strings.HasSuffix(an.CalleeName(call), "protobuf/proto.Clone") {
					cloned = true
				}
			}
			c.Check(cloned, rule, fmt.Sprintf("%s|send #%d hands over a copy of the message", name, i+1), s.Instr.Pos(), "the value sent derives from proto.Clone",
				"the sender's own message object is put on the channel: the other side merges from it after SendMsg has returned, while the sender may already be changing it for its next Send (data race; the receiver can observe a value written after the send)")
		}
	}
	c.Count("sendmsg_sends", n)
}

// r1319: the two sides of the in-process stream must hold the SAME generated type for proto.Merge to be applicable:
// it panics on messages whose descriptors are different objects, even when they have the same name (a dynamicpb
// message built from a separately loaded descriptor). The fast path of permissiveProtoMerge is taken under an
// identity comparison of the two Descriptor() values; anything weaker (comparing FullName()) turns a reply the
// marshal/unmarshal path would have delivered into a panic.
func r1319(c *an.Ctx, rule string) {
	fn := mustFunc(c, rule, wrapPkg, "", "permissiveProtoMerge")
	if fn == nil {
		return
	}
	name := "pkg/wrap.permissiveProtoMerge"
	n := 0
	for _, f := range append([]*ssa.Function{fn}, an.TransparentCalleesOf(fn, 1)...) {
		for _, ci := range an.CallsTo(f, "google.golang.org/protobuf/proto.Merge") {
			call, ok := ci.(*ssa.Call)
			if !ok {
				continue
			}
			n++
			identity := false
			for _, e := range an.GuardingEdges(call) {
				bo, isBo := e.If.Cond.(*ssa.BinOp)
				if !isBo || !((bo.Op == token.EQL && e.Branch) || (bo.Op == token.NEQ && !e.Branch)) {
					continue
				}
				isDesc := func(v ssa.Value) bool {
					for _, s := range an.Sources(v) {
						if cl, isCall := s.(*ssa.Call); isCall && cl.Call.IsInvoke() && cl.Call.Method.Name() == "Descriptor" {
							return true
						}
					}
					return false
				}
				if isDesc(bo.X) && isDesc(bo.Y) {
					identity = true
				}
			}
			c.Check(identity, rule, fmt.Sprintf("%s|proto.Merge #%d only between messages of one and the same descriptor", name, n), call.Pos(), "guarded by dst.Descriptor() == src.Descriptor()",
				"proto.Merge is reached without an identity test of the two message descriptors: for two messages of the same name but separately loaded descriptors it panics (descriptor mismatch) where the marshal/unmarshal path delivers the message")
		}
	}
	if n == 0 {
		c.Ok(rule, name+"|no proto.Merge fast path", fn.Pos(), "every message crosses by marshal/unmarshal")
	}
}

// r1320: a Send on a call that has ended reports how it ended. Both SendMsg methods answer their context's Done with
// closeErrLocked() - io.EOF after a clean end (the gRPC contract: the status is then read with RecvMsg), the close
// error otherwise. The bare context error (context.Canceled: the stream's own context is cancelled by Close) is not
// what a real connection reports for a call the server ended.
func r1320(c *an.Ctx, rule string) {
	n := 0
	for _, fn := range c.Prog.FuncsIn("pkg/wrap") {
		if fn.Name() != "SendMsg" || fn.Parent() != nil || fn.Signature.Recv() == nil || fn.Synthetic != "" {
			continue
		}
		name := an.FuncName(fn)
		for _, r := range an.Returns(fn) {
			if len(r.Results) != 1 || provablyNilAt(r.Results[0], r) {
				continue
			}
			// only the answers given because the call's context has ended (the select's Done case); an error the method
			// raises for another reason (a send after CloseSend) is its own
			onDone := false
			for _, e := range an.GuardingEdges(r) {
				bo, ok := e.If.Cond.(*ssa.BinOp)
				if !ok || !e.Branch {
					continue
				}
				ex, ok := bo.X.(*ssa.Extract)
				if !ok || ex.Index != 0 {
					continue
				}
				sel, ok := ex.Tuple.(*ssa.Select)
				if !ok {
					continue
				}
				if idx, isC := an.ConstInt(bo.Y); isC && int(idx) < len(sel.States) {
					if st := sel.States[idx]; st.Dir == types.RecvOnly {
						if _, isDone := an.CtxDone(st.Chan); isDone {
							onDone = true
						}
					}
				}
			}
			if !onDone {
				continue
			}
			n++
			viaClose := false
			for _, v := range an.ValuesAt(r.Results[0]) {
				if call, ok := v.(*ssa.Call); ok && strings.HasSuffix(an.CalleeName(call), "closeErrLocked") {
					viaClose = true
				}
			}
			c.SawFunc(name)
			c.Check(viaClose, rule, fmt.Sprintf("%s|an ended call answers Send with its close outcome", name), r.Pos(), "returns closeErrLocked()",
				"SendMsg answers an ended call with something other than the stream's close outcome (the bare context error): after the server ended the call cleanly the client's next Send returns context.Canceled instead of io.EOF")
		}
	}
	c.Count("sendmsg_error_returns", n)
}

// r1321: a Send after the client has half-closed is answered with an error, as on a real connection (Internal:
// "SendMsg called after CloseSend"), not with a panic. CloseSend closes clientSend; a send on a closed channel
// panics, so every send on clientSend in clientStream.SendMsg lies behind a test of a flag that CloseSend sets
// before it closes the channel.
func r1321(c *an.Ctx, rule string) {
	fieldOfRecv := func(v ssa.Value) string {
		for _, s := range an.Sources(v) {
			if fa, ok := s.(*ssa.FieldAddr); ok {
				if _, _, f, isF := an.FieldOf(fa); isF {
					return f
				}
			}
		}
		if fa, ok := v.(*ssa.FieldAddr); ok {
			if _, _, f, isF := an.FieldOf(fa); isF {
				return f
			}
		}
		return ""
	}
	// flags set in the function that closes clientSend, before the close
	flags := map[string]bool{}
	for _, fn := range c.Prog.FuncsIn(wrapPkg) {
		var closeCall *ssa.Call
		an.Instrs(fn, func(in ssa.Instruction) {
			if call, ok := in.(*ssa.Call); ok && an.CalleeName(call) == "builtin close" && isStreamField(sourceField(call.Call.Args[0]), "clientSend") {
				closeCall = call
			}
		})
		if closeCall == nil {
			continue
		}
		an.Instrs(fn, func(in ssa.Instruction) {
			switch x := in.(type) {
			case *ssa.Call:
				if strings.HasSuffix(an.CalleeName(x), ").Store") && strings.Contains(an.CalleeName(x), "sync/atomic.") && an.Dominates(x, closeCall) {
					if f := fieldOfRecv(x.Call.Args[0]); f != "" {
						flags[f] = true
					}
				}
			case *ssa.Store:
				if fa, ok := x.Addr.(*ssa.FieldAddr); ok && an.Dominates(x, closeCall) {
					if _, _, f, isF := an.FieldOf(fa); isF {
						flags[f] = true
					}
				}
			}
		})
	}
	fn := mustFunc(c, rule, wrapPkg, "clientStream", "SendMsg")
	if fn == nil {
		return
	}
	name := an.FuncName(fn)
	c.SawFunc(name)
	n := 0
	for _, s := range an.Sends(fn) {
		if !isStreamField(sourceField(s.Chan), "clientSend") {
			continue
		}
		n++
		guarded := false
		for _, e := range an.GuardingEdges(s.Instr) {
			for _, v := range an.Sources(e.If.Cond) {
				switch x := v.(type) {
				case *ssa.Call:
					if strings.HasSuffix(an.CalleeName(x), ").Load") && strings.Contains(an.CalleeName(x), "sync/atomic.") && flags[fieldOfRecv(x.Call.Args[0])] {
						guarded = true
					}
				case *ssa.UnOp:
					if fa, ok := x.X.(*ssa.FieldAddr); ok {
						if _, _, f, isF := an.FieldOf(fa); isF && flags[f] {
							guarded = true
						}
					}
				}
			}
		}
		c.Check(guarded, rule, fmt.Sprintf("%s|send #%d on clientSend lies behind a test of the half-closed flag", name, n), s.Instr.Pos(), "guarded by a flag CloseSend sets before closing the channel",
			"clientSend is sent on without asking whether CloseSend has closed it: a Send after the client's half-close panics (send on closed channel) where a real connection answers with an Internal status")
	}
	if n == 0 {
		c.Unk(rule, name+"|send on clientSend", fn.Pos(), "no send on clientSend found")
	}
}
