package props

import (
	"fmt"
	"go/token"
	"go/types"
	"sort"
	"strings"

	"golang.org/x/tools/go/ssa"

	"scverif/an"
)

func init() {
	register(&Prop{
		ID:          "C07",
		Title:       "Messages are isolated: no aliasing between callers and stored state",
		Explanation: "R07.1 published messages are never written: a taint analysis over SSA marks as published every load of Value.value / item.body, every result of Value.Get/Set and Collection.Get/List/Add/Update/Delete, the Value/OldValue/NewValue of change events, and the `old` argument of every interceptor / expected-check / change function, propagates through field and element loads, slices, type assertions, local variables and module callees (summarised bottom-up), treats proto.Clone and allocations as fresh, and reports stores, map updates, copy-into, append onto a sub-slice, sort and known mutator calls (proto.Merge dst, proto.Reset, fmutils.*, ResponseFilter.Filter, reflection Set/Clear) that reach a published message or a fresh container of published messages. Scope: pkg/resource, pkg/masks, internal/minibus and every hand-written package under pkg/trait. R07.8 no reference crosses the API boundary of a trait model: an exported method neither keeps the caller's message (or a part of it) in the model's state nor stores a reference to the model's state inside the caller's message. R07.2 the message saved by a write is built on proto.Clone(old) (GetAndUpdate) and the caller's message only enters as the source of the masked merge. R07.3 stored items are replaced, never modified (shared with R02.6). R07.9 an InterceptBefore callback whose written message was given to the enclosing method assigns no reference read out of the stored value (optional scalar pointer, sub-message, list) to a field of that message. R07.10 a model's write method returns the message the resource returned, not its own argument (shared with R14.4). Does NOT decide isolation through reflection-based user code or third-party calls missing from the summary table; initial values are stored without copying (constructor input).",
		Assumptions: []string{"proto.Clone returns a deep copy; proto.Merge(dst, src) deep-copies from src and writes only dst; fmutils.Filter/Prune and proto.Reset write only their message argument"},
		Run:         runC07,
		Controls: []Control{
			{Name: "interceptor-copies-the-stored-total", Silent: true, File: "pkg/trait/enterleavesensorpb/model.go", Old: "\t\t\tif inc {\n\t\t\t\tcv++\n\t\t\t}\n\t\t\treturn &cv", New: "\t\t\tif !inc && cur != nil {\n\t\t\t\tkeep := *cur\n\t\t\t\treturn &keep\n\t\t\t}\n\t\t\tif inc {\n\t\t\t\tcv++\n\t\t\t}\n\t\t\treturn &cv"},
			{Name: "interceptor-hands-the-stored-total-to-the-writer", File: "pkg/trait/enterleavesensorpb/model.go", Old: "\t\t\tif inc {\n\t\t\t\tcv++\n\t\t\t}\n\t\t\treturn &cv", New: "\t\t\tif !inc && cur != nil {\n\t\t\t\treturn cur\n\t\t\t}\n\t\t\tif inc {\n\t\t\t\tcv++\n\t\t\t}\n\t\t\treturn &cv", Expect: "R07.9"},
			{Name: "create-booking-returns-the-callers-message", File: "pkg/trait/bookingpb/model.go", Old: "\treturn msg.(*traits.Booking), err\n}\n\nfunc (m *Model) UpdateBooking", New: "\treturn booking, err\n}\n\nfunc (m *Model) UpdateBooking", Expect: "R07.10"},
			{Name: "first-write-uses-the-callers-message-via-reflection", File: "pkg/resource/opt.go", Old: "\t\t\tdst = value.ProtoReflect().New().Interface()\n", New: "\t\t\tdst = value.ProtoReflect().Interface()\n", Expect: "R07.2"},
			{Name: "first-write-stores-the-callers-message", File: "pkg/resource/opt.go", Old: "\t\t\tdst = value.ProtoReflect().New().Interface()\n", New: "\t\t\tdst = value\n", Expect: "R07.2"},
			{Name: "revert-F56-waste-keeps-callers-record", File: "pkg/trait/wastepb/model.go", Old: "append(m.allWasteRecords, proto.Clone(wr).(*traits.WasteRecord))", New: "append(m.allWasteRecords, proto.Message(wr).(*traits.WasteRecord))", Expect: "R07.8"},
			{Name: "revert-F57-light-preset-into-request", File: "pkg/trait/lightpb/model.go", Old: "b.Preset = proto.Clone(p.LightPreset).(*traits.LightPreset)", New: "b.Preset = proto.Message(p.LightPreset).(*traits.LightPreset)", Expect: "R07.8"},
			{Name: "revert-F58-openclose-preset-into-request", File: "pkg/trait/openclosepb/model.go", Old: "\t\t\tpositions.States[i] = proto.Clone(position).(*traits.OpenClosePosition)\n", New: "\t\t\tpositions.States[i] = position\n", Expect: "R07.8"},
			{Name: "waste-keeps-stored-result", Silent: true, File: "pkg/trait/wastepb/model.go", Old: "append(m.allWasteRecords, proto.Clone(wr).(*traits.WasteRecord))", New: "append(m.allWasteRecords, proto.Clone(v).(*traits.WasteRecord))"},
			{Name: "mode-relative-adjusts-old-map", File: "pkg/trait/modepb/model_server.go", Old: "\t\tif newVal.Values == nil {\n\t\t\tnewVal.Values = make(map[string]string)\n\t\t}\n", New: "\t\tif newVal.Values == nil {\n\t\t\tnewVal.Values = oldVal.Values\n\t\t}\n\t\tif newVal.Values == nil {\n\t\t\tnewVal.Values = make(map[string]string)\n\t\t}\n", Expect: "relativeAdjustment"},
			{Name: "revert-F43-merge-filters-src-in-place", File: "pkg/masks/update.go", Old: "\tsrc = proto.Clone(src)\n", New: "", Expect: "R07.7"},
			{Name: "gau-passes-old-as-dst", File: "pkg/resource/atomic.go", Old: "\tnewValue = proto.Clone(oldValue)\n", New: "\tnewValue = oldValue\n", Expect: "R07.2"},
			{Name: "filterclone-filters-original", File: "pkg/masks/get.go", Old: "\tfmutils.Filter(clone, paths)\n\treturn clone", New: "\tfmutils.Filter(msg, paths)\n\treturn msg", Expect: "R07.1"},
			{Name: "interceptor-writes-old", File: "pkg/trait/enterleavesensorpb/model.go", Old: "\t\tvalueVal.EnterTotal = adjustTotal(valueVal.EnterTotal, currentVal.EnterTotal, valueVal.Direction == traits.EnterLeaveEvent_ENTER)", New: "\t\tcurrentVal.EnterTotal = adjustTotal(valueVal.EnterTotal, currentVal.EnterTotal, valueVal.Direction == traits.EnterLeaveEvent_ENTER)\n\t\tvalueVal.EnterTotal = currentVal.EnterTotal", Expect: "R07.1"},
			{Name: "pull-sorts-delivered-list", File: "pkg/trait/parentpb/model.go", Old: "\tmsgs := m.children.List()\n", New: "\tmsgs := m.children.List()\n\tif len(msgs) > 0 {\n\t\tmsgs[0].(*traits.Child).Traits = nil\n\t}\n", Expect: "R07.1"},
			{Name: "revert-F7a-union-in-place", File: "pkg/trait/parentpb/model.go", Old: "\thas = append(make([]*traits.Trait, 0, len(has)+len(more)), has...)\n", New: "", Expect: "traitUnion"},
			{Name: "revert-F7b-remove-in-place", File: "pkg/trait/parentpb/model.go", Old: "\thas = append(make([]*traits.Trait, 0, len(has)), has...)\n", New: "", Expect: "traitRemove"},
			{Name: "revert-F7c-metadata-merge-into-old", File: "pkg/trait/metadatapb/model.go", Old: "\tnewVal.Traits = make([]*traits.TraitMetadata, len(oldVal.Traits))\n\tfor i, trait := range oldVal.Traits {\n\t\tnewVal.Traits[i] = proto.Clone(trait).(*traits.TraitMetadata)\n\t}\n", New: "\tnewVal.Traits = oldVal.Traits\n", Expect: "metadataMergeInterceptor"},
			{Name: "revert-F7d-enterleave-edits-seed", File: "pkg/trait/enterleavesensorpb/model.go", Old: "\t\t\t\tval = proto.Clone(val).(*traits.EnterLeaveEvent)\n", New: "", Expect: "PullEnterLeaveEvents"},
			{Name: "revert-F6-openclose-filter-in-place", File: "pkg/trait/openclosepb/model.go", Old: "positions = responseFilter.FilterClone(positions).(*traits.OpenClosePositions)", New: "responseFilter.Filter(positions)", Expect: "PullPositions"},
			{Name: "clone-twice", Silent: true, File: "pkg/resource/atomic.go", Old: "\tnewValue = proto.Clone(oldValue)\n", New: "\tnewValue = proto.Clone(proto.Clone(oldValue))\n"},
		},
	})
}

// per-program cache of the mutation world
var mutWorlds = map[*an.Program]*an.MutWorld{}

func isResType(v ssa.Value, name string) bool {
	return strings.HasSuffix(an.NamedTypeName(v.Type()), "/pkg/resource."+name)
}

// publishedWorld builds the E2 configuration for "published message" mode.
func publishedWorld(c *an.Ctx) *an.MutWorld {
	if w, ok := mutWorlds[c.Prog]; ok {
		return w
	}
	for k := range mutWorlds {
		delete(mutWorlds, k)
	}
	w := an.NewMutWorld(c.Prog)
	res := an.ModulePath + "/pkg/resource."
	publishedField := func(structName, field string) bool {
		switch {
		case strings.HasSuffix(structName, "/pkg/resource.Value") && field == "value":
			return true
		case strings.HasSuffix(structName, "/pkg/resource.item") && field == "body":
			return true
		case strings.HasSuffix(structName, "/pkg/resource.idItem") && field == "body":
			return true
		case strings.HasSuffix(structName, "/pkg/resource.ValueChange") && field == "Value":
			return true
		case strings.HasSuffix(structName, "/pkg/resource.CollectionChange") && (field == "OldValue" || field == "NewValue"):
			return true
		}
		return false
	}
	sourceCalls := map[string]bool{
		"(*" + res + "Value).Get": true, "(*" + res + "Value).Set": true, "(*" + res + "Value).set": true, "(*" + res + "Value).get": true,
		"(*" + res + "Collection).Get": true, "(*" + res + "Collection).List": true, "(*" + res + "Collection).Add": true,
		"(*" + res + "Collection).Update": true, "(*" + res + "Collection).Delete": true,
	}
	w.Source = func(v ssa.Value) bool {
		switch x := v.(type) {
		case *ssa.UnOp:
			if x.Op != token.MUL {
				return false
			}
			if fa, ok := x.X.(*ssa.FieldAddr); ok {
				_, sn, f, _ := an.FieldOf(fa)
				return publishedField(sn, f)
			}
		case *ssa.Field:
			_, sn, f, _ := an.FieldOf(x)
			if publishedField(sn, f) {
				return true
			}
			// embedded item inside idItem: e.item.body
			return false
		case *ssa.Call:
			return sourceCalls[an.CalleeName(x)]
		case *ssa.TypeAssert:
			// an event taken off the bus is shared by every subscriber
			if isResType(x, "CollectionChange") || isResType(x, "ValueChange") {
				if isPointer(x.AssertedType) {
					return true
				}
			}
		}
		return false
	}
	// parameters: `old` of interceptors, expected checks and change functions
	oldParamOf := map[string]int{
		res + "InterceptBefore": 0, res + "InterceptAfter": 0, res + "WithExpectedCheck": 0,
	}
	for fn := range c.Prog.AllFuncs {
		an.Instrs(fn, func(in ssa.Instruction) {
			call, ok := in.(ssa.CallInstruction)
			if !ok {
				return
			}
			n := an.CalleeName(call)
			if _, ok := oldParamOf[n]; ok && len(call.Common().Args) == 1 {
				var f *ssa.Function
				switch x := call.Common().Args[0].(type) {
				case *ssa.MakeClosure:
					f = x.Fn.(*ssa.Function)
				case *ssa.Function:
					f = x
				case *ssa.ChangeType:
					if mc, ok := x.X.(*ssa.MakeClosure); ok {
						f = mc.Fn.(*ssa.Function)
					} else if ff, ok := x.X.(*ssa.Function); ok {
						f = ff
					}
				}
				if f != nil && len(f.Params) > 0 {
					w.ParamSource[f.Params[0]] = true
				}
			}
		})
	}
	// an interceptor built elsewhere and handed over as a value (InterceptBefore(m.relativeAdjustment(…))): every function
	// converted to the interceptor type receives the stored message as its first argument
	for fn := range c.Prog.AllFuncs {
		an.Instrs(fn, func(in ssa.Instruction) {
			ct, ok := in.(*ssa.ChangeType)
			if !ok || an.NamedTypeName(ct.Type()) != res+"UpdateInterceptor" {
				return
			}
			var f *ssa.Function
			switch x := ct.X.(type) {
			case *ssa.MakeClosure:
				f = x.Fn.(*ssa.Function)
			case *ssa.Function:
				f = x
			}
			if f != nil && len(f.Params) > 0 && len(f.Blocks) > 0 {
				w.ParamSource[f.Params[0]] = true
			}
		})
	}
	// receivers of the change helpers (include / filter) are events shared by every subscriber
	for _, tn := range []string{"CollectionChange", "ValueChange"} {
		for _, mn := range []string{"include", "filter"} {
			if m := c.Prog.Func(resPkg, tn, mn); m != nil && len(m.Params) > 0 {
				w.ParamSource[m.Params[0]] = true
			}
		}
	}
	// ChangeFn literals: the closure returned by WriteRequest.changeFn
	if cf := c.Prog.Func(resPkg, "WriteRequest", "changeFn"); cf != nil {
		for _, a := range cf.AnonFuncs {
			if len(a.Params) > 0 {
				w.ParamSource[a.Params[0]] = true
			}
		}
	}
	// GetAndUpdate's oldValue is published (result of get)
	mutWorlds[c.Prog] = w
	return w
}

// e2Scope lists the functions E2 is run over.
func e2Scope(c *an.Ctx) []*ssa.Function {
	var out []*ssa.Function
	for fn := range c.Prog.AllFuncs {
		if c.Prog.IsGenerated(fn.Pos()) {
			continue
		}
		pk := fn.Package()
		if pk == nil {
			continue
		}
		rel := an.ModRel(pk.Pkg.Path())
		if rel == "pkg/resource" || rel == "pkg/masks" || rel == "internal/minibus" || strings.HasPrefix(rel, "pkg/trait/") || rel == "pkg/trait" {
			out = append(out, fn)
		}
	}
	an.SortFuncs(out)
	return out
}

// runE2 evaluates R07.1-style obligations: one per function that handles
// published values, one violation per distinct (function, kind, target).
func runE2(c *an.Ctx, rule string, keep func(fn *ssa.Function) bool) {
	w := publishedWorld(c)
	nFuncs, nTouch := 0, 0
	for _, fn := range e2Scope(c) {
		if keep != nil && !keep(fn) {
			continue
		}
		nFuncs++
		findings, taint := w.Analyse(fn)
		touches := false
		for _, t := range taint {
			if t != 0 {
				touches = true
				break
			}
		}
		if !touches {
			continue
		}
		nTouch++
		c.SawFunc(an.FuncName(fn))
		if len(findings) == 0 {
			o := fmt.Sprintf("%s|never writes the published messages it handles", an.FuncName(fn))
			c.Ok(rule, o, fn.Pos(), "")
			continue
		}
		seen := map[string]bool{}
		for _, f := range findings {
			key := fmt.Sprintf("%s|%s %s", an.FuncName(fn), f.Kind, f.What)
			if seen[key] {
				continue
			}
			seen[key] = true
			c.Bad(rule, key, f.Instr.Pos(), "a published message (stored value, earlier read result, change event value or an interceptor's `old`) is written in place: "+f.Kind+" "+f.What+
				"; snapshots handed out earlier change, read-only calls alter stored state and lock-free readers race with this write")
		}
	}
	c.Count("e2_functions_in_scope", nFuncs)
	c.Count("e2_functions_handling_published", nTouch)
}

func runC07(c *an.Ctx) {
	runE2(c, "R07.1", nil)
	r072(c)
	r026(c, "R07.3")
	r074(c)
	c.Min("R07.4", 3)
	r076(c)
	r061as(c, "R07.5") // the projection used by every read never writes (or shares parts of) the message it is given
	c.Min("R07.1", 60)
	c.Min("R07.2", 4)
	c.Min("R07.3", 2)
	r077(c)
	r078(c)
	c.Min("R07.8", 20)
	c.Min("R07.7", 1)
	r079(c, "R07.9")
	c.Min("R07.9", 8)
	// what a write hands back is the library's message, not the caller's own: a model method that returns its argument
	// gives the caller "the stored value" in memory the caller (and whoever it passed the message to) keeps writing
	c.Min("R07.10", shareAs(c, "R14.4", "R07.10", r144models, func(k string) bool { return strings.Contains(k, "returns the value the write stored") }))
}

// r079: what an InterceptBefore callback puts into the message being written is not a part of the stored one. The
// callback's second parameter is the writer's own message (it is merged into a copy afterwards), its first the
// stored value. A reference read out of the stored value - an optional scalar's pointer, a sub-message, a list -
// assigned to a field of the writer's message makes the two share memory: the writer, who still owns its message,
// edits it after the call and the stored value and every snapshot read earlier change with it. Values are copied
// (`*p`, proto.Clone) across, never references.
func r079(c *an.Ctx, rule string) {
	w := publishedWorld(c)
	n := 0
	seenFn := map[*ssa.Function]bool{}
	for _, fn := range c.Prog.FuncsIn("pkg") {
		if strings.HasSuffix(c.Prog.RelFile(fn.Pos()), "_test.go") {
			continue
		}
		an.Instrs(fn, func(in ssa.Instruction) {
			call, ok := in.(ssa.CallInstruction)
			if !ok || !strings.HasSuffix(an.CalleeName(call), "/pkg/resource.InterceptBefore") || len(call.Common().Args) != 1 {
				return
			}
			var f *ssa.Function
			switch x := call.Common().Args[0].(type) {
			case *ssa.MakeClosure:
				f = x.Fn.(*ssa.Function)
			case *ssa.Function:
				f = x
			case *ssa.ChangeType:
				if mc, ok := x.X.(*ssa.MakeClosure); ok {
					f = mc.Fn.(*ssa.Function)
				} else if ff, ok := x.X.(*ssa.Function); ok {
					f = ff
				}
			}
			if f == nil || len(f.Params) != 2 || seenFn[f] {
				return
			}
			seenFn[f] = true
			n++
			// whose message is being written: one the enclosing function was given (its caller still holds it), or
			// one it builds itself for this write (nobody else can reach it: sharing into it is invisible)
			given := false
			an.Instrs(fn, func(in3 ssa.Instruction) {
				wc, isC := in3.(*ssa.Call)
				if !isC {
					return
				}
				for _, a := range wc.Call.Args {
					if !an.IsProtoMessageType(a.Type()) {
						continue
					}
					for _, s0 := range an.Sources(a) {
						if _, isP := s0.(*ssa.Parameter); isP {
							given = true
						}
						if u, isU := s0.(*ssa.UnOp); isU && u.Op == token.MUL {
							if base, _, _, isF := an.FieldOf(u.X); isF {
								for _, b0 := range an.Sources(base) {
									if _, isP := b0.(*ssa.Parameter); isP {
										given = true
									}
								}
							}
						}
					}
				}
			})
			if !given {
				c.SawFunc(an.FuncName(f))
				c.Ok(rule, an.FuncName(f)+"|puts copies, not parts of the stored value, into the writer's message", f.Pos(), "the written message is built by the method itself")
				return
			}
			_, taint := w.Analyse(f)
			var bad *ssa.Store
			an.Instrs(f, func(in2 ssa.Instruction) {
				st, isSt := in2.(*ssa.Store)
				if !isSt || taint[st.Val]&an.TSelf == 0 {
					return
				}
				switch st.Val.Type().Underlying().(type) {
				case *types.Pointer, *types.Slice, *types.Map:
				default:
					return
				}
				// the address lies inside the writer's message
				root := st.Addr
				for depth := 0; depth < 12; depth++ {
					if fa, isFA := root.(*ssa.FieldAddr); isFA {
						root = fa.X
					} else if ia, isIA := root.(*ssa.IndexAddr); isIA {
						root = ia.X
					} else {
						break
					}
				}
				if root == st.Addr {
					return // a local variable
				}
				for _, s0 := range an.Sources(root) {
					if s0 == ssa.Value(f.Params[1]) {
						bad = st
					}
				}
			})
			c.SawFunc(an.FuncName(f))
			pos := f.Pos()
			if bad != nil {
				pos = bad.Pos()
			}
			c.Check(bad == nil, rule, an.FuncName(f)+"|puts copies, not parts of the stored value, into the writer's message", pos, "",
				"the callback assigns a reference read out of the stored value to a field of the message being written: the writer's message and the stored value share that memory, so the writer editing its own message afterwards changes stored state and earlier snapshots")
		})
	}
	c.Count("intercept_before_callbacks", n)
}

// r072: the caller's message enters only by copy.
func r072(c *an.Ctx) { r072as(c, "R07.2") }

func r072as(c *an.Ctx, rule string) {
	if fn := mustFunc(c, rule, resPkg, "", "GetAndUpdate"); fn != nil {
		q := an.ModulePath + "/pkg/resource."
		get, change := paramOfType(fn, q+"GetFn"), paramOfType(fn, q+"ChangeFn")
		if get != nil && change != nil {
			gets := deepCallsOfParam(fn, get)
			for i, ch := range deepCallsOfParam(fn, change) {
				var cloneOfGet func(v ssa.Value, chain []*ssa.Call, depth int) bool
				cloneOfGet = func(v ssa.Value, chain []*ssa.Call, depth int) bool {
					if depth > 4 {
						return false
					}
					vals := deepLeaves(v, chain, 0)
					if len(vals) == 0 {
						return false
					}
					for _, x := range vals {
						cl, isCall := x.v.(*ssa.Call)
						if !isCall || an.CalleeName(cl) != "google.golang.org/protobuf/proto.Clone" {
							return false
						}
						direct := false
						for _, g := range gets {
							if deepIsResult(cl.Call.Args[0], x.chain, g, 0) {
								direct = true
							}
						}
						if !direct && !cloneOfGet(cl.Call.Args[0], x.chain, depth+1) {
							return false
						}
					}
					return true
				}
				ok := cloneOfGet(ch.call.Call.Args[1], ch.chain, 0)
				c.Check(ok, rule, fmt.Sprintf("pkg/resource.GetAndUpdate|change#%d works on a clone of the stored value", i+1), ch.call.Pos(), "dst = proto.Clone(old)",
					"the destination handed to the change function is not proto.Clone of the value just read: the write modifies the stored message in place (every earlier reader sees it change) or starts from something else")
			}
		}
	}
	// changeFn: `value` (the caller's message) is only the src of Merge / argument of interceptBefore; never returned
	if fn := mustFunc(c, rule, resPkg, "WriteRequest", "changeFn"); fn != nil && len(fn.AnonFuncs) == 1 {
		cl := fn.AnonFuncs[0]
		name := "(pkg/resource.WriteRequest).changeFn$1"
		returned := false
		for _, r := range an.Returns(cl) {
			srcs := an.Sources(r.Results[0])
			// value.ProtoReflect().Interface() is value itself (only ….New().Interface() is a fresh message)
			for _, s0 := range append([]ssa.Value(nil), srcs...) {
				if call, ok := s0.(*ssa.Call); ok && call.Call.IsInvoke() && call.Call.Method.Name() == "Interface" {
					if inner, ok := call.Call.Value.(*ssa.Call); ok && inner.Call.IsInvoke() && inner.Call.Method.Name() == "ProtoReflect" {
						srcs = append(srcs, an.Sources(inner.Call.Value)...)
					}
				}
			}
			for _, s := range srcs {
				if fv, ok := s.(*ssa.FreeVar); ok && strings.HasSuffix(fv.Type().String(), "proto.Message") {
					returned = true
				}
				// (a captured variable resolves to what it was bound to: the message parameter of changeFn itself)
				if p, ok := s.(*ssa.Parameter); ok && p.Parent() == fn && (strings.HasSuffix(p.Type().String(), "proto.Message") || strings.HasSuffix(p.Type().String(), "protoreflect.ProtoMessage")) {
					returned = true
				}
				if u, ok := s.(*ssa.UnOp); ok {
					if _, isFV := u.X.(*ssa.FreeVar); isFV && !strings.Contains(u.Type().String(), "FieldUpdater") && !strings.Contains(u.Type().String(), "WriteRequest") {
						returned = true
					}
				}
			}
		}
		c.Check(!returned, rule, name+"|the caller's message is never returned as the new value", cl.Pos(), "", "the change function returns the caller's message itself: the store and the caller share one message")
	}
	// FieldUpdater.Merge: src reaches dst only through proto.Merge
	if fn := mustFunc(c, rule, "pkg/masks", "FieldUpdater", "Merge"); fn != nil {
		name := "(*pkg/masks.FieldUpdater).Merge"
		dst, src := fn.Params[1], fn.Params[2]
		merges := an.CallsTo(fn, "google.golang.org/protobuf/proto.Merge")
		ok := len(merges) > 0
		// the written message, or a clone of it (Merge filters a copy)
		isSrc := func(v ssa.Value) bool {
			for _, s0 := range an.Sources(v) {
				if s0 == ssa.Value(src) {
					return true
				}
				if cl, isCall := s0.(*ssa.Call); isCall && an.CalleeName(cl) == "google.golang.org/protobuf/proto.Clone" {
					for _, s1 := range an.Sources(cl.Call.Args[0]) {
						if s1 == ssa.Value(src) {
							return true
						}
					}
				}
			}
			return false
		}
		for _, m := range merges {
			a := m.Common().Args
			if a[0] != ssa.Value(dst) || !isSrc(a[1]) {
				ok = false
			}
		}
		c.Check(ok, rule, name+"|src is copied into dst with proto.Merge(dst, src)", fn.Pos(), "", "FieldUpdater.Merge does not copy with proto.Merge(dst, src): the stored message would alias the caller's")
		// no store of src-derived references into dst
		w := an.NewMutWorld(c.Prog)
		_ = w
		alias := false
		an.Instrs(fn, func(in ssa.Instruction) {
			if st, ok := in.(*ssa.Store); ok {
				for _, s := range an.Sources(st.Val) {
					if s == ssa.Value(src) {
						alias = true
					}
				}
			}
		})
		c.Check(!alias, rule, name+"|src is not stored by reference", fn.Pos(), "", "a reference to the caller's message is stored")
	}
	// Value.set / Collection.Update save exactly GetAndUpdate's message (checked as R03.4) and List/Get read through FilterClone (C06)
	if fn := mustFunc(c, rule, "pkg/masks", "ResponseFilter", "FilterClone"); fn != nil {
		w := an.NewMutWorld(c.Prog)
		fs := w.AnalyseParams(fn, fn.Params[1])
		c.Check(len(fs) == 0, rule, "(*pkg/masks.ResponseFilter).FilterClone|never writes its argument", fn.Pos(), "", describeFindings(c, fs))
	}
}

func describeFindings(c *an.Ctx, fs []an.MutFinding) string {
	var parts []string
	for _, f := range fs {
		parts = append(parts, fmt.Sprintf("%s %s at %s", f.Kind, f.What, c.Prog.Rel(f.Instr.Pos())))
	}
	return strings.Join(parts, "; ")
}

// DebugMut prints the E2 result for one function (debugging aid).
func DebugMut(p *an.Program, pkg, recv, name string) {
	if recv == "-" {
		recv = ""
	}
	c := an.NewCtx(p, "C07", "quick")
	w := publishedWorld(c)
	fn := p.Func(pkg, recv, name)
	if fn == nil {
		fmt.Println("not found")
		return
	}
	for _, f := range an.WithClosures(fn) {
		fs, taint := w.Analyse(f)
		fmt.Println("==", an.FuncName(f), "paramsources:", func() []string {
			var o []string
			for _, pr := range f.Params {
				if w.ParamSource[pr] {
					o = append(o, pr.Name())
				}
			}
			return o
		}())
		for v, t := range taint {
			if v != nil && v.Parent() == f {
				fmt.Printf("   %s = %v  [%d]\n", v.Name(), v, t)
			}
		}
		for _, x := range fs {
			fmt.Println("  FINDING", x.Kind, x.What, p.Rel(x.Instr.Pos()))
		}
		if s := w.Summary(f); s != nil {
			fmt.Println("  summary writes:", s.Writes, s.WritesWhat)
		}
	}
}

// r074: an InterceptAfter callback receives the message that is about to be stored. Storing a
// reference to a message owned by the caller of the enclosing function (one of its pointer
// parameters) into it makes the stored value alias the caller's message.
func r074(c *an.Ctx) {
	const rule = "R07.4"
	n := 0
	for _, fn := range e2Scope(c) {
		for _, call := range an.CallsTo(fn, an.ModulePath+"/pkg/resource.InterceptAfter") {
			f := an.ClosureFn(call.Common().Args[0])
			if f == nil || len(f.Params) < 2 {
				continue
			}
			n++
			c.SawFunc(an.FuncName(f))
			dst := f.Params[1]
			bad := ""
			var pos ssa.Instruction
			callerOwned := func(v ssa.Value) string {
				for _, s := range an.Sources(v) {
					switch x := s.(type) {
					case *ssa.Parameter:
						if x.Parent() != f && isPointer(x.Type()) {
							return x.Name()
						}
					case *ssa.FreeVar:
						if isPointer(deref(x.Type())) {
							return x.Name()
						}
					case *ssa.UnOp:
						if fv, ok := x.X.(*ssa.FreeVar); ok && isPointer(x.Type()) {
							// captured variable: is it bound to a parameter of the enclosing function?
							if cell := an.CellOf(fv); cell != nil {
								for _, st := range an.StoresTo(cell) {
									if p, isP := st.Val.(*ssa.Parameter); isP {
										return p.Name()
									}
								}
							}
						}
					}
				}
				return ""
			}
			an.Instrs(f, func(in ssa.Instruction) {
				st, ok := in.(*ssa.Store)
				if !ok {
					return
				}
				// address rooted at dst?
				root := st.Addr
				for depth := 0; depth < 8; depth++ {
					switch x := root.(type) {
					case *ssa.FieldAddr:
						root = x.X
						continue
					case *ssa.IndexAddr:
						root = x.X
						continue
					}
					break
				}
				isDst := false
				for _, s := range an.Sources(root) {
					if s == ssa.Value(dst) {
						isDst = true
					}
				}
				if !isDst {
					return
				}
				if who := callerOwned(st.Val); who != "" {
					bad = who
					pos = st
				}
			})
			cons := an.FuncName(f) + "|InterceptAfter stores no caller-owned reference into the saved message"
			if bad != "" {
				c.Bad(rule, cons, pos.Pos(), "the InterceptAfter callback stores `"+bad+"` (a message owned by the caller) by reference into the message that is about to be saved: the caller can change stored state, results and published events by modifying its own message afterwards")
			} else {
				c.Ok(rule, cons, f.Pos(), "")
			}
		}
	}
	if n == 0 {
		c.Unk(rule, "module|InterceptAfter literals", 0, "no InterceptAfter callback found")
	}
}

// r076: a message that is already published (obtained from a resource read or an event) must not be handed to a
// write whose InterceptBefore callback modifies its `new` argument: InterceptBefore receives the very message the
// caller passed in, so the callback would edit stored state / earlier results in place.
func r076(c *an.Ctx) { r076as(c, "R07.6") }

func r076as(c *an.Ctx, rule string) {
	w := publishedWorld(c)
	n := 0
	for _, fn := range e2Scope(c) {
		var writers []*ssa.Function
		writerCalls := map[*ssa.Call]bool{} // InterceptBefore(…) calls whose callback writes its `new`
		for _, call := range an.CallsTo(fn, an.ModulePath+"/pkg/resource.InterceptBefore") {
			for _, g := range beforeBodies(call.Common().Args[0]) {
				if len(g.Params) < 2 {
					continue
				}
				if len(w.AnalyseParams(g, g.Params[len(g.Params)-1])) > 0 {
					writers = append(writers, g)
					if cl, isCall := call.(*ssa.Call); isCall {
						writerCalls[cl] = true
					}
				}
			}
		}
		if len(writers) == 0 {
			continue
		}
		_, taint := w.Analyse(fn)
		an.Instrs(fn, func(in ssa.Instruction) {
			call, ok := in.(*ssa.Call)
			if !ok || call.Call.IsInvoke() || !call.Call.Signature().Variadic() {
				return
			}
			// the message argument of a write: a proto message (pointer) among the non-variadic arguments
			for i, a := range call.Call.Args {
				if i == len(call.Call.Args)-1 {
					break
				}
				if !isPointer(a.Type()) && !strings.Contains(a.Type().String(), "proto.Message") && !strings.Contains(a.Type().String(), "ProtoMessage") {
					continue
				}
				// is one of the modifying interceptors among this call's options?
				usesWriter := false
				last := call.Call.Args[len(call.Call.Args)-1]
				an.Instrs(fn, func(x ssa.Instruction) {
					st, isSt := x.(*ssa.Store)
					if !isSt {
						return
					}
					ia, isIA := st.Addr.(*ssa.IndexAddr)
					if !isIA {
						return
					}
					for _, src := range an.Sources(last) {
						if sl, isSl := src.(*ssa.Slice); isSl && sl.X == ia.X {
							for _, vs := range an.Sources(st.Val) {
								if ib, isCall := vs.(*ssa.Call); isCall && an.CalleeName(ib) == an.ModulePath+"/pkg/resource.InterceptBefore" {
									if g := an.ClosureFn(ib.Call.Args[0]); g != nil {
										for _, wg := range writers {
											if wg == g {
												usesWriter = true
											}
										}
									}
								}
							}
						}
					}
				})
				// … or anywhere in what the option list is built from (append chains, conditional additions)
				if !usesWriter {
					seen := map[ssa.Value]bool{}
					var visit func(v ssa.Value)
					visit = func(v ssa.Value) {
						if v == nil || seen[v] {
							return
						}
						seen[v] = true
						for _, s0 := range an.Sources(v) {
							switch x := s0.(type) {
							case *ssa.Call:
								if writerCalls[x] {
									usesWriter = true
								}
								if an.CalleeName(x) == "builtin append" {
									for _, a2 := range x.Call.Args {
										visit(a2)
									}
								}
							case *ssa.Slice:
								visit(x.X)
								for _, e := range variadicElems(x) {
									visit(e)
								}
							}
						}
					}
					visit(last)
				}
				if !usesWriter {
					continue
				}
				n++
				cons := fmt.Sprintf("%s|the message handed to a write with a modifying InterceptBefore is not a published one", an.FuncName(fn))
				c.SawFunc(an.FuncName(fn))
				published := taint[a]&an.TSelf != 0
				for _, src := range an.Sources(a) {
					if taint[src]&an.TSelf != 0 {
						published = true
					}
				}
				c.Check(!published, rule, cons, call.Pos(), "",
					"the message passed to this write was obtained from a resource read (it is stored state / an earlier result), and the write's InterceptBefore callback modifies its `new` argument - which is that very message: stored state and every snapshot handed out earlier change without a write or an event")
			}
		})
	}
	c.Count("writes_with_modifying_interceptBefore", n)
}

// r077: a write never modifies the message it was given. FieldUpdater.Merge restricts the written message to the
// writable fields and the update mask with filters that clear fields IN PLACE; applied to the caller's own message
// they trim it, and - worse - prune whatever other message shares a sub-message with it (a model's preset that an
// interceptor assigned into the written message, a stored item passed on as the value of another write), so a
// message obtained from an earlier read changes because of a later write. The filters must run on a copy.
func r077(c *an.Ctx) {
	const rule = "R07.7"
	fn := mustFunc(c, rule, "pkg/masks", "FieldUpdater", "Merge")
	if fn == nil || len(fn.Params) != 3 {
		return
	}
	w := an.NewMutWorld(c.Prog)
	fs := w.AnalyseParams(fn, fn.Params[2])
	c.SawFunc(an.FuncName(fn))
	pos := fn.Pos()
	if len(fs) > 0 {
		pos = fs[0].Instr.Pos()
	}
	c.Check(len(fs) == 0, rule, "(*pkg/masks.FieldUpdater).Merge|the written message is only read", pos, "no mutator reaches src",
		"Merge modifies the message being written ("+describeFindings(c, fs)+"): a masked or writable-field-restricted write trims the caller's message and prunes every message that shares a sub-message with it - e.g. lightpb's preset (assigned into the written Brightness by the model) loses its title after UpdateBrightness(…, WithUpdatePaths(\"preset.name\")), so what DescribeBrightness returned earlier changes because of a later write")
}

// r078: no aliasing across the API boundary of a trait model. A message passed to an exported method of a model stays
// the caller's: the caller may go on changing it. So (a) the model never keeps a reference to it or to one of its parts
// in its own state - a field store, an append or map update on a field of the receiver whose stored value is the
// parameter or is loaded from it - and (b) never plants a reference to its own state (a preset, a stored slice) inside
// the caller's message, where the caller's next edit would change the model. Handing the message to a resource write is
// not keeping it: the masked merge copies (R07.2).
func r078(c *an.Ctx) {
	const rule = "R07.8"
	n := 0
	for _, m := range c.Prog.FuncsIn("pkg/trait") {
		if c.Prog.IsGenerated(m.Pos()) || m.Parent() != nil || m.Signature.Recv() == nil || len(m.Params) < 2 {
			continue
		}
		if obj := m.Object(); obj == nil || !obj.Exported() {
			continue
		}
		recv := m.Params[0]
		if !strings.HasSuffix(an.NamedTypeName(recv.Type()), ".Model") {
			continue
		}
		var msgs []*ssa.Parameter
		for _, p := range m.Params[1:] {
			if isGeneratedMessagePtr(c, p.Type()) {
				msgs = append(msgs, p)
			}
		}
		if len(msgs) == 0 {
			continue
		}
		n++
		c.SawFunc(an.FuncName(m))
		// the method and the unexported helpers of the model it hands its arguments to
		type frame struct {
			fn   *ssa.Function
			bind map[*ssa.Parameter]string // parameter of fn -> "recv" | "msg"
		}
		frames := []frame{{m, map[*ssa.Parameter]string{recv: "recv"}}}
		for _, p := range msgs {
			frames[0].bind[p] = "msg"
		}
		seen := map[*ssa.Function]bool{m: true}
		var bad []string
		var badPos ssa.Instruction
		for fi := 0; fi < len(frames) && fi < 8; fi++ {
			fr := frames[fi]
			var rootsOf func(v ssa.Value, depth int) map[string]bool
			rootsOf = func(v ssa.Value, depth int) map[string]bool {
				out := map[string]bool{}
				if depth > 10 || v == nil {
					return out
				}
				merge := func(r map[string]bool) {
					for k := range r {
						out[k] = true
					}
				}
				switch x := v.(type) {
				case *ssa.Parameter:
					if k, ok := fr.bind[x]; ok {
						out[k] = true
					}
				case *ssa.FreeVar:
					if b := an.FreeVarBinding(x); b != nil {
						merge(rootsOf(b, depth+1))
					}
				case *ssa.FieldAddr:
					merge(rootsOf(x.X, depth+1))
				case *ssa.Field:
					merge(rootsOf(x.X, depth+1))
				case *ssa.IndexAddr:
					merge(rootsOf(x.X, depth+1))
				case *ssa.Index:
					merge(rootsOf(x.X, depth+1))
				case *ssa.Lookup:
					merge(rootsOf(x.X, depth+1))
				case *ssa.Slice:
					merge(rootsOf(x.X, depth+1))
				case *ssa.Extract:
					merge(rootsOf(x.Tuple, depth+1))
				case *ssa.TypeAssert:
					merge(rootsOf(x.X, depth+1))
				case *ssa.ChangeType:
					merge(rootsOf(x.X, depth+1))
				case *ssa.MakeInterface:
					merge(rootsOf(x.X, depth+1))
				case *ssa.Phi:
					for _, e := range x.Edges {
						merge(rootsOf(e, depth+1))
					}
				case *ssa.Next:
					merge(rootsOf(x.Iter, depth+1))
				case *ssa.Range:
					merge(rootsOf(x.X, depth+1))
				case *ssa.UnOp:
					if x.Op != token.MUL {
						break
					}
					if al, isAlloc := x.X.(*ssa.Alloc); isAlloc {
						// a local variable: what was stored into it
						for _, st := range an.StoresTo(&an.Cell{Alloc: al}) {
							merge(rootsOf(st.Val, depth+1))
						}
						break
					}
					merge(rootsOf(x.X, depth+1))
				case *ssa.Alloc:
					// a local struct copy (`for _, p := range m.presets`): the struct stored into it
					for _, st := range an.StoresTo(&an.Cell{Alloc: x}) {
						merge(rootsOf(st.Val, depth+1))
					}
					// a literal array or struct (the backing array of append's variadic arguments): what its elements hold
					for _, u := range an.Referrers(x) {
						switch a := u.(type) {
						case *ssa.IndexAddr, *ssa.FieldAddr:
							for _, u2 := range an.Referrers(a.(ssa.Value)) {
								if st, isSt := u2.(*ssa.Store); isSt && st.Addr == a.(ssa.Value) {
									merge(rootsOf(st.Val, depth+1))
								}
							}
						}
					}
				case *ssa.Call:
					name := an.CalleeName(x)
					if name == "google.golang.org/protobuf/proto.Clone" {
						break // a copy
					}
					if name == "builtin append" {
						for _, a := range x.Call.Args {
							merge(rootsOf(a, depth+1))
						}
						break
					}
					// generated getters and the model's own unexported accessors hand out what the receiver holds
					if cal := x.Call.StaticCallee(); cal != nil && cal.Signature.Recv() != nil && len(x.Call.Args) > 0 {
						if c.Prog.IsGenerated(cal.Pos()) && strings.HasPrefix(cal.Name(), "Get") {
							merge(rootsOf(x.Call.Args[0], depth+1))
						} else if cal.Package() == m.Package() && cal.Object() != nil && !cal.Object().Exported() {
							merge(rootsOf(x.Call.Args[0], depth+1))
						}
					}
				}
				return out
			}
			pointerish := func(t types.Type) bool {
				switch u := t.Underlying().(type) {
				case *types.Pointer, *types.Map, *types.Interface:
					return true
				case *types.Slice:
					_, isBasic := u.Elem().Underlying().(*types.Basic)
					return !isBasic
				}
				return false
			}
			for _, f := range an.WithClosures(fr.fn) {
				an.Instrs(f, func(in ssa.Instruction) {
					switch x := in.(type) {
					case *ssa.Store:
						if !pointerish(x.Val.Type()) {
							return
						}
						if _, isAlloc := x.Addr.(*ssa.Alloc); isAlloc {
							return // a local variable
						}
						to, from := rootsOf(x.Addr, 0), rootsOf(x.Val, 0)
						if to["recv"] && from["msg"] {
							bad = append(bad, "keeps a reference to the caller's message (or a part of it) in the model's state")
							badPos = in
						}
						if to["msg"] && from["recv"] {
							bad = append(bad, "stores a reference to the model's own state inside the caller's message")
							badPos = in
						}
					case *ssa.MapUpdate:
						if pointerish(x.Value.Type()) && rootsOf(x.Map, 0)["recv"] && rootsOf(x.Value, 0)["msg"] {
							bad = append(bad, "keeps a reference to the caller's message in a map of the model")
							badPos = in
						}
					case *ssa.Call:
						// hand-over to an unexported helper of the same package: follow with the arguments bound
						cal := x.Call.StaticCallee()
						if cal == nil || seen[cal] || cal.Package() != m.Package() || len(cal.Blocks) == 0 || cal.Object() == nil || cal.Object().Exported() {
							return
						}
						b := map[*ssa.Parameter]string{}
						for i, a := range x.Call.Args {
							if i >= len(cal.Params) {
								break
							}
							r := rootsOf(a, 0)
							switch {
							case r["msg"] && !r["recv"]:
								b[cal.Params[i]] = "msg"
							case r["recv"] && !r["msg"]:
								b[cal.Params[i]] = "recv"
							}
						}
						hasMsg := false
						for _, k := range b {
							if k == "msg" {
								hasMsg = true
							}
						}
						if hasMsg {
							seen[cal] = true
							frames = append(frames, frame{cal, b})
						}
					}
				})
			}
		}
		key := an.FuncName(m) + "|no reference crosses the API boundary"
		if len(bad) > 0 {
			sort.Strings(bad)
			c.Bad(rule, key, badPos.Pos(), "the method "+strings.Join(uniqStrings(bad), " and ")+": the caller may change its message after the call, and that edit then changes what the model holds (a stored record, a preset every later update copies from)")
		} else {
			c.Ok(rule, key, m.Pos(), fmt.Sprintf("%d message parameter(s)", len(msgs)))
		}
	}
	c.Count("model_methods_taking_messages", n)
}

// isGeneratedMessagePtr: *T with T a struct generated by protoc (declared in a .pb.go file).
func isGeneratedMessagePtr(c *an.Ctx, t types.Type) bool {
	p, ok := t.(*types.Pointer)
	if !ok {
		return false
	}
	nt, ok := p.Elem().(*types.Named)
	if !ok {
		return false
	}
	if _, isStruct := nt.Underlying().(*types.Struct); !isStruct {
		return false
	}
	return strings.HasSuffix(c.Prog.SSA.Fset.Position(nt.Obj().Pos()).Filename, ".pb.go")
}

// beforeBodies: the function bodies an InterceptBefore argument can stand for - a literal, a named function, a method
// value, or the closure(s) returned by a module function that builds the interceptor (m.relativeAdjustment(steps)).
func beforeBodies(arg ssa.Value) []*ssa.Function {
	var out []*ssa.Function
	for _, s := range an.SourcesOpaque(arg) {
		if body, _, _ := an.CallbackBody(s); body != nil && len(body.Blocks) > 0 {
			out = append(out, body)
			continue
		}
		if call, ok := s.(*ssa.Call); ok {
			if f := call.Call.StaticCallee(); f != nil && an.InModule(f) {
				for _, r := range an.Returns(f) {
					if len(r.Results) != 1 {
						continue
					}
					for _, rs := range an.SourcesOpaque(r.Results[0]) {
						if body, _, _ := an.CallbackBody(rs); body != nil && len(body.Blocks) > 0 {
							out = append(out, body)
						}
					}
				}
			}
		}
	}
	if g := an.ClosureFn(arg); g != nil && len(out) == 0 {
		out = append(out, g)
	}
	return out
}
