package props

import (
	"fmt"
	"go/token"
	"go/types"
	"strings"

	"golang.org/x/tools/go/ssa"

	"scverif/an"
)

func init() {
	register(&Prop{
		ID:          "C02",
		Title:       "Concurrent writes are atomic: linearizable outcomes, no lost updates",
		Explanation: "Decides the structural shape of the optimistic-concurrency protocol: R02.1 GetAndUpdate reads under mu, re-reads and compares with proto.Equal inside the same exclusive region as save (or holds the lock exclusively throughout), save receives change's result and is guarded by change's nil error; R02.2 every GetFn passed to GetAndUpdate reads a mutex-guarded field of the store on every path to a successful return (so the re-validation compares with the store, not with itself); R02.3 Collection.Delete deletes and publishes under the exclusive lock, guarded by a pointer-identity comparison between the value reloaded in that region and the very value the preconditions were evaluated on, in a bounded retry loop; R02.4 guarded-field discipline for Value/Collection; R02.5 preconditions in the change function bind to its `old` parameter and GetAndUpdate passes the first read as `old`. R02.12 in the change function the expected-value comparison and the expected-check call lie on one path: a write that carries both preconditions is judged by both. Does NOT decide linearizability of histories, schedules, fairness of the retry loop or ABA.",
		Assumptions: []string{"proto.Equal is value equality of messages and false for (nil, non-nil)", "proto.Clone returns a deep copy", "locks identified by access path"},
		Run:         runC02,
		Controls: []Control{
			{Name: "expected-check-only-without-expected-value", File: "pkg/resource/opt.go", Old: "\t\t}\n\t\tif wr.expectedCheck != nil {", New: "\t\t} else if wr.expectedCheck != nil {", Expect: "R02.12"},
			{Name: "hail-gc-deletes-unconditionally", File: "pkg/trait/hailpb/model.go", Old: "resource.WithAllowMissing(true), resource.WithExpectedValue(hail))", New: "resource.WithAllowMissing(true))", Expect: "R02.10"},
			{Name: "reread-returns-remembered-message-with-error", File: "pkg/resource/collection.go", Old: "\t\t\t\tif _, exists := c.byId[id]; exists {\n\t\t\t\t\treturn nil, ExpectAbsentPreconditionFailed\n", New: "\t\t\t\tif _, exists := c.byId[id]; exists {\n\t\t\t\t\treturn created, ExpectAbsentPreconditionFailed\n", Expect: "R02.8"},
			{Name: "value-set-retries", File: "pkg/resource/value.go", Old: "\t_, newValue, err := GetAndUpdate(", New: "\tvar newValue proto.Message\n\tvar err error\n\tfor attempt := 0; attempt < 3 && (attempt == 0 || err != nil); attempt++ {\n\t_, newValue, err = GetAndUpdate(", More: []Edit{{File: "pkg/resource/value.go", Old: "\t\t\tr.changeTime = changeTime\n\t\t},\n\t)\n", New: "\t\t\tr.changeTime = changeTime\n\t\t},\n\t)\n\t}\n"}}, Expect: "R02.7"},
			{Name: "drop-equal-guard", File: "pkg/resource/atomic.go", Old: "if !proto.Equal(oldValue, oldValueAgain) {", New: "if false && !proto.Equal(oldValue, oldValueAgain) {", Expect: "R02.1"},
			{Name: "rlock-before-save", File: "pkg/resource/atomic.go", Old: "\tmu.Lock()\n\tdefer mu.Unlock()", New: "\tmu.RLock()\n\tdefer mu.RUnlock()", Expect: "R02.1"},
			{Name: "compare-with-new", File: "pkg/resource/atomic.go", Old: "if !proto.Equal(oldValue, oldValueAgain) {", New: "if !proto.Equal(newValue, oldValueAgain) {", Expect: "R02.1"},
			{Name: "reread-outside-lock", File: "pkg/resource/atomic.go", Old: "\tmu.Lock()\n\tdefer mu.Unlock()\n\toldValueAgain, _ := get()", New: "\toldValueAgain, _ := get()\n\tmu.Lock()\n\tdefer mu.Unlock()", Expect: "R02.1"},
			{Name: "delete-no-identity-check", File: "pkg/resource/collection.go", Old: "if oldVal2 != oldVal || exists2 != exists {", New: "if exists2 != exists {", Expect: "R02.3"},
			{Name: "delete-reload-before-lock", File: "pkg/resource/collection.go", Old: "\t\tc.mu.Lock()\n\t\toldVal2, exists2 := c.byId[id]", New: "\t\toldVal2, exists2 := c.byId[id]\n\t\tc.mu.Lock()", Expect: "R02.3"},
			{Name: "get-without-rlock", File: "pkg/resource/value.go", Old: "\tr.mu.RLock()\n\tdefer r.mu.RUnlock()\n\treturn req.FilterClone(r.value)", New: "\treturn req.FilterClone(r.value)", Expect: "R02.4"},
			{Name: "hold-lock-throughout", Silent: true, File: "pkg/resource/atomic.go",
				Old: "\tmu.RLock()\n\toldValue, err = get()\n\tmu.RUnlock()\n\tif err != nil {\n\t\treturn nil, nil, err\n\t}",
				New: "\tmu.Lock()\n\tdefer mu.Unlock()\n\toldValue, err = get()\n\tif err != nil {\n\t\treturn nil, nil, err\n\t}\n\tif true {\n\t\tnewValue = proto.Clone(oldValue)\n\t\tif newValue, err = change(oldValue, newValue); err != nil {\n\t\t\treturn oldValue, newValue, err\n\t\t}\n\t\tsave(newValue)\n\t\treturn oldValue, newValue, nil\n\t}"},
		},
	})
}

const resPkg = "pkg/resource"

// paramOfType finds the parameter of fn whose type is the named type.
func paramOfType(fn *ssa.Function, qname string) *ssa.Parameter {
	for _, p := range fn.Params {
		if an.NamedTypeName(p.Type()) == qname {
			return p
		}
	}
	return nil
}

func callsOfParam(fn *ssa.Function, p *ssa.Parameter) []*ssa.Call {
	var out []*ssa.Call
	an.Instrs(fn, func(in ssa.Instruction) {
		if c, ok := in.(*ssa.Call); ok && c.Call.Value == p {
			out = append(out, c)
		}
	})
	return out
}

// valueIsResult reports whether v (resolved flow-sensitively) is exactly
// result #idx of call on every path.
func valueIsResult(v ssa.Value, call *ssa.Call, idx int) bool {
	vs := an.ValuesAt(v)
	if len(vs) == 0 {
		return false
	}
	for _, s := range vs {
		if !an.IsExtractOf(s, call, idx) {
			return false
		}
	}
	return true
}

func runC02(c *an.Ctx) {
	r021(c)
	r022(c)
	r023(c)
	g := analyseGuarded(c)
	reportGuarded(c, "R02.4", g, func(s string) bool { return s == "pkg/resource.Value" || s == "pkg/resource.Collection" })
	r025(c)
	r026(c, "R02.6")
	r027(c)
	c.Min("R02.7", 2)
	r028(c, "R02.8")
	c.Min("R02.8", 2)
	// write callbacks run before the write lock is taken, on the message that is stored: one that edits `old` in place
	// (instead of a copy) has changed the stored value before the attempt is decided, so a write that then loses the race
	// and reports Aborted has left its edits behind (E2, shared with R07.1, restricted to interceptor-shaped functions)
	shareAs(c, "R01.11", "R02.11", r0111, nil) // Delete judges its preconditions on the version it is about to remove, on every attempt (shared with R01.11)
	c.Min("R02.11", 1)
	r0212(c, "R02.12")
	c.Min("R02.12", 1)
	r0210(c, "R02.10")
	c.Min("R02.10", 1)
	runE2(c, "R02.9", isWriteCallback)
	c.Min("R02.9", 5)
	c.Min("R02.6", 2)
	c.Min("R02.1", 5)
	c.Min("R02.2", 2)
	c.Min("R02.3", 4)
	c.Min("R02.4", 8)
	c.Min("R02.5", 3)
}

// r021: shape of GetAndUpdate.
func r021(c *an.Ctx) {
	const rule = "R02.1"
	fn := mustFunc(c, rule, resPkg, "", "GetAndUpdate")
	if fn == nil {
		return
	}
	name := "pkg/resource.GetAndUpdate"
	q := an.ModulePath + "/pkg/resource."
	mu := (*ssa.Parameter)(nil)
	for _, p := range fn.Params {
		if an.NamedTypeName(p.Type()) == "sync.RWMutex" || an.NamedTypeName(p.Type()) == "sync.Mutex" {
			mu = p
		}
	}
	get, change, save := paramOfType(fn, q+"GetFn"), paramOfType(fn, q+"ChangeFn"), paramOfType(fn, q+"SaveFn")
	if mu == nil || get == nil || change == nil || save == nil {
		c.Unk(rule, name+"|signature", fn.Pos(), "GetAndUpdate no longer has (mutex, GetFn, ChangeFn, SaveFn) parameters")
		return
	}
	lock := mu.Name()
	// the steps may sit in helpers GetAndUpdate hands its parameters to (readLocked(mu, get)): they are followed there
	gets, changes, saves := deepCallsOfParam(fn, get), deepCallsOfParam(fn, change), deepCallsOfParam(fn, save)
	if len(gets) == 0 || len(changes) == 0 || len(saves) == 0 {
		c.Unk(rule, name+"|calls", fn.Pos(), fmt.Sprintf("get/change/save are invoked %d/%d/%d times; expected at least once each", len(gets), len(changes), len(saves)))
		return
	}
	modeName := func(m an.LockMode) string {
		switch {
		case m >= an.WLock:
			return "mu held exclusively"
		case m >= an.RLock:
			return "mu held shared"
		}
		return "mu not held"
	}
	// every get holds the lock
	for i, g := range gets {
		m := g.heldAt(fn, lock)
		c.Check(m >= an.RLock, rule, fmt.Sprintf("%s|get#%d under lock", name, i+1), g.call.Pos(),
			"get() runs with "+modeName(m), "get() runs with "+modeName(m)+": the read of the store is not protected by mu")
	}
	for i, s := range saves {
		cons := fmt.Sprintf("%s|save#%d", name, i+1)
		// (a) exclusive lock
		m := s.heldAt(fn, lock)
		c.Check(m >= an.WLock, rule, cons+" under exclusive lock", s.call.Pos(),
			"save() runs with "+modeName(m), "save() runs with "+modeName(m)+": the write is not exclusive")
		// (b) save receives change's result, guarded by change's nil error
		var ch *deepSite
		for k := range changes {
			if deepIsResult(s.call.Call.Args[0], s.chain, changes[k], 0) {
				ch = &changes[k]
			}
		}
		if ch == nil {
			c.Bad(rule, cons+" saves change result", s.call.Pos(), "the message passed to save() is not (on every path) the result of change(): a value other than the computed one is stored")
			continue
		}
		c.Ok(rule, cons+" saves change result", s.call.Pos(), "save(arg) is result 0 of change()")
		c.Check(deepGuardedByNil(s, *ch, 1), rule, cons+" after change succeeded", s.call.Pos(),
			"save() only reachable when change() returned a nil error", "save() is reachable although change() returned an error: a failed write takes effect")
		// change receives the first read as old
		var first *deepSite
		for k := range gets {
			if deepIsResult(ch.call.Call.Args[0], ch.chain, gets[k], 0) {
				first = &gets[k]
			}
		}
		if first == nil {
			c.Bad(rule, cons+" change sees the validated read", ch.call.Pos(), "the `old` argument of change() is not the result of a get() call")
			continue
		}
		c.Check(deepGuardedByNil(*ch, *first, 1), rule, cons+" change after successful read", ch.call.Pos(),
			"change() only runs when the first get() succeeded", "change() runs although get() failed")
		// (c) protocol: pessimistic or optimistic
		if first.fn() == s.fn() && len(first.chain) == len(s.chain) && first.call.Block().Dominates(s.call.Block()) {
			li, ln := siteLocks(fn, lock, s.chain)
			if ln != "" && an.HeldContinuously(li, ln, an.WLock, first.call, s.call) {
				c.Ok(rule, cons+" validated", s.call.Pos(), "pessimistic variant: mu is held exclusively from the read to the save")
				continue
			}
		}
		ok := false
		why := "no re-validation found: save() is not guarded by proto.Equal(first read, second read) with the second read in the same exclusive region"
		// the test is looked for in the function that saves and in the functions that call it
		for lvl := len(s.chain); lvl >= 0 && !ok; lvl-- {
			at := s.at(lvl)
			chain := s.chain[:lvl]
			if lvl < len(s.chain) && !s.lockFreeBelow(lvl) {
				// the helper below takes or releases locks itself: a test made out here is not in the region of save()
				continue
			}
			li, ln := siteLocks(fn, lock, chain)
			for _, eg := range equalGuardsOf(at) {
				var second *deepSite
				for k := range gets {
					g := &gets[k]
					if g.call == first.call {
						continue
					}
					if (deepIsResult(eg.a, chain, *first, 0) && deepIsResult(eg.b, chain, *g, 0)) || (deepIsResult(eg.b, chain, *first, 0) && deepIsResult(eg.a, chain, *g, 0)) {
						second = g
					}
				}
				if second == nil {
					why = "save() is guarded by proto.Equal, but its operands are not (the first read passed to change, a later re-read): the re-validation compares the wrong values"
					continue
				}
				if second.fn() != at.Parent() || !an.Dominates(second.call, at) {
					why = "the re-read does not dominate save()"
					continue
				}
				if ln == "" || !an.HeldContinuously(li, ln, an.WLock, second.call, at) {
					why = "mu is not held exclusively all the way from the re-read to save(): another writer can slip in between validation and save"
					continue
				}
				ok = true
				c.Ok(rule, cons+" validated", s.call.Pos(), "optimistic variant: re-read and proto.Equal under the exclusive lock guard save()")
				// mismatch path returns Aborted
				other := an.CondEdge{If: eg.edge.If, Branch: !eg.edge.Branch}
				code := int64(-1)
				deep := errorReturnsDeep(fn)
				for _, r := range an.Returns(at.Parent()) {
					if !an.EdgeGuards(other, r) || len(r.Results) == 0 {
						continue
					}
					if at.Parent() != fn {
						// the helper's error has to come out of GetAndUpdate
						handed := false
						for _, d := range deep {
							if d == r {
								handed = true
							}
						}
						if !handed {
							continue
						}
					}
					for _, v := range an.ValuesAt(r.Results[len(r.Results)-1]) {
						if cd, isSt := an.StatusCode(v); isSt {
							code = cd
						}
					}
				}
				c.Check(code == an.CodeAborted, rule, cons+" mismatch is Aborted", eg.edge.If.Pos(),
					"the mismatch path returns codes.Aborted", fmt.Sprintf("the mismatch path returns status code %d, expected Aborted (10)", code))
				break
			}
		}
		if !ok {
			c.Bad(rule, cons+" validated", s.call.Pos(), why)
		}
	}
}

// guardedFieldLoad reports whether in reads a guarded field of the object
// whose mutex has the given access path.
func guardedFieldLoad(g *guardedResult, in ssa.Instruction, lockPath string) bool {
	for _, a := range g.Accesses {
		if a.Instr == in && a.LockPath == lockPath {
			return true
		}
	}
	return false
}

// r022: every GetFn passed to GetAndUpdate re-reads the store.
func r022(c *an.Ctx) {
	const rule = "R02.2"
	gau := c.Prog.Func(resPkg, "", "GetAndUpdate")
	if gau == nil {
		return // reported by R02.1
	}
	g := analyseGuarded(c)
	n := 0
	for fn := range c.Prog.AllFuncs {
		if c.Prog.IsGenerated(fn.Pos()) {
			continue
		}
		for _, call := range an.CallsTo(fn, an.FuncQName(gau)) {
			n++
			args := call.Common().Args
			var muArg, getArg ssa.Value
			for i, p := range gau.Params {
				tn := an.NamedTypeName(p.Type())
				if tn == "sync.RWMutex" || tn == "sync.Mutex" {
					muArg = args[i]
				}
				if strings.HasSuffix(tn, "/pkg/resource.GetFn") {
					getArg = args[i]
				}
			}
			cons := an.FuncName(fn) + "|GetFn of GetAndUpdate"
			c.SawFunc(an.FuncName(fn))
			lockPath := an.AccessPath(muArg)
			gf := an.ClosureFn(getArg)
			if gf == nil {
				if f, ok := getArg.(*ssa.Function); ok {
					gf = f
				}
			}
			if gf == nil || lockPath == "" {
				c.Unk(rule, cons, call.Pos(), "the GetFn argument is not a function literal / the mutex argument has no access path: cannot follow the read")
				continue
			}
			c.SawFunc(an.FuncName(gf))
			// search a path entry -> successful return avoiding any guarded read
			isGuardedRead := func(in ssa.Instruction) bool { return guardedFieldLoad(g, in, lockPath) }
			// calls to module helpers that read the guarded field on all their paths count as reads
			readsViaCall := func(in ssa.Instruction) bool {
				cl, ok := in.(*ssa.Call)
				if !ok {
					return false
				}
				f := cl.Call.StaticCallee()
				if f == nil || len(f.Blocks) == 0 || !c.Prog.AllFuncs[f] {
					return false
				}
				inner := an.TranslateToCallee(cl, f, an.LockSet{lockPath: an.RLock})
				for ip := range inner {
					t, _ := an.PathQuery{
						Target: func(x ssa.Instruction) bool { _, isR := x.(*ssa.Return); return isR },
						Avoid:  func(x ssa.Instruction) bool { return guardedFieldLoad(g, x, ip) },
					}.From(f, nil)
					if t == nil {
						return true
					}
				}
				return false
			}
			succRet := func(in ssa.Instruction) bool {
				r, ok := in.(*ssa.Return)
				if !ok || len(r.Results) < 2 {
					return false
				}
				// successful return: error operand may be nil
				for _, v := range an.ValuesAt(r.Results[len(r.Results)-1]) {
					if an.IsNilConst(v) {
						return true
					}
				}
				return false
			}
			t, path := an.PathQuery{Target: succRet, Avoid: func(in ssa.Instruction) bool { return isGuardedRead(in) || readsViaCall(in) }}.From(gf, nil)
			if t == nil {
				c.Ok(rule, cons, call.Pos(), "every successful path of "+an.FuncName(gf)+" reads a field guarded by "+lockPath)
			} else {
				c.Bad(rule, cons, t.Pos(), "a path of "+an.FuncName(gf)+" returns successfully without reading any field guarded by "+lockPath+
					": when GetAndUpdate re-validates under the write lock it compares the first read with a cached value, so a concurrent writer of the same id goes unnoticed (two concurrent Adds of one id both succeed)", an.BlockPath(c.Prog, path)...)
			}
		}
	}
	if n == 0 {
		c.Unk(rule, "callers of GetAndUpdate", gau.Pos(), "no call site of GetAndUpdate found")
	}
	r022rows(c, rule)
}

// r022rows: in the read callback of Collection.Update, whenever the lookup
// on this path says the id exists, a successful return hands back the stored
// body (never a cached / provisional message): otherwise the re-validation
// under the write lock cannot see that somebody else created the item.
func r022rows(c *an.Ctx, rule string) {
	upd := c.Prog.Func(resPkg, "Collection", "Update")
	gau := c.Prog.Func(resPkg, "", "GetAndUpdate")
	if upd == nil || gau == nil {
		return
	}
	var gf *ssa.Function
	for _, call := range an.CallsTo(upd, gauName) {
		for i, p := range gau.Params {
			if strings.HasSuffix(an.NamedTypeName(p.Type()), "/pkg/resource.GetFn") {
				gf = an.ClosureFn(call.Common().Args[i])
			}
		}
	}
	if gf == nil {
		return
	}
	leaves := an.DecisionTree(gf, an.DTConfig{})
	bad := ""
	n := 0
	var pos token.Pos
	for _, l := range leaves {
		if l.Undec != "" || l.Panics || len(l.Returns) != 2 {
			continue
		}
		exists := ""
		for a, v := range l.AssignM {
			if strings.Contains(a, ".byId[") && strings.HasSuffix(a, "#1") {
				exists = v
			}
		}
		if exists != "true" || l.Returns[1].K != "nil" {
			continue
		}
		n++
		if !strings.Contains(l.Returns[0].S, ".byId[") {
			bad = "with the id present in byId the callback returns " + l.Returns[0].S + " successfully instead of the stored body"
			pos = l.RetPos
		}
	}
	cons := "(*pkg/resource.Collection).Update|GetFn returns the stored body whenever the id exists"
	if n == 0 {
		c.Unk(rule, cons, gf.Pos(), "no successful path with an existing id found")
		return
	}
	if bad != "" {
		c.Bad(rule, cons, pos, bad+": a concurrent creator of the same id goes unnoticed by the re-validation and is overwritten")
	} else {
		c.Ok(rule, cons, gf.Pos(), fmt.Sprintf("%d path(s)", n))
	}
}

// r026: stored items are immutable: fields of resource.item are written only
// while the item is being constructed (fresh allocation). Delete's
// pointer-identity re-check and the lock-free use of copied items both rely
// on "a new version is a new *item".
func r026(c *an.Ctx, rule string) {
	n := 0
	for _, fn := range c.Prog.FuncsIn("pkg/resource") {
		an.Instrs(fn, func(in ssa.Instruction) {
			st, ok := in.(*ssa.Store)
			if !ok {
				return
			}
			fa, ok := st.Addr.(*ssa.FieldAddr)
			if !ok || !strings.HasSuffix(an.NamedTypeName(fa.X.Type()), "/pkg/resource.item") {
				return
			}
			n++
			_, _, f, _ := an.FieldOf(fa)
			cons := an.FuncName(fn) + "|store item." + f
			fresh := false
			if al, isAlloc := fa.X.(*ssa.Alloc); isAlloc && al.Parent() == fn {
				fresh = true
			}
			c.SawFunc(an.FuncName(fn))
			c.Check(fresh, rule, cons, st.Pos(), "written while constructing a fresh item",
				"a stored *item is modified in place: Delete's pointer-identity re-check no longer notices the update (it removes a version its precondition did not see) and snapshots already taken change")
		})
	}
	if n == 0 {
		c.Unk(rule, "pkg/resource.item|stores", 0, "no construction of resource.item found")
	}
}

// r023: Collection.Delete.
func r023(c *an.Ctx) {
	const rule = "R02.3"
	fn := mustFunc(c, rule, resPkg, "Collection", "Delete")
	if fn == nil {
		return
	}
	name := "(*pkg/resource.Collection).Delete"
	w := lockWorld(c)
	// the locked step (re-check, delete, publish) lives in Delete itself or in a helper it delegates to
	isDel := func(in ssa.Instruction) bool {
		cl, ok := in.(*ssa.Call)
		return ok && an.CalleeName(cl) == "builtin delete"
	}
	body := an.BodyWith(fn, isDel)
	if body == nil {
		body = fn
	}
	defer an.Focus(fn)()
	li := w.Info[body]
	var deletes []*ssa.Call
	an.Instrs(body, func(in ssa.Instruction) {
		if isDel(in) {
			deletes = append(deletes, in.(*ssa.Call))
		}
	})
	// sameItem: the value `checked` of the locked step is `base` of Delete (identical, or the argument it was given)
	sameItem := func(base, checked ssa.Value) bool {
		if base == checked || an.SameValues(base, checked) {
			return true
		}
		for _, s0 := range an.Sources(checked) {
			for _, s1 := range an.Sources(base) {
				if s0 == s1 {
					return true
				}
			}
		}
		return false
	}
	if len(deletes) == 0 {
		c.Unk(rule, name+"|delete", fn.Pos(), "no delete(byId, id) found in Collection.Delete")
		return
	}
	itemPtr := func(v ssa.Value) bool {
		return strings.HasSuffix(an.NamedTypeName(v.Type()), "/pkg/resource.item") && isPointer(v.Type())
	}
	for i, d := range deletes {
		cons := fmt.Sprintf("%s|delete#%d", name, i+1)
		lockPath := an.AccessPath(d.Call.Args[0])
		if j := strings.LastIndex(lockPath, "."); j >= 0 {
			lockPath = lockPath[:j] + ".mu"
		}
		held := li.At(d)
		c.Check(held[lockPath] >= an.WLock, rule, cons+" under exclusive lock", d.Pos(), "delete runs with "+held.String(),
			"delete(byId, id) runs with lock set "+held.String()+": not exclusive")
		// identity re-check
		found := false
		why := "delete is not guarded by a pointer-identity comparison between the item reloaded under the exclusive lock and the item the preconditions were evaluated on"
		for _, e := range an.GuardingEdges(d) {
			b, ok := e.If.Cond.(*ssa.BinOp)
			if !ok || (b.Op != token.EQL && b.Op != token.NEQ) || !itemPtr(b.X) || !itemPtr(b.Y) {
				continue
			}
			if (b.Op == token.EQL) != e.Branch {
				continue // delete on the "different" side
			}
			for _, pair := range [][2]ssa.Value{{b.X, b.Y}, {b.Y, b.X}} {
				reloaded, checked := pair[0], pair[1]
				lk := lookupOf(reloaded)
				if lk == nil {
					continue
				}
				if li.At(lk)[lockPath] < an.WLock || !an.Dominates(lk, d) || !an.HeldContinuously(li, lockPath, an.WLock, lk, d) {
					why = "the item compared was not reloaded inside the exclusive region that performs the delete"
					continue
				}
				// every precondition evaluation reads `checked`
				bad := ""
				nPre := 0
				eachInstrDeep02(fn, func(in ssa.Instruction) {
					cl, ok := in.(*ssa.Call)
					if !ok {
						return
					}
					isPre := false
					if an.CalleeName(cl) == "google.golang.org/protobuf/proto.Equal" {
						isPre = true
					} else if an.CalleeName(cl) == "dynamic" {
						if _, _, f, ok := an.FieldOf(cl.Call.Value); ok && f == "expectedCheck" {
							isPre = true
						}
					}
					if !isPre {
						return
					}
					nPre++
					usesChecked := false
					for _, a := range cl.Call.Args {
						// the argument itself, or (in a helper given the body) what the helper was called with
						for _, a2 := range append([]ssa.Value{a}, an.Sources(a)...) {
							if base, _, f, ok := an.FieldOf(a2); ok && f == "body" && sameItem(base, checked) {
								usesChecked = true
							}
						}
					}
					if !usesChecked {
						bad = "precondition at " + c.Prog.Rel(cl.Pos()) + " is not evaluated on the item that the identity check compares"
					}
				})
				if bad != "" {
					why = bad
					continue
				}
				if nPre < 2 {
					why = "expected-check / expected-value evaluations not found in Delete"
					continue
				}
				found = true
			}
		}
		c.Check(found, rule, cons+" identity re-check", d.Pos(),
			"delete guarded by reloaded == checked (reloaded under the exclusive lock; preconditions evaluated on checked)", why)
		// REMOVE published under the same lock
		sent := false
		for _, s := range an.CallsTo(body, "(*"+an.ModulePath+"/internal/minibus.Bus).Send") {
			if an.Dominates(d, s) && an.HeldContinuously(li, lockPath, an.WLock, d, s) {
				sent = true
			}
		}
		c.Check(sent, rule, cons+" publish under lock", d.Pos(), "the REMOVE event is sent inside the exclusive region of the delete",
			"no Bus.Send inside the exclusive region of the delete: a later write can publish before this REMOVE")
	}
	// bounded retry ending in Unavailable: a loop header that tests a counter against a constant and whose exit
	// returns Unavailable (whatever go/ssa calls the blocks: for, range-over-int)
	bounded, hasLoop := false, false
	for _, b := range fn.Blocks {
		// a loop header: some predecessor is dominated by it (a back edge)
		isHeader := false
		for _, p := range b.Preds {
			if b.Dominates(p) {
				isHeader = true
			}
		}
		if !isHeader {
			continue
		}
		hasLoop = true
		// the test may sit in the header or (rotated loops) in the block that jumps back
		for _, tb := range append([]*ssa.BasicBlock{b}, b.Preds...) {
			iff, ok := tb.Instrs[len(tb.Instrs)-1].(*ssa.If)
			if !ok {
				continue
			}
			bo, ok := iff.Cond.(*ssa.BinOp)
			if !ok || (bo.Op != token.LSS && bo.Op != token.LEQ) {
				continue
			}
			if _, isC := an.ConstInt(bo.Y); !isC {
				continue
			}
			exit := tb.Succs[1]
			for _, in := range exit.Instrs {
				if r, ok := in.(*ssa.Return); ok {
					for _, v := range an.ValuesAt(r.Results[len(r.Results)-1]) {
						if code, ok := an.StatusCode(v); ok && code == an.CodeUnavailable {
							bounded = true
						}
					}
				}
			}
		}
	}
	if hasLoop {
		c.Check(bounded, rule, name+"|bounded retry", fn.Pos(), "retry loop bounded by a constant and ends in codes.Unavailable",
			"the retry loop is not bounded by a constant ending in codes.Unavailable")
	} else {
		c.Ok(rule, name+"|bounded retry", fn.Pos(), "no retry loop (single attempt)")
	}
}

func isPointer(t types.Type) bool { _, ok := t.(*types.Pointer); return ok }

// lookupOf: v = extract (m[k],ok) #0 -> the Lookup instruction.
func lookupOf(v ssa.Value) *ssa.Lookup {
	switch x := v.(type) {
	case *ssa.Extract:
		if l, ok := x.Tuple.(*ssa.Lookup); ok && x.Index == 0 {
			return l
		}
	case *ssa.Lookup:
		return x
	case *ssa.UnOp:
		// a result variable kept in memory (named results with a deferred unlock): the one value stored into it
		var found *ssa.Lookup
		for _, s := range an.SourcesOpaque(v) {
			if s == v {
				return nil
			}
			l := lookupOf(s)
			if l == nil || (found != nil && found != l) {
				return nil
			}
			found = l
		}
		return found
	}
	return nil
}

// r025: preconditions bind to `old`.
func r025(c *an.Ctx) {
	const rule = "R02.5"
	f := changeFnFacts(c, rule)
	if f == nil {
		return
	}
	name := "(pkg/resource.WriteRequest).changeFn$1"
	if f.undec != "" {
		c.Unk(rule, name+"|decision table", f.cl.Pos(), f.undec)
		return
	}
	for _, t := range []struct{ clause, key, msg string }{
		{"expected value", "expected value compares old", "the expected-value comparison does not compare parameter `old` (the snapshot that GetAndUpdate re-validates) with the configured expected value, first, failing the write on a mismatch"},
		{"expected check", "expected check sees old", "expectedCheck is not evaluated on parameter `old` (the snapshot that GetAndUpdate re-validates), failing the write on an error"},
		{"precondition stops", "a failed precondition stops the write", "Merge or an interceptor still runs after a failed precondition"},
	} {
		why, isBad := f.bad[t.clause]
		c.Check(!isBad, rule, name+"|"+t.key, f.cl.Pos(), "", t.msg+": "+why)
	}
}

// r027: the change function built from the caller's message runs at most once per write call. It is not
// idempotent (interceptBefore may mutate the caller's message, e.g. `new.X += old.X`), so a retry loop around
// GetAndUpdate applies such a delta twice while reporting one successful write.
func r027(c *an.Ctx) {
	const rule = "R02.7"
	n := 0
	for _, t := range [][2]string{{"Value", "set"}, {"Collection", "Update"}} {
		fn := mustFunc(c, rule, resPkg, t[0], t[1])
		if fn == nil {
			continue
		}
		name := "(*pkg/resource." + t[0] + ")." + t[1]
		for _, vc := range an.CallsToDeep(fn, gauName) {
			n++
			in, isCall := vc.Inner.(*ssa.Call)
			if !isCall {
				continue
			}
			// is the call on a cycle of the control flow graph (in the function that makes it, or - when that is a helper -
			// is the helper called on a cycle)?
			onCycle := func(at ssa.Instruction) bool {
				cyc := false
				seen := map[*ssa.BasicBlock]bool{}
				var walk func(b *ssa.BasicBlock)
				walk = func(b *ssa.BasicBlock) {
					if b == at.Block() {
						cyc = true
						return
					}
					if seen[b] {
						return
					}
					seen[b] = true
					for _, s := range b.Succs {
						walk(s)
					}
				}
				for _, s := range at.Block().Succs {
					walk(s)
				}
				return cyc
			}
			cyc := onCycle(in) || onCycle(vc.Site)
			usesChangeFn := false
			for _, a := range in.Call.Args {
				for _, src := range an.Sources(a) {
					if cl, ok := src.(*ssa.Call); ok && strings.HasSuffix(an.CalleeName(cl), "WriteRequest).changeFn") {
						usesChangeFn = true
					}
				}
			}
			c.SawFunc(an.FuncName(fn))
			c.Check(!(cyc && usesChangeFn) && usesChangeFn, rule, name+"|the caller's change is applied at most once", in.Pos(), "",
				"GetAndUpdate with the change function of the caller's message sits inside a loop: a retry re-runs interceptBefore on the message the first attempt already modified (the documented delta idiom `new.X += old.X` is then applied twice) while the call reports one write; contention must be reported to the caller (Aborted), not retried here")
		}
	}
	if n < 2 {
		c.Unk(rule, "pkg/resource|GetAndUpdate callers", 0, fmt.Sprintf("%d GetAndUpdate call sites found in Value.set / Collection.Update, 2 expected", n))
	}
}

func eachInstrDeep02(fn *ssa.Function, f func(ssa.Instruction)) {
	an.Instrs(fn, f)
	for _, h := range an.TransparentCalleesOf(fn, 2) {
		an.Instrs(h, f)
	}
}

// r028: GetAndUpdate ignores the error of its second read (`oldValueAgain, _ := get()`) and compares the VALUES: a read
// callback that wants the re-validation to fail has to return a value that cannot equal the first read. So every read
// callback handed to GetAndUpdate returns a nil message together with every error it can return. Returning the
// remembered message with the error ("id exists by now") makes the two reads equal: the write is saved over the
// concurrent writer's.
func r028(c *an.Ctx, rule string) {
	gau := c.Prog.Func(resPkg, "", "GetAndUpdate")
	if gau == nil {
		return
	}
	getIdx := -1
	for i, p := range gau.Params {
		if strings.HasSuffix(an.NamedTypeName(p.Type()), "/pkg/resource.GetFn") {
			getIdx = i
		}
	}
	if getIdx < 0 {
		return
	}
	n := 0
	for fn := range c.Prog.AllFuncs {
		if c.Prog.IsGenerated(fn.Pos()) {
			continue
		}
		for _, call := range an.CallsTo(fn, an.FuncQName(gau)) {
			g, _, _ := an.CallbackBody(call.Common().Args[getIdx])
			if g == nil {
				g = an.ClosureFn(call.Common().Args[getIdx])
			}
			if g == nil || g.Signature.Results().Len() != 2 {
				continue
			}
			n++
			c.SawFunc(an.FuncName(g))
			var bad *ssa.Return
			for _, r := range an.Returns(g) {
				if len(r.Results) != 2 || provablyNilAt(r.Results[1], r) {
					continue
				}
				for _, v := range an.ValuesAt(r.Results[0]) {
					if !an.IsNilConst(v) {
						bad = r
					}
				}
			}
			pos := g.Pos()
			if bad != nil {
				pos = bad.Pos()
			}
			c.Check(bad == nil, rule, an.FuncName(fn)+"|a read that fails returns no message", pos, "every return with an error returns a nil message",
				"the read callback returns a message together with an error: GetAndUpdate ignores the error of its re-read and compares the values, so a re-read that returns the remembered message with `already exists` passes the comparison and the write is saved over the concurrent writer's (two Adds of one id both succeed)")
		}
	}
	c.Count("read_callbacks", n)
}

// isWriteCallback: fn has the shape of a write interceptor - func(old, new proto.Message) - or is a closure inside one.
// r0212: a write succeeds only if EVERY precondition it carries held for the stored value. In the change function
// the expected-value comparison and the expected-check call are two independent tests: having passed one of them
// the other is still evaluated (one of the two evaluations reaches the other in the flow graph). Chained as
// alternatives (`else if`) a write that carries both is decided by the first alone.
func r0212(c *an.Ctx, rule string) {
	fn := mustFunc(c, rule, resPkg, "WriteRequest", "changeFn")
	if fn == nil {
		return
	}
	var eqB, chkB []*ssa.BasicBlock
	fromField := func(v ssa.Value, field string) bool {
		for _, s0 := range an.Sources(v) {
			for _, s1 := range append([]ssa.Value{s0}, an.SourcesOpaque(s0)...) {
				switch x := s1.(type) {
				case *ssa.UnOp:
					if _, _, f, ok := an.FieldOf(x.X); ok && f == field {
						return true
					}
				case *ssa.Field:
					if _, _, f, ok := an.FieldOf(x); ok && f == field {
						return true
					}
				case *ssa.FieldAddr:
					if _, _, f, ok := an.FieldOf(x); ok && f == field {
						return true
					}
				}
			}
		}
		return false
	}
	// (the two tests may live in a helper of the package the change function calls: wherever they are, they are together)
	for _, f := range c.Prog.FuncsIn(resPkg) {
		if strings.HasSuffix(c.Prog.RelFile(f.Pos()), "_test.go") {
			continue
		}
		an.Instrs(f, func(in ssa.Instruction) {
			call, ok := in.(*ssa.Call)
			if !ok {
				return
			}
			if an.CalleeName(call) == "google.golang.org/protobuf/proto.Equal" {
				for _, a := range call.Call.Args {
					if fromField(a, "expectedValue") {
						eqB = append(eqB, call.Block())
					}
				}
			}
			if call.Call.StaticCallee() == nil && !call.Call.IsInvoke() && fromField(call.Call.Value, "expectedCheck") {
				chkB = append(chkB, call.Block())
			}
		})
	}
	name := an.FuncName(fn)
	c.SawFunc(name)
	if len(eqB) == 0 || len(chkB) == 0 {
		c.Unk(rule, name+"|both preconditions are evaluated", fn.Pos(), "the expected-value comparison or the expected-check call was not found in the package")
		return
	}
	// every function that evaluates one of the two evaluates the other on the same path (Update's change function or
	// its helper, Delete)
	byFn := map[*ssa.Function][2][]*ssa.BasicBlock{}
	var order []*ssa.Function
	for _, b := range eqB {
		e, seen := byFn[b.Parent()]
		if !seen {
			order = append(order, b.Parent())
		}
		e[0] = append(e[0], b)
		byFn[b.Parent()] = e
	}
	for _, b := range chkB {
		e, seen := byFn[b.Parent()]
		if !seen {
			order = append(order, b.Parent())
		}
		e[1] = append(e[1], b)
		byFn[b.Parent()] = e
	}
	// a helper that makes one of the two tests counts, at its call sites, as that test; it is judged through its
	// callers when it has any (the expected check extracted into a function of its own)
	direct := map[*ssa.Function][2]bool{}
	for f, e := range byFn {
		direct[f] = [2]bool{len(e[0]) > 0, len(e[1]) > 0}
	}
	calledFrom := map[*ssa.Function][]*ssa.Function{}
	for _, f := range c.Prog.FuncsIn(resPkg) {
		if strings.HasSuffix(c.Prog.RelFile(f.Pos()), "_test.go") {
			continue
		}
		an.Instrs(f, func(in ssa.Instruction) {
			call, ok := in.(*ssa.Call)
			if !ok {
				return
			}
			g := call.Call.StaticCallee()
			d, has := direct[g]
			if g == nil || !has || d[0] == d[1] {
				return // not a helper that makes exactly one of the tests
			}
			e, seen := byFn[f]
			if !seen {
				order = append(order, f)
			}
			if d[0] {
				e[0] = append(e[0], call.Block())
			} else {
				e[1] = append(e[1], call.Block())
			}
			byFn[f] = e
			calledFrom[g] = append(calledFrom[g], f)
		})
	}
	for _, f := range order {
		e := byFn[f]
		if d := direct[f]; d[0] != d[1] && len(calledFrom[f]) > 0 && (len(e[0]) == 0 || len(e[1]) == 0) {
			continue // a one-test helper: its callers are judged
		}
		ok := false
		for _, a := range e[0] {
			for _, b := range e[1] {
				if blockReaches(a, b) || blockReaches(b, a) {
					ok = true
				}
			}
		}
		top := f
		for top.Parent() != nil {
			top = top.Parent()
		}
		c.SawFunc(an.FuncName(top))
		c.Check(ok, rule, an.FuncName(top)+"|both preconditions are evaluated", f.Pos(), "the expected-value comparison and the expected-check call lie on one path",
			"the expected-value comparison and the expected-check call exclude each other (or only one of them is made here): a write carrying both options is decided by one of them, and succeeds although the stored value fails the other")
	}
}

func isWriteCallback(fn *ssa.Function) bool {
	for f := fn; f != nil; f = f.Parent() {
		sig := f.Signature
		if sig.Recv() == nil && sig.Params().Len() == 2 && sig.Results().Len() == 0 &&
			strings.HasSuffix(sig.Params().At(0).Type().String(), "proto.Message") && strings.HasSuffix(sig.Params().At(1).Type().String(), "proto.Message") {
			return true
		}
	}
	return false
}

// r0210: a write decided on a snapshot carries the snapshot as its precondition. A function that reads items out of
// a collection (List / Get), looks at one of them and then deletes or updates THAT item (the id handed to the write
// is a field of the message that was read) has a window between the read and the write; another writer's
// successful update in that window must not be undone. The write carries resource.WithExpectedValue /
// WithExpectedCheck (hail's gc: an expired hail that was renewed meanwhile is not deleted).
func r0210(c *an.Ctx, rule string) {
	n := 0
	for _, fn := range c.Prog.FuncsIn("pkg/trait") {
		if c.Prog.IsGenerated(fn.Pos()) || strings.HasSuffix(c.Prog.RelFile(fn.Pos()), "_test.go") {
			continue
		}
		ord := 0
		an.Instrs(fn, func(in ssa.Instruction) {
			call, ok := in.(*ssa.Call)
			if !ok {
				return
			}
			cn := an.CalleeName(call)
			if !strings.HasSuffix(cn, "pkg/resource.Collection).Delete") && !strings.HasSuffix(cn, "pkg/resource.Collection).Update") {
				return
			}
			if len(call.Call.Args) < 2 {
				return
			}
			// the id is a field of a message read from a collection in this function
			fromRead := false
			for _, s := range an.Sources(call.Call.Args[1]) {
				u, isU := s.(*ssa.UnOp)
				if !isU {
					continue
				}
				fa, isFA := u.X.(*ssa.FieldAddr)
				if !isFA {
					continue
				}
				for _, rc := range readOrigins(fa.X, 0) {
					if (strings.HasSuffix(an.CalleeName(rc), "pkg/resource.Collection).List") || strings.HasSuffix(an.CalleeName(rc), "pkg/resource.Collection).Get")) && rc.Parent() == fn {
						fromRead = true
					}
				}
			}
			if !fromRead {
				return
			}
			ord++
			n++
			conditional := false
			for _, e := range variadicElems(call.Call.Args[len(call.Call.Args)-1]) {
				for _, s := range an.Sources(e) {
					if oc, isC := s.(*ssa.Call); isC {
						on := an.CalleeName(oc)
						if strings.HasSuffix(on, "pkg/resource.WithExpectedValue") || strings.HasSuffix(on, "pkg/resource.WithExpectedCheck") {
							conditional = true
						}
					}
				}
			}
			c.SawFunc(an.FuncName(fn))
			c.Check(conditional, rule, fmt.Sprintf("%s|write #%d on an item read earlier is conditional on what was read", an.FuncName(fn), ord), call.Pos(), "carries WithExpectedValue / WithExpectedCheck",
				"the function reads an item, decides on it and then writes that item without a precondition: a successful write by someone else between the read and this write is silently undone")
		})
	}
	c.Count("read_then_write_sites", n)
}

// readOrigins: the calls a message value was obtained from, looking through type assertions, tuple extraction and the
// element loads of a range over a slice.
func readOrigins(v ssa.Value, depth int) []*ssa.Call {
	if depth > 8 {
		return nil
	}
	var out []*ssa.Call
	for _, s := range an.Sources(v) {
		switch x := s.(type) {
		case *ssa.Call:
			out = append(out, x)
		case *ssa.Extract:
			if c, ok := x.Tuple.(*ssa.Call); ok {
				out = append(out, c)
			} else {
				out = append(out, readOrigins(x.Tuple, depth+1)...)
			}
		case *ssa.TypeAssert:
			out = append(out, readOrigins(x.X, depth+1)...)
		case *ssa.UnOp:
			if ia, ok := x.X.(*ssa.IndexAddr); ok {
				out = append(out, readOrigins(ia.X, depth+1)...)
			}
		case *ssa.Index:
			out = append(out, readOrigins(x.X, depth+1)...)
		}
	}
	return out
}
