package props

import (
	"go/token"

	"golang.org/x/tools/go/ssa"

	"scverif/an"
)

// Helpers for rules about a small protocol function (GetAndUpdate) whose steps may have been moved into helpers of the
// same module: the invocations of its function-valued parameters, the locks held there and the values that flow
// between them are followed through those helpers, so that `readLocked(mu, get)` is read as `mu.RLock(); get();
// mu.RUnlock()`.

// deepSite is an invocation of a function-valued parameter of a root function, directly in it or in a helper the
// parameter was handed to; chain lists the calls from the root down to the function that contains call.
type deepSite struct {
	call  *ssa.Call
	chain []*ssa.Call
}

func (d deepSite) fn() *ssa.Function { return d.call.Parent() }

// top is the instruction of the site at level k of its chain (k == len(chain): the invocation itself).
func (d deepSite) at(k int) *ssa.Call {
	if k < len(d.chain) {
		return d.chain[k]
	}
	return d.call
}

func moduleHelper(call *ssa.Call) *ssa.Function {
	g := call.Call.StaticCallee()
	if g == nil || len(g.Blocks) == 0 || !an.InModule(g) {
		return nil
	}
	return g
}

// deepCallsOfParam lists the invocations of prm (a parameter of fn): direct ones in instruction order first, then those
// in helpers prm is passed to (depth-bounded).
func deepCallsOfParam(fn *ssa.Function, prm *ssa.Parameter) []deepSite {
	var out []deepSite
	var walk func(f *ssa.Function, p *ssa.Parameter, chain []*ssa.Call)
	walk = func(f *ssa.Function, p *ssa.Parameter, chain []*ssa.Call) {
		if len(chain) > 3 {
			return
		}
		an.Instrs(f, func(in ssa.Instruction) {
			c, ok := in.(*ssa.Call)
			if !ok {
				return
			}
			if c.Call.Value == p {
				out = append(out, deepSite{call: c, chain: append([]*ssa.Call(nil), chain...)})
				return
			}
			g := moduleHelper(c)
			if g == nil || g == f {
				return
			}
			for j, a := range c.Call.Args {
				if a == ssa.Value(p) && j < len(g.Params) {
					walk(g, g.Params[j], append(append([]*ssa.Call(nil), chain...), c))
				}
			}
		})
	}
	walk(fn, prm, nil)
	return out
}

// siteLocks analyses the function at the end of chain with the locks its callers hold: it returns that function's lock
// info and the name the root's lock `lock` has there ("" when the mutex is not handed down).
func siteLocks(root *ssa.Function, lock string, chain []*ssa.Call) (*an.LockInfo, string) {
	entry := an.LockSet{}
	li := an.Locks(root, entry)
	for _, c := range chain {
		g := c.Call.StaticCallee()
		held := li.At(c)
		next := ""
		for i, a := range c.Call.Args {
			if i < len(g.Params) && lock != "" && an.AccessPath(a) == lock {
				next = g.Params[i].Name()
			}
		}
		li = an.Locks(g, an.TranslateToCallee(c, g, held))
		lock = next
	}
	return li, lock
}

// heldAt is the mode in which the root's lock is held at the site.
func (d deepSite) heldAt(root *ssa.Function, lock string) an.LockMode {
	li, name := siteLocks(root, lock, d.chain)
	if name == "" {
		return 0
	}
	return li.At(d.call)[name]
}

type deepVal struct {
	v     ssa.Value
	chain []*ssa.Call
}

// deepLeaves resolves v (a value in the function at the end of chain) to the values it may hold: through local cells,
// through the parameters of a helper to the arguments of the call in chain, and through the results of module helpers.
func deepLeaves(v ssa.Value, chain []*ssa.Call, depth int) []deepVal {
	var out []deepVal
	for _, x := range an.ValuesAt(v) {
		if depth < 6 {
			if p, ok := x.(*ssa.Parameter); ok && len(chain) > 0 {
				last := chain[len(chain)-1]
				if g := last.Call.StaticCallee(); g == p.Parent() {
					for i, q := range g.Params {
						if q == p && i < len(last.Call.Args) {
							out = append(out, deepLeaves(last.Call.Args[i], chain[:len(chain)-1], depth+1)...)
						}
					}
					continue
				}
			}
			var call *ssa.Call
			idx := 0
			switch y := x.(type) {
			case *ssa.Call:
				call = y
			case *ssa.Extract:
				call, _ = y.Tuple.(*ssa.Call)
				idx = y.Index
			}
			if call != nil {
				if g := moduleHelper(call); g != nil && len(chain) < 4 && !inChain(chain, g) {
					rets := an.Returns(g)
					if len(rets) > 0 {
						sub := append(append([]*ssa.Call(nil), chain...), call)
						for _, r := range rets {
							if idx < len(r.Results) {
								out = append(out, deepLeaves(r.Results[idx], sub, depth+1)...)
							}
						}
						continue
					}
				}
			}
		}
		out = append(out, deepVal{x, chain})
	}
	return out
}

func inChain(chain []*ssa.Call, g *ssa.Function) bool {
	for _, c := range chain {
		if c.Call.StaticCallee() == g || c.Parent() == g {
			return true
		}
	}
	return false
}

// deepIsResult reports whether v is, on every path, result idx of the invocation at site.
func deepIsResult(v ssa.Value, chain []*ssa.Call, site deepSite, idx int) bool {
	ls := deepLeaves(v, chain, 0)
	if len(ls) == 0 {
		return false
	}
	for _, l := range ls {
		if !an.IsExtractOf(l.v, site.call, idx) {
			return false
		}
	}
	return true
}

// deepGuardedByNil reports whether the instruction a (with its chain) only runs when result errIdx of the invocation at
// b was nil. The test may be made in any function both have in common; when b sits in a helper, the helper has to hand
// b's error on (every return either runs with b's error known nil or returns that error).
func deepGuardedByNil(a deepSite, b deepSite, errIdx int) bool {
	p := 0
	for p < len(a.chain) && p < len(b.chain) && a.chain[p] == b.chain[p] {
		p++
	}
	ia, ib := a.at(p), b.at(p)
	if ia.Parent() != ib.Parent() {
		return false
	}
	if ib == b.call {
		return an.GuardedByNilResult(ia, ib, errIdx)
	}
	// b is inside the helper called by ib
	if len(b.chain) != p+1 {
		return false
	}
	h := ib.Call.StaticCallee()
	last := h.Signature.Results().Len() - 1
	if last < 0 || !an.IsErrorType(h.Signature.Results().At(last).Type()) {
		return false
	}
	for _, r := range an.Returns(h) {
		if an.GuardedByNilResult(r, b.call, errIdx) {
			continue
		}
		vs := an.ValuesAt(r.Results[last])
		if len(vs) == 0 {
			return false
		}
		for _, x := range vs {
			if !an.IsExtractOf(x, b.call, errIdx) {
				return false
			}
		}
	}
	return an.GuardedByNilResult(ia, ib, last)
}

// equalGuard describes a proto.Equal test guarding an instruction.
type equalGuard struct {
	edge an.CondEdge
	a, b ssa.Value
}

func equalGuardsOf(in ssa.Instruction) []equalGuard {
	var out []equalGuard
	for _, e := range an.GuardingEdges(in) {
		eq, isCall := e.If.Cond.(*ssa.Call)
		neg := false
		if u, isU := e.If.Cond.(*ssa.UnOp); isU && u.Op == token.NOT {
			eq, isCall = u.X.(*ssa.Call)
			neg = true
		}
		if !isCall || an.CalleeName(eq) != "google.golang.org/protobuf/proto.Equal" {
			continue
		}
		if e.Branch == neg {
			continue // the instruction is on the not-equal side
		}
		out = append(out, equalGuard{edge: e, a: eq.Call.Args[0], b: eq.Call.Args[1]})
	}
	return out
}

// lockFree reports whether the functions below level k of the site's chain never touch a mutex themselves (their lock
// state at the site is the one they were entered with).
func (d deepSite) lockFreeBelow(k int) bool {
	for i := k; i < len(d.chain); i++ {
		g := d.chain[i].Call.StaticCallee()
		free := true
		an.Instrs(g, func(in ssa.Instruction) {
			if an.IsLockOp(in) {
				free = false
			}
		})
		if !free {
			return false
		}
	}
	return true
}
