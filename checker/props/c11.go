package props

import (
	"fmt"
	"go/token"
	"go/types"
	"sort"
	"strings"

	"golang.org/x/tools/go/ssa"

	"scverif/an"
)

func init() {
	register(&Prop{
		ID:          "C11",
		Title:       "Concurrent use of the public API is free of data races",
		Explanation: "Decides structural necessary conditions of race freedom: R11.7 no function appends onto its own variadic parameter (the caller's slice); R11.6 a method of a struct that has no mutex (wrapped-client tables, option structs) never writes its receiver's fields unless it only runs during construction; R11.1 (guarded fields, plus the annotated entry config.rng: every use of the collection's random source happens under one lock held exclusively); R11.2 published messages are immutable (E2, shared with C07) and no plain append extends a published slice; R11.3 in pkg/wrap the close error is written before serverSend is closed and every read is protected by a lock every write holds, or happens on the server side, or is dominated by a receive that observed serverSend closed. R11.1 detail: every access (outside constructors) to a field that is written under its struct's sibling mutex somewhere, or that is in the hand-confirmed guarded table, holds that mutex (any mode for reads, exclusive for writes), with lock sets propagated to unexported helpers and synchronous callbacks. R11.4 stored items are never written after construction (lock-free reads of looked-up items). R11.5 the wrapped stream's trailer is accessed only under one common mutex and its header is written only under headerM while headerC is still open. Does NOT decide race freedom in general: no points-to analysis, no happens-before graph, callbacks supplied by callers are not analysed.",
		Assumptions: []string{"locks are identified by access path (no aliasing of mutexes)", "sort.Slice/sort.Search and friends invoke their callback synchronously"},
		Run:         runC11,
		Controls: []Control{
			{Name: "ramp-error-variable-read-after-go", File: "pkg/trait/lightpb/memory.go", Old: "\t\treturn startVal, nil\n", New: "\t\treturn startVal, err\n", Expect: "R11.12"},
			{Name: "normalise-the-callers-paths-in-place", File: "pkg/masks/update.go", Old: "\tmask := &fieldmaskpb.FieldMask{Paths: append([]string(nil), paths...)}\n", New: "\tmask := &fieldmaskpb.FieldMask{Paths: paths}\n", Expect: "R11.9"},
			{Name: "revert-F63-append-onto-callers-mask", File: "pkg/masks/util.go", Old: "\t\t\tout.Paths = append(out.Paths, path)\n", New: "\t\t\tout.Paths = append(mask.Paths, path)\n", Expect: "R11.8"},
			{Name: "revert-F55-append-to-variadic", File: "pkg/trait/lightpb/model.go", Old: "\t\topts = append(append([]resource.WriteOption(nil), opts...), resource.WithMoreUpdatePaths(\"level_percent\"))", New: "\t\topts = append(opts, resource.WithMoreUpdatePaths(\"level_percent\"))", Expect: "R11.7"},
			{Name: "variadic-capped-before-append", Silent: true, File: "pkg/trait/lightpb/model.go", Old: "\t\topts = append(append([]resource.WriteOption(nil), opts...), resource.WithMoreUpdatePaths(\"level_percent\"))", New: "\t\topts = append(opts[:len(opts):len(opts)], resource.WithMoreUpdatePaths(\"level_percent\"))"},
			{Name: "revert-F39-trailer-unlocked", File: "pkg/wrap/stream.go", Old: "func (c *clientStream) Trailer() metadata.MD {\n\tc.trailerM.Lock()\n\tdefer c.trailerM.Unlock()\n", New: "func (c *clientStream) Trailer() metadata.MD {\n", Expect: "R11.5"},
			{Name: "revert-F40-late-setheader", File: "pkg/wrap/stream.go", Old: "func (s *serverStream) SetHeader(md metadata.MD) error {\n\ts.headerM.Lock()\n\tdefer s.headerM.Unlock()\n\n\tselect {\n\tcase <-s.headerC:\n\t\t// like a real server: once the headers have gone out (the client may be reading them) they can't be added to\n\t\treturn errors.New(\"headers already sent\")\n\tdefault:\n\t}\n", New: "func (s *serverStream) SetHeader(md metadata.MD) error {\n", Expect: "R11.5"},
			{Name: "revert-F35-shared-default-rng", File: "pkg/trait/electricpb/model_opts.go", Old: "\tWithClock(clock.Real()),\n", New: "\tWithClock(clock.Real()),\n\tWithRNG(rand.New(rand.NewSource(rand.Int63()))),\n", Expect: "R11.1"},
			{Name: "get-without-rlock", File: "pkg/resource/value.go", Old: "\tr.mu.RLock()\n\tdefer r.mu.RUnlock()\n\treturn req.FilterClone(r.value)", New: "\treturn req.FilterClone(r.value)", Expect: "R11.1"},
			{Name: "router-has-without-lock", File: "pkg/router/router.go", Old: "\tr.mu.RLock()\n\tdefer r.mu.RUnlock()\n\t_, exists := r.registry[name]", New: "\t_, exists := r.registry[name]", Expect: "R11.1"},
			{Name: "collect-without-lock", File: "internal/minibus/bus.go", Old: "\tb.listenerM.Lock()\n\tdefer b.listenerM.Unlock()\n\n\tvar activeListeners", New: "\tvar activeListeners", Expect: "R11.1"},
			{Name: "write-under-rlock", File: "pkg/router/router.go", Old: "\tr.mu.Lock()\n\told := r.registry[name]\n\tr.registry[name] = client\n\tr.mu.Unlock()", New: "\tr.mu.RLock()\n\told := r.registry[name]\n\tr.registry[name] = client\n\tr.mu.RUnlock()", Expect: "R11.1"},
			{Name: "revert-F9-rng-unguarded", File: "pkg/resource/collection.go", Old: "\tc.rngMu.Lock()\n\tdefer c.rngMu.Unlock()\n", New: "", Expect: "config.rng"},
			{Name: "revert-F10-closeerr-unguarded", File: "pkg/wrap/stream.go", Old: "\ts.closeErrM.Lock()\n\tdefer s.closeErrM.Unlock()\n", New: "", Expect: "R11.3"},
			{Name: "waste-read-without-lock", File: "pkg/trait/wastepb/model.go", Old: "func (m *Model) GetWasteRecordCount() int {\n\tm.mu.Lock()\n\tdefer m.mu.Unlock()\n", New: "func (m *Model) GetWasteRecordCount() int {\n", Expect: "R11.1"},
			{Name: "wrapper-caches-adapter", File: "pkg/wrap/wrap.go", Old: "\t\t\tmatched = adaptUnaryToStream(matchedMethod)\n", New: "\t\t\tmatched = adaptUnaryToStream(matchedMethod)\n\t\t\tw.streams[method] = matched\n", Expect: "R11.6"},
			{Name: "wrapper-adapter-in-local", Silent: true, File: "pkg/wrap/wrap.go", Old: "\t\t\tmatched = adaptUnaryToStream(matchedMethod)\n", New: "\t\t\tadapter := adaptUnaryToStream(matchedMethod)\n\t\t\tmatched = adapter\n"},
			{Name: "lock-for-reads", Silent: true, File: "pkg/router/router.go", Old: "\tr.mu.RLock()\n\tdefer r.mu.RUnlock()\n\t_, exists := r.registry[name]", New: "\tr.mu.Lock()\n\tdefer r.mu.Unlock()\n\t_, exists := r.registry[name]"},
		},
	})
}

func runC11(c *an.Ctx) {
	g := analyseGuarded(c)
	for _, k := range sortedGuarded(g) {
		c.Note("guarded field %s.%s (%s)", k.Struct, k.Field, g.Guarded[k])
	}
	// the confirmed table must be found (G3)
	for s, fs := range confirmedGuarded {
		for f := range fs {
			found := false
			for _, a := range g.Accesses {
				if a.Struct == s && a.Field == f {
					found = true
				}
			}
			if !found {
				c.Unk("R11.1", "guarded table|"+s+"."+f, 0, "a hand-confirmed guarded field is no longer accessed anywhere (renamed or removed): the lock discipline cannot be checked")
			}
		}
	}
	reportGuarded(c, "R11.1", g, func(string) bool { return true })
	r111rng(c)
	r111shared(c)
	runE2(c, "R11.2", nil)
	r112append(c)
	r113(c)
	r113header(c)
	// stored items are read without a lock after they were looked up (Delete evaluates its preconditions on the
	// item it found): that is race-free only because an item is never written once it is in the map
	r026(c, "R11.4")
	c.Min("R11.4", 3)
	r115(c)
	r116(c)
	r117(c)
	r118(c, "R11.8")
	r119(c, "R11.9")
	c.Min("R11.9", 2)
	c.Min("R11.8", 1)
	c.Min("R11.5", 2)
	c.Min("R11.6", 10)
	r076as(c, "R11.10") // a published message is never handed to a write whose before-interceptor edits its argument: lock-free readers race with that edit (shared with R07.6)
	c.Min("R11.10", 1)
	r1316as(c, "R11.11") // a message handed to the other side of a wrapped stream is a copy: the receiver merges from it after Send has returned (shared with R13.16)
	c.Min("R11.11", 2)
	r1112(c, "R11.12") // (no minimum: a goroutine body moved to a named method captures nothing; the control mutant keeps the rule honest)
	c.Min("R11.7", 1)
	c.Min("R11.1", 40)
	c.Min("R11.2", 60)
	c.Min("R11.3", 4)
}

func sortedGuarded(g *guardedResult) []guardedField {
	var ks []guardedField
	for k := range g.Guarded {
		ks = append(ks, k)
	}
	sort.Slice(ks, func(i, j int) bool {
		if ks[i].Struct != ks[j].Struct {
			return ks[i].Struct < ks[j].Struct
		}
		return ks[i].Field < ks[j].Field
	})
	return ks
}

// r111rng: the collection's source of randomness (config.rng, an io.Reader that is a
// *math/rand.Rand by default and is not safe for concurrent use; collection.go documents
// "mu protects byId and rng") is only used while a lock is held exclusively, the same lock
// at every use.
func r111rng(c *an.Ctx) {
	const rule = "R11.1"
	w := lockWorld(c)
	type use struct {
		in   ssa.Instruction
		fn   *ssa.Function
		held an.LockSet
	}
	var uses []use
	for _, fn := range c.Prog.FuncsIn("pkg/resource") {
		an.Instrs(fn, func(in ssa.Instruction) {
			u, ok := in.(*ssa.UnOp)
			if !ok {
				return
			}
			fa, ok := u.X.(*ssa.FieldAddr)
			if !ok {
				return
			}
			_, sn, f, _ := an.FieldOf(fa)
			if f != "rng" || !strings.HasSuffix(sn, "/pkg/resource.config") {
				return
			}
			for _, r := range an.Referrers(u) {
				switch x := r.(type) {
				case ssa.CallInstruction:
					uses = append(uses, use{x, fn, w.At(x)})
				}
			}
		})
	}
	if len(uses) == 0 {
		c.Unk(rule, "pkg/resource.config.rng|uses", 0, "no use of the collection's rng found")
		return
	}
	common := map[string]bool{}
	for i, u := range uses {
		cur := map[string]bool{}
		for k, m := range u.held {
			if m >= an.WLock {
				cur[k] = true
			}
		}
		if i == 0 {
			common = cur
		} else {
			for k := range common {
				if !cur[k] {
					delete(common, k)
				}
			}
		}
	}
	// the default random source is created per resource (a package-level generator would be shared by
	// resources whose locks know nothing of each other)
	if cc := c.Prog.Func(resPkg, "", "computeConfig"); cc != nil {
		fresh, found := true, false
		an.Instrs(cc, func(in ssa.Instruction) {
			st, ok := in.(*ssa.Store)
			if !ok {
				return
			}
			if _, sn, f, isF := an.FieldOf(st.Addr); !isF || f != "rng" || !strings.HasSuffix(sn, "/pkg/resource.config") {
				return
			}
			found = true
			for _, s := range an.Sources(st.Val) {
				call, isCall := s.(*ssa.Call)
				if !isCall || an.CalleeName(call) != "math/rand.New" {
					fresh = false
				}
			}
		})
		c.Check(found && fresh, rule, "pkg/resource.computeConfig|default random source is created per resource", cc.Pos(), "rng: rand.New(…) per call",
			"the default random source is not a generator created for this resource: several resources share one *rand.Rand while each only holds its own lock")
	}
	for _, u := range uses {
		c.SawFunc(an.FuncName(u.fn))
		c.Check(len(common) > 0, rule, an.FuncName(u.fn)+"|use of config.rng under an exclusive lock", u.in.Pos(), "lock set "+u.held.String(),
			"the shared random source is read with lock set "+u.held.String()+" (entry: "+w.Why[u.fn]+"): no lock is held exclusively at every use, so two concurrent id generations (both under the read lock) call rng.Read concurrently - a data race on *math/rand.Rand")
	}
}

// r112append: a plain append onto a published slice writes into spare capacity that other
// goroutines appending to the same published slice share.
func r112append(c *an.Ctx) {
	const rule = "R11.2"
	w := publishedWorld(c)
	for _, fn := range e2Scope(c) {
		_, taint := w.Analyse(fn)
		an.Instrs(fn, func(in ssa.Instruction) {
			call, ok := in.(*ssa.Call)
			if !ok || an.CalleeName(call) != "builtin append" {
				return
			}
			if taint[call.Call.Args[0]]&an.TSelf == 0 {
				return
			}
			if _, isSub := call.Call.Args[0].(*ssa.Slice); isSub {
				return // reported as a write by R07.1 / R11.2 already
			}
			c.Bad(rule, an.FuncName(fn)+"|append onto a published slice", call.Pos(), "append(published slice, …) writes into the spare capacity of a backing array shared with the stored message: two goroutines doing so concurrently (interceptors run outside the lock) race on the same slot")
		})
	}
}

// r113: hand-off of closeErr in wrap/stream.go.
func r113(c *an.Ctx) {
	const rule = "R11.3"
	w := lockWorld(c)
	isField := func(v ssa.Value, f string) bool {
		_, sn, fld, ok := an.FieldOf(v)
		return ok && fld == f && strings.HasSuffix(sn, "/pkg/wrap.ClientServerStream")
	}
	type access struct {
		in    ssa.Instruction
		fn    *ssa.Function
		write bool
	}
	var accs []access
	for _, fn := range c.Prog.FuncsIn("pkg/wrap") {
		an.Instrs(fn, func(in ssa.Instruction) {
			switch x := in.(type) {
			case *ssa.Store:
				if isField(x.Addr, "closeErr") {
					accs = append(accs, access{in, fn, true})
				}
			case *ssa.UnOp:
				if x.Op == token.MUL && isField(x.X, "closeErr") {
					accs = append(accs, access{in, fn, false})
				}
			}
		})
	}
	var writes []access
	for _, a := range accs {
		if a.write {
			writes = append(writes, a)
		}
	}
	if len(writes) == 0 {
		c.Unk(rule, "pkg/wrap.ClientServerStream.closeErr|writes", 0, "no write of closeErr found")
		return
	}
	// locks held exclusively at every write
	writeLocks := map[string]bool{}
	for i, wr := range writes {
		cur := map[string]bool{}
		for k, m := range w.At(wr.in) {
			if m >= an.WLock {
				cur[lockField(k)] = true
			}
		}
		if i == 0 {
			writeLocks = cur
		} else {
			for k := range writeLocks {
				if !cur[k] {
					delete(writeLocks, k)
				}
			}
		}
		// order: the write precedes close(serverSend) and the cancel
		if wr.fn.Name() == "Close" {
			okOrder := false
			an.Instrs(wr.fn, func(in ssa.Instruction) {
				if cl, ok := in.(*ssa.Call); ok && an.CalleeName(cl) == "builtin close" && isField(cl.Call.Args[0], "serverSend") {
					if an.Dominates(wr.in, cl) && !an.Reaches(cl, wr.in) {
						okOrder = true
					}
				}
			})
			c.Check(okOrder, rule, "(*pkg/wrap.ClientServerStream).Close|closeErr is set before serverSend is closed", wr.in.Pos(), "", "closeErr is assigned after close(serverSend): a receiver that observes the closed channel reads a stale error")
		}
	}
	serverSide := func(fn *ssa.Function) bool {
		if fn.Signature.Recv() == nil {
			return false
		}
		n := an.NamedTypeName(fn.Signature.Recv().Type())
		return strings.HasSuffix(n, "/pkg/wrap.serverStream") || fn.Name() == "Close"
	}
	guardedByClosedServerSend := func(at ssa.Instruction) bool {
		for _, e := range an.GuardingEdges(at) {
			if e.Branch {
				// the edge must be the "!ok" one; conditions are `ok` (false edge) or `!ok` (true edge)
				if u, isNot := e.If.Cond.(*ssa.UnOp); !isNot || u.Op != token.NOT {
					continue
				}
			}
			var okVal ssa.Value = e.If.Cond
			if u, isNot := okVal.(*ssa.UnOp); isNot && u.Op == token.NOT {
				okVal = u.X
				if !e.Branch {
					continue
				}
			} else if e.Branch {
				continue
			}
			ex, isEx := okVal.(*ssa.Extract)
			if !isEx || ex.Index != 1 {
				continue
			}
			switch t := ex.Tuple.(type) {
			case *ssa.Select:
				for _, st := range t.States {
					if st.Dir == types.RecvOnly && isField(st.Chan, "serverSend") {
						return true
					}
				}
			case *ssa.UnOp:
				if t.Op == token.ARROW && isField(t.X, "serverSend") {
					return true
				}
			}
		}
		return false
	}
	var check func(read ssa.Instruction, fn *ssa.Function, depth int) (bool, string)
	check = func(read ssa.Instruction, fn *ssa.Function, depth int) (bool, string) {
		// (a) a lock shared with every write
		for k, m := range w.At(read) {
			if m >= an.RLock && writeLocks[lockField(k)] {
				return true, "protected by " + lockField(k) + ", which every write holds"
			}
		}
		// (c) server side: Close is called by the goroutine that runs the handler
		if serverSide(fn) {
			return true, "server-side method (same goroutine as Close)"
		}
		// (b) dominated by a receive that observed serverSend closed
		if guardedByClosedServerSend(read) {
			return true, "dominated by a receive that observed serverSend closed"
		}
		// helper: all its call sites must qualify
		if depth < 2 && fn.Object() != nil && !fn.Object().Exported() {
			n := 0
			allOK := true
			why := ""
			for _, caller := range c.Prog.FuncsIn("pkg/wrap") {
				for _, call := range an.CallsTo(caller, an.FuncQName(fn)) {
					n++
					ok, y := check(call, caller, depth+1)
					if !ok {
						allOK = false
						why = "called from " + an.FuncName(caller) + " at " + c.Prog.Rel(call.Pos()) + ": " + y
					}
				}
			}
			if n > 0 && allOK {
				return true, fmt.Sprintf("helper: all %d call sites qualify", n)
			}
			if n > 0 {
				return false, why
			}
		}
		return false, "read without a lock shared with the write and not ordered after observing serverSend closed (a parent-context cancellation wakes this path while the handler goroutine is still writing closeErr in Close)"
	}
	for _, a := range accs {
		if a.write {
			continue
		}
		// report per (function -> call site) to name the offending caller
		if a.fn.Object() != nil && !a.fn.Object().Exported() && !serverSide(a.fn) {
			reported := false
			for _, caller := range c.Prog.FuncsIn("pkg/wrap") {
				for _, call := range an.CallsTo(caller, an.FuncQName(a.fn)) {
					ok, why := check(call, caller, 1)
					// a lock inside the helper covers all callers
					if hk, _ := check(a.in, a.fn, 5); hk {
						ok, why = true, "protected inside "+an.FuncName(a.fn)
					}
					reported = true
					c.SawFunc(an.FuncName(caller))
					c.Check(ok, rule, an.FuncName(caller)+"|read of closeErr is ordered after its write", call.Pos(), why, why)
				}
			}
			if reported {
				continue
			}
		}
		ok, why := check(a.in, a.fn, 0)
		c.SawFunc(an.FuncName(a.fn))
		c.Check(ok, rule, an.FuncName(a.fn)+"|read of closeErr is ordered after its write", a.in.Pos(), why, why)
	}
}

// r113header: the client reads the header only after it observed headerC closed (the server writes the
// header under headerM before closing headerC).
func r113header(c *an.Ctx) {
	const rule = "R11.3"
	for _, fn := range c.Prog.FuncsIn("pkg/wrap") {
		if fn.Signature.Recv() == nil || !strings.HasSuffix(an.NamedTypeName(fn.Signature.Recv().Type()), "/pkg/wrap.clientStream") {
			continue
		}
		an.Instrs(fn, func(in ssa.Instruction) {
			u, ok := in.(*ssa.UnOp)
			if !ok || u.Op != token.MUL {
				return
			}
			if _, sn, f, isF := an.FieldOf(u.X); !isF || f != "header" || !strings.HasSuffix(sn, "/pkg/wrap.ClientServerStream") {
				return
			}
			// guarded by a select case / receive on headerC, taken here or inside a helper that answers true only then
			var observedHeaderC func(e an.CondEdge, depth int) bool
			observedHeaderC = func(e an.CondEdge, depth int) bool {
				cond, branch := e.If.Cond, e.Branch
				for {
					if n, isNot := cond.(*ssa.UnOp); isNot && n.Op == token.NOT {
						cond, branch = n.X, !branch
						continue
					}
					break
				}
				if bo, isBO := cond.(*ssa.BinOp); isBO && branch {
					ex, isEx := bo.X.(*ssa.Extract)
					if !isEx || ex.Index != 0 {
						return false
					}
					sel, isSel := ex.Tuple.(*ssa.Select)
					idx, isC := an.ConstInt(bo.Y)
					if !isSel || !isC || int(idx) >= len(sel.States) {
						return false
					}
					st := sel.States[idx]
					_, _, f, isF := an.FieldOf(st.Chan)
					return st.Dir == types.RecvOnly && isF && f == "headerC"
				}
				// `if c.headersSent()`: a local closure / helper the rules have not seen, every `true` of which is
				// produced after such a receive
				if call, isCall := cond.(*ssa.Call); isCall && branch && depth < 2 {
					h := an.TransparentCallee(call)
					if h == nil || h.Signature.Results().Len() != 1 {
						return false
					}
					for _, r := range an.Returns(h) {
						for _, lf := range an.PhiLeaves(r.Results[0]) {
							if b, isC := an.ConstBool(lf.Val); isC && !b {
								continue
							}
							ok := false
							for _, e2 := range append(append([]an.CondEdge{}, lf.Conds...), an.GuardingEdges(r)...) {
								if observedHeaderC(e2, depth+1) {
									ok = true
								}
							}
							if !ok {
								return false
							}
						}
					}
					return true
				}
				return false
			}
			// every path to the read takes some edge on which headerC was observed closed (the paths may differ:
			// `case <-c.headerC:` on one, `if c.headerSent()` after ctx.Done on another)
			t, _ := an.PathQuery{
				Target: func(x ssa.Instruction) bool { return x == ssa.Instruction(u) },
				AvoidEdge: func(from, to *ssa.BasicBlock) bool {
					iff, isIf := from.Instrs[len(from.Instrs)-1].(*ssa.If)
					if !isIf || from.Succs[0] == from.Succs[1] {
						return false
					}
					return observedHeaderC(an.CondEdge{If: iff, Branch: to == from.Succs[0]}, 0)
				},
			}.From(fn, nil)
			guarded := t == nil
			c.SawFunc(an.FuncName(fn))
			c.Check(guarded, rule, an.FuncName(fn)+"|read of header is ordered after headerC was closed", u.Pos(), "dominated by a receive on headerC",
				"the client reads the stream header without having observed headerC closed: the handler goroutine may still be writing it (grpc.SetHeader / SendHeader)")
		})
	}
}

func lockField(path string) string {
	if i := strings.LastIndex(path, "."); i >= 0 {
		return path[i+1:]
	}
	return path
}

// r111shared: a source of randomness created in a package initialiser (e.g. inside a default option list) is
// shared by every resource built with the defaults, while each collection's rngMu only serialises its own use.
func r111shared(c *an.Ctx) {
	const rule = "R11.1"
	n := 0
	for _, fn := range c.Prog.FuncsIn("pkg") {
		if fn.Name() != "init" || fn.Parent() != nil || fn.Signature.Recv() != nil {
			continue
		}
		rel := an.ModRel(fn.Package().Pkg.Path())
		if !(rel == "pkg/resource" || strings.HasPrefix(rel, "pkg/trait")) {
			continue
		}
		n++
		var bad ssa.Instruction
		for _, f := range an.WithClosures(fn) {
			an.Instrs(f, func(in ssa.Instruction) {
				if an.IsCallTo(in, "math/rand.New", "math/rand/v2.New") {
					bad = in
				}
			})
		}
		cons := rel + "|no source of randomness is created once for all resources"
		if bad != nil {
			c.Bad(rule, cons, bad.Pos(), "a *rand.Rand is created in a package initialiser (a package-level variable or default option list): every resource configured from it shares one unsynchronised source, so generating ids in two collections at the same time is a data race in math/rand")
		} else {
			c.Ok(rule, cons, fn.Pos(), "")
		}
	}
	c.Count("package_initialisers", n)
}

// r115: the metadata a wrapped stream hands from the handler's goroutine to the client's. A cancelled call returns to
// the client while the handler may still be running, so "the handler has finished" orders nothing:
//   - trailer: every access (SetTrailer on the server side, Trailer on the client side) holds one common mutex;
//   - header: written only under headerM and only while headerC is still open (close(headerC), also under headerM, is
//     what publishes it to Header() - see R11.3 for the reading side), so nothing writes it once a client may read it.
func r115(c *an.Ctx) {
	const rule = "R11.5"
	w := lockWorld(c)
	isField := func(v ssa.Value, f string) bool {
		_, sn, fld, ok := an.FieldOf(v)
		return ok && fld == f && strings.HasSuffix(sn, "/pkg/wrap.ClientServerStream")
	}
	type access struct {
		in    ssa.Instruction
		fn    *ssa.Function
		write bool
	}
	collect := func(field string) []access {
		var out []access
		for _, fn := range c.Prog.FuncsIn("pkg/wrap") {
			if fn.Name() == "NewClientServerStream" {
				continue
			}
			an.Instrs(fn, func(in ssa.Instruction) {
				switch x := in.(type) {
				case *ssa.Store:
					if isField(x.Addr, field) {
						out = append(out, access{in, fn, true})
					}
				case *ssa.UnOp:
					if x.Op == token.MUL && isField(x.X, field) {
						out = append(out, access{in, fn, false})
					}
				}
			})
		}
		return out
	}
	// trailer
	tr := collect("trailer")
	if len(tr) == 0 {
		c.Unk(rule, "pkg/wrap.ClientServerStream.trailer|accesses", 0, "no access to the trailer found")
	} else {
		var common map[string]bool
		var where ssa.Instruction
		for _, a := range tr {
			cur := map[string]bool{}
			for k, m := range w.At(a.in) {
				if !a.write || m >= an.WLock {
					cur[lockField(k)] = true
				}
			}
			if len(cur) == 0 && where == nil {
				where = a.in
			}
			if common == nil {
				common = cur
				continue
			}
			for k := range common {
				if !cur[k] {
					delete(common, k)
				}
			}
		}
		pos := tr[0].in.Pos()
		if where != nil {
			pos = where.Pos()
		}
		for _, a := range tr {
			c.SawFunc(an.FuncName(a.fn))
		}
		c.Check(len(common) > 0, rule, "pkg/wrap.ClientServerStream.trailer|every access holds one common mutex", pos, fmt.Sprintf("%d accesses", len(tr)),
			"the trailer is written by the handler (SetTrailer) and read by the client (Trailer) without a common lock: a client whose context is cancelled reads it while the handler is still running - a data race (the read is not ordered after the handler's end)")
	}
	// header writes
	n := 0
	for _, a := range collect("header") {
		if !a.write {
			continue
		}
		n++
		held := w.At(a.in)
		locked := false
		for k, m := range held {
			if strings.HasSuffix(k, ".headerM") && m >= an.WLock {
				locked = true
			}
		}
		open := false
		for _, e := range an.GuardingEdges(a.in) {
			bo, isBO := e.If.Cond.(*ssa.BinOp)
			if !isBO {
				continue
			}
			ex, isEx := bo.X.(*ssa.Extract)
			if !isEx {
				continue
			}
			sel, isSel := ex.Tuple.(*ssa.Select)
			if !isSel || sel.Blocking {
				continue
			}
			for _, st := range sel.States {
				if st.Dir == types.RecvOnly && isField(st.Chan, "headerC") && !e.Branch {
					open = true
				}
			}
		}
		c.SawFunc(an.FuncName(a.fn))
		c.Check(locked && open, rule, an.FuncName(a.fn)+"|the header is written only before it is handed to the client", a.in.Pos(), "under headerM, headerC still open",
			fmt.Sprintf("the header is written without headerM (held: %v) or without first seeing headerC still open (%v): once headerC is closed a client may be reading the header, so a handler that adds headers late races with it (a real server rejects the late call)", locked, open))
	}
	if n == 0 {
		c.Unk(rule, "pkg/wrap.ClientServerStream.header|writes", 0, "no write of the header found")
	}
}

// r116: structs without a mutex that are shared between callers (the method tables of a wrapped client, a router's
// factory, option structs once applied) are safe to use concurrently only because nothing writes them after they were
// built. Decided for the methods of such structs: a method never writes a field of its receiver - a store, a map
// update/delete, an element store - unless it only runs on an object nobody else can see yet (unexported, and every
// caller - or every function that takes it as a method value - uses an object it has just allocated, or is itself such
// a method: construction, or the state of one call) or is never called at all.
func r116(c *an.Ctx) {
	const rule = "R11.6"
	callers := map[*ssa.Function][]ssa.CallInstruction{}
	valueUse := map[*ssa.Function]bool{}
	boundRecv := map[*ssa.Function][]ssa.Value{}
	for fn := range c.Prog.AllFuncs {
		an.Instrs(fn, func(in ssa.Instruction) {
			var ops []*ssa.Value
			for _, op := range in.Operands(ops) {
				if op == nil || *op == nil {
					continue
				}
				f, ok := (*op).(*ssa.Function)
				if !ok {
					continue
				}
				if call, isCall := in.(ssa.CallInstruction); isCall && call.Common().Value == ssa.Value(f) {
					callers[f] = append(callers[f], call)
					continue
				}
				valueUse[f] = true
			}
			// method values: r.method, bound to the receiver they were taken from
			if mc, ok := in.(*ssa.MakeClosure); ok {
				if f := an.ClosureFn(mc); f != nil && f != mc.Fn.(*ssa.Function) {
					if len(mc.Bindings) == 1 {
						boundRecv[f] = append(boundRecv[f], mc.Bindings[0])
					} else {
						valueUse[f] = true
					}
				}
			}
		})
	}
	var constructionOnly func(m *ssa.Function, depth int) bool
	constructionOnly = func(m *ssa.Function, depth int) bool {
		if depth > 3 || valueUse[m] {
			return false
		}
		if obj := m.Object(); obj == nil || obj.Exported() {
			return false
		}
		for _, call := range callers[m] {
			args := call.Common().Args
			if len(args) == 0 {
				return false
			}
			if an.IsFresh(args[0]) {
				continue
			}
			// the receiver of a caller that is itself a construction-only method of the same object
			p := call.Parent()
			if len(p.Params) > 0 && args[0] == ssa.Value(p.Params[0]) && p.Signature.Recv() != nil && constructionOnly(p, depth+1) {
				continue
			}
			return false
		}
		// taken as a method value (a callback) only from an object the taking function has just allocated: per-call state
		for _, r := range boundRecv[m] {
			if !an.IsFresh(r) {
				return false
			}
		}
		return true // (also when nothing calls it)
	}
	n, nm := 0, 0
	for _, m := range c.Prog.FuncsIn("") {
		if c.Prog.IsGenerated(m.Pos()) || m.Signature.Recv() == nil || m.Parent() != nil || len(m.Params) == 0 {
			continue
		}
		recv := m.Params[0]
		var writes []an.FieldAccess
		for _, f := range an.WithClosures(m) {
			for _, a := range an.LockFreeFieldAccesses(f) {
				n++
				root := a.Base
				if i := strings.IndexAny(root, ".["); i >= 0 {
					root = root[:i]
				}
				if a.Write && !a.Fresh && root == recv.Name() {
					writes = append(writes, a)
				}
			}
		}
		if len(writes) == 0 {
			continue
		}
		nm++
		c.SawFunc(an.FuncName(m))
		if constructionOnly(m, 0) {
			c.Ok(rule, an.FuncName(m)+"|writes its receiver only during construction", m.Pos(), fmt.Sprintf("%d caller(s) and %d method value(s), each on a freshly allocated object", len(callers[m]), len(boundRecv[m])))
			continue
		}
		seen := map[string]bool{}
		for _, a := range writes {
			key := an.FuncName(m) + "|" + a.Kind + " " + a.Struct + "." + a.Field
			if seen[key] {
				continue
			}
			seen[key] = true
			c.Bad(rule, key, a.Instr.Pos(), "a method of "+a.Struct+", a struct without a mutex, writes its receiver's field "+a.Field+" ("+a.Kind+") and can run after construction: two callers sharing the object (every user of a wrapped client, of a router, of a model) race on that field")
		}
	}
	c.Count("lock_free_field_accesses_in_methods", n)
	c.Count("methods_writing_a_lock_free_receiver", nm)
}

// r117: a variadic parameter is the caller's slice. `f(x, shared...)` passes the backing array of `shared` itself, so
// append(opts, more) inside f writes the element behind len(shared) whenever the caller's slice has spare capacity: two
// goroutines calling f with one shared option list write the same array slot. No function of the module appends onto
// its own variadic parameter; it copies first (append([]T{}, opts...), a three-index slice) or builds a new list.
func r117(c *an.Ctx) { r117as(c, "R11.7") }

func r117as(c *an.Ctx, rule string) {
	n := 0
	for _, fn := range c.Prog.FuncsIn("") {
		if c.Prog.IsGenerated(fn.Pos()) || !fn.Signature.Variadic() || len(fn.Params) == 0 || fn.Synthetic != "" {
			continue
		}
		vp := fn.Params[len(fn.Params)-1]
		n++
		var bad ssa.Instruction
		for _, f := range an.WithClosures(fn) {
			an.Instrs(f, func(in ssa.Instruction) {
				call, ok := in.(*ssa.Call)
				if !ok || an.CalleeName(call) != "builtin append" || len(call.Call.Args) == 0 {
					return
				}
				for _, v := range localValues(call.Call.Args[0], 0) {
					if v == ssa.Value(vp) {
						bad = in
					}
					// opts[:n] keeps the array (only a three-index slice caps it)
					if sl, isSl := v.(*ssa.Slice); isSl && sl.Max == nil {
						for _, b := range localValues(sl.X, 0) {
							if b == ssa.Value(vp) {
								bad = in
							}
						}
					}
				}
			})
		}
		if bad != nil {
			c.SawFunc(an.FuncName(fn))
			c.Bad(rule, an.FuncName(fn)+"|never appends onto its variadic parameter", bad.Pos(), "append("+vp.Name()+", …) extends the caller's slice in place: called as f(x, shared...) by two goroutines with a shared list that has spare capacity, both write the same slot of its backing array (a data race on the caller's memory, and one call may run with the other's option)")
		}
	}
	c.Count("variadic_functions", n)
	c.Ok(rule, "module|variadic functions scanned", 0, fmt.Sprintf("%d variadic functions", n))
}

// r118: append(x.F, …) writes the backing array of x.F when it has spare capacity. That is fine where the result goes
// back into x.F (the owner grows its own list). Stored anywhere else it leaves two slices sharing one array: when x is
// a parameter - the caller's message or option struct - the function has written the caller's memory, and two
// concurrent calls given the same object race on that array slot.
func r118(c *an.Ctx, rule string) {
	n := 0
	for _, fn := range c.Prog.FuncsIn("pkg") {
		if c.Prog.IsGenerated(fn.Pos()) || fn.Parent() != nil {
			continue
		}
		an.Instrs(fn, func(in ssa.Instruction) {
			call, ok := in.(*ssa.Call)
			if !ok || an.CalleeName(call) != "builtin append" || len(call.Call.Args) == 0 {
				return
			}
			ld, isLoad := call.Call.Args[0].(*ssa.UnOp)
			if !isLoad || ld.Op != token.MUL {
				return
			}
			fa, isFA := ld.X.(*ssa.FieldAddr)
			if !isFA {
				return
			}
			// the object is a parameter of this function (not the receiver's own state growing)
			var owner *ssa.Parameter
			for _, s0 := range localValues(fa.X, 0) {
				if p, isP := s0.(*ssa.Parameter); isP && p.Parent() == fn {
					owner = p
				}
			}
			if owner == nil || (fn.Signature.Recv() != nil && owner == fn.Params[0]) {
				return
			}
			n++
			// where the result goes
			back := false
			for _, u := range an.Referrers(call) {
				if st, isSt := u.(*ssa.Store); isSt && st.Val == ssa.Value(call) {
					if fa2, isFA2 := st.Addr.(*ssa.FieldAddr); isFA2 && fa2.Field == fa.Field && an.SameValues(fa2.X, fa.X) {
						back = true
					}
				}
			}
			_, _, fld, _ := an.FieldOf(fa)
			c.SawFunc(an.FuncName(fn))
			c.Check(back, rule, an.FuncName(fn)+"|append onto "+owner.Name()+"."+fld+" goes back into it", call.Pos(), "the grown list is stored where it came from",
				"append("+owner.Name()+"."+fld+", …) extends a list that belongs to the caller's object and the result is kept somewhere else: with spare capacity the call writes the caller's backing array (two concurrent calls given the same object race on it) and the two slices go on sharing memory")
		})
	}
	c.Count("appends_onto_a_parameters_list", n)
	if n == 0 {
		c.Ok(rule, "module|no append onto a list of a parameter's object", 0, "")
	}
}

// r119: FieldMask.Normalize sorts and de-duplicates Paths IN PLACE. The masks the library normalises are the callers'
// (a request's update mask, a configured writable mask), shared between concurrent calls and still in use by whoever
// passed them in: Normalize is only ever called on a FieldMask the calling function has just built around a COPY of
// the paths (append([]string(nil), paths...) / slices.Clone / a fresh slice it appended to itself).
func r119(c *an.Ctx, rule string) {
	n := 0
	for _, fn := range c.Prog.FuncsIn("pkg") {
		if c.Prog.IsGenerated(fn.Pos()) {
			continue
		}
		for _, call := range an.CallsTo(fn, "(*google.golang.org/protobuf/types/known/fieldmaskpb.FieldMask).Normalize") {
			n++
			c.SawFunc(an.FuncName(fn))
			recv := call.Common().Args[0]
			why := ""
			var alloc *ssa.Alloc
			for _, v := range localValues(recv, 0) {
				if a, ok := v.(*ssa.Alloc); ok {
					alloc = a
				} else {
					why = "the mask that is normalised is not one this function has just built"
				}
			}
			if alloc != nil && why == "" {
				// what its Paths were set to
				set := false
				for _, u := range an.Referrers(alloc) {
					fa, isFA := u.(*ssa.FieldAddr)
					if !isFA {
						continue
					}
					if _, _, f, _ := an.FieldOf(fa); f != "Paths" {
						continue
					}
					for _, u2 := range an.Referrers(fa) {
						st, isSt := u2.(*ssa.Store)
						if !isSt || st.Addr != ssa.Value(fa) {
							continue
						}
						set = true
						for _, v := range localValues(st.Val, 0) {
							ownCopy := false
							switch x := v.(type) {
							case *ssa.Call:
								switch an.CalleeName(x) {
								case "builtin append":
									// append(nil / a fresh slice, …): a copy; append(paths[:0], …) or append(paths, …): not
									for _, b := range localValues(x.Call.Args[0], 0) {
										if an.IsNilConst(b) {
											ownCopy = true
										}
										if _, isMk := b.(*ssa.MakeSlice); isMk {
											ownCopy = true
										}
										if lc, isC := b.(*ssa.Call); isC && an.CalleeName(lc) == "builtin append" {
											ownCopy = true // grown from this function's own list
										}
										if ld, isLd := b.(*ssa.UnOp); isLd {
											if fa3, isFA3 := ld.X.(*ssa.FieldAddr); isFA3 && an.IsFresh(fa3.X) {
												ownCopy = true // the new mask's own Paths, appended to in a loop
											}
										}
									}
								default:
									if strings.HasSuffix(an.CalleeName(x), "slices.Clone") || strings.Contains(an.CalleeName(x), "slices.Clone[") {
										ownCopy = true
									}
								}
							case *ssa.MakeSlice:
								ownCopy = true
							case *ssa.Slice:
								if _, isAlloc := x.X.(*ssa.Alloc); isAlloc {
									ownCopy = true // a literal
								}
							}
							if an.IsNilConst(v) {
								ownCopy = true
							}
							if !ownCopy {
								why = "the new mask's Paths is the caller's slice itself, not a copy"
							}
						}
					}
				}
				if !set {
					why = "" // an empty mask
				}
			}
			c.Check(why == "", rule, an.FuncName(fn)+"|Normalize works on the function's own copy of the paths", call.Pos(), "a fresh FieldMask around a copy",
				why+": FieldMask.Normalize sorts and de-duplicates in place, so the caller's mask is rewritten under it - its paths change order for whoever still uses it, and concurrent writes sharing one update mask race on its backing array")
		}
	}
	c.Count("normalize_calls", n)
}

// r1112: a variable that a goroutine writes is not read by the function that started it without a hand-over. For
// each `go func() { … }()` whose body assigns a variable of the enclosing function (captured by reference), every
// access to that variable the enclosing function makes AFTER the go statement is dominated by a receive, a select
// or a WaitGroup.Wait that itself comes after the go statement. (lightpb's ramp: `lastObj, err = …` inside the
// goroutine, `return startVal, err` after it - the value is still nil there, but the read races with every tick.)
func r1112(c *an.Ctx, rule string) {
	n := 0
	for _, fn := range c.Prog.FuncsIn("") {
		if !an.InModule(fn) || strings.HasSuffix(c.Prog.RelFile(fn.Pos()), "_test.go") || len(fn.Blocks) == 0 {
			continue
		}
		for _, g := range an.GoStmts(fn) {
			mc, ok := g.Call.Value.(*ssa.MakeClosure)
			if !ok {
				continue
			}
			body, _ := mc.Fn.(*ssa.Function)
			if body == nil {
				continue
			}
			for i, b := range mc.Bindings {
				cell, isAlloc := b.(*ssa.Alloc)
				if !isAlloc || i >= len(body.FreeVars) {
					continue
				}
				fv := body.FreeVars[i]
				written := false
				for _, f := range an.WithClosures(body) {
					an.Instrs(f, func(in ssa.Instruction) {
						if st, isSt := in.(*ssa.Store); isSt && st.Addr == ssa.Value(fv) {
							written = true
						}
					})
				}
				if !written {
					continue
				}
				n++
				// hand-overs after the go statement
				var syncs []ssa.Instruction
				an.Instrs(fn, func(in ssa.Instruction) {
					switch x := in.(type) {
					case *ssa.UnOp:
						if x.Op == token.ARROW && an.Reaches(g, in) {
							syncs = append(syncs, in)
						}
					case *ssa.Select:
						if an.Reaches(g, in) {
							syncs = append(syncs, in)
						}
					case *ssa.Call:
						if strings.HasSuffix(an.CalleeName(x), "sync.WaitGroup).Wait") && an.Reaches(g, in) {
							syncs = append(syncs, in)
						}
					}
				})
				var bad ssa.Instruction
				an.Instrs(fn, func(in ssa.Instruction) {
					var addr ssa.Value
					switch x := in.(type) {
					case *ssa.UnOp:
						if x.Op == token.MUL {
							addr = x.X
						}
					case *ssa.Store:
						addr = x.Addr
					}
					if addr != ssa.Value(cell) || !an.Reaches(g, in) || in == ssa.Instruction(g) {
						return
					}
					for _, s := range syncs {
						if an.Dominates(s, in) {
							return
						}
					}
					bad = in
				})
				pos := g.Pos()
				if bad != nil {
					pos = bad.Pos()
				}
				c.SawFunc(an.FuncName(fn))
				c.Check(bad == nil, rule, fmt.Sprintf("%s|%s, assigned by a goroutine, is not touched after the go statement without a hand-over", an.FuncName(fn), cell.Comment), pos, "",
					"the variable "+cell.Comment+" is assigned inside a goroutine and accessed by the function that started it after the go statement, with no receive/select/Wait in between: the two accesses are unordered (a data race), whatever value happens to be read")
			}
		}
	}
	c.Count("variables_assigned_by_goroutines", n)
	c.Ok(rule, "module|go statements with a function literal scanned", 0, fmt.Sprintf("%d variables assigned by goroutines", n))
}
