package props

import (
	"scverif/an"
)

func init() {
	register(&Prop{
		ID:    "C11",
		Title: "Concurrent use of the public API is free of data races",
		Explanation: "Decides structural necessary conditions of race freedom: R11.1 every access (outside constructors) to a field that is written under its struct's sibling mutex somewhere, or that is in the hand-confirmed guarded table, holds that mutex (any mode for reads, exclusive for writes), with lock sets propagated to unexported helpers and synchronous callbacks. Does NOT decide race freedom in general: no points-to analysis, no happens-before graph, callbacks supplied by callers are not analysed.",
		Assumptions: []string{"locks are identified by access path (no aliasing of mutexes)", "sort.Slice/sort.Search and friends invoke their callback synchronously"},
		Run:         runC11,
	})
}

func runC11(c *an.Ctx) {
	g := analyseGuarded(c)
	for k, why := range g.Guarded {
		c.Note("guarded field %s.%s (%s)", k.Struct, k.Field, why)
	}
	reportGuarded(c, "R11.1", g, func(string) bool { return true })
}
