package props

import (
	"fmt"
	"go/token"
	"go/types"
	"sort"
	"strings"

	"golang.org/x/tools/go/ssa"

	"scverif/an"
)

func init() {
	register(&Prop{
		ID:          "C14",
		Title:       "Trait servers give read-your-writes through the full stack",
		Explanation: "Scope: every hand-written method under pkg/trait that has the shape of an RPC handler (unary (ctx, *XRequest) (*Y, error) or server-streaming (*XRequest, stream) error), discovered from the type-checked source. R14.1 a request's read_mask reaches resource.WithReadMask / masks.WithFieldMask in the handler (or in the module function the handler hands the request to). R14.2 a streaming request's updates_only reaches resource.WithUpdatesOnly or decides a branch. R14.3 every *_Change message built by a Pull handler takes its name from the request. R14.4 the response of an Update-style handler derives from the result of the model/resource write, never from the request message alone, and each model update method returns the write's result. R14.5 the result of a resource write is not type-asserted before its error is checked (a rejected update is an error, not a nil-interface panic). R14.6 the resource carried by a Pull change is the value of the model's event. update_mask omissions are notes. R14.7 current state is read only under !UpdatesOnly and seeds are built from onUpdate's snapshot. R14.8 an error is reported only when nothing was written. R14.9/R14.10 the bus never drops a live listener, one committed write publishes one event. R14.11 a read mask on an assembled message is applied to the assembled message. R14.12 a gate that waits for the seed also opens without one. R14.31 read options given to a model's read method are forwarded to the resource call (shared with R01.13). Does NOT decide equality of responses, tolerance-based suppression, or the wrapper/router stack (C12/C13).",
		Assumptions: []string{"generated getters GetX() return field X"},
		Run:         runC14,
		Controls: []Control{
			{Name: "air-temperature-get-drops-its-read-options", File: "pkg/trait/airtemperaturepb/model.go", Old: "m.airTemperature.Get(opts...)", New: "m.airTemperature.Get()", Expect: "R14.31"},
			{Name: "preset-looked-up-before-the-sort", File: "pkg/trait/openclosepb/model.go", Old: "\t\t\tsortPositions(positions.States)\n\n\t\t\tpositions.Preset, _ = m.presetForValue(positions.States)\n", New: "\t\t\tpositions.Preset, _ = m.presetForValue(positions.States)\n\t\t\tsortPositions(positions.States)\n\n", Expect: "R14.28"},
			{Name: "positions-sorted-descending", File: "pkg/trait/openclosepb/model.go", Old: "\t\treturn int(a.Direction - b.Direction)", New: "\t\treturn int(b.Direction - a.Direction)", Expect: "R14.26"},
			{Name: "preset-assigned-after-the-projection", File: "pkg/trait/openclosepb/model.go", Old: "\t\t\tpositions.Preset, _ = m.presetForValue(positions.States)\n\n\t\t\t// projection and filtering, positions refers to stored values so must not be modified in place\n\t\t\tpositions = responseFilter.FilterClone(positions).(*traits.OpenClosePositions)\n", New: "\t\t\t// projection and filtering, positions refers to stored values so must not be modified in place\n\t\t\tpositions = responseFilter.FilterClone(positions).(*traits.OpenClosePositions)\n\t\t\tpositions.Preset, _ = m.presetForValue(positions.States)\n", Expect: "R14.25"},
			{Name: "positions-read-options-forwarded-to-the-items", File: "pkg/trait/openclosepb/model.go", Old: "\t\tfor change := range m.positions.Pull(ctx) {\n", New: "\t\tfor change := range m.positions.Pull(ctx, ops...) {\n", Expect: "R14.18"},
			{Name: "ramp-final-write-unconditional", File: "pkg/trait/lightpb/memory.go", Old: "\t\t\t\t\t\tresource.WithResetPaths(\"target_level_percent\", \"brightness_tween\"),\n\t\t\t\t\t\tresource.WithExpectedValue(lastObj),\n", New: "\t\t\t\t\t\tresource.WithResetPaths(\"target_level_percent\", \"brightness_tween\"),\n", Expect: "R14.21"},
			{Name: "positions-forwarder-stops-on-unchanged", File: "pkg/trait/openclosepb/model.go", Old: "\t\t\tif eq(last, positions) {\n\t\t\t\tcontinue\n\t\t\t}\n", New: "\t\t\tif eq(last, positions) {\n\t\t\t\treturn\n\t\t\t}\n", Expect: "R14.17"},
			{Name: "aggregate-pull-forwards-updates-only", File: "pkg/trait/openclosepb/model.go", Old: "\t\tfor change := range m.positions.Pull(ctx) {", New: "\t\tfor change := range m.positions.Pull(ctx, resource.WithUpdatesOnly(readRequest.UpdatesOnly)) {", Expect: "R14.12"},
			{Name: "revert-F37-mask-on-items", File: "pkg/trait/openclosepb/model.go", Old: "\tallPositions := m.positions.List() // already sorted by ID aka Direction ordinal", New: "\tallPositions := m.positions.List(opts...) // already sorted by ID aka Direction ordinal", Expect: "R14.11"},
			{Name: "revert-F38-gate-waits-for-seed", File: "pkg/trait/openclosepb/model.go", Old: "\t\t\tif !change.SeedValue {\n\t\t\t\t// updates only follow a complete seed: an empty collection has no seed events at all\n\t\t\t\tseenAll = true\n\t\t\t}\n", New: "", Expect: "R14.12"},
			{Name: "drop-read-mask", File: "pkg/trait/onoffpb/model_server.go", Old: "return s.model.GetOnOff(resource.WithReadMask(req.ReadMask))", New: "return s.model.GetOnOff()", Expect: "R14.1"},
			{Name: "drop-updates-only", File: "pkg/trait/onoffpb/model_server.go", Old: "resource.WithReadMask(request.ReadMask), resource.WithUpdatesOnly(request.UpdatesOnly)) {\n\t\tchange := &traits.PullOnOffResponse_Change{", New: "resource.WithReadMask(request.ReadMask)) {\n\t\tchange := &traits.PullOnOffResponse_Change{", Expect: "R14.2"},
			{Name: "empty-name", File: "pkg/trait/onoffpb/model_server.go", Old: "\t\t\tName:       request.Name,\n\t\t\tChangeTime: timestamppb.New(update.ChangeTime),\n\t\t\tOnOff:      update.Value,", New: "\t\t\tChangeTime: timestamppb.New(update.ChangeTime),\n\t\t\tOnOff:      update.Value,", Expect: "R14.3"},
			{Name: "return-request-message", File: "pkg/trait/onoffpb/model.go", Old: "\tres, err := m.onOff.Set(value, opts...)\n\tif err != nil {\n\t\treturn nil, err\n\t}\n\treturn res.(*traits.OnOff), nil", New: "\t_, err := m.onOff.Set(value, opts...)\n\tif err != nil {\n\t\treturn nil, err\n\t}\n\treturn value, nil", Expect: "R14.4"},
			{Name: "assert-before-check", File: "pkg/trait/onoffpb/model.go", Old: "\tres, err := m.onOff.Set(value, opts...)\n\tif err != nil {\n\t\treturn nil, err\n\t}\n\treturn res.(*traits.OnOff), nil", New: "\tres, err := m.onOff.Set(value, opts...)\n\treturn res.(*traits.OnOff), err", Expect: "R14.5"},
			{Name: "pull-sends-stale-value", File: "pkg/trait/onoffpb/model_server.go", Old: "\t\t\tOnOff:      update.Value,", New: "\t\t\tOnOff:      &traits.OnOff{},", Expect: "R14.6"},
			{Name: "revert-F11a-updates-only", File: "pkg/trait/enterleavesensorpb/model_server.go", Old: ", resource.WithUpdatesOnly(request.UpdatesOnly)) {", New: ") {", Expect: "R14.2"},
			{Name: "revert-F11b-read-mask", File: "pkg/trait/metadatapb/collection_server.go", Old: "return s.model.GetMetadata(request.Name, resource.WithReadMask(request.ReadMask))", New: "return s.model.GetMetadata(request.Name)", Expect: "R14.1"},
			{Name: "revert-F12-assert-first", File: "pkg/trait/airtemperaturepb/memory.go", Old: "\tif err != nil {\n\t\treturn nil, err\n\t}\n\treturn update.(*traits.AirTemperature), nil", New: "\treturn update.(*traits.AirTemperature), err", Expect: "R14.5"},
			{Name: "validate-after-the-write", File: "pkg/trait/fanspeedpb/model.go", Old: "\tval, err := m.fanSpeed.Set(fanSpeed, opts...)\n", New: "\tval, err := m.fanSpeed.Set(fanSpeed, opts...)\n\tif val != nil {\n\t\tif verr := m.validateUpdate(val.(*traits.FanSpeed)); verr != nil {\n\t\t\treturn nil, verr\n\t\t}\n\t}\n", Expect: "R14.8"},
			{Name: "dispense-error-without-restoring", File: "pkg/trait/vendingpb/model.go", Old: "\t\t\tmaskedErr = err\n\t\t\tproto.Reset(newVal)\n\t\t\tproto.Merge(newVal, oldVal)\n\t\t\treturn", New: "\t\t\tmaskedErr = err\n\t\t\treturn", Expect: "R14.8"},
			{Name: "seed-read-when-updates-only", File: "pkg/resource/value.go", Old: "\tif !config.UpdatesOnly {\n\t\tr.mu.RLock()\n\t\tdefer r.mu.RUnlock()\n\t\tvalue = r.value\n\t\tchangeTime = r.changeTime\n\t}", New: "\tr.mu.RLock()\n\tdefer r.mu.RUnlock()\n\tvalue = r.value\n\tchangeTime = r.changeTime", Expect: "R14.7"},
			{Name: "getters-instead-of-fields", Silent: true, File: "pkg/trait/onoffpb/model_server.go", Old: "return s.model.GetOnOff(resource.WithReadMask(req.ReadMask))", New: "return s.model.GetOnOff(resource.WithReadMask(req.GetReadMask()))"},
		},
	})
}

type rpcHandler struct {
	fn        *ssa.Function
	req       *ssa.Parameter
	reqStruct *types.Struct
	streaming bool
	stream    *ssa.Parameter
}

// traitHandlers discovers RPC-shaped hand-written methods under pkg/trait.
func traitHandlers(c *an.Ctx) []rpcHandler {
	var out []rpcHandler
	for _, fn := range c.Prog.FuncsIn("pkg/trait") {
		if c.Prog.IsGenerated(fn.Pos()) || fn.Parent() != nil || fn.Signature.Recv() == nil || fn.Object() == nil || !fn.Object().Exported() {
			continue
		}
		recvName := an.NamedTypeName(fn.Signature.Recv().Type())
		if strings.HasSuffix(recvName, "Router") || strings.HasSuffix(recvName, ".Group") || strings.HasSuffix(recvName, "Wrapper") {
			continue
		}
		sig := fn.Signature
		var h rpcHandler
		h.fn = fn
		reqOf := func(p *ssa.Parameter) *types.Struct {
			ptr, ok := p.Type().(*types.Pointer)
			if !ok {
				return nil
			}
			named, ok := ptr.Elem().(*types.Named)
			if !ok || !strings.HasSuffix(named.Obj().Name(), "Request") {
				return nil
			}
			st, _ := named.Underlying().(*types.Struct)
			return st
		}
		switch {
		case sig.Params().Len() == 2 && sig.Results().Len() == 2 && an.NamedTypeName(sig.Params().At(0).Type()) == "context.Context" && an.IsErrorType(sig.Results().At(1).Type()):
			if st := reqOf(fn.Params[2]); st != nil {
				h.req, h.reqStruct = fn.Params[2], st
			}
		case sig.Params().Len() == 2 && sig.Results().Len() == 1 && an.IsErrorType(sig.Results().At(0).Type()):
			if st := reqOf(fn.Params[1]); st != nil {
				h.req, h.reqStruct, h.streaming, h.stream = fn.Params[1], st, true, fn.Params[2]
			}
		}
		if h.req == nil {
			continue
		}
		out = append(out, h)
	}
	sort.Slice(out, func(i, j int) bool { return an.FuncName(out[i].fn) < an.FuncName(out[j].fn) })
	return out
}

func structHasField(st *types.Struct, name string) bool {
	for i := 0; i < st.NumFields(); i++ {
		if st.Field(i).Name() == name {
			return true
		}
	}
	return false
}

// requestFieldValue reports whether v is field `name` of request value req (direct load or generated getter).
func isRequestField(v ssa.Value, req ssa.Value, name string) bool {
	// req may be a parameter of a helper the scan descended into: match it as such (opaque), and also through the
	// helpers' call sites (transparent)
	for _, srcs := range []func(ssa.Value) []ssa.Value{an.SourcesOpaque, an.Sources} {
		for _, s := range srcs(v) {
			if base, _, f, ok := an.FieldOf(s); ok && f == name {
				for _, b := range srcs(base) {
					if b == req {
						return true
					}
				}
			}
			if call, ok := s.(*ssa.Call); ok {
				if f := call.Call.StaticCallee(); f != nil && f.Name() == "Get"+name && len(call.Call.Args) == 1 {
					for _, b := range srcs(call.Call.Args[0]) {
						if b == req {
							return true
						}
					}
				}
			}
		}
	}
	return false
}

// fieldReachesOption: field `name` of req reaches a call to one of the option constructors, in fn or in a
// module callee that is handed the request (depth-bounded).
func fieldReachesOption(c *an.Ctx, fn *ssa.Function, req ssa.Value, name string, ctors []string, depth int) bool {
	found := false
	for _, f := range an.WithClosures(fn) {
		an.Instrs(f, func(in ssa.Instruction) {
			call, ok := in.(ssa.CallInstruction)
			if !ok {
				return
			}
			n := an.CalleeName(call)
			for _, ct := range ctors {
				if n == ct && len(call.Common().Args) >= 1 && isRequestField(call.Common().Args[0], req, name) {
					found = true
				}
			}
			// the request handed on to a module function
			if depth > 0 {
				if callee := call.Common().StaticCallee(); callee != nil && c.Prog.AllFuncs[callee] && callee != fn {
					for i, a := range call.Common().Args {
						for _, s := range an.Sources(a) {
							if s == req && i < len(callee.Params) {
								if fieldReachesOption(c, callee, callee.Params[i], name, ctors, depth-1) {
									found = true
								}
							}
						}
					}
				}
			}
		})
	}
	return found
}

// fieldDecidesBranch: field `name` of req is used as (part of) a branch condition.
func fieldDecidesBranch(c *an.Ctx, fn *ssa.Function, req ssa.Value, name string, depth int) bool {
	found := false
	for _, f := range an.WithClosures(fn) {
		an.Instrs(f, func(in ssa.Instruction) {
			if iff, ok := in.(*ssa.If); ok {
				cond := iff.Cond
				if u, isNot := cond.(*ssa.UnOp); isNot {
					cond = u.X
				}
				if isRequestField(cond, req, name) {
					found = true
				}
			}
			if depth > 0 {
				if call, ok := in.(ssa.CallInstruction); ok {
					if callee := call.Common().StaticCallee(); callee != nil && c.Prog.AllFuncs[callee] && callee != fn {
						for i, a := range call.Common().Args {
							for _, s := range an.Sources(a) {
								if s == req && i < len(callee.Params) && fieldDecidesBranch(c, callee, callee.Params[i], name, depth-1) {
									found = true
								}
							}
						}
					}
				}
			}
		})
	}
	return found
}

func runC14(c *an.Ctx) {
	r1417(c, "R14.17")
	r063as(c, "R14.23") // a masked Pull never prunes the register: the in-place Filter is only given fresh messages (shared with R06.3)
	c.Min("R14.23", 1)
	shareAs(c, "R01.1", "R14.24", r011, nil) // a rejected Update leaves Get unchanged: validation comes before the write (shared with R01.1)
	c.Min("R14.24", 4)
	shareAs(c, "R10.5", "R14.27", r105, nil) // an open Pull stream keeps receiving after ANOTHER stream of the register was cancelled: the registry drops the dead listener, keeps the live ones (shared with R10.5)
	c.Min("R14.27", 2)
	r1428(c, "R14.28")
	c.Min("R14.28", 1)
	r0117as(c, "R14.29") // the Update response is what the next Get returns: the save callback stores the merged message (shared with R01.17)
	c.Min("R14.29", 2)
	shareAs(c, "R06.7", "R14.30", r066, nil) // a masked Get is the projection of the full Get: covered paths are dropped before fmutils sees them (shared with R06.7)
	c.Min("R14.30", 1)
	r0113(c, "R14.31") // a Get with a read mask is the projection of the full Get: the read options reach the resource (shared with R01.13)
	c.Min("R14.31", 40)
	r1426(c, "R14.26")
	c.Min("R14.26", 1)
	r1425(c, "R14.25")
	c.Min("R14.25", 5)
	r1421(c, "R14.21")
	c.Min("R14.21", 2)
	rWriteOptsForwarded(c, "R14.22", "pkg/trait") // the caller's write options reach the register's write (shared with R19.8)
	c.Min("R14.22", 20)
	r1418(c, "R14.18")
	c.Min("R14.18", 2)
	r061as(c, "R14.19") // the projection used by every Get and Pull never writes the stored message (shared with R06.1)
	c.Min("R14.19", 3)
	r167(c, "R14.20") // list fields are compared element by element, the first one included (shared with R16.7)
	c.Min("R14.20", 1)
	c.Min("R14.17", 10)
	r046(c, "R14.15")
	r165held(c, "R14.15") // open streams under an equivalence: every delivery moves the reference (shared with R16.5)
	c.Min("R14.15", 2)
	r062filters(c, "R14.16") // a masked stream carries the projection, not the stored value (shared with R06.2)
	c.Min("R14.16", 2)
	res := an.ModulePath + "/pkg/resource."
	masks := an.ModulePath + "/pkg/masks."
	hs := traitHandlers(c)
	c.Count("handlers_discovered", len(hs))
	nRead, nUO := 0, 0
	for _, h := range hs {
		name := an.FuncName(h.fn)
		c.SawFunc(name)
		if structHasField(h.reqStruct, "ReadMask") {
			nRead++
			ok := fieldReachesOption(c, h.fn, h.req, "ReadMask", []string{res + "WithReadMask", masks + "WithFieldMask"}, 3)
			if !ok && !strings.HasPrefix(h.fn.Name(), "Get") && !strings.HasPrefix(h.fn.Name(), "Pull") {
				// the property speaks about Get / Pull; other handlers with a read_mask are reported as notes
				c.Note("%s: the request's read_mask is not passed on (handler is neither Get nor Pull: outside C14's wording)", name)
				ok = true
			}
			c.Check(ok, "R14.1", name+"|read_mask is honoured", h.fn.Pos(), "", "the request has a read_mask but it never reaches resource.WithReadMask / masks.WithFieldMask: a Get with a read mask returns the full value instead of the projection")
		}
		if h.streaming && structHasField(h.reqStruct, "UpdatesOnly") {
			nUO++
			ok := fieldReachesOption(c, h.fn, h.req, "UpdatesOnly", []string{res + "WithUpdatesOnly"}, 3) || fieldDecidesBranch(c, h.fn, h.req, "UpdatesOnly", 3)
			c.Check(ok, "R14.2", name+"|updates_only is honoured", h.fn.Pos(), "", "the streaming request has updates_only but it neither reaches resource.WithUpdatesOnly nor decides a branch: a subscriber that asked for updates only still receives the current value")
		}
		if !h.streaming && structHasField(h.reqStruct, "UpdateMask") {
			if !fieldReachesOption(c, h.fn, h.req, "UpdateMask", []string{res + "WithUpdateMask", masks + "WithUpdateMask"}, 3) {
				c.Note("%s: update_mask of the request is not passed on (not required by C14)", name)
			}
		}
		if h.streaming {
			r143and6(c, h)
		} else if strings.HasPrefix(h.fn.Name(), "Update") || strings.HasPrefix(h.fn.Name(), "Set") {
			r144handler(c, h)
		}
	}
	r144models(c)
	r145(c, "R14.5")
	r147(c)
	r148(c)
	// what the trait servers rely on from the layers below: a subscriber that is registered keeps receiving (the bus
	// never drops a live listener), and every write that is stored is published - and what is returned is what was stored
	r1411(c)
	r1412(c)
	c.Min("R14.11", 1)
	c.Min("R14.12", 2)
	registryRebuild(c, "R14.9")
	r041as(c, "R14.10")
	// ... and from the router: every request for a name reaches ONE client (the loser of a concurrent first Get adopts
	// the client that was committed), or an Update and a Pull for the same name talk to different devices
	r124as(c, "R14.13")
	c.Min("R14.13", 10)
	// Get and Pull project with the same filter: ReadRequest.FilterClone (Get) has no shortcut of its own
	readRequestFilterClone(c, "R14.14")
	c.Min("R14.14", 1)
	c.Min("R14.9", 1)
	c.Min("R14.10", 6)
	c.Min("R14.1", 30)
	c.Min("R14.2", 20)
	c.Min("R14.3", 20)
	c.Min("R14.4", 30)
	c.Min("R14.5", 40)
	c.Min("R14.7", 4)
	c.Min("R14.8", 80)
	c.Min("R14.6", 15)
}

// changeLiterals finds composite literals of *_Change types built by fn (and its closures / direct module callees handed the request).
func r143and6(c *an.Ctx, h rpcHandler) {
	name := an.FuncName(h.fn)
	type lit struct {
		alloc  *ssa.Alloc
		fields map[string]ssa.Value
		fn     *ssa.Function
		req    ssa.Value
	}
	var lits []lit
	var scan func(fn *ssa.Function, req ssa.Value, depth int)
	scan = func(fn *ssa.Function, req ssa.Value, depth int) {
		for _, f := range an.WithClosures(fn) {
			an.Instrs(f, func(in ssa.Instruction) {
				if al, ok := in.(*ssa.Alloc); ok {
					tn := an.NamedTypeName(al.Type())
					if strings.HasSuffix(tn, "_Change") {
						fields, _ := litFields(al)
						lits = append(lits, lit{al, fields, f, req})
					}
				}
				if depth > 0 {
					if call, ok := in.(ssa.CallInstruction); ok {
						if callee := call.Common().StaticCallee(); callee != nil && c.Prog.AllFuncs[callee] && callee != fn && !c.Prog.IsGenerated(callee.Pos()) {
							for i, a := range call.Common().Args {
								for _, s := range an.Sources(a) {
									if s == req && i < len(callee.Params) {
										scan(callee, callee.Params[i], depth-1)
									}
								}
							}
						}
					}
				}
			})
		}
	}
	scan(h.fn, h.req, 2)
	for i, l := range lits {
		st, _ := l.alloc.Type().(*types.Pointer).Elem().Underlying().(*types.Struct)
		if st == nil || !structHasField(st, "Name") {
			continue
		}
		cons := fmt.Sprintf("%s|change #%d carries the requested name", name, i+1)
		nv, has := l.fields["Name"]
		ok := has && isRequestField(nv, l.req, "Name")
		c.Check(ok, "R14.3", cons, l.alloc.Pos(), "", "a change sent on the stream does not take its name from the Pull request: clients that multiplex several subscriptions cannot attribute the change")
		// R14.6: some message-typed field of the change derives from the model's event (range value), not a fresh literal
		evOK := false
		nMsg := 0
		for fname, v := range l.fields {
			if fname == "Name" || fname == "ChangeTime" || fname == "Type" {
				continue
			}
			if _, isPtr := v.Type().(*types.Pointer); !isPtr {
				if _, isIface := v.Type().Underlying().(*types.Interface); !isIface {
					continue
				}
			}
			nMsg++
			fresh := true
			for _, s := range an.Sources(v) {
				if _, isAlloc := s.(*ssa.Alloc); !isAlloc {
					fresh = false
				}
			}
			if !fresh {
				evOK = true
			}
		}
		if nMsg > 0 {
			c.Check(evOK, "R14.6", fmt.Sprintf("%s|change #%d carries the model's value", name, i+1), l.alloc.Pos(), "", "the resource carried by the change is a freshly built message, not the value of the model's event")
		}
	}
}

// r144handler: the Update handler's response derives from a call result, not from the request alone.
func r144handler(c *an.Ctx, h rpcHandler) {
	name := an.FuncName(h.fn)
	ok, n := true, 0
	for _, r := range an.Returns(h.fn) {
		if provablyNilAt(r.Results[0], r) || allAre(an.ValuesAt(r.Results[0]), an.IsNilConst) {
			continue
		}
		n++
		fromCall := false
		onlyRequest := true
		for _, s := range an.Sources(r.Results[0]) {
			switch x := s.(type) {
			case *ssa.Call:
				fromCall = true
				onlyRequest = false
			case *ssa.Extract:
				if _, isCall := x.Tuple.(*ssa.Call); isCall {
					fromCall = true
					onlyRequest = false
				}
			case *ssa.Alloc:
				// a response message wrapping the result: some field must derive from a call
				fields, _ := litFields(x)
				for _, fv := range fields {
					for _, s2 := range an.Sources(fv) {
						switch y := s2.(type) {
						case *ssa.Call:
							fromCall, onlyRequest = true, false
						case *ssa.Extract:
							if _, isCall := y.Tuple.(*ssa.Call); isCall {
								fromCall, onlyRequest = true, false
							}
						}
					}
				}
			}
		}
		if !fromCall || onlyRequest {
			ok = false
		}
	}
	if n == 0 {
		return
	}
	c.Check(ok, "R14.4", name+"|response is the result of the write", h.fn.Pos(), "", "the Update response does not derive from the result of the model/resource write: the client is told a value that the store may not hold (interceptors, masks and writable fields change what is stored)")
}

// r144models: model update methods return the write's result.
func r144models(c *an.Ctx) {
	writes := map[string]bool{}
	for _, m := range []string{"Value).Set", "Collection).Update", "Collection).Add"} {
		writes["(*"+an.ModulePath+"/pkg/resource."+m] = true
	}
	for _, fn := range c.Prog.FuncsIn("pkg/trait") {
		if c.Prog.IsGenerated(fn.Pos()) || fn.Parent() != nil || fn.Object() == nil || fn.Signature.Recv() == nil {
			continue
		}
		if fn.Signature.Results().Len() != 2 || !an.IsErrorType(fn.Signature.Results().At(1).Type()) {
			continue
		}
		var ws []*ssa.Call
		an.Instrs(fn, func(in ssa.Instruction) {
			if call, ok := in.(*ssa.Call); ok && writes[an.CalleeName(call)] {
				ws = append(ws, call)
			}
		})
		if len(ws) == 0 {
			continue
		}
		// only methods that return a message
		if _, isPtr := fn.Signature.Results().At(0).Type().(*types.Pointer); !isPtr {
			continue
		}
		name := an.FuncName(fn)
		c.SawFunc(name)
		ok, n := true, 0
		for _, r := range an.Returns(fn) {
			if allAre(an.ValuesAt(r.Results[0]), an.IsNilConst) {
				continue
			}
			// a return taken because the write handed back nothing (it failed): there is no stored value to report
			nothingStored := false
			for _, e := range an.GuardingEdges(r) {
				x, trueMeansNil, isNil := an.NilTest(e.If.Cond)
				if !isNil || e.Branch != trueMeansNil {
					continue
				}
				for _, v := range an.ValuesAt(x) {
					for _, w := range ws {
						if an.IsExtractOf(v, w, 0) {
							nothingStored = true
						}
					}
				}
			}
			if nothingStored {
				continue
			}
			n++
			fromWrite := false
			for _, s := range an.Sources(r.Results[0]) {
				for _, w := range ws {
					if an.IsExtractOf(s, w, 0) {
						fromWrite = true
					}
				}
				// delegated to another method of the same type that itself is checked here
				if ex, isEx := s.(*ssa.Extract); isEx && ex.Index == 0 {
					if call, isCall := ex.Tuple.(*ssa.Call); isCall {
						if callee := call.Call.StaticCallee(); callee != nil && c.Prog.AllFuncs[callee] && !writes[an.CalleeName(call)] {
							fromWrite = true
						}
					}
				}
				if call, isCall := s.(*ssa.Call); isCall && c.Prog.AllFuncs[call.Call.StaticCallee()] {
					fromWrite = true
				}
			}
			if !fromWrite {
				ok = false
			}
		}
		if n == 0 {
			continue
		}
		c.Check(ok, "R14.4", name+"|returns the value the write stored", fn.Pos(), "", "the model method performs a resource write but returns something that does not derive from the write's result (e.g. its own argument): the response differs from what a following Get returns")
	}
}

// r145: no type assertion on a write result before the error is checked.
func r145(c *an.Ctx, rule string) {
	writes := map[string]bool{}
	for _, m := range []string{"Value).Set", "Collection).Update", "Collection).Add", "Collection).Delete"} {
		writes["(*"+an.ModulePath+"/pkg/resource."+m] = true
	}
	for _, fn := range c.Prog.FuncsIn("pkg/trait") {
		if c.Prog.IsGenerated(fn.Pos()) {
			continue
		}
		an.Instrs(fn, func(in ssa.Instruction) {
			call, ok := in.(*ssa.Call)
			if !ok || !writes[an.CalleeName(call)] {
				return
			}
			// uses of result 0
			var res ssa.Value
			for _, u := range an.Referrers(call) {
				if ex, isEx := u.(*ssa.Extract); isEx && ex.Index == 0 {
					res = ex
				}
			}
			cons := fmt.Sprintf("%s|result of %s is not asserted before its error is checked", an.FuncName(fn), strings.TrimPrefix(an.CalleeName(call), "(*"+an.ModulePath+"/pkg/resource."))
			c.SawFunc(an.FuncName(fn))
			if res == nil {
				c.Ok(rule, cons, call.Pos(), "result unused")
				return
			}
			bad := ssa.Instruction(nil)
			// follow the result through local cells
			var uses []ssa.Instruction
			seen := map[ssa.Value]bool{}
			var walk func(v ssa.Value)
			walk = func(v ssa.Value) {
				if seen[v] {
					return
				}
				seen[v] = true
				for _, u := range an.Referrers(v) {
					switch x := u.(type) {
					case *ssa.TypeAssert:
						uses = append(uses, x)
					case *ssa.Phi:
						walk(x)
					case *ssa.Store:
						if cell := an.CellOf(x.Addr); cell != nil {
							for _, l := range an.LoadsOf(cell) {
								if l.Parent() == fn {
									walk(l)
								}
							}
						}
					}
				}
			}
			walk(res)
			for _, u := range uses {
				ta := u.(*ssa.TypeAssert)
				if ta.CommaOk {
					continue
				}
				if an.GuardedByNilResult(ta, call, 1) || an.KnownNonNil(ta.X, ta) {
					continue
				}
				bad = ta
			}
			if bad != nil {
				c.Bad(rule, cons, bad.Pos(), "the write's result is type-asserted without first checking its error: when the update is rejected (invalid or read-only mask, failed precondition) the result is a nil interface and the assertion panics instead of the error status being returned")
			} else {
				c.Ok(rule, cons, call.Pos(), "")
			}
		})
	}
}

// ---- R14.7: seed values only without updates-only --------------------------------------------

func r147(c *an.Ctx) {
	const rule = "R14.7"
	isUpdatesOnlyEdgeFalse := func(e an.CondEdge) bool {
		cond := e.If.Cond
		neg := false
		for {
			if u, ok := cond.(*ssa.UnOp); ok && u.Op == token.NOT {
				cond, neg = u.X, !neg
				continue
			}
			break
		}
		_, _, f, isF := an.FieldOf(cond)
		if !isF || f != "UpdatesOnly" {
			return false
		}
		// the edge on which UpdatesOnly is false
		return e.Branch == neg
	}
	for _, recv := range []string{"Value", "Collection"} {
		fn := mustFunc(c, rule, resPkg, recv, "onUpdate")
		if fn == nil {
			continue
		}
		name := an.FuncName(fn)
		c.SawFunc(name)
		ok := true
		var where token.Pos = fn.Pos()
		for _, r := range an.Returns(fn) {
			for i := 1; i < len(r.Results); i++ {
				for _, v := range an.ValuesAt(r.Results[i]) {
					if an.IsNilConst(v) {
						continue
					}
					if _, isC := v.(*ssa.Const); isC {
						continue
					}
					in, isInstr := v.(ssa.Instruction)
					if !isInstr {
						ok, where = false, r.Pos()
						continue
					}
					g := false
					for _, e := range an.GuardingEdges(in) {
						if isUpdatesOnlyEdgeFalse(e) {
							g = true
						}
					}
					if !g {
						ok, where = false, in.Pos()
					}
				}
			}
		}
		c.Check(ok, rule, name+"|the current state is read only when updates-only is off", where, "", "onUpdate returns current state that was not read under `!config.UpdatesOnly`: a Pull that asked for updates only is sent the current value first")
	}
	// seeds are built only where onUpdate's atomic snapshot-and-subscribe is used
	n := 0
	for _, fn := range c.Prog.FuncsIn(resPkg) {
		an.Instrs(fn, func(in ssa.Instruction) {
			st, ok := in.(*ssa.Store)
			if !ok {
				return
			}
			_, stName, f, isF := an.FieldOf(st.Addr)
			if !isF || f != "SeedValue" || !(strings.HasSuffix(stName, ".ValueChange") || strings.HasSuffix(stName, ".CollectionChange")) {
				return
			}
			if b, isC := an.ConstBool(st.Val); !isC || !b {
				return
			}
			n++
			// the function this code belongs to (a goroutine body or helper the rules have not seen belongs to its callers)
			owners := an.Owners(fn)
			top := owners[0]
			uses := true
			for _, o := range owners {
				usesHere := false
				for _, f2 := range an.WithClosures(o) {
					for _, call := range an.CallsIn(f2, func(s string) bool { return strings.HasSuffix(s, ").onUpdate") }) {
						_ = call
						usesHere = true
					}
				}
				if !usesHere {
					uses, top = false, o
				}
			}
			c.Check(uses, rule, an.FuncName(top)+"|a seed change is built from onUpdate's snapshot", st.Pos(), "", "a change marked SeedValue is constructed in a function that does not obtain the current state from onUpdate (which reads it only when updates-only is off, atomically with subscribing): the seed is sent regardless of updates_only, and is not ordered with the subscription")
		})
	}
	if n < 2 {
		c.Unk(rule, "pkg/resource|seed literals", 0, fmt.Sprintf("%d seed literals found, 2 expected (Value.Pull, Collection.Pull)", n))
	}
}

// ---- R14.8: a rejected update leaves the state unchanged --------------------------------------

var resourceWrites = []string{"pkg/resource.Value).Set", "pkg/resource.Collection).Update", "pkg/resource.Collection).Add", "pkg/resource.Collection).Delete"}

func isResourceWrite(call ssa.CallInstruction) bool {
	n := an.CalleeName(call)
	for _, w := range resourceWrites {
		if strings.HasSuffix(n, w) {
			return true
		}
	}
	return false
}

func r148(c *an.Ctx) { r148as(c, "R14.8", nil) }

func r148as(c *an.Ctx, rule string, keep func(*ssa.Function) bool) {
	// functions that (transitively, within pkg/trait) perform a resource write in their own body
	memo := map[*ssa.Function]int{}
	var writes func(fn *ssa.Function, depth int) bool
	writes = func(fn *ssa.Function, depth int) bool {
		if fn == nil || len(fn.Blocks) == 0 || depth > 3 {
			return false
		}
		if v, ok := memo[fn]; ok {
			return v == 1
		}
		memo[fn] = 0
		res := false
		an.Instrs(fn, func(in ssa.Instruction) {
			call, ok := in.(ssa.CallInstruction)
			if !ok {
				return
			}
			if isResourceWrite(call) {
				res = true
				return
			}
			if cal := call.Common().StaticCallee(); cal != nil && cal.Package() != nil && strings.HasPrefix(cal.Package().Pkg.Path(), an.ModulePath+"/pkg/trait") && !c.Prog.IsGenerated(cal.Pos()) {
				if writes(cal, depth+1) {
					res = true
				}
			}
		})
		if res {
			memo[fn] = 1
		}
		return res
	}
	var derives func(v ssa.Value, from map[ssa.Value]bool, depth int) bool
	derives = func(v ssa.Value, from map[ssa.Value]bool, depth int) bool {
		if v == nil || depth > 8 {
			return false
		}
		if from[v] {
			return true
		}
		switch x := v.(type) {
		case *ssa.Extract:
			return derives(x.Tuple, from, depth+1)
		case *ssa.Phi:
			for _, e := range x.Edges {
				if derives(e, from, depth+1) {
					return true
				}
			}
		case *ssa.Call:
			for _, a := range x.Call.Args {
				if derives(a, from, depth+1) {
					return true
				}
			}
			if x.Call.IsInvoke() {
				return derives(x.Call.Value, from, depth+1)
			}
		case *ssa.BinOp:
			return derives(x.X, from, depth+1) || derives(x.Y, from, depth+1)
		case *ssa.UnOp:
			if x.Op == token.MUL {
				if cell := an.CellOf(x.X); cell != nil {
					for _, st := range an.StoresTo(cell) {
						if derives(st.Val, from, depth+1) {
							return true
						}
					}
					return false
				}
			}
			return derives(x.X, from, depth+1)
		case *ssa.MakeInterface:
			return derives(x.X, from, depth+1)
		case *ssa.ChangeInterface:
			return derives(x.X, from, depth+1)
		case *ssa.TypeAssert:
			return derives(x.X, from, depth+1)
		case *ssa.Slice:
			return derives(x.X, from, depth+1)
		case *ssa.IndexAddr:
			return derives(x.X, from, depth+1)
		case *ssa.FieldAddr:
			return derives(x.X, from, depth+1)
		}
		return false
	}
	for _, fn := range c.Prog.FuncsIn("pkg/trait") {
		if c.Prog.IsGenerated(fn.Pos()) || fn.Parent() != nil || (keep != nil && !keep(fn)) {
			continue
		}
		res := fn.Signature.Results()
		if res.Len() == 0 || !an.IsErrorType(res.At(res.Len()-1).Type()) {
			continue
		}
		var ws []*ssa.Call
		an.Instrs(fn, func(in ssa.Instruction) {
			call, ok := in.(*ssa.Call)
			if !ok {
				return
			}
			if isResourceWrite(call) {
				ws = append(ws, call)
				return
			}
			if cal := call.Call.StaticCallee(); cal != nil && cal.Package() != nil && strings.HasPrefix(cal.Package().Pkg.Path(), an.ModulePath+"/pkg/trait") && !c.Prog.IsGenerated(cal.Pos()) && writes(cal, 0) {
				ws = append(ws, call)
			}
		})
		if len(ws) == 0 {
			continue
		}
		name := an.FuncName(fn)
		c.SawFunc(name)
		from := map[ssa.Value]bool{}
		errFrom := map[ssa.Value]bool{}
		for _, w := range ws {
			from[w] = true
			for _, u := range an.Referrers(w) {
				if ex, isEx := u.(*ssa.Extract); isEx && an.IsErrorType(ex.Type()) {
					errFrom[ex] = true
				}
			}
			if an.IsErrorType(w.Type()) {
				errFrom[w] = true
			}
		}
		bad := ""
		var where token.Pos = fn.Pos()
		for _, r := range an.Returns(fn) {
			after := false
			for _, w := range ws {
				if an.Reaches(w, r) {
					after = true
				}
			}
			if !after {
				continue
			}
			// guarded by a condition on the write's results?
			guarded := false
			for _, e := range an.GuardingEdges(r) {
				if !derives(e.If.Cond, from, 0) {
					continue
				}
				// only conditions that say "the write did not happen": its error is non-nil / matches a code,
				// or its value result is nil
				if x, trueMeansNil, isNil := an.NilTest(e.If.Cond); isNil {
					isWriteResult := false
					for _, s := range an.Sources(x) {
						if from[s] {
							isWriteResult = true
						}
						if ex, isEx := s.(*ssa.Extract); isEx && from[ex.Tuple] {
							isWriteResult = true
						}
					}
					if !isWriteResult {
						continue
					}
					isErr := an.IsErrorType(x.Type())
					if (isErr && e.Branch != trueMeansNil) || (!isErr && e.Branch == trueMeansNil) {
						guarded = true
					}
					continue
				}
				// e.g. status.Code(err) == codes.NotFound, errors.Is(err, X): a positive match on the write's error
				if derives(e.If.Cond, errFrom, 0) && e.Branch {
					guarded = true
				}
			}
			errRes := r.Results[len(r.Results)-1]
			vals := an.ValuesAt(errRes)
			if load, isLoad := errRes.(*ssa.UnOp); isLoad && load.Op == token.MUL && an.CellOf(load.X) != nil {
				vals = []ssa.Value{errRes} // a captured variable: judged by who assigns it, below
			}
			for _, v := range vals {
				if an.IsNilConst(v) || derives(v, errFrom, 0) || guarded {
					continue
				}
				// the error result of a function that never fails (every return hands back a nil error)
				if ex, isEx := v.(*ssa.Extract); isEx {
					if call, isCall := ex.Tuple.(*ssa.Call); isCall {
						if cal := call.Call.StaticCallee(); cal != nil && len(cal.Blocks) > 0 {
							never := true
							for _, cr := range an.Returns(cal) {
								if !an.IsNilConst(cr.Results[len(cr.Results)-1]) {
									never = false
								}
							}
							if never {
								continue
							}
						}
					}
				}
				// an error captured from an interceptor that neutralised the write
				if load, isLoad := v.(*ssa.UnOp); isLoad && load.Op == token.MUL {
					var stores []*ssa.Store
					found := false
					if cell := an.CellOf(load.X); cell != nil {
						stores, found = an.StoresTo(cell), true
					} else if _, sn, fld, isF := an.FieldOf(load.X); isF {
						// a field of an object of the function whose method is the interceptor (`d := dispenser{…};
						// InterceptBefore(d.intercept) … return d.maskedErr`): judged by who assigns that field
						for _, f := range c.Prog.FuncsIn("pkg/trait") {
							if f.Package() != fn.Package() {
								continue
							}
							an.Instrs(f, func(in ssa.Instruction) {
								if st, isSt := in.(*ssa.Store); isSt {
									if _, sn2, fld2, isF2 := an.FieldOf(st.Addr); isF2 && sn2 == sn && fld2 == fld {
										stores, found = append(stores, st), true
									}
								}
							})
						}
					}
					if found {
						okCell, seenStore := true, false
						for _, st := range stores {
							if an.IsNilConst(st.Val) {
								continue
							}
							sf := st.Parent()
							if sf == fn {
								// assigned in the function itself before the write: a validation error would have returned earlier
								okCell = false
								continue
							}
							seenStore = true
							// the interceptor's (old, new) are its last two parameters (a method has its receiver first)
							np := len(sf.Params)
							if np != 2 && !(np == 3 && sf.Signature.Recv() != nil) {
								okCell = false
								continue
							}
							oldP, newP := sf.Params[np-2], sf.Params[np-1]
							restores := func(in ssa.Instruction) bool {
								call, ok := in.(*ssa.Call)
								if !ok {
									return false
								}
								di, si := 0, 1
								if an.CalleeName(call) != "google.golang.org/protobuf/proto.Merge" {
									// a helper of the module that merges one of its arguments into another
									d, s0, _, isHelper := mergeOfParams(call.Call.StaticCallee())
									if !isHelper || d >= len(call.Call.Args) || s0 >= len(call.Call.Args) {
										return false
									}
									di, si = d, s0
								}
								a0 := derives(call.Call.Args[di], map[ssa.Value]bool{newP: true}, 0)
								a1 := derives(call.Call.Args[si], map[ssa.Value]bool{oldP: true}, 0)
								return a0 && a1
							}
							t, _ := an.PathQuery{Target: func(x ssa.Instruction) bool { _, isRet := x.(*ssa.Return); return isRet }, Avoid: restores}.From(sf, st)
							if t != nil {
								okCell = false
							}
						}
						if okCell && seenStore {
							continue
						}
					}
				}
				bad = "an error that does not come from the write is returned after the write has been performed"
				where = r.Pos()
			}
		}
		c.Check(bad == "", rule, name+"|an error is reported only when nothing was written", where, fmt.Sprintf("%d write(s)", len(ws)),
			bad+": the resource write in this function cannot be undone by returning an error afterwards (an interceptor cannot abort it), so a request answered with an error status has still changed what Get returns and has been published to Pull streams. Reject before the write, or restore the old value inside the interceptor (proto.Reset/Merge(new, old)) before reporting")
	}
}

// ---- R14.11 / R14.12: aggregate reads over a collection ---------------------------------------

// r1411: a model Get that assembles ONE message out of a collection's items applies the caller's read mask to
// that message; handing the read options to Collection.List applies the mask to the items, whose fields it
// does not describe.
func r1411(c *an.Ctx) {
	const rule = "R14.11"
	n := 0
	for _, fn := range c.Prog.FuncsIn("pkg/trait") {
		if c.Prog.IsGenerated(fn.Pos()) || fn.Parent() != nil || fn.Signature.Recv() == nil || !strings.HasPrefix(fn.Name(), "Get") || !fn.Signature.Variadic() {
			continue
		}
		last := fn.Params[len(fn.Params)-1]
		if !strings.Contains(last.Type().String(), "pkg/resource.ReadOption") {
			continue
		}
		res := fn.Signature.Results()
		if res.Len() == 0 {
			continue
		}
		ptr, isPtr := res.At(0).Type().(*types.Pointer)
		if !isPtr {
			continue
		}
		// builds its result as a literal of the result type?
		builds := false
		an.Instrs(fn, func(in ssa.Instruction) {
			if al, ok := in.(*ssa.Alloc); ok && al.Heap && types.Identical(al.Type(), ptr) {
				builds = true
			}
		})
		lists := an.CallsIn(fn, func(s string) bool { return strings.HasSuffix(s, "pkg/resource.Collection).List") })
		if !builds || len(lists) == 0 {
			continue
		}
		n++
		name := an.FuncName(fn)
		c.SawFunc(name)
		forwarded := false
		for _, l := range lists {
			args := l.Common().Args
			for _, s := range an.Sources(args[len(args)-1]) {
				if s == ssa.Value(last) {
					forwarded = true
				}
			}
		}
		filtered := false
		for _, r := range an.Returns(fn) {
			for _, v := range an.Sources(r.Results[0]) {
				if call, ok := v.(*ssa.Call); ok && strings.HasSuffix(an.CalleeName(call), "ResponseFilter).FilterClone") {
					filtered = true
				}
			}
		}
		c.Check(!forwarded && filtered, rule, name+"|the read mask is applied to the assembled message", fn.Pos(), "",
			fmt.Sprintf("the caller's read options are passed to Collection.List (%v) / the assembled message is not projected with the response filter (%v): the mask names fields of the assembled message (e.g. states.open_percent), applied to the items it clears them, so a masked Get is not the projection of the full Get", forwarded, !filtered))
	}
	c.Count("aggregate_gets", n)
}

// r1412: a forwarder that holds events back until the seed is complete must not wait for a seed that never comes:
// the flag that opens the gate is also raised by the first event that is not a seed (an empty collection sends no
// seed events).
func r1412(c *an.Ctx) {
	const rule = "R14.12"
	n := 0
	for _, fn := range c.Prog.FuncsIn("pkg/trait") {
		if c.Prog.IsGenerated(fn.Pos()) || fn.Parent() == nil {
			continue
		}
		loops := an.RecvLoops(fn)
		if len(loops) == 0 {
			continue
		}
		// does it look at LastSeedValue of a CollectionChange?
		usesLast := false
		an.Instrs(fn, func(in ssa.Instruction) {
			if _, sn, f, ok := an.FieldOf(valueOf(in)); ok && f == "LastSeedValue" && strings.HasSuffix(sn, "pkg/resource.CollectionChange") {
				usesLast = true
			}
		})
		if !usesLast {
			continue
		}
		for _, lp := range loops {
			for _, in := range lp.Header.Instrs {
				phi, ok := in.(*ssa.Phi)
				if !ok {
					continue
				}
				if b, isB := phi.Type().Underlying().(*types.Basic); !isB || b.Kind() != types.Bool {
					continue
				}
				n++
				name := an.FuncName(fn)
				c.SawFunc(name)
				// under which conditions does the flag become true?
				raisedOnUpdate := false
				for _, lf := range an.PhiLeaves(phi) {
					if b, isC := an.ConstBool(lf.Val); !isC || !b {
						continue
					}
					onlySeed := false
					for _, e := range lf.Conds {
						cond, branch := e.If.Cond, e.Branch
						if u, isNot := cond.(*ssa.UnOp); isNot && u.Op == token.NOT {
							cond, branch = u.X, !branch
						}
						if _, _, f, isF := an.FieldOf(cond); isF && f == "LastSeedValue" && branch {
							onlySeed = true
						}
					}
					if !onlySeed {
						raisedOnUpdate = true
					}
				}
				c.Check(raisedOnUpdate, rule, name+"|the gate that waits for the seed also opens without one", phi.Pos(), "",
					"the flag that lets events through is only raised by the last seed event: a collection that is empty when the stream opens sends no seed, so no update ever reaches the subscriber")
			}
		}
	}
	c.Count("seed_gates", n)
	// ... and it needs the seed: a function that rebuilds one message from a map of the collection's items (keyed by the
	// change's id) must subscribe WITH the current items whatever the caller asked for - updates_only is honoured when
	// deciding what to send, not by starving the map
	for _, fn := range c.Prog.FuncsIn("pkg/trait") {
		if c.Prog.IsGenerated(fn.Pos()) || fn.Parent() == nil {
			continue
		}
		keyed := false
		// (the bookkeeping may live in a helper of the package the forwarder calls with the change)
		scan := []*ssa.Function{fn}
		an.Instrs(fn, func(in ssa.Instruction) {
			if hc, ok := in.(*ssa.Call); ok {
				if g := hc.Call.StaticCallee(); g != nil && g.Pkg == fn.Pkg && len(g.Blocks) > 0 {
					scan = append(scan, g)
				}
			}
		})
		for _, f := range scan {
			an.Instrs(f, func(in ssa.Instruction) {
				if mu, ok := in.(*ssa.MapUpdate); ok {
					for _, s0 := range append(an.Sources(mu.Key), an.SourcesOpaque(mu.Key)...) {
						if _, sn, fld, isF := an.FieldOf(s0); isF && fld == "Id" && strings.HasSuffix(sn, "pkg/resource.CollectionChange") {
							keyed = true
						}
					}
				}
			})
		}
		if !keyed {
			continue
		}
		for _, pc := range an.CallsIn(fn, func(s string) bool { return strings.HasSuffix(s, "pkg/resource.Collection).Pull") }) {
			starves := false
			var walk func(v ssa.Value, depth int)
			walk = func(v ssa.Value, depth int) {
				if depth > 4 {
					return
				}
				for _, s0 := range an.Sources(v) {
					switch x := s0.(type) {
					case *ssa.Call:
						if an.CalleeName(x) == an.ModulePath+"/pkg/resource.WithUpdatesOnly" {
							if b, isC := an.ConstBool(x.Call.Args[0]); !isC || b {
								starves = true
							}
						}
					case *ssa.Slice:
						// the variadic slice: its elements
						an.Instrs(fn, func(in ssa.Instruction) {
							if st, ok := in.(*ssa.Store); ok {
								if ia, isIA := st.Addr.(*ssa.IndexAddr); isIA && ia.X == x.X {
									walk(st.Val, depth+1)
								}
							}
						})
					case *ssa.MakeInterface:
						walk(x.X, depth+1)
					}
				}
			}
			a := pc.Common().Args
			walk(a[len(a)-1], 0)
			top := fn
			for top.Parent() != nil {
				top = top.Parent()
			}
			c.SawFunc(an.FuncName(top))
			c.Check(!starves, rule, an.FuncName(top)+"|the items the message is rebuilt from are subscribed to with their current values", pc.Pos(), "",
				"the collection is subscribed to with the caller's updates_only option: without seed events the map the aggregate is rebuilt from stays empty, so every change sent on an updates-only stream carries only the items written since the stream opened instead of the full message Get and the Update response report")
		}
	}
}

func valueOf(in ssa.Instruction) ssa.Value {
	if v, ok := in.(ssa.Value); ok {
		return v
	}
	return nil
}

// r1417: a model's Pull forwarder lives as long as its subscription. In the goroutines of the trait models that range
// over a resource subscription and forward to the model's own channel, the only ways out of the loop are the end of
// the input (the subscription's context ended) and a select case on a context's Done. A `return` anywhere else - on a
// value that did not change, on a filtered event - ends the stream for the client (a clean EOF) although nobody closed
// it, and every later write is never announced.
func r1417(c *an.Ctx, rule string) {
	n := 0
	for _, fn := range c.Prog.FuncsIn("pkg/trait") {
		if c.Prog.IsGenerated(fn.Pos()) || fn.Parent() == nil {
			continue
		}
		file := c.Prog.RelFile(fn.Pos())
		if !strings.HasSuffix(file, "/model.go") {
			continue
		}
		for _, rl := range an.RecvLoops(fn) {
			b, recv := rl.Header, rl.Recv
			// producer: a call with a context argument whose result is the ranged channel
			bound := false
			for _, s := range an.Sources(recv.X) {
				if call, ok := s.(*ssa.Call); ok {
					for _, a := range call.Call.Args {
						if an.NamedTypeName(a.Type()) == "context.Context" {
							bound = true
						}
					}
				}
			}
			if !bound || len(b.Succs) == 0 {
				continue
			}
			n++
			c.SawFunc(an.FuncName(fn))
			body := b.Succs[0]
			var early *ssa.Return
			for _, r := range an.Returns(fn) {
				if r.Block() == fn.Recover {
					continue
				}
				t, _ := an.PathQuery{Target: func(in ssa.Instruction) bool { return in == ssa.Instruction(r) },
					Avoid: func(in ssa.Instruction) bool { return in == ssa.Instruction(recv) }}.FromBlock(body)
				if t == nil {
					continue
				}
				viaDone := false
				for _, e := range an.GuardingEdges(r) {
					bo, ok := e.If.Cond.(*ssa.BinOp)
					if !ok || !e.Branch {
						continue
					}
					ex, ok := bo.X.(*ssa.Extract)
					if !ok || ex.Index != 0 {
						continue
					}
					sel, ok := ex.Tuple.(*ssa.Select)
					if !ok {
						continue
					}
					idx, isC := an.ConstInt(bo.Y)
					if !isC || int(idx) >= len(sel.States) {
						continue
					}
					if st := sel.States[idx]; st.Dir == types.RecvOnly {
						if _, isDone := an.CtxDone(st.Chan); isDone {
							viaDone = true
						}
					}
				}
				if !viaDone {
					early = r
				}
			}
			pos := recv.Pos()
			if early != nil {
				pos = early.Pos()
			}
			c.Check(early == nil, rule, an.FuncName(fn)+"|the forwarder only stops with its subscription", pos, "the loop ends when the input closes or a context is done",
				"the forwarding loop returns on a path that is neither the end of its input nor a context's Done: the model's channel is closed while the subscription is alive, the server handler returns nil, and the client sees its Pull stream end (EOF) although nobody closed it; later writes are never announced")
		}
	}
	c.Count("model_forwarders", n)
}

// r1418: read options are applied once, at the level they were written for. A model function that interprets its read
// options itself (resource.ComputeReadConfig(opts...): it assembles an aggregate message from several items and projects
// THAT with the request's mask) does not also hand the same options to the item resource underneath: the mask names
// fields of the aggregate, which the items do not have, so every item is projected to nothing (and updates-only would
// suppress the items' seed the aggregate is built from).
func r1418(c *an.Ctx, rule string) {
	n := 0
	crc := an.ModulePath + "/pkg/resource.ComputeReadConfig"
	for _, fn := range c.Prog.FuncsIn("pkg/trait") {
		if c.Prog.IsGenerated(fn.Pos()) || fn.Parent() != nil || !fn.Signature.Variadic() || len(fn.Params) == 0 {
			continue
		}
		vp := fn.Params[len(fn.Params)-1]
		interprets := false
		for _, call := range an.CallsTo(fn, crc) {
			for _, a := range call.Common().Args {
				for _, v := range localValues(a, 0) {
					if v == ssa.Value(vp) {
						interprets = true
					}
				}
			}
		}
		if !interprets {
			continue
		}
		n++
		c.SawFunc(an.FuncName(fn))
		var fwd ssa.Instruction
		for _, f := range an.WithClosures(fn) {
			an.Instrs(f, func(in ssa.Instruction) {
				call, ok := in.(ssa.CallInstruction)
				if !ok || an.CalleeName(call) == crc {
					return
				}
				if !strings.Contains(an.CalleeName(call), "/pkg/resource.") {
					return
				}
				for _, a := range call.Common().Args {
					for _, v := range localValues(a, 0) {
						if v == ssa.Value(vp) {
							fwd = in
						}
						if fv, isFV := v.(*ssa.FreeVar); isFV {
							if b := an.FreeVarBinding(fv); b == ssa.Value(vp) {
								fwd = in
							}
						}
						// a captured variable: the cell the closure shares with the function, holding the parameter
						if u, isU := v.(*ssa.UnOp); isU {
							if fv, isFV := u.X.(*ssa.FreeVar); isFV {
								if cell := an.CellOf(fv); cell != nil {
									for _, st := range an.StoresTo(cell) {
										if st.Val == ssa.Value(vp) {
											fwd = in
										}
									}
								}
							}
						}
					}
				}
			})
		}
		pos := fn.Pos()
		if fwd != nil {
			pos = fwd.Pos()
		}
		c.Check(fwd == nil, rule, an.FuncName(fn)+"|read options are applied once, to the aggregate", pos, "interprets its options itself and does not forward them",
			"the function computes its own read configuration from its options AND passes the same options to the resource underneath: the read mask is written against the aggregate message, the items it is applied to do not have those fields and are projected to nothing")
	}
	c.Count("functions_interpreting_read_options", n)
}

// r1421: a write that a handler leaves behind in a goroutine (the light's brightness ramp: a ticker loop that keeps
// writing after UpdateBrightness has answered) is made only while the register still holds what that goroutine
// wrote last - every write in such a goroutine carries resource.WithExpectedValue / WithExpectedCheck. Without it a
// ramp that a later Update has superseded overwrites that Update at its next tick: Get answers with a value no
// Update produced and the open Pull streams announce it.
func r1421(c *an.Ctx, rule string) {
	n := 0
	for _, fn := range c.Prog.FuncsIn("pkg/trait") {
		if c.Prog.IsGenerated(fn.Pos()) || strings.HasSuffix(c.Prog.RelFile(fn.Pos()), "_test.go") {
			continue
		}
		for _, g := range an.GoStmts(fn) {
			tgt := an.GoTarget(g)
			if tgt == nil {
				continue
			}
			ord := 0
			for _, f := range append([]*ssa.Function{tgt}, an.TransparentCalleesOf(tgt, 1)...) {
				if !an.InModule(f) {
					continue
				}
				an.Instrs(f, func(in ssa.Instruction) {
					call, ok := in.(*ssa.Call)
					if !ok {
						return
					}
					cn := an.CalleeName(call)
					if !strings.HasSuffix(cn, "pkg/resource.Value).Set") && !strings.HasSuffix(cn, "pkg/resource.Collection).Update") {
						return
					}
					ord++
					n++
					conditional, known := false, true
					opts := call.Call.Args[len(call.Call.Args)-1]
					elems := variadicElems(opts)
					if elems == nil && !an.IsNilConst(opts) {
						known = false
					}
					for _, e := range elems {
						for _, s := range an.Sources(e) {
							if oc, isC := s.(*ssa.Call); isC {
								on := an.CalleeName(oc)
								if strings.HasSuffix(on, "pkg/resource.WithExpectedValue") || strings.HasSuffix(on, "pkg/resource.WithExpectedCheck") {
									conditional = true
								}
							}
						}
					}
					cons := fmt.Sprintf("%s|background write #%d is conditional on the value last written", an.FuncName(tgt), ord)
					if !known {
						c.Unk(rule, cons, call.Pos(), "the write's options are not a literal list")
						return
					}
					c.Check(conditional, rule, cons, call.Pos(), "carries WithExpectedValue / WithExpectedCheck",
						"a goroutine left behind by a handler writes the register unconditionally: a later Update that superseded it is overwritten at the next tick, so Get returns a value no Update produced")
				})
			}
		}
	}
	c.Count("background_writes", n)
}

// r1425: what a read mask has projected is final. A field assigned AFTER the projection (openclose: the preset derived
// from the states, stored into the already filtered message) is outside the mask's control: with read_mask=[states]
// the stream carries a preset the mask excludes and Get(mask) and Pull(mask) disagree; assigned before the
// projection and filtered with the rest it is right. No store goes through a message that is the result of
// ResponseFilter.FilterClone in the trait packages.
func r1425(c *an.Ctx, rule string) {
	n := 0
	fc := "pkg/masks.ResponseFilter).FilterClone"
	for _, fn := range c.Prog.FuncsIn("pkg/trait") {
		if c.Prog.IsGenerated(fn.Pos()) || strings.HasSuffix(c.Prog.RelFile(fn.Pos()), "_test.go") {
			continue
		}
		has := false
		an.Instrs(fn, func(in ssa.Instruction) {
			if call, ok := in.(*ssa.Call); ok && strings.HasSuffix(an.CalleeName(call), fc) {
				has = true
			}
		})
		if !has {
			continue
		}
		n++
		var bad ssa.Instruction
		an.Instrs(fn, func(in ssa.Instruction) {
			st, ok := in.(*ssa.Store)
			if !ok {
				return
			}
			fa, isFA := st.Addr.(*ssa.FieldAddr)
			if !isFA {
				return
			}
			for _, v := range an.ValuesAt(fa.X) {
				var call *ssa.Call
				switch x := v.(type) {
				case *ssa.Call:
					call = x
				case *ssa.TypeAssert:
					for _, s := range an.ValuesAt(x.X) {
						if cl, isC := s.(*ssa.Call); isC {
							call = cl
						}
					}
				}
				if call != nil && strings.HasSuffix(an.CalleeName(call), fc) {
					bad = in
				}
			}
		})
		pos := fn.Pos()
		if bad != nil {
			pos = bad.Pos()
		}
		c.SawFunc(an.FuncName(fn))
		c.Check(bad == nil, rule, an.FuncName(fn)+"|nothing is assigned to a message after its projection", pos, "no store through a FilterClone result",
			"a field of the projected message is assigned after the read mask was applied: it reaches the subscriber whatever the mask says, and a field the mask names but that is derived later is missing when the projection decides what to send")
	}
	c.Count("functions_projecting_with_FilterClone", n)
}

// r1426: Get and Pull agree on the order of an aggregate's parts. openclose's Get lists the positions by the
// collection's id order (the direction number, zero padded) and Pull sorts what it has folded with sortPositions:
// ascending by direction, `a.Direction - b.Direction`. The comparison function takes its first parameter's field
// first; reversed, every new Pull starts with the states in the opposite order to what Get returns.
func r1426(c *an.Ctx, rule string) {
	fn := c.Prog.Func("pkg/trait/openclosepb", "", "sortPositions")
	if fn == nil {
		c.Ok(rule, "pkg/trait/openclosepb|no separate sort of the pulled positions", 0, "")
		return
	}
	name := an.FuncName(fn)
	c.SawFunc(name)
	n, ok := 0, true
	for _, cl := range fn.AnonFuncs {
		if len(cl.Params) != 2 {
			continue
		}
		for _, r := range an.Returns(cl) {
			if len(r.Results) != 1 {
				continue
			}
			for _, v := range an.ValuesAt(r.Results[0]) {
				bo, isBo := v.(*ssa.BinOp)
				if !isBo || bo.Op != token.SUB {
					if call, isCall := v.(*ssa.Call); isCall && (strings.HasPrefix(an.CalleeName(call), "cmp.Compare") || an.CalleeName(call) == "strings.Compare") && len(call.Call.Args) == 2 {
						n++
						if !derivesFromParam(call.Call.Args[0], cl.Params[0]) || !derivesFromParam(call.Call.Args[1], cl.Params[1]) {
							ok = false
						}
					}
					continue
				}
				n++
				if !derivesFromParam(bo.X, cl.Params[0]) || !derivesFromParam(bo.Y, cl.Params[1]) {
					ok = false
				}
			}
		}
	}
	c.Check(ok && n > 0, rule, name+"|ascending by direction", fn.Pos(), "a.Direction - b.Direction",
		"the comparison function does not order its first argument before its second by direction: Pull delivers the states in another order than Get and the Update response")
}

func derivesFromParam(v ssa.Value, p *ssa.Parameter) bool {
	seen := map[ssa.Value]bool{}
	var visit func(v ssa.Value) bool
	visit = func(v ssa.Value) bool {
		if v == nil || seen[v] {
			return false
		}
		seen[v] = true
		if v == ssa.Value(p) {
			return true
		}
		switch x := v.(type) {
		case *ssa.UnOp:
			return visit(x.X)
		case *ssa.FieldAddr:
			return visit(x.X)
		case *ssa.Convert:
			return visit(x.X)
		case *ssa.ChangeType:
			return visit(x.X)
		case *ssa.Call:
			if x.Call.IsInvoke() || len(x.Call.Args) == 1 {
				if x.Call.IsInvoke() {
					return visit(x.Call.Value)
				}
				return visit(x.Call.Args[0])
			}
		}
		for _, s := range an.Sources(v) {
			if s != v && visit(s) {
				return true
			}
		}
		return false
	}
	return visit(v)
}

// r1428: Pull looks the preset up on the states in the order Get has them. presetForValue compares the states
// element by element with the preset's positions, which are kept in direction order; Get reads them from the
// collection in that order, Pull folds them into a map and has to sort before it asks - looked up on the map's
// iteration order no preset is found, and a new Pull does not start with the value Get returns.
func r1428(c *an.Ctx, rule string) {
	n := 0
	for _, fn := range c.Prog.FuncsIn("pkg/trait/openclosepb") {
		if c.Prog.IsGenerated(fn.Pos()) {
			continue
		}
		var sorts, lookups []*ssa.Call
		an.Instrs(fn, func(in ssa.Instruction) {
			call, ok := in.(*ssa.Call)
			if !ok {
				return
			}
			switch {
			case strings.HasSuffix(an.CalleeName(call), "openclosepb.sortPositions"):
				sorts = append(sorts, call)
			case strings.HasSuffix(an.CalleeName(call), "openclosepb.Model).presetForValue"):
				lookups = append(lookups, call)
			}
		})
		if len(sorts) == 0 {
			continue // (Get lists the collection, which is sorted already)
		}
		for i, lk := range lookups {
			n++
			sorted := false
			for _, s := range sorts {
				if an.Dominates(s, lk) {
					sorted = true
				}
			}
			c.SawFunc(an.FuncName(fn))
			c.Check(sorted, rule, fmt.Sprintf("%s|preset look-up #%d follows the sort", an.FuncName(fn), i+1), lk.Pos(), "sortPositions dominates presetForValue",
				"the preset is looked up before the folded states are sorted: the element-wise comparison with the preset's positions fails on the map's iteration order, so Pull carries no preset where Get does")
		}
	}
	c.Count("preset_lookups_after_a_fold", n)
}
