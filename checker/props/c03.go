package props

import (
	"fmt"
	"go/token"
	"strings"

	"golang.org/x/tools/go/ssa"

	"scverif/an"
)

func init() {
	register(&Prop{
		ID:          "C03",
		Title:       "A subscriber's folded view converges to the store's state",
		Explanation: "R03.1 in both onUpdate functions the bus listener is registered while the lock that covered the snapshot is still held (no commit can fall between snapshot and registration). R03.2 Value.Pull, Collection.Pull and Collection.PullID reach Bus.Listen synchronously on every path before they return. R03.3 from the commit of a write to the Bus.Send that publishes it a lock that serialises writers is held continuously (holds for Collection.Delete; Value.set and Collection.Update publish after releasing the lock: recorded known findings F-3a/b). R03.4 the published change carries GetAndUpdate's new (and old) value and the id the item was saved under. R03.5 no seed event can be sent after the update loop started. R03.6 the listener registry is accessed under its lock and delivery iterates a copy. R03.7 PullID forwards exactly the events of its (intercepted) id and ends on REMOVE. R03.9/R03.10 every committed write publishes exactly one event and queued events merge by the documented table. R03.11 the event object shared by all subscribers is never written by the forwarding code. R03.7 also: the REMOVE test of PullID is reached for events of the requested id only, so only the item's own removal ends the stream. Does NOT decide convergence itself, interleavings inside Bus.Send across listeners, or consumer pacing.",
		Assumptions: []string{"Bus.Send delivers synchronously to listeners registered before it copied the registry"},
		Run:         runC03,
		Controls: []Control{
			{Name: "pullid-remove-test-before-id-test", File: "pkg/resource/collection.go", Old: "\t\t\tif change.Id != id {\n\t\t\t\tcontinue\n\t\t\t}\n\n\t\t\tif change.ChangeType == types.ChangeType_REMOVE {\n\t\t\t\treturn\n\t\t\t}\n", New: "\t\t\tif change.ChangeType == types.ChangeType_REMOVE {\n\t\t\t\treturn\n\t\t\t}\n\n\t\t\tif change.Id != id {\n\t\t\t\tcontinue\n\t\t\t}\n", Expect: "R03.7"},
			{Name: "pullid-drops-its-options", File: "pkg/resource/collection.go", Old: "\tchanges := c.Pull(ctx, opts...)\n", New: "\tchanges := c.Pull(ctx)\n", Expect: "R03.14"},
			{Name: "send-results-read-the-other-way-round", File: "internal/minibus/bus.go", Old: "\t\tok, active := l.send(ctx, event)\n", New: "\t\tactive, ok := l.send(ctx, event)\n", Expect: "R03.12"},
			{Name: "unlock-before-listen", File: "pkg/resource/value.go", Old: "\t\tr.mu.RLock()\n\t\tdefer r.mu.RUnlock()\n\t\tvalue = r.value\n\t\tchangeTime = r.changeTime\n", New: "\t\tr.mu.RLock()\n\t\tvalue = r.value\n\t\tchangeTime = r.changeTime\n\t\tr.mu.RUnlock()\n", Expect: "R03.1"},
			{Name: "subscribe-in-goroutine", File: "pkg/resource/value.go", Old: "\ton, currentValue, changeTime := r.onUpdate(ctx, readConfig)\n\ttypedEvents := make(chan *ValueChange)\n\tgo func() {\n\t\tdefer close(typedEvents)\n", New: "\ttypedEvents := make(chan *ValueChange)\n\tgo func() {\n\t\tdefer close(typedEvents)\n\t\ton, currentValue, changeTime := r.onUpdate(ctx, readConfig)\n", Expect: "R03.2"},
			{Name: "pullid-subscribe-in-goroutine", File: "pkg/resource/collection.go", Old: "\tchanges := c.Pull(ctx, opts...)\n\n\tsend := make(chan *ValueChange)\n\tgo func() {\n\t\tdefer close(send)\n\t\tdefer cancel()\n", New: "\tsend := make(chan *ValueChange)\n\tgo func() {\n\t\tdefer close(send)\n\t\tdefer cancel()\n\t\tchanges := c.Pull(ctx, opts...)\n", Expect: "R03.2"},
			{Name: "delete-publish-after-unlock", File: "pkg/resource/collection.go", Old: "\t\tdelete(c.byId, id)\n\t\tc.bus.Send(", New: "\t\tdelete(c.byId, id)\n\t\tc.mu.Unlock()\n\t\tc.mu.Lock()\n\t\tc.bus.Send(", Expect: "R03.3"},
			{Name: "publish-request-value", File: "pkg/resource/value.go", Old: "\t\tValue:      newValue,\n", New: "\t\tValue:      value,\n", Expect: "R03.4"},
			{Name: "publish-other-id", File: "pkg/resource/collection.go", Old: "\t\tId:         id,\n\t\tChangeTime: changeTime,", New: "\t\tId:         \"\",\n\t\tChangeTime: changeTime,", Expect: "R03.4"},
			{Name: "pullid-forwards-all", File: "pkg/resource/collection.go", Old: "\t\t\tif change.Id != id {\n\t\t\t\tcontinue\n\t\t\t}\n", New: "", Expect: "R03.7"},
			{Name: "pullid-ignores-remove", File: "pkg/resource/collection.go", Old: "\t\t\tif change.ChangeType == types.ChangeType_REMOVE {\n\t\t\t\treturn\n\t\t\t}\n", New: "\t\t\tif change.ChangeType == types.ChangeType_REMOVE {\n\t\t\t\tcontinue\n\t\t\t}\n", Expect: "R03.7"},
			{Name: "lock-instead-of-rlock", Silent: true, File: "pkg/resource/value.go", Old: "\t\tr.mu.RLock()\n\t\tdefer r.mu.RUnlock()\n\t\tvalue = r.value", New: "\t\tr.mu.Lock()\n\t\tdefer r.mu.Unlock()\n\t\tvalue = r.value"},
		},
	})
}

const busListen = "(*" + an.ModulePath + "/internal/minibus.Bus).Listen"
const busSend = "(*" + an.ModulePath + "/internal/minibus.Bus).Send"
const gauName = an.ModulePath + "/pkg/resource.GetAndUpdate"

func runC03(c *an.Ctx) {
	r0113(c, "R03.14") // a subscription entry point passes its options on (shared with R01.13)
	c.Min("R03.14", 40)
	r046(c, "R03.15")
	r165held(c, "R03.15") // the reference of the equivalence test follows what was delivered (shared with R16.5)
	c.Min("R03.15", 2)
	r0117as(c, "R03.18") // Get/List return what the last event announced: the save callback stores the merged message it is given (shared with R01.17)
	c.Min("R03.18", 2)
	r1418(c, "R03.16") // an aggregate's subscription is folded from unfiltered items: read options are applied once (shared with R14.18)
	c.Min("R03.16", 2)
	r062filters(c, "R03.17") // the projected copy of a change keeps id, type and times: a masked stream folds to the masked listing (shared with R06.2)
	c.Min("R03.17", 2)
	r109(c, "R03.12") // what Bus.Send makes of listener.send's two results (shared with R10.9)
	c.Min("R03.12", 3)
	r031(c)
	r032(c)
	r033(c)
	r034(c, "R03.4")
	r035(c, "R03.5")
	g := analyseGuarded(c)
	reportGuarded(c, "R03.6", g, func(s string) bool { return s == "internal/minibus.Bus" })
	registryRebuild(c, "R03.6")
	r037(c)
	r045as(c, "R03.8") // forwarding loops drop events only by configuration (else the last event is not the final value)
	c.Min("R03.8", 2)
	// every committed write publishes exactly one event, and merging queued events for a slow reader keeps the
	// fold of the stream equal to the store (both are necessary for the folded view to converge)
	r041as(c, "R03.9")
	r091as(c, "R03.10")
	r095(c, "R03.13") // the queue that merges them forgets an event once it is delivered (shared with R09.5)
	c.Min("R03.13", 2)
	c.Min("R03.9", 3)
	c.Min("R03.10", 32)
	// one event object is delivered to every subscriber: a subscriber's view converges only if nobody (another
	// subscriber's read mask, the merge stage of a slow reader) writes that object or the values it carries (E2)
	runE2(c, "R03.11", func(fn *ssa.Function) bool {
		return fn.Package() != nil && strings.HasSuffix(fn.Package().Pkg.Path(), "/pkg/resource")
	})
	c.Min("R03.11", 10)
	c.Min("R03.1", 2)
	c.Min("R03.2", 3)
	c.Min("R03.3", 3)
	c.Min("R03.4", 5)
	c.Min("R03.5", 2)
	c.Min("R03.6", 3)
	c.Min("R03.7", 3)
}

func r031(c *an.Ctx) {
	const rule = "R03.1"
	w := lockWorld(c)
	g := analyseGuarded(c)
	for _, recv := range []string{"Value", "Collection"} {
		fn := mustFunc(c, rule, resPkg, recv, "onUpdate")
		if fn == nil {
			continue
		}
		name := "(*pkg/resource." + recv + ").onUpdate"
		li := w.Info[fn]
		// the registration, in onUpdate itself or in a helper it delegates to (each call of the helper is a site)
		var listens []ssa.Instruction
		for _, vc := range an.CallsToDeep(fn, busListen) {
			listens = append(listens, vc.Site)
		}
		if len(listens) == 0 {
			c.Bad(rule, name+"|snapshot and registration atomic", fn.Pos(), "onUpdate never registers a bus listener")
			continue
		}
		// snapshot instructions: guarded reads in this function, or calls to helpers that read guarded state (itemSlice)
		var snaps []ssa.Instruction
		for _, a := range g.Accesses {
			if a.Fn == fn && !a.Write && strings.HasSuffix(a.Struct, "pkg/resource."+recv) {
				snaps = append(snaps, a.Instr)
			}
		}
		for _, cl := range an.CallsTo(fn, "(*"+an.ModulePath+"/pkg/resource.Collection).itemSlice") {
			snaps = append(snaps, cl)
		}
		if len(snaps) == 0 {
			c.Unk(rule, name+"|snapshot and registration atomic", fn.Pos(), "no snapshot read found in onUpdate")
			continue
		}
		ok := true
		why := ""
		for _, l := range listens {
			for _, s := range snaps {
				if an.Reaches(l, s) {
					ok = false
					why = "the snapshot is taken after the listener is registered on some path"
					continue
				}
				if !an.Reaches(s, l) {
					continue // on different paths (an updates-only subscription takes no snapshot)
				}
				lock := ""
				for k := range li.At(s) {
					if strings.HasSuffix(k, ".mu") {
						lock = k
					}
				}
				if lock == "" || !an.HeldContinuously(li, lock, an.RLock, s, l) {
					ok = false
					why = fmt.Sprintf("the lock covering the snapshot (%s) is not held continuously until Bus.Listen: a write committed and published in between is in neither the seed nor the stream", li.At(s))
				}
			}
		}
		c.Check(ok, rule, name+"|snapshot and registration atomic", listens[0].Pos(), "Bus.Listen runs while the snapshot's lock is still held", why)
	}
}

func r032(c *an.Ctx) {
	const rule = "R03.2"
	for _, t := range [][2]string{{"Value", "Pull"}, {"Collection", "Pull"}, {"Collection", "PullID"}} {
		fn := mustFunc(c, rule, resPkg, t[0], t[1])
		if fn == nil {
			continue
		}
		name := "(*pkg/resource." + t[0] + ")." + t[1]
		ok := reachesOnAllPaths(c, fn, busListen, 3)
		c.Check(ok, rule, name+"|registers synchronously", fn.Pos(), "every path to return passes a synchronous call chain to Bus.Listen",
			"the bus listener is not registered before "+t[1]+" returns (only inside a goroutine, or not on every path): a write that happens after the subscription call returned can be missed, and a REMOVE in that window never ends a PullID stream")
	}
}

func r033(c *an.Ctx) {
	const rule = "R03.3"
	w := lockWorld(c)
	for _, t := range [][2]string{{"Value", "set"}, {"Collection", "Update"}, {"Collection", "Delete"}} {
		fn := mustFunc(c, rule, resPkg, t[0], t[1])
		if fn == nil {
			continue
		}
		name := "(*pkg/resource." + t[0] + ")." + t[1]
		// commit and publication are looked for where they are written: in the function, or together in a helper it
		// delegates the locked step to; a helper that only publishes stands for a publication at its call site
		isCommit := func(in ssa.Instruction) bool {
			if an.IsCallTo(in, gauName) {
				return true
			}
			if cl, ok := in.(*ssa.Call); ok && an.CalleeName(cl) == "builtin delete" {
				return true
			}
			_, isMU := in.(*ssa.MapUpdate)
			return isMU
		}
		type pair struct {
			f      *ssa.Function
			sends  []ssa.Instruction
			commit []ssa.Instruction
		}
		var pairs []pair
		collect := func(f *ssa.Function) (sends, commits []ssa.Instruction) {
			an.Instrs(f, func(in ssa.Instruction) {
				if an.IsCallTo(in, busSend) {
					sends = append(sends, in)
				}
				if isCommit(in) {
					commits = append(commits, in)
				}
			})
			return
		}
		fs, fc := collect(fn)
		for _, h := range an.TransparentCalleesOf(fn, 1) {
			hs, hc := collect(h)
			if len(hs) == 0 {
				// commits only (set = store + publish): its call sites in fn are the commits
				if len(hc) > 0 {
					an.Instrs(fn, func(in ssa.Instruction) {
						if cl, ok := in.(*ssa.Call); ok && an.TransparentCallee(cl) == h {
							fc = append(fc, in)
						}
					})
				}
				continue
			}
			if len(hc) > 0 {
				pairs = append(pairs, pair{h, hs, hc})
				continue
			}
			// publishes only: its call sites in fn are the publications
			an.Instrs(fn, func(in ssa.Instruction) {
				if cl, ok := in.(*ssa.Call); ok && an.TransparentCallee(cl) == h {
					fs = append(fs, in)
				}
			})
		}
		if len(fs) > 0 {
			pairs = append(pairs, pair{fn, fs, fc})
		}
		if len(pairs) == 0 {
			c.Bad(rule, name+"|commit→publish ordered", fn.Pos(), "no Bus.Send: writes are never published")
			continue
		}
		for _, p := range pairs {
			li := w.Info[p.f]
			if len(p.commit) == 0 {
				c.Unk(rule, name+"|commit→publish ordered", p.f.Pos(), "no commit point (GetAndUpdate / map write) found")
				continue
			}
			for _, s := range p.sends {
				ok := false
				for _, cm := range p.commit {
					if !an.Dominates(cm, s) {
						continue
					}
					for lock := range li.At(s) {
						if an.HeldContinuously(li, lock, an.WLock, cm, s) && li.At(cm)[lock] >= an.WLock {
							ok = true
						}
					}
				}
				c.Check(ok, rule, name+"|commit→publish ordered", s.Pos(), "an exclusive lock is held from the commit to Bus.Send",
					"no writer-serialising lock is held between the commit and Bus.Send (lock set at Send: "+li.At(s).String()+"): writer A commits v1, writer B commits and publishes v2, then A publishes v1 - events reach subscribers in the opposite order to the commits and the folded view ends stale")
			}
		}
	}
}

// litFields returns the values stored into the fields of a composite literal
// allocation (new T (complit)).
func litFields(v ssa.Value) (map[string]ssa.Value, *ssa.Alloc) {
	v = an.Unwrap(v)
	alloc, ok := v.(*ssa.Alloc)
	if !ok {
		return nil, nil
	}
	out := map[string]ssa.Value{}
	for _, u := range an.Referrers(alloc) {
		fa, ok := u.(*ssa.FieldAddr)
		if !ok {
			continue
		}
		_, _, f, _ := an.FieldOf(fa)
		for _, u2 := range an.Referrers(fa) {
			if st, ok := u2.(*ssa.Store); ok && st.Addr == fa {
				out[f] = st.Val
			}
		}
	}
	return out, alloc
}

// litCopiedFrom: the literal's variable starts as a copy of another object (`filtered := *v`): the pointer that was
// copied from, or nil. Fields not assigned afterwards keep that object's values.
func litCopiedFrom(alloc *ssa.Alloc) ssa.Value {
	if alloc == nil {
		return nil
	}
	for _, u := range an.Referrers(alloc) {
		if st, ok := u.(*ssa.Store); ok && st.Addr == ssa.Value(alloc) {
			if ld, isLoad := st.Val.(*ssa.UnOp); isLoad && ld.Op == token.MUL {
				return ld.X
			}
		}
	}
	return nil
}

func allAre(vs []ssa.Value, pred func(ssa.Value) bool) bool {
	if len(vs) == 0 {
		return false
	}
	for _, v := range vs {
		if !pred(v) {
			return false
		}
	}
	return true
}

func r034(c *an.Ctx, rule string) {
	// Value.set
	if fn := mustFunc(c, rule, resPkg, "Value", "set"); fn != nil {
		name := "(*pkg/resource.Value).set"
		gaus := deepInner(an.CallsToDeep(fn, gauName))
		for i, vc := range an.CallsToDeep(fn, busSend) {
			s := vc.Site
			fields, _ := litFields(vc.Inner.Common().Args[2])
			cons := fmt.Sprintf("%s|publish#%d carries the committed value", name, i+1)
			if fields == nil || len(gaus) != 1 {
				c.Unk(rule, cons, s.Pos(), "the published event is not a composite literal / GetAndUpdate call not unique")
				continue
			}
			gau := gaus[0].(*ssa.Call)
			ok := fields["Value"] != nil && allAre(an.ValuesAt(fields["Value"]), func(v ssa.Value) bool { return an.IsExtractOf(v, gau, 1) })
			c.Check(ok, rule, cons, s.Pos(), "ValueChange.Value = GetAndUpdate's new value", "the published ValueChange.Value is not the value GetAndUpdate saved")
			// and Set returns it
			retOK := true
			for _, r := range an.Returns(fn) {
				if !allAre(an.ValuesAt(r.Results[0]), func(v ssa.Value) bool { return an.IsNilConst(v) || an.IsExtractOf(v, gau, 1) }) {
					retOK = false
				}
			}
			c.Check(retOK, rule, name+"|returns the committed value", fn.Pos(), "set returns GetAndUpdate's new value (or nil with an error)", "set returns something other than the saved value")
		}
	}
	// Collection.Update
	if fn := mustFunc(c, rule, resPkg, "Collection", "Update"); fn != nil {
		name := "(*pkg/resource.Collection).Update"
		gaus := deepInner(an.CallsToDeep(fn, gauName))
		for i, vc := range an.CallsToDeep(fn, busSend) {
			s := vc.Site
			fields, _ := litFields(vc.Inner.Common().Args[2])
			cons := fmt.Sprintf("%s|publish#%d", name, i+1)
			if fields == nil || len(gaus) != 1 {
				c.Unk(rule, cons, s.Pos(), "the published event is not a composite literal / GetAndUpdate call not unique")
				continue
			}
			gau := gaus[0].(*ssa.Call)
			c.Check(fields["NewValue"] != nil && allAre(an.ValuesAt(fields["NewValue"]), func(v ssa.Value) bool { return an.IsExtractOf(v, gau, 1) }),
				rule, cons+" NewValue is the committed value", s.Pos(), "NewValue = GetAndUpdate's new value", "the published NewValue is not the value GetAndUpdate saved")
			c.Check(fields["OldValue"] != nil && allAre(an.ValuesAt(fields["OldValue"]), func(v ssa.Value) bool { return an.IsNilConst(v) || an.IsExtractOf(v, gau, 0) }),
				rule, cons+" OldValue is the replaced value", s.Pos(), "OldValue = GetAndUpdate's old value or nil", "the published OldValue is not the value GetAndUpdate read")
			// Id: same cell as the key of the save closure's map update
			idOK := false
			if idv, ok := fields["Id"]; ok {
				idCell := cellOfLoad(idv)
				for _, cl := range an.WithClosures(fn) {
					an.Instrs(cl, func(in ssa.Instruction) {
						if mu, ok := in.(*ssa.MapUpdate); ok {
							if kc := cellOfLoad(mu.Key); kc != nil && idCell != nil && kc.Alloc == idCell.Alloc {
								idOK = true
							}
						}
					})
				}
			}
			c.Check(idOK, rule, cons+" Id is the key saved under", s.Pos(), "Id and the byId key are the same variable", "the published Id is not the variable used as the key when saving")
		}
	}
	// Collection.Delete
	if fn := mustFunc(c, rule, resPkg, "Collection", "Delete"); fn != nil {
		name := "(*pkg/resource.Collection).Delete"
		var del *ssa.Call
		findDel := func(in ssa.Instruction) {
			if cl, ok := in.(*ssa.Call); ok && an.CalleeName(cl) == "builtin delete" {
				del = cl
			}
		}
		an.Instrs(fn, findDel)
		for _, h := range an.TransparentCalleesOf(fn, 2) {
			an.Instrs(h, findDel) // the locked step may live in a helper
		}
		for i, vc := range an.CallsToDeep(fn, busSend) {
			s := vc.Site
			fields, _ := litFields(vc.Inner.Common().Args[2])
			cons := fmt.Sprintf("%s|publish#%d", name, i+1)
			if fields == nil || del == nil {
				c.Unk(rule, cons, s.Pos(), "the published event is not a composite literal / delete not found")
				continue
			}
			idOK := fields["Id"] != nil && (fields["Id"] == del.Call.Args[1] || an.SameValues(fields["Id"], del.Call.Args[1]))
			base, _, f, isBody := an.FieldOf(fields["OldValue"])
			// ... the body of the very item the locked re-check has just identified as still being stored (the item is
			// re-read on every retry: a body remembered from before the loop may be a version that was replaced since)
			current := false
			for _, e := range an.GuardingEdges(vc.Inner) {
				bo, isBO := e.If.Cond.(*ssa.BinOp)
				if !isBO || (bo.Op != token.EQL && bo.Op != token.NEQ) {
					continue
				}
				if !strings.HasSuffix(an.NamedTypeName(bo.X.Type()), "/pkg/resource.item") {
					continue
				}
				if (bo.Op == token.EQL) != e.Branch {
					continue
				}
				for _, side := range []ssa.Value{bo.X, bo.Y} {
					if base != nil && (side == base || an.SameValue(side, base)) {
						current = true
					}
				}
			}
			c.Check(idOK && isBody && f == "body" && current, rule, cons+" carries the removed item", s.Pos(), "Id is the deleted key, OldValue the removed body",
				"the REMOVE event does not carry the deleted key and the body of the item that the locked identity re-check found stored (e.g. it is built before the retry loop from the first read): after a retry subscribers are told that a version was removed which had already been replaced, and a filtered subscriber whose predicate excluded that stale version never sees the removal")
		}
	}
}

// deepInner: the real call instructions behind a list of (possibly looked-through) calls.
func deepInner(vcs []an.VirtualCall) []ssa.CallInstruction {
	var out []ssa.CallInstruction
	for _, vc := range vcs {
		out = append(out, vc.Inner)
	}
	return out
}

func cellOfLoad(v ssa.Value) *an.Cell {
	if u, ok := v.(*ssa.UnOp); ok && u.Op == token.MUL {
		return an.CellOf(u.X)
	}
	return nil
}

// r035: no seed send after the update loop started.
func r035(c *an.Ctx, rule string) {
	for _, t := range [][2]string{{"Value", "Pull"}, {"Collection", "Pull"}} {
		fn := mustFunc(c, rule, resPkg, t[0], t[1])
		if fn == nil {
			continue
		}
		name := "(*pkg/resource." + t[0] + ")." + t[1]
		for _, g := range an.GoStmts(fn) {
			f := an.GoTarget(g)
			if f == nil {
				continue
			}
			var loopRecv ssa.Instruction
			for _, rl := range an.RecvLoops(f) {
				loopRecv = rl.Recv
			}
			if loopRecv == nil {
				c.Unk(rule, name+"|seeds first", f.Pos(), "no range-over-channel update loop found in the goroutine")
				continue
			}
			bad := false
			nSeed := 0
			for _, s := range an.Sends(f) {
				isSeed := false
				for _, v := range an.ValuesAt(s.Val) {
					// through change.filter(...)
					if call, ok := v.(*ssa.Call); ok && strings.HasSuffix(an.CalleeName(call), ").filter") {
						for _, v2 := range an.ValuesAt(call.Call.Args[0]) {
							v = v2
						}
					}
					fields, _ := litFields(v)
					if sv, ok := fields["SeedValue"]; ok {
						if b, isB := an.ConstBool(sv); isB && b {
							isSeed = true
						}
					}
				}
				if !isSeed {
					continue
				}
				nSeed++
				if an.Reaches(loopRecv, s.Instr) {
					bad = true
				}
			}
			if nSeed == 0 {
				c.Unk(rule, name+"|seeds first", f.Pos(), "no seed send recognised")
				continue
			}
			c.Check(!bad, rule, name+"|seeds first", f.Pos(), fmt.Sprintf("%d seed send(s), none reachable from the update loop", nSeed), "a seed event can be sent after an update event was received: the subscriber's view is overwritten by the older snapshot")
		}
	}
}

func r037(c *an.Ctx) { r037as(c, "R03.7", "R03.7") }

func r037as(c *an.Ctx, rule, seedRule string) {
	fn := mustFunc(c, rule, resPkg, "Collection", "PullID")
	if fn == nil {
		return
	}
	name := "(*pkg/resource.Collection).PullID"
	_, _, rem, _, _ := changeTypeConsts(c)
	for _, g := range an.GoStmts(fn) {
		f := an.GoTarget(g)
		if f == nil {
			continue
		}
		sends := an.Sends(f)
		if len(sends) == 0 {
			c.Bad(rule, name+"|forwards", f.Pos(), "PullID never forwards an event")
		}
		// an edge taken only when the event's id is the requested (intercepted) one
		isIDEdge := func(e an.CondEdge) bool {
			bo, ok := e.If.Cond.(*ssa.BinOp)
			if !ok {
				return false
			}
			_, _, fx, okx := an.FieldOf(bo.X)
			_, _, fy, oky := an.FieldOf(bo.Y)
			if !((okx && fx == "Id") || (oky && fy == "Id")) {
				return false
			}
			// other operand is the id variable of PullID
			other := bo.Y
			if oky && fy == "Id" {
				other = bo.X
			}
			isID := false
			for _, src := range an.Sources(other) {
				if p, ok := src.(*ssa.Parameter); ok && p.Parent() == fn && p.Name() == fn.Params[2].Name() {
					isID = true
				}
				// intercepted id
				if call, ok := src.(*ssa.Call); ok && an.CalleeName(call) == "dynamic" {
					isID = true
				}
			}
			return isID && ((bo.Op == token.NEQ && !e.Branch) || (bo.Op == token.EQL && e.Branch))
		}
		for i, s := range sends {
			// guarded by change.Id == id
			idGuard, remGuard := false, false
			for _, e := range an.GuardingEdges(s.Instr) {
				bo, ok := e.If.Cond.(*ssa.BinOp)
				if !ok {
					continue
				}
				_, _, fx, okx := an.FieldOf(bo.X)
				if isIDEdge(e) {
					idGuard = true
				}
				if okx && fx == "ChangeType" {
					if k, isC := an.ConstInt(bo.Y); isC && k == rem && ((bo.Op == token.EQL && !e.Branch) || (bo.Op == token.NEQ && e.Branch)) {
						remGuard = true
						// only the removal of THIS item ends the stream: the test is reached for events of the id only
						ofID := false
						for _, e2 := range an.GuardingEdges(e.If) {
							if isIDEdge(e2) {
								ofID = true
							}
						}
						c.Check(ofID, rule, name+"|only the removal of the requested item ends the stream", e.If.Pos(), "the REMOVE test is reached for events of the requested id only",
							"the REMOVE test comes before the id comparison: deleting any other item of the collection ends the single-item subscription, and later writes to the subscribed item are never delivered")
						// the REMOVE edge must end the stream: cannot reach another receive/send
						other := an.CondEdge{If: e.If, Branch: !e.Branch}
						t, _ := an.PathQuery{Target: func(in ssa.Instruction) bool {
							switch x := in.(type) {
							case *ssa.Select, *ssa.Send:
								return true
							case *ssa.UnOp:
								return x.Op == token.ARROW
							}
							return false
						}}.FromBlock(other.Target())
						c.Check(t == nil, rule, name+"|REMOVE ends the stream", e.If.Pos(), "the REMOVE edge leads to return", "after the item is removed the stream keeps going instead of ending")
					}
				}
			}
			c.Check(idGuard, rule, fmt.Sprintf("%s|send#%d only events of the requested id", name, i+1), s.Instr.Pos(), "send guarded by change.Id == id", "events are forwarded without comparing their Id with the requested (intercepted) id")
			if !remGuard {
				c.Bad(rule, name+"|REMOVE ends the stream", s.Instr.Pos(), "the forwarding send is not guarded by a ChangeType != REMOVE test that ends the stream")
			}
			// forwards the event's new value and time
			fields, _ := litFields(s.Val)
			if fields != nil {
				_, _, fv, okv := an.FieldOf(fields["Value"])
				_, _, ft, okt := an.FieldOf(fields["ChangeTime"])
				c.Check(okv && fv == "NewValue" && okt && ft == "ChangeTime", rule, fmt.Sprintf("%s|send#%d forwards the event's value and time", name, i+1), s.Instr.Pos(),
					"Value = change.NewValue, ChangeTime = change.ChangeTime", "the forwarded ValueChange does not carry the event's NewValue and ChangeTime")
				// seed flags: the item's seed value is the only one this subscription gets, so it is also the last one -
				// wherever the id sorts among the collection's seed events (only the collection's final seed event carries
				// the collection's last-seed flag)
				_, _, fs, oks := an.FieldOf(fields["SeedValue"])
				lastOK := false
				if lv := fields["LastSeedValue"]; lv != nil {
					if _, _, fl, okl := an.FieldOf(lv); okl && fl == "SeedValue" {
						lastOK = true
					}
					if b, isC := an.ConstBool(lv); isC && b {
						// a constant true is right when the send is only reached for seed events
						for _, e := range an.GuardingEdges(s.Instr) {
							if _, _, fg, okg := an.FieldOf(e.If.Cond); okg && fg == "SeedValue" && e.Branch {
								lastOK = true
							}
						}
					}
				}
				c.Check(oks && fs == "SeedValue" && lastOK, seedRule, fmt.Sprintf("%s|send#%d the item's seed value is flagged as the last seed", name, i+1), s.Instr.Pos(),
					"SeedValue = change.SeedValue, LastSeedValue = change.SeedValue", "the forwarded ValueChange takes its last-seed flag from the collection's event (or drops the seed flag): only the id that sorts last in the collection gets LastSeedValue, so a single-item subscriber waiting for the end of the seed never sees it")
			}
		}
	}
}
