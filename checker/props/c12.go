package props

import (
	"bytes"
	"fmt"
	"go/ast"
	"go/constant"
	"go/scanner"
	"go/token"
	"go/types"
	"os"
	"path/filepath"
	"regexp"
	"sort"
	"strings"
	"text/template"

	"golang.org/x/tools/go/ssa"

	"scverif/an"
)

func init() {
	register(&Prop{
		ID:          "C12",
		Title:       "Routers deliver each request to the client registered under its name",
		Explanation: "R12.1 every checked-in *_router.pb.go and *_wrap.pb.go is an instance of the current template: the template file is rendered inside the checker with a model rebuilt from type information (names from the file's own compile-time assertion, methods and their streaming shape from the service's Server interface in declaration order) and compared with the file as go/scanner token streams (imports excluded). R12.2 for every go:generate directive under pkg/trait every service of the named proto has a router and a wrapper in that package and the router declares (does not inherit) every RPC of the service with the interface's signature. R12.3 forwarding semantics of every router method on SSA: lookup by request.Name, lookup errors returned untouched, the same request forwarded to the same method, unary results returned as is; streams run on a context derived from the caller's stream, forward the header before the first message, forward each received message itself, set the trailer, map io.EOF to nil and cancel the child when the caller cannot be sent to. R12.4 the registry's decision tables (Add returns the previous client, Remove the removed one and deletes only what is present, Get: registry, then fallback, then factory with a re-check under the exclusive lock, Auto change only when inserted, miss is NotFound) with callbacks and factories invoked under no lock. R12.5 replaceEmptyNameField sets the name only on the path where the message has a string field `name` whose value is empty. R12.4 also: the error returned with a found client is nil or that lookup's own error result. R12.6 both generators execute the service template in every iteration over a file's services. R12.12 every field of the router that options configure is written by exactly one With… option (the fallback is not a factory). Does NOT decide the behaviour of generated gRPC client/stream code or of protoc, nor that the generators' main.go would emit these bytes (they are not run; file naming and import layout are outside the comparison).",
		Assumptions: []string{"text/template semantics; the template model mirrors cmd/protoc-gen-router/main.go newServiceModel and cmd/protoc-gen-wrapper/main.go", "grpc ClientStream/ServerStream contracts"},
		Run:         runC12,
		Controls: []Control{
			{Name: "fallback-option-writes-the-factory", File: "pkg/router/router.go", Old: "\t\tr.fallback = f\n", New: "\t\tr.factory = f\n", Expect: "R12.12"},
			{Name: "router-name-cut-by-prefix-length", File: "cmd/protoc-gen-router/main.go", Old: "\treturn s[len(s)-len(ls):]", New: "\treturn s[len(lp):]", Expect: "R12.11"},
			{Name: "wrapper-import-path-drifts", File: "cmd/protoc-gen-wrapper/main.go", Old: "github.com/smart-core-os/sc-golang/pkg/trait/%s", New: "github.com/smart-core-os/sc-golang/pkg/traits/%s", Expect: "R12.9"},
			{Name: "wrapper-strips-only-the-first-underscore", File: "cmd/protoc-gen-wrapper/main.go", Old: "\tpkg = strings.ReplaceAll(pkg, \"_\", \"\")\n", New: "\tpkg = strings.Replace(pkg, \"_\", \"\", 1)\n", Expect: "R12.8"},
			{Name: "only-client-streams-wrapped", File: "pkg/middleware/name/defaults.go", Old: "\t\treturn handler(srv, &absentNameReplaceServerStream{", New: "\t\tif !info.IsClientStream {\n\t\t\treturn handler(srv, ss)\n\t\t}\n\t\treturn handler(srv, &absentNameReplaceServerStream{", Expect: "R12.5"},
			{Name: "generator-rehomes-output-type", File: "cmd/protoc-gen-router/main.go", Old: "\t\t\tGoOutput: ident(g, method.Output.GoIdent),", New: "\t\t\tGoOutput: ident(g, protogen.GoIdent{GoName: method.Output.GoIdent.GoName, GoImportPath: file.GoImportPath}),", Expect: "R12.7"},
			{Name: "generator-skips-empty-services", File: "cmd/protoc-gen-router/main.go", Old: "\tfor _, service := range file.Services {\n", New: "\tfor _, service := range file.Services {\n\t\tif len(service.Methods) == 0 {\n\t\t\tcontinue\n\t\t}\n", Expect: "R12.6"},
			{Name: "get-returns-fallback-error-with-factory-client", File: "pkg/router/router.go", Old: "\t\tchild, exists, err = invoke(name, r.factory)\n", New: "\t\tchild, exists, _ = invoke(name, r.factory)\n", Expect: "R12.4"},
			{Name: "add-skips-unchanged-client", File: "pkg/router/router.go", Old: "\tr.registry[name] = client\n\tr.mu.Unlock()\n", New: "\tr.registry[name] = client\n\tr.mu.Unlock()\n\n\tif old == client {\n\t\treturn old\n\t}\n", Expect: "R12.4"},
			{Name: "router-method-other-rpc", File: "pkg/trait/onoffpb/api_router.pb.go", Old: "\treturn child.GetOnOff(ctx, request)", New: "\treturn child.GetOnOff(context.Background(), request)", Expect: "R12.1"},
			{Name: "router-constant-name", File: "pkg/trait/lightpb/api_router.pb.go", Old: "func (r *ApiRouter) UpdateBrightness(ctx context.Context, request *traits.UpdateBrightnessRequest) (*traits.Brightness, error) {\n\tchild, err := r.GetLightApiClient(request.Name)", New: "func (r *ApiRouter) UpdateBrightness(ctx context.Context, request *traits.UpdateBrightnessRequest) (*traits.Brightness, error) {\n\tchild, err := r.GetLightApiClient(\"\")", Expect: "R12.1"},
			{Name: "delete-router-method", File: "pkg/trait/onoffpb/api_router.pb.go", Old: "func (r *ApiRouter) UpdateOnOff(ctx context.Context, request *traits.UpdateOnOffRequest) (*traits.OnOff, error) {\n\tchild, err := r.GetOnOffApiClient(request.Name)\n\tif err != nil {\n\t\treturn nil, err\n\t}\n\n\treturn child.UpdateOnOff(ctx, request)\n}\n", New: "", Expect: "R12.2"},
			{Name: "factory-before-fallback", File: "pkg/router/router.go", Old: "\t\tchild, exists, err = invoke(name, r.fallback)\n\t}\n\tif !exists {\n\t\tchild, exists, err = invoke(name, r.factory)", New: "\t\tchild, exists, err = invoke(name, r.factory)\n\t}\n\tif !exists {\n\t\tchild, exists, err = invoke(name, r.fallback)", Expect: "R12.4"},
			{Name: "add-returns-new", File: "pkg/router/router.go", Old: "\told := r.registry[name]\n\tr.registry[name] = client\n\tr.mu.Unlock()", New: "\tr.registry[name] = client\n\told := r.registry[name]\n\tr.mu.Unlock()", Expect: "R12.4"},
			{Name: "get-no-recheck", File: "pkg/router/router.go", Old: "\t\t\tif exists2 {\n\t\t\t\tchild = child2\n\t\t\t} else {", New: "\t\t\tif exists2 && child2 == nil {\n\t\t\t\tchild = child2\n\t\t\t} else {", Expect: "R12.4"},
			{Name: "callback-under-lock", File: "pkg/router/router.go", Old: "\told := r.registry[name]\n\tr.registry[name] = client\n\tr.mu.Unlock()\n\n\tif r.onChange != nil {\n\t\tr.onChange(Change{Name: name, Old: old, New: client})\n\t}\n\treturn old", New: "\told := r.registry[name]\n\tr.registry[name] = client\n\tdefer r.mu.Unlock()\n\n\tif r.onChange != nil {\n\t\tr.onChange(Change{Name: name, Old: old, New: client})\n\t}\n\treturn old", Expect: "R12.4"},
			{Name: "default-name-always", File: "pkg/middleware/name/defaults.go", Old: "\tif nameValue.String() != \"\" {\n\t\treturn // name isn't empty/default\n\t}\n", New: "\t_ = nameValue\n", Expect: "R12.5"},
			{Name: "consistent-template-and-file-edit-drops-trailer", File: "cmd/protoc-gen-router/router.go.gotxt", Old: "		if trailer := stream.Trailer(); trailer != nil {\n			server.SetTrailer(trailer)\n		}\n", New: "", Expect: "onoffpb.ApiRouter.PullOnOff|forwards",
				More: []Edit{{File: "pkg/trait/onoffpb/api_router.pb.go", Old: "\t\tif trailer := stream.Trailer(); trailer != nil {\n\t\t\tserver.SetTrailer(trailer)\n\t\t}\n", New: ""}}},
			{Name: "template-and-files-drop-trailer", File: "cmd/protoc-gen-router/router.go.gotxt", Old: "		if trailer := stream.Trailer(); trailer != nil {\n			server.SetTrailer(trailer)\n		}\n", New: "", Expect: "R12.1"},
		},
	})
}

const scapiTraits = "github.com/smart-core-os/sc-api/go/traits"

type tmplIdent struct{ Exported, Private, Qualified string }

type tmplDesc struct{ streaming bool }

func (d tmplDesc) IsStreamingServer() bool { return d.streaming }

type tmplMethod struct {
	GoName       string
	Desc         tmplDesc
	Streaming    bool
	ServerStream tmplIdent
	GoInput      tmplIdent
	GoOutput     tmplIdent
}

type routerModel struct {
	PackageName             string
	RouterName              string
	ServerName              tmplIdent
	ClientName              tmplIdent
	UnimplementedServerName tmplIdent
	RegisterService         tmplIdent
	Methods                 []tmplMethod
}

type wrapperModel struct {
	PackageName                string
	Underlying                 tmplIdent
	Wrapper                    tmplIdent
	QualifiedServerName        string
	QualifiedClientName        string
	WrapServerToClient         string
	QualifiedServiceDesc       string
	QualifiedClientConstructor string
	ClientName                 string
	GRPCClientConnInterface    string
	GRPCServiceDesc            string
}

func mkIdent(qual, name string) tmplIdent {
	if name == "" {
		return tmplIdent{}
	}
	return tmplIdent{Exported: strings.ToUpper(name[:1]) + name[1:], Private: strings.ToLower(name[:1]) + name[1:], Qualified: qual + name}
}

// service describes one gRPC service found in a *_grpc.pb.go file.
type service struct {
	pkg       *types.Package
	goName    string // e.g. OnOffApi
	iface     *types.Interface
	methods   []svcMethod // declaration order
	localQual string      // qualifier to use from the trait package ("traits." or "")
}

type svcMethod struct {
	name      string
	streaming bool // server streaming
	clientStr bool
	sig       *types.Signature
	input     types.Type // *Req
	output    types.Type // *Resp (stream element for streaming)
	stream    types.Type // X_MServer
}

func qualOf(t types.Type, from *types.Package) string {
	return types.TypeString(t, func(p *types.Package) string {
		if p == from {
			return ""
		}
		return p.Name()
	})
}

// findServices lists the services declared in the grpc file with the given base name inside pkg.
func findServices(c *an.Ctx, pkgPath, grpcFileBase string, syntax []*ast.File, tp *types.Package) []*service {
	var out []*service
	for _, f := range syntax {
		fname := filepath.Base(c.Prog.Fset.Position(f.Pos()).Filename)
		if fname != grpcFileBase {
			continue
		}
		for _, d := range f.Decls {
			gd, ok := d.(*ast.GenDecl)
			if !ok || gd.Tok != token.TYPE {
				continue
			}
			for _, sp := range gd.Specs {
				ts := sp.(*ast.TypeSpec)
				it, ok := ts.Type.(*ast.InterfaceType)
				if !ok || !strings.HasSuffix(ts.Name.Name, "Server") || strings.HasPrefix(ts.Name.Name, "Unsafe") || strings.Contains(ts.Name.Name, "_") {
					continue
				}
				obj := tp.Scope().Lookup(ts.Name.Name)
				if obj == nil {
					continue
				}
				iface, _ := obj.Type().Underlying().(*types.Interface)
				if iface == nil {
					continue
				}
				svc := &service{pkg: tp, goName: strings.TrimSuffix(ts.Name.Name, "Server"), iface: iface}
				for _, m := range it.Methods.List {
					if len(m.Names) == 0 {
						continue
					}
					mn := m.Names[0].Name
					if strings.HasPrefix(mn, "mustEmbed") {
						continue
					}
					var fn *types.Func
					for i := 0; i < iface.NumMethods(); i++ {
						if iface.Method(i).Name() == mn {
							fn = iface.Method(i)
						}
					}
					if fn == nil {
						continue
					}
					sig := fn.Type().(*types.Signature)
					sm := svcMethod{name: mn, sig: sig}
					if sig.Params().Len() == 2 && sig.Results().Len() == 2 {
						sm.input = sig.Params().At(1).Type()
						sm.output = sig.Results().At(0).Type()
					} else if sig.Params().Len() == 2 && sig.Results().Len() == 1 {
						sm.streaming = true
						sm.input = sig.Params().At(0).Type()
						sm.stream = sig.Params().At(1).Type()
						// element type: Send(*Resp) error on the stream interface
						if si, ok := sm.stream.Underlying().(*types.Interface); ok {
							for i := 0; i < si.NumMethods(); i++ {
								if si.Method(i).Name() == "Send" {
									sm.output = si.Method(i).Type().(*types.Signature).Params().At(0).Type()
								}
							}
						}
					} else {
						sm.clientStr = true
					}
					svc.methods = append(svc.methods, sm)
				}
				out = append(out, svc)
			}
		}
	}
	return out
}

var genRe = regexp.MustCompile(`([A-Za-z0-9_/.\-]+)\.proto`)

// tokens scans Go source into a token stream (with comments), skipping the import declaration.
func goTokens(src []byte) ([]string, error) {
	fset := token.NewFileSet()
	f := fset.AddFile("x.go", -1, len(src))
	var s scanner.Scanner
	var errs []string
	s.Init(f, src, func(pos token.Position, msg string) { errs = append(errs, msg) }, scanner.ScanComments)
	var out []string
	skippingImport := false
	depth := 0
	for {
		_, tok, lit := s.Scan()
		if tok == token.EOF {
			break
		}
		if tok == token.IMPORT {
			skippingImport = true
			depth = 0
			continue
		}
		if skippingImport {
			switch tok {
			case token.LPAREN:
				depth++
			case token.RPAREN:
				depth--
				if depth == 0 {
					skippingImport = false
				}
			case token.SEMICOLON:
				if depth == 0 {
					skippingImport = false
				}
			}
			continue
		}
		if tok == token.SEMICOLON && lit == "\n" {
			continue // automatically inserted
		}
		if tok == token.COMMENT {
			lit = strings.TrimRight(lit, " \t")
			// the template's own directive comments never reach the output
		}
		t := tok.String()
		if lit != "" {
			t = lit
		}
		out = append(out, t)
	}
	if len(errs) > 0 {
		return out, fmt.Errorf("%s", strings.Join(errs, "; "))
	}
	return out, nil
}

func compareTokens(a, b []string) (bool, string) {
	n := len(a)
	if len(b) < n {
		n = len(b)
	}
	for i := 0; i < n; i++ {
		if a[i] != b[i] {
			lo := i - 4
			if lo < 0 {
				lo = 0
			}
			hiA, hiB := i+4, i+4
			if hiA > len(a) {
				hiA = len(a)
			}
			if hiB > len(b) {
				hiB = len(b)
			}
			return false, fmt.Sprintf("token %d differs: template gives … %s …, file has … %s …", i, strings.Join(a[lo:hiA], " "), strings.Join(b[lo:hiB], " "))
		}
	}
	if len(a) != len(b) {
		return false, fmt.Sprintf("template instance has %d tokens, file has %d (first %d equal)", len(a), len(b), n)
	}
	return true, ""
}

func runC12(c *an.Ctx) {
	r128(c, "R12.8")
	r129(c, "R12.9")
	c.Min("R12.9", 2)
	c.Count("shared_metadata_obligations", shareAs(c, "R13.11", "R12.10", r1311, nil)) // header and trailer pass through unaltered: what the server side keeps accumulates (shared with R13.11)
	c.Min("R12.10", 3)
	r1211(c, "R12.11")
	c.Min("R12.11", 2)
	r1212(c, "R12.12")
	c.Min("R12.12", 2)
	c.Min("R12.8", 1)
	r121and2(c)
	r123(c)
	r124(c)
	r125(c)
	r126(c)
	c.Min("R12.6", 2)
	r125stream(c)
	r127(c)
	c.Min("R12.7", 2)
	c.Min("R12.1", 130)
	c.Min("R12.2", 130)
	c.Min("R12.3", 150)
	c.Min("R12.4", 10)
	c.Min("R12.5", 3)
}

// srcOf returns the (possibly overlaid) source of a parsed module file.
func fileSource(c *an.Ctx, f *ast.File) ([]byte, string) {
	name := c.Prog.Fset.Position(f.Pos()).Filename
	if b, ok := c.Prog.OverlaySrc[name]; ok {
		return b, name
	}
	b, _ := os.ReadFile(name)
	return b, name
}

func readRepoFile(c *an.Ctx, rel string) ([]byte, error) {
	name := filepath.Join(an.RepoDir(), rel)
	if b, ok := c.Prog.OverlaySrc[name]; ok {
		return b, nil
	}
	return os.ReadFile(name)
}

// routerInfo is what R12.3 needs from R12.1/2.
type routerInfo struct {
	pkgRel string
	name   string
	svc    *service
}

var routersFound []routerInfo

func r121and2(c *an.Ctx) {
	routersFound = nil
	rt, err1 := readRepoFile(c, "cmd/protoc-gen-router/router.go.gotxt")
	wt, err2 := readRepoFile(c, "cmd/protoc-gen-wrapper/wrapper.go.gotxt")
	if err1 != nil || err2 != nil {
		c.Unk("R12.1", "templates", 0, fmt.Sprintf("cannot read the generator templates: %v %v", err1, err2))
		return
	}
	routerT, e1 := template.New("router").Parse(string(rt))
	wrapT, e2 := template.New("wrapper").Parse(string(wt))
	if e1 != nil || e2 != nil {
		c.Unk("R12.1", "templates", 0, fmt.Sprintf("templates do not parse: %v %v", e1, e2))
		return
	}
	var traitPkgs []string
	for path := range c.Prog.ByPath {
		rel := an.ModRel(path)
		if strings.HasPrefix(rel, "pkg/trait/") {
			traitPkgs = append(traitPkgs, path)
		}
	}
	sort.Strings(traitPkgs)
	nGen := 0
	for _, path := range traitPkgs {
		pk := c.Prog.ByPath[path]
		rel := an.ModRel(path)
		// go:generate directive
		var protos []string
		for _, f := range pk.Syntax {
			if filepath.Base(c.Prog.Fset.Position(f.Pos()).Filename) != "gen.go" {
				continue
			}
			src, _ := fileSource(c, f)
			for _, line := range strings.Split(string(src), "\n") {
				if strings.HasPrefix(line, "//go:generate") && strings.Contains(line, "router_out") {
					for _, m := range genRe.FindAllStringSubmatch(line, -1) {
						protos = append(protos, m[1])
					}
				}
			}
		}
		if len(protos) == 0 {
			continue
		}
		nGen++
		// services named by the directive
		var svcs []*service
		for _, p := range protos {
			base := filepath.Base(p) + "_grpc.pb.go"
			if strings.HasPrefix(p, "pkg/trait/") {
				svcs = append(svcs, findServices(c, path, base, pk.Syntax, pk.Types)...)
				continue
			}
			dep := c.Prog.Deps[scapiTraits]
			depSyntax := c.Prog.DepSyntax[scapiTraits]
			if dep == nil || depSyntax == nil {
				c.Unk("R12.2", rel+"|api package", 0, "the sc-api traits package is not loaded with syntax")
				continue
			}
			found := findServices(c, scapiTraits, base, depSyntax, dep)
			if len(found) == 0 {
				c.Unk("R12.2", rel+"|services of "+p, 0, "no service found in "+base+": the go:generate directive names a proto whose gRPC file is not part of the API module")
			}
			svcs = append(svcs, found...)
		}
		// index router and wrapper files of this package
		type rfile struct {
			f      *ast.File
			router string
			server string // qualified as written
		}
		routers := map[string]*rfile{} // service GoName -> file
		wrappers := map[string]*ast.File{}
		for _, f := range pk.Syntax {
			fname := filepath.Base(c.Prog.Fset.Position(f.Pos()).Filename)
			switch {
			case strings.HasSuffix(fname, "_router.pb.go"):
				// var _ X.YServer = (*R)(nil)
				for _, d := range f.Decls {
					gd, ok := d.(*ast.GenDecl)
					if !ok || gd.Tok != token.VAR {
						continue
					}
					for _, sp := range gd.Specs {
						vs := sp.(*ast.ValueSpec)
						if len(vs.Names) == 1 && vs.Names[0].Name == "_" && vs.Type != nil && len(vs.Values) == 1 {
							server := types.ExprString(vs.Type)
							rn := ""
							if ce, ok := vs.Values[0].(*ast.CallExpr); ok {
								if pe, ok := ce.Fun.(*ast.ParenExpr); ok {
									if se, ok := pe.X.(*ast.StarExpr); ok {
										rn = types.ExprString(se.X)
									}
								}
							}
							svcName := strings.TrimSuffix(server[strings.LastIndex(server, ".")+1:], "Server")
							routers[svcName] = &rfile{f, rn, server}
						}
					}
				}
			case strings.HasSuffix(fname, "_wrap.pb.go"):
				for _, d := range f.Decls {
					fd, ok := d.(*ast.FuncDecl)
					if !ok || fd.Recv != nil || !strings.HasPrefix(fd.Name.Name, "Wrap") || fd.Type.Params.NumFields() != 1 {
						continue
					}
					server := types.ExprString(fd.Type.Params.List[0].Type)
					svcName := strings.TrimSuffix(server[strings.LastIndex(server, ".")+1:], "Server")
					wrappers[svcName] = f
				}
			}
		}
		for _, svc := range svcs {
			qual := svc.pkg.Name() + "."
			if svc.pkg == pk.Types {
				qual = ""
			}
			key := rel + "|" + svc.goName
			rf := routers[svc.goName]
			wf := wrappers[svc.goName]
			c.Check(rf != nil, "R12.2", key+"|has a router", pk.Syntax[0].Pos(), "", "service "+svc.goName+" of the API descriptor has no generated router in this package: its RPCs cannot be routed by name")
			c.Check(wf != nil, "R12.2", key+"|has a wrapper", pk.Syntax[0].Pos(), "", "service "+svc.goName+" has no generated wrapper in this package")
			if rf != nil {
				routersFound = append(routersFound, routerInfo{rel, rf.router, svc})
				// declared methods
				obj := pk.Types.Scope().Lookup(rf.router)
				if obj != nil {
					declared := map[string]*types.Func{}
					if named, ok := obj.Type().(*types.Named); ok {
						for i := 0; i < named.NumMethods(); i++ {
							declared[named.Method(i).Name()] = named.Method(i)
						}
					}
					for _, m := range svc.methods {
						d := declared[m.name]
						mk := key + "|" + m.name + " declared by the router"
						if d == nil {
							c.Bad("R12.2", mk, rf.f.Pos(), "RPC "+m.name+" of "+svc.goName+" is not declared by "+rf.router+": it falls through to Unimplemented"+svc.goName+"Server, so a request routed by name is answered Unimplemented and reaches no client (stale generated file?)")
							continue
						}
						same := types.Identical(d.Type().(*types.Signature).Params(), m.sig.Params()) && types.Identical(d.Type().(*types.Signature).Results(), m.sig.Results())
						c.Check(same, "R12.2", mk, d.Pos(), "", "the router's "+m.name+" does not have the signature of the service interface")
					}
				}
				// R12.1 router instance
				model := routerModel{
					PackageName:             pk.Types.Name(),
					RouterName:              rf.router,
					ServerName:              mkIdent(qual, svc.goName+"Server"),
					ClientName:              mkIdent(qual, svc.goName+"Client"),
					UnimplementedServerName: mkIdent(qual, "Unimplemented"+svc.goName+"Server"),
					RegisterService:         mkIdent(qual, "Register"+svc.goName+"Server"),
				}
				clientStreaming := false
				for _, m := range svc.methods {
					if m.clientStr {
						clientStreaming = true
						continue
					}
					tm := tmplMethod{GoName: m.name, Desc: tmplDesc{m.streaming}, Streaming: m.streaming}
					in := strings.TrimPrefix(qualOf(m.input, pk.Types), "*")
					out := strings.TrimPrefix(qualOf(m.output, pk.Types), "*")
					tm.GoInput = tmplIdent{Qualified: in}
					tm.GoOutput = tmplIdent{Qualified: out}
					if m.streaming {
						// mirrors newServiceModel: "<Service>_<Method>Server" in the API package
						tm.ServerStream = tmplIdent{Qualified: qual + svc.goName + "_" + m.name + "Server"}
					}
					model.Methods = append(model.Methods, tm)
				}
				cons := key + "|router is an instance of router.go.gotxt"
				if clientStreaming {
					c.Unk("R12.1", cons, rf.f.Pos(), "the service has client-streaming methods, which the template does not model")
				} else {
					var buf bytes.Buffer
					if err := routerT.Execute(&buf, model); err != nil {
						c.Unk("R12.1", cons, rf.f.Pos(), "template execution failed: "+err.Error())
					} else {
						src, _ := fileSource(c, rf.f)
						want, e1 := goTokens(buf.Bytes())
						got, e2 := goTokens(src)
						if e1 != nil || e2 != nil {
							c.Unk("R12.1", cons, rf.f.Pos(), fmt.Sprintf("scan errors: %v %v", e1, e2))
						} else {
							ok, why := compareTokens(want, got)
							c.Count("tokens_compared", len(got))
							c.Check(ok, "R12.1", cons, rf.f.Pos(), fmt.Sprintf("%d tokens equal", len(got)), "the checked-in router is not what the current template produces for the current service descriptor: "+why)
						}
					}
				}
			}
			if wf != nil {
				cons := key + "|wrapper is an instance of wrapper.go.gotxt"
				// names from the file: func WrapX(server Q) *W
				var under, wrapperName string
				for _, d := range wf.Decls {
					if fd, ok := d.(*ast.FuncDecl); ok && fd.Recv == nil && strings.HasPrefix(fd.Name.Name, "Wrap") && fd.Type.Params.NumFields() == 1 {
						server := types.ExprString(fd.Type.Params.List[0].Type)
						if strings.TrimSuffix(server[strings.LastIndex(server, ".")+1:], "Server") == svc.goName {
							under = strings.TrimPrefix(fd.Name.Name, "Wrap")
							if fd.Type.Results.NumFields() == 1 {
								wrapperName = strings.TrimPrefix(types.ExprString(fd.Type.Results.List[0].Type), "*")
							}
						}
					}
				}
				model := wrapperModel{
					PackageName:                pk.Types.Name(),
					Underlying:                 mkIdent("", under),
					Wrapper:                    mkIdent("", wrapperName),
					QualifiedServerName:        qual + svc.goName + "Server",
					QualifiedClientName:        qual + svc.goName + "Client",
					WrapServerToClient:         "wrap.ServerToClient",
					QualifiedServiceDesc:       qual + svc.goName + "_ServiceDesc",
					QualifiedClientConstructor: qual + "New" + svc.goName + "Client",
					ClientName:                 svc.goName + "Client",
					GRPCClientConnInterface:    "grpc.ClientConnInterface",
					GRPCServiceDesc:            "grpc.ServiceDesc",
				}
				var buf bytes.Buffer
				if err := wrapT.Execute(&buf, model); err != nil {
					c.Unk("R12.1", cons, wf.Pos(), "template execution failed: "+err.Error())
				} else {
					src, _ := fileSource(c, wf)
					want, e1 := goTokens(buf.Bytes())
					got, e2 := goTokens(src)
					if e1 != nil || e2 != nil {
						c.Unk("R12.1", cons, wf.Pos(), fmt.Sprintf("scan errors: %v %v", e1, e2))
					} else {
						ok, why := compareTokens(want, got)
						c.Count("tokens_compared", len(got))
						c.Check(ok, "R12.1", cons, wf.Pos(), fmt.Sprintf("%d tokens equal", len(got)), "the checked-in wrapper is not what the current template produces: "+why)
					}
				}
				// the wrapped connection serves this service's descriptor: types check this (ServerToClient(desc, server))
			}
		}
	}
	c.Count("go_generate_directives", nGen)
}

// ---------------------------------------------------------------- R12.3

func r123(c *an.Ctx) {
	const rule = "R12.3"
	for _, ri := range routersFound {
		for _, m := range ri.svc.methods {
			fn := c.Prog.Func(ri.pkgRel, ri.name, m.name)
			cons := fmt.Sprintf("%s.%s.%s|forwards", ri.pkgRel, ri.name, m.name)
			if fn == nil {
				continue // reported by R12.2
			}
			c.SawFunc(an.FuncName(fn))
			if why := checkForwarder(c, fn, ri, m); why != "" {
				c.Bad(rule, cons, fn.Pos(), why)
			} else {
				c.Ok(rule, cons, fn.Pos(), "")
			}
		}
	}
}

func checkForwarder(c *an.Ctx, fn *ssa.Function, ri routerInfo, m svcMethod) string {
	var reqP, ctxP, srvP *ssa.Parameter
	for _, p := range fn.Params[1:] {
		switch {
		case an.NamedTypeName(p.Type()) == "context.Context":
			ctxP = p
		case types.Identical(p.Type(), m.input):
			reqP = p
		default:
			srvP = p
		}
	}
	if reqP == nil {
		return "request parameter not found"
	}
	// lookup
	var get *ssa.Call
	an.Instrs(fn, func(in ssa.Instruction) {
		if call, ok := in.(*ssa.Call); ok {
			if f := call.Call.StaticCallee(); f != nil && strings.HasPrefix(f.Name(), "Get") && strings.HasSuffix(f.Name(), "Client") && len(call.Call.Args) == 2 {
				get = call
			}
		}
	})
	if get == nil {
		return "no client lookup (Get…Client) in the forwarder"
	}
	if base, _, f, ok := an.FieldOf(get.Call.Args[1]); !ok || f != "Name" || base != ssa.Value(reqP) {
		return "the client is not looked up by request.Name"
	}
	// child call: invoke of method m.name on result 0 of get
	var child *ssa.Call
	an.Instrs(fn, func(in ssa.Instruction) {
		if call, ok := in.(*ssa.Call); ok && call.Call.IsInvoke() && call.Call.Method.Name() == m.name {
			child = call
		}
	})
	if child == nil {
		return "the request is not forwarded to the client's " + m.name
	}
	if !an.IsExtractOf(child.Call.Value, get, 0) {
		return "the forwarded call is not made on the client returned by the lookup"
	}
	if !an.GuardedByNilResult(child, get, 1) {
		return "the child is called although the lookup failed"
	}
	// lookup error returned untouched
	for _, r := range an.Returns(fn) {
		if an.Reaches(child, r) {
			continue
		}
		errOp := r.Results[len(r.Results)-1]
		if !allAre(an.ValuesAt(errOp), func(v ssa.Value) bool { return an.IsExtractOf(v, get, 1) }) {
			return "a failed lookup does not return the lookup's error unchanged"
		}
	}
	args := child.Call.Args
	if len(args) < 2 || args[1] != ssa.Value(reqP) {
		return "the request forwarded is not the request received"
	}
	if !m.streaming {
		if ctxP == nil || args[0] != ssa.Value(ctxP) {
			return "the caller's context is not passed on"
		}
		for _, r := range an.Returns(fn) {
			if !an.Reaches(child, r) {
				continue
			}
			if !an.IsExtractOf(r.Results[0], child, 0) || !an.IsExtractOf(r.Results[1], child, 1) {
				return "the child's response and error are not returned as they are"
			}
		}
		return ""
	}
	// streaming
	if srvP == nil {
		return "stream parameter not found"
	}
	// context derived from server.Context()
	okCtx := false
	var cancel ssa.Value
	for _, v := range an.ValuesAt(args[0]) {
		if ex, ok := v.(*ssa.Extract); ok && ex.Index == 0 {
			if wc, ok := ex.Tuple.(*ssa.Call); ok && an.CalleeName(wc) == "context.WithCancel" {
				if sc, ok := wc.Call.Args[0].(*ssa.Call); ok && sc.Call.IsInvoke() && sc.Call.Method.Name() == "Context" && sc.Call.Value == ssa.Value(srvP) {
					okCtx = true
					for _, u := range an.Referrers(wc) {
						if e2, ok := u.(*ssa.Extract); ok && e2.Index == 1 {
							cancel = e2
						}
					}
				}
			}
		}
	}
	if !okCtx {
		return "the child request does not run on a cancellable context derived from the caller's stream context"
	}
	invokes := func(method string) []*ssa.Call {
		var out []*ssa.Call
		an.Instrs(fn, func(in ssa.Instruction) {
			if call, ok := in.(*ssa.Call); ok && call.Call.IsInvoke() && call.Call.Method.Name() == method {
				out = append(out, call)
			}
		})
		return out
	}
	one := func(method string) *ssa.Call {
		cs := invokes(method)
		if len(cs) == 1 {
			return cs[0]
		}
		return nil
	}
	header, sendHeader, recv, send, trailer, setTrailer := one("Header"), one("SendHeader"), one("Recv"), one("Send"), one("Trailer"), one("SetTrailer")
	if header == nil || sendHeader == nil || recv == nil || send == nil || trailer == nil || setTrailer == nil {
		return "the stream pump does not consist of exactly one Header/SendHeader/Recv/Send/Trailer/SetTrailer call each"
	}
	isStream := func(call *ssa.Call) bool { return an.IsExtractOf(call.Call.Value, child, 0) }
	if !isStream(header) || !isStream(recv) || !isStream(trailer) || sendHeader.Call.Value != ssa.Value(srvP) || send.Call.Value != ssa.Value(srvP) || setTrailer.Call.Value != ssa.Value(srvP) {
		return "Header/Recv/Trailer are not read from the child stream or SendHeader/Send/SetTrailer not written to the caller's stream"
	}
	if !allAre(an.ValuesAt(sendHeader.Call.Args[0]), func(v ssa.Value) bool { return an.IsExtractOf(v, header, 0) }) {
		return "the header sent to the caller is not the child's header"
	}
	if !an.Dominates(sendHeader, recv) || an.Reaches(recv, sendHeader) {
		return "the header is not forwarded before the first message"
	}
	if !allAre(an.ValuesAt(send.Call.Args[0]), func(v ssa.Value) bool { return an.IsExtractOf(v, recv, 0) }) {
		return "the message sent to the caller is not the message received from the child"
	}
	if !an.GuardedByNilResult(send, recv, 1) {
		return "a message is forwarded although Recv failed"
	}
	if !allAre(an.ValuesAt(setTrailer.Call.Args[0]), func(v ssa.Value) bool { return v == ssa.Value(trailer) }) {
		return "the trailer set on the caller's stream is not the child's trailer"
	}
	// every return after the loop: caller error -> cancel called; child error: EOF -> nil else err
	if cancel == nil {
		return "no cancel function for the child request"
	}
	// whenever the child ends the stream (not the caller), its trailer is read before returning
	isCancelCall := func(in ssa.Instruction) bool {
		call, ok := in.(*ssa.Call)
		if !ok {
			return false
		}
		for _, s := range an.Sources(call.Call.Value) {
			if s == cancel {
				return true
			}
		}
		return false
	}
	if t, _ := (an.PathQuery{Target: func(in ssa.Instruction) bool { _, isR := in.(*ssa.Return); return isR },
		Avoid: func(in ssa.Instruction) bool {
			return in == ssa.Instruction(trailer) || isCancelCall(in) || in == ssa.Instruction(send)
		}}).From(fn, recv); t != nil {
		return "a path on which the child ended the stream returns without reading the child's trailer: trailer metadata of streams that end with an error status is lost"
	}
	cancelled := false
	an.Instrs(fn, func(in ssa.Instruction) {
		if call, ok := in.(*ssa.Call); ok {
			for _, s := range an.Sources(call.Call.Value) {
				if s == cancel {
					cancelled = true
					// only on the caller-error path: not reachable to SetTrailer
					if an.Reaches(call, setTrailer) {
						cancelled = false
					}
				}
			}
		}
	})
	if !cancelled {
		return "when the caller cannot be sent to, the child request is not cancelled"
	}
	// io.EOF -> nil
	eofNil := false
	for _, r := range an.Returns(fn) {
		if !an.Reaches(trailer, r) {
			continue
		}
		for _, e := range an.GuardingEdges(r) {
			if bo, ok := e.If.Cond.(*ssa.BinOp); ok && bo.Op == token.EQL && e.Branch {
				isEOF := false
				for _, op := range []ssa.Value{bo.X, bo.Y} {
					if u, ok := op.(*ssa.UnOp); ok {
						if g, ok := u.X.(*ssa.Global); ok && g.Name() == "EOF" && g.Pkg.Pkg.Path() == "io" {
							isEOF = true
						}
					}
				}
				if isEOF && allAre(an.ValuesAt(r.Results[0]), an.IsNilConst) {
					eofNil = true
				}
			}
		}
	}
	if !eofNil {
		return "the end of the child stream (io.EOF) is not mapped to a nil error"
	}
	return ""
}

// ---------------------------------------------------------------- R12.4

func r124(c *an.Ctx) { r124as(c, "R12.4") }

func r124as(c *an.Ctx, rule string) {
	w := lockWorld(c)
	// callbacks and factories are invoked without the registry lock
	n := 0
	for _, fn := range c.Prog.FuncsIn("pkg/router") {
		an.Instrs(fn, func(in ssa.Instruction) {
			call, ok := in.(*ssa.Call)
			if !ok || an.CalleeName(call) != "dynamic" {
				return
			}
			what := ""
			if _, _, f, ok := an.FieldOf(call.Call.Value); ok && (f == "onChange" || f == "factory" || f == "fallback") {
				what = f
			}
			if p, ok := call.Call.Value.(*ssa.Parameter); ok && an.NamedTypeName(p.Type()) == an.ModulePath+"/pkg/router.Factory" {
				what = "factory/fallback"
			}
			if what == "" {
				return
			}
			n++
			held := w.At(call)
			c.SawFunc(an.FuncName(fn))
			c.Check(len(held) == 0, rule, an.FuncName(fn)+"|"+what+" invoked without the registry lock", call.Pos(), "lock set "+held.String(),
				"a caller-supplied "+what+" is invoked with lock set "+held.String()+" (entry: "+w.Why[fn]+"): a callback that touches the router deadlocks, and slow factories block every lookup")
		})
	}
	if n < 2 { // at least the change callback and the factory (they may be funnelled through one helper each)
		c.Unk(rule, "pkg/router|callback sites", 0, fmt.Sprintf("only %d callback/factory invocation sites found", n))
	}
	// Add
	if fn := mustFunc(c, rule, "pkg/router", "router", "Add"); fn != nil {
		leaves := an.DecisionTree(fn, an.DTConfig{Names: map[ssa.Value]string{fn.Params[0]: "r", fn.Params[1]: "name", fn.Params[2]: "client"}})
		ok := len(leaves) > 0
		why := ""
		for _, l := range leaves {
			if l.Undec != "" {
				ok, why = false, l.Undec
				continue
			}
			// returned value is the first lookup, performed before the map update
			if l.Returns[0].S != "r.registry[name]" {
				ok, why = false, "Add returns "+l.Returns[0].S+" instead of the client registered before"
			}
			lk, mu, look := -1, -1, -1
			for i, cl := range l.Calls {
				if strings.HasPrefix(cl, "mapupdate r.registry[name]=client") {
					mu = i
				}
				if strings.Contains(cl, "RWMutex).Lock(&r.mu)") {
					lk = i
				}
				if cl == "lookup r.registry[name]" {
					look = i
				}
			}
			if mu < 0 || lk < 0 || lk > mu {
				ok, why = false, "the new client is not stored under the exclusive lock"
			}
			if look < 0 || look > mu || look < lk {
				ok, why = false, "the previous client is not read (under the lock) before the new one is stored: Add returns the client it just stored"
			}
			cb := 0
			for _, r := range l.Recs {
				if r.Callee == "r.onChange" {
					cb++
					if !strings.Contains(r.Args[0].S, "Old:r.registry[name]") || !strings.Contains(r.Args[0].S, "New:client") || !strings.Contains(r.Args[0].S, "Name:name") {
						ok, why = false, "the change reported by Add is "+r.Args[0].S
					}
				}
			}
			want := 0
			if l.Get("r.onChange==nil") == "false" {
				want = 1
			}
			if cb != want {
				ok, why = false, fmt.Sprintf("onChange invoked %d times", cb)
			}
			// every Add is a transition: no path may return before the callback is considered, and nothing but the
			// presence of a callback decides whether it is reported
			if l.Get("r.onChange==nil") == "" {
				ok, why = false, "a path of Add returns without considering the change callback ("+strings.Join(l.Assign, ", ")+"): the transition is not reported (and comparing two clients of an uncomparable dynamic type panics after the registry was already overwritten)"
			}
		}
		c.Check(ok, rule, "(*pkg/router.router).Add|returns the previous client, stores the new one, reports the transition", fn.Pos(), fmt.Sprintf("%d paths", len(leaves)), why)
	}
	// Remove
	if fn := mustFunc(c, rule, "pkg/router", "router", "Remove"); fn != nil {
		leaves := an.DecisionTree(fn, an.DTConfig{Names: map[ssa.Value]string{fn.Params[0]: "r", fn.Params[1]: "name"}})
		ok := len(leaves) > 0
		why := ""
		for _, l := range leaves {
			if l.Undec != "" {
				ok, why = false, l.Undec
				continue
			}
			present := l.Get("r.registry[name]#1")
			deleted, cb := false, 0
			for _, r := range l.Recs {
				if r.Callee == "delete" {
					deleted = true
				}
				if r.Callee == "r.onChange" {
					cb++
					if !strings.Contains(r.Args[0].S, "Old:r.registry[name]#0") || strings.Contains(r.Args[0].S, "New:") {
						ok, why = false, "the change reported by Remove is "+r.Args[0].S
					}
				}
			}
			// a miss reads the zero value: returning nil there is the same result
			if l.Returns[0].S != "r.registry[name]#0" && !(present == "false" && strings.HasPrefix(l.Returns[0].S, "nil")) {
				ok, why = false, "Remove returns "+l.Returns[0].S
			}
			// (deleting a key that is absent does nothing: only a present client that is NOT deleted is wrong)
			if present == "true" && !deleted {
				ok, why = false, fmt.Sprintf("present=%s but deleted=%v", present, deleted)
			}
			wantCb := 0
			if present == "true" && l.Get("r.onChange==nil") == "false" {
				wantCb = 1
			}
			if cb != wantCb {
				ok, why = false, fmt.Sprintf("present=%s: onChange invoked %d times, expected %d", present, cb, wantCb)
			}
		}
		c.Check(ok, rule, "(*pkg/router.router).Remove|returns the removed client, deletes and reports only what was present", fn.Pos(), fmt.Sprintf("%d paths", len(leaves)), why)
	}
	// Has
	if fn := mustFunc(c, rule, "pkg/router", "router", "Has"); fn != nil {
		leaves := an.DecisionTree(fn, an.DTConfig{Names: map[ssa.Value]string{fn.Params[0]: "r", fn.Params[1]: "name"}})
		ok := len(leaves) > 0
		for _, l := range leaves {
			if l.Undec != "" || l.Returns[0].S != "r.registry[name]#1" {
				ok = false
			}
		}
		c.Check(ok, rule, "(*pkg/router.router).Has|agrees with the registry", fn.Pos(), "", "Has does not return whether the registry holds the name")
	}
	var lookupHelper *ssa.Function
	// Get
	if fn := mustFunc(c, rule, "pkg/router", "router", "Get"); fn != nil {
		name := "(*pkg/router.router).Get"
		// the helper that asks a Factory for a client (invoke(name, f), or whatever it has become: a method of Factory…)
		// stays an atom of the table and is checked on its own below
		an.Instrs(fn, func(in ssa.Instruction) {
			call, ok := in.(*ssa.Call)
			if !ok {
				return
			}
			h := call.Call.StaticCallee()
			if h == nil || !an.InModule(h) || h.Signature.Results().Len() != 3 {
				return
			}
			for _, a := range call.Call.Args {
				if _, _, f, isF := an.FieldOf(a); isF && (f == "fallback" || f == "factory") {
					lookupHelper = h
				}
				for _, s0 := range an.ValuesAt(a) {
					if _, _, f, isF := an.FieldOf(s0); isF && (f == "fallback" || f == "factory") {
						lookupHelper = h
					}
				}
			}
		})
		leaves := an.DecisionTree(fn, an.DTConfig{Names: map[ssa.Value]string{fn.Params[0]: "r", fn.Params[1]: "name"},
			Inline: func(caller, callee *ssa.Function) bool {
				return callee != lookupHelper && an.InlineNewHelpers(caller, callee)
			}})
		c.Count("table_rows", len(leaves))
		lookupCall := func(field string) string {
			for _, l := range leaves {
				for _, cl := range l.Calls {
					if strings.Contains(cl, "r."+field) && strings.Contains(cl, "(") && !strings.HasPrefix(cl, "r.onChange") && !strings.HasPrefix(cl, "mapupdate") && !strings.HasPrefix(cl, "store ") {
						return cl
					}
				}
			}
			return "pkg/router.invoke(name, r." + field + ")"
		}
		fbCall, facCall := lookupCall("fallback"), lookupCall("factory")
		callOf := map[string]string{"fallback": fbCall, "factory": facCall}
		var (
			reg  = "r.registry[name]#1"
			fb   = "call " + fbCall + "#1"
			fac  = "call " + facCall + "#1"
			reg2 = "@2 r.registry[name]#1"
		)
		type agg struct {
			ok  bool
			why string
			n   int
		}
		rows := map[string]*agg{}
		rec := func(row string, good bool, why string) {
			a := rows[row]
			if a == nil {
				a = &agg{ok: true}
				rows[row] = a
			}
			a.n++
			if !good && a.ok {
				a.ok, a.why = false, why
			}
		}
		for _, l := range leaves {
			if l.Undec != "" || l.Panics {
				c.Unk(rule, name+"|table", fn.Pos(), l.Undec)
				return
			}
			calls := strings.Join(l.Calls, " ; ")
			usedFallback := strings.Contains(calls, fbCall)
			usedFactory := strings.Contains(calls, facCall)
			stored := strings.Contains(calls, "mapupdate r.registry[name]=")
			cb := strings.Count(calls, "r.onChange(")
			// the error that goes with a client that was found: nil, or the error result of the very lookup that found
			// it (nil there by invoke's definition) - not one left over from a lookup that failed
			errOf := func(which string) bool {
				return l.Returns[1].K == "nil" || l.Returns[1].S == "call "+callOf[which]+"#2"
			}
			switch {
			case l.Get(reg) == "true":
				rec("registered: returned, nothing else touched", l.Returns[0].S == "r.registry[name]#0" && l.Returns[1].K == "nil" && !usedFallback && !usedFactory && !stored && cb == 0, "registered client: returns ("+l.Returns[0].S+", "+l.Returns[1].S+"), calls "+calls)
			case l.Get(fb) == "true":
				rec("fallback before factory, not remembered", l.Returns[0].S == "call "+fbCall+"#0" && errOf("fallback") && !usedFactory && !stored && cb == 0, "fallback hit: returns ("+l.Returns[0].S+", "+l.Returns[1].S+"), calls "+calls)
			case l.Get(fac) == "true" && l.Get(reg2) == "true":
				rec("factory product discarded when a concurrent Get committed first", l.Returns[0].S == "@2 r.registry[name]#0" && errOf("factory") && !stored && cb == 0 && usedFallback, "lost race: returns ("+l.Returns[0].S+", "+l.Returns[1].S+"), stored="+fmt.Sprint(stored))
			case l.Get(fac) == "true" && l.Get(reg2) == "false":
				okAuto := true
				for _, r := range l.Recs {
					if r.Callee == "r.onChange" && !(strings.Contains(r.Args[0].S, "Auto:true") && strings.Contains(r.Args[0].S, "New:call "+facCall+"#0") && strings.Contains(r.Args[0].S, "Name:name")) {
						okAuto = false
					}
				}
				wantCb := 0
				if l.Get("r.onChange==nil") == "false" {
					wantCb = 1
				}
				// stored under the exclusive lock, after the re-check
				lockIdx, storeIdx, unlockIdx := -1, -1, -1
				for i, cl := range l.Calls {
					if strings.Contains(cl, "RWMutex).Lock(&r.mu)") {
						lockIdx = i
					}
					if strings.HasPrefix(cl, "mapupdate r.registry[name]=") {
						storeIdx = i
					}
					if strings.Contains(cl, "RWMutex).Unlock(&r.mu)") {
						unlockIdx = i
					}
				}
				rec("factory product committed once under the exclusive lock, reported as Auto", stored && lockIdx >= 0 && lockIdx < storeIdx && storeIdx < unlockIdx && cb == wantCb && okAuto && l.Returns[0].S == "call "+facCall+"#0" && errOf("factory") && usedFallback,
					fmt.Sprintf("factory hit: stored=%v lock/store/unlock=%d/%d/%d callbacks=%d autoChange=%v returns (%s, %s) - a client that was created must not come with the error of the fallback that failed before it", stored, lockIdx, storeIdx, unlockIdx, cb, okAuto, l.Returns[0].S, l.Returns[1].S))
			case l.Get(fac) == "false":
				rec("miss: NotFound, nothing stored", l.Returns[0].K == "nil" && strings.Contains(l.Returns[1].S, fmt.Sprintf("status.Error(%d,", an.CodeNotFound)) && !stored && cb == 0 && usedFallback && usedFactory, "miss returns ("+l.Returns[0].S+", "+l.Returns[1].S+")")
			default:
				rec("unclassified path", false, fmt.Sprint(l.Assign))
			}
		}
		for _, row := range []string{"registered: returned, nothing else touched", "fallback before factory, not remembered", "factory product discarded when a concurrent Get committed first", "factory product committed once under the exclusive lock, reported as Auto", "miss: NotFound, nothing stored"} {
			if rows[row] == nil {
				c.Bad(rule, name+"|"+row, fn.Pos(), "no path of Get implements this row")
			}
		}
		for _, row := range an.SortedKeys(rows) {
			a := rows[row]
			c.Check(a.ok, rule, name+"|"+row, fn.Pos(), fmt.Sprintf("%d path(s)", a.n), a.why)
		}
	}
	// invoke: exists iff child != nil && err == nil
	helper := lookupHelper
	if helper == nil {
		helper = mustFunc(c, rule, "pkg/router", "", "invoke")
	}
	if fn := helper; fn != nil && len(fn.Params) == 2 {
		names := map[ssa.Value]string{}
		for _, p := range fn.Params {
			if strings.HasSuffix(an.NamedTypeName(p.Type()), "/pkg/router.Factory") {
				names[p] = "f"
			} else {
				names[p] = "name"
			}
		}
		leaves := an.DecisionTree(fn, an.DTConfig{Names: names})
		ok := len(leaves) > 0
		for _, l := range leaves {
			if l.Undec != "" {
				ok = false
				continue
			}
			if l.Get("f==nil") == "true" {
				if l.Returns[1].S != "false" || len(l.Recs) != 0 {
					ok = false
				}
				continue
			}
			childNil := l.Get("call f(name)#0==nil")
			for _, errNil := range []bool{true, false} {
				if v := l.Get("call f(name)#1==nil"); v != "" && v != fmt.Sprint(errNil) {
					continue
				}
				want := childNil == "false" && errNil
				got, okb := evalBool(l.Returns[1].S, map[string]bool{"call f(name)#1==nil": errNil, "call f(name)#0==nil": childNil == "true"})
				if !okb || got != want {
					ok = false
				}
			}
			if l.Returns[0].S != "call f(name)#0" || l.Returns[2].S != "call f(name)#1" {
				ok = false
			}
		}
		c.Check(ok, rule, "pkg/router.invoke|a factory result counts only when non-nil and error-free", fn.Pos(), "", "invoke's exists flag is not (child != nil && err == nil)")
	}
}

// ---------------------------------------------------------------- R12.5

func r125(c *an.Ctx) {
	const rule = "R12.5"
	fn := mustFunc(c, rule, "pkg/middleware/name", "", "replaceEmptyNameField")
	if fn == nil {
		return
	}
	name := "pkg/middleware/name.replaceEmptyNameField"
	var set *ssa.Call
	an.Instrs(fn, func(in ssa.Instruction) {
		if call, ok := in.(*ssa.Call); ok && call.Call.IsInvoke() && call.Call.Method.Name() == "Set" {
			set = call
		}
	})
	if set == nil {
		c.Bad(rule, name+"|sets the name", fn.Pos(), "the default name is never set")
		return
	}
	var isMsg, hasField, isString, isEmpty bool
	for _, e := range an.GuardingEdges(set) {
		switch x := e.If.Cond.(type) {
		case *ssa.Extract:
			if _, ok := x.Tuple.(*ssa.TypeAssert); ok && x.Index == 1 && e.Branch {
				isMsg = true
			}
		case *ssa.BinOp:
			if t, trueMeansNil, ok := an.NilTest(x); ok {
				if call, isCall := t.(*ssa.Call); isCall && call.Call.IsInvoke() && call.Call.Method.Name() == "ByTextName" && e.Branch != trueMeansNil {
					if cst, ok := call.Call.Args[0].(*ssa.Const); ok && cst.Value != nil && cst.Value.ExactString() == `"name"` {
						hasField = true
					}
				}
				continue
			}
			for _, op := range [][2]ssa.Value{{x.X, x.Y}, {x.Y, x.X}} {
				call, isCall := op[0].(*ssa.Call)
				if !isCall {
					continue
				}
				if call.Call.IsInvoke() && call.Call.Method.Name() == "Kind" {
					if k, isC := an.ConstInt(op[1]); isC && k == 9 { // protoreflect.StringKind
						if (x.Op == token.NEQ && !e.Branch) || (x.Op == token.EQL && e.Branch) {
							isString = true
						}
					}
				}
				if strings.HasSuffix(an.CalleeName(call), "protoreflect.Value).String") {
					if cst, ok := op[1].(*ssa.Const); ok && cst.Value != nil && cst.Value.ExactString() == `""` {
						if (x.Op == token.NEQ && !e.Branch) || (x.Op == token.EQL && e.Branch) {
							isEmpty = true
						}
					}
				}
			}
		}
	}
	c.Check(isMsg && hasField && isString, rule, name+"|only messages with a string field `name`", set.Pos(), "", fmt.Sprintf("the default name is written without checking that the request is a message (%v) with a field `name` (%v) of string kind (%v)", isMsg, hasField, isString))
	c.Check(isEmpty, rule, name+"|only when the name is empty", set.Pos(), "", "the default name overwrites a name the caller supplied")
	// the value set is the configured name, into the name field
	okVal := false
	if len(set.Call.Args) == 2 {
		if vc, ok := set.Call.Args[1].(*ssa.Call); ok && strings.HasSuffix(an.CalleeName(vc), "protoreflect.ValueOfString") && vc.Call.Args[0] == ssa.Value(fn.Params[1]) {
			okVal = true
		}
	}
	c.Check(okVal, rule, name+"|sets the configured name", set.Pos(), "", "the value written is not the configured default name")
	// both interceptors call it on the request before handing on
	for _, iname := range []string{"IfAbsentUnaryInterceptor"} {
		f := c.Prog.Func("pkg/middleware/name", "", iname)
		if f == nil || len(f.AnonFuncs) != 1 {
			continue
		}
		a := f.AnonFuncs[0]
		calls := an.CallsTo(a, an.FuncQName(fn))
		okOrder := len(calls) == 1
		an.Instrs(a, func(in ssa.Instruction) {
			if call, ok := in.(*ssa.Call); ok && an.CalleeName(call) == "dynamic" && len(calls) == 1 {
				if !an.Dominates(calls[0], call) {
					okOrder = false
				}
			}
		})
		c.Check(okOrder, rule, "pkg/middleware/name."+iname+"|fills the name before the handler runs", f.Pos(), "", "the interceptor does not default the name before invoking the handler")
	}
	if f := c.Prog.Func("pkg/middleware/name", "", "IfAbsentStreamInterceptor"); f != nil && len(f.AnonFuncs) == 1 {
		a := f.AnonFuncs[0]
		okWrap := false
		an.Instrs(a, func(in ssa.Instruction) {
			call, ok := in.(*ssa.Call)
			if !ok || an.CalleeName(call) != "dynamic" || len(call.Call.Args) != 2 {
				return
			}
			// the stream handed to the handler: a wrapper allocated in this call, embedding this call's stream
			for _, s := range an.Sources(call.Call.Args[1]) {
				al, isAlloc := s.(*ssa.Alloc)
				if !isAlloc || al.Parent() != a {
					continue
				}
				fields, _ := litFields(al)
				for _, v := range an.Sources(fields["ServerStream"]) {
					if p, isP := v.(*ssa.Parameter); isP && p.Parent() == a {
						okWrap = true
					}
				}
			}
		})
		c.Check(okWrap, rule, "pkg/middleware/name.IfAbsentStreamInterceptor|each call gets its own stream wrapper", f.Pos(), "", "the stream wrapper handed to the handler is not allocated per call around that call's own stream: overlapping streams share one wrapper and read/write each other's transport")
	}
	if f := c.Prog.Func("pkg/middleware/name", "absentNameReplaceServerStream", "RecvMsg"); f != nil {
		calls := an.CallsTo(f, an.FuncQName(fn))
		ok := len(calls) == 1
		if ok {
			// only after a successful receive
			guarded := false
			for _, e := range an.GuardingEdges(calls[0]) {
				if _, trueMeansNil, isNil := an.NilTest(e.If.Cond); isNil && e.Branch == trueMeansNil {
					guarded = true
				}
			}
			ok = guarded
		}
		c.Check(ok, rule, "(*pkg/middleware/name.absentNameReplaceServerStream).RecvMsg|fills the name of each successfully received message", f.Pos(), "", "stream requests are not defaulted after a successful RecvMsg")
	}
}

// RenderRouter renders the router template for one service of a trait package (debugging aid,
// also used to write repairs of stale generated files exactly as the generator would).
func RenderRouter(p *an.Program, pkgRel, svcName string) string {
	c := an.NewCtx(p, "C12", "quick")
	rt, err := readRepoFile(c, "cmd/protoc-gen-router/router.go.gotxt")
	if err != nil {
		return err.Error()
	}
	t, err := template.New("router").Parse(string(rt))
	if err != nil {
		return err.Error()
	}
	pk := p.Pkg(pkgRel)
	if pk == nil {
		return "no such package"
	}
	dep := p.Deps[scapiTraits]
	for _, f := range p.DepSyntax[scapiTraits] {
		base := filepath.Base(p.Fset.Position(f.Pos()).Filename)
		for _, svc := range findServices(c, scapiTraits, base, []*ast.File{f}, dep) {
			if svc.goName != svcName {
				continue
			}
			qual := svc.pkg.Name() + "."
			model := routerModel{PackageName: pk.Types.Name(), RouterName: "ApiRouter", ServerName: mkIdent(qual, svc.goName+"Server"), ClientName: mkIdent(qual, svc.goName+"Client"),
				UnimplementedServerName: mkIdent(qual, "Unimplemented"+svc.goName+"Server"), RegisterService: mkIdent(qual, "Register"+svc.goName+"Server")}
			for _, m := range svc.methods {
				tm := tmplMethod{GoName: m.name, Desc: tmplDesc{m.streaming}, Streaming: m.streaming}
				tm.GoInput = tmplIdent{Qualified: strings.TrimPrefix(qualOf(m.input, pk.Types), "*")}
				tm.GoOutput = tmplIdent{Qualified: strings.TrimPrefix(qualOf(m.output, pk.Types), "*")}
				if m.streaming {
					tm.ServerStream = tmplIdent{Qualified: qual + svc.goName + "_" + m.name + "Server"}
				}
				model.Methods = append(model.Methods, tm)
			}
			var buf bytes.Buffer
			if err := t.Execute(&buf, model); err != nil {
				return err.Error()
			}
			return buf.String()
		}
	}
	return "service not found"
}

// r126: the generators render a file for EVERY service of a proto file: no iteration of the loop over file.Services
// reaches the next one without executing the service template (a failing Execute ends the run with its error).
// The checked-in routers and wrappers include services without methods (the *Info services), so "nothing to route"
// is not a reason to skip.
func r126(c *an.Ctx) {
	const rule = "R12.6"
	for _, rel := range []string{"cmd/protoc-gen-router", "cmd/protoc-gen-wrapper"} {
		fn := c.Prog.Func(rel, "", "generateFile")
		if fn == nil {
			c.Unk(rule, rel+".generateFile|every service is rendered", 0, "generateFile not found")
			continue
		}
		name := rel + ".generateFile"
		c.SawFunc(an.FuncName(fn))
		isExecute := func(in ssa.Instruction) bool { return an.IsCallTo(in, "(*text/template.Template).Execute") }
		n := 0
		for _, b := range fn.Blocks {
			iff, ok := b.Instrs[len(b.Instrs)-1].(*ssa.If)
			if !ok {
				continue
			}
			bo, ok := iff.Cond.(*ssa.BinOp)
			if !ok || bo.Op != token.LSS {
				continue
			}
			// i < len(file.Services)
			overServices := false
			for _, s0 := range an.Sources(bo.Y) {
				if cl, isCall := s0.(*ssa.Call); isCall && an.CalleeName(cl) == "builtin len" {
					for _, s1 := range an.Sources(cl.Call.Args[0]) {
						if _, _, f, isF := an.FieldOf(s1); isF && f == "Services" {
							overServices = true
						}
					}
				}
			}
			if !overServices {
				continue
			}
			n++
			t, path := an.PathQuery{Target: func(x ssa.Instruction) bool { return x == ssa.Instruction(iff) }, Avoid: isExecute}.FromBlock(b.Succs[0])
			c.Check(t == nil, rule, name+"|every service is rendered", iff.Pos(), "each iteration executes the service template",
				"an iteration over file.Services can move on to the next service without executing the service template: services are skipped (e.g. those without methods), so the checked-in file of such a service is no longer what the generator produces and a later regeneration drops its router/wrapper", an.BlockPath(c.Prog, path)...)
		}
		if n == 0 {
			c.Unk(rule, name+"|every service is rendered", fn.Pos(), "no loop over file.Services found")
		}
	}
}

// r125stream: the default-name stream interceptor hands the handler its replacing stream on EVERY call: server-streaming
// methods (every Pull*) read their single request through RecvMsg of that stream too, so a wrapper that is installed
// only for client streams leaves the empty names of Pull requests empty and the router answers NotFound.
func r125stream(c *an.Ctx) {
	const rule = "R12.5"
	fn := mustFunc(c, rule, "pkg/middleware/name", "", "IfAbsentStreamInterceptor")
	if fn == nil {
		return
	}
	name := "pkg/middleware/name.IfAbsentStreamInterceptor"
	n := 0
	bodies := append(an.AnonFuncsDeep(fn), an.TransparentCalleesOf(fn, 2)...)
	// the interceptor may be a method value of a small type (`nameDefault(name).stream`): the function that is returned
	for _, r := range an.Returns(fn) {
		for _, s0 := range an.Sources(r.Results[0]) {
			if b, _, _ := an.CallbackBody(s0); b != nil && len(b.Blocks) > 0 {
				bodies = append(bodies, b)
			}
		}
	}
	seenBody := map[*ssa.Function]bool{}
	for _, f := range bodies {
		np := len(f.Params)
		if np < 4 || seenBody[f] {
			continue
		}
		seenBody[f] = true
		handler := f.Params[np-1]
		ss := f.Params[np-3]
		if !strings.Contains(handler.Type().String(), "StreamHandler") {
			continue
		}
		an.Instrs(f, func(in ssa.Instruction) {
			call, ok := in.(*ssa.Call)
			if !ok || call.Call.Value != ssa.Value(handler) || len(call.Call.Args) != 2 {
				return
			}
			n++
			// the stream handed on is never the raw one
			raw := false
			for _, s0 := range an.Sources(call.Call.Args[1]) {
				if s0 == ssa.Value(ss) {
					raw = true
				}
			}
			c.SawFunc(an.FuncName(fn))
			c.Check(!raw, rule, name+"|every stream gets the name-filling wrapper", call.Pos(), "the handler always receives the wrapping stream",
				"on some path the handler is given the original ServerStream instead of the wrapper that fills in empty names: for those calls (e.g. all server-streaming Pull* methods when only client streams are wrapped) an empty name stays empty and the router answers NotFound instead of forwarding to the default client")
		})
	}
	if n == 0 {
		c.Unk(rule, name+"|every stream gets the name-filling wrapper", fn.Pos(), "the call of the stream handler was not found")
	}
}

// r127: the generated forwarders name their request and response types as the descriptors do: GoInput / GoOutput of a
// method come from the method's own Input.GoIdent / Output.GoIdent - a type from another proto package
// (types.AudioLevel, emptypb.Empty) must not be re-homed into the package of the file being generated.
func r127(c *an.Ctx) {
	const rule = "R12.7"
	for _, rel := range []string{"cmd/protoc-gen-router", "cmd/protoc-gen-wrapper"} {
		fn := c.Prog.Func(rel, "", "newServiceModel")
		if fn == nil {
			continue
		}
		c.SawFunc(an.FuncName(fn))
		for _, fld := range []string{"GoInput", "GoOutput"} {
			want := map[string]string{"GoInput": "Input", "GoOutput": "Output"}[fld]
			n, ok := 0, true
			var where token.Pos = fn.Pos()
			an.Instrs(fn, func(in ssa.Instruction) {
				st, isSt := in.(*ssa.Store)
				if !isSt {
					return
				}
				if _, _, f, isF := an.FieldOf(st.Addr); !isF || f != fld {
					return
				}
				n++
				// the value derives from <method>.<want>.GoIdent
				good := false
				var walk func(v ssa.Value, depth int)
				walk = func(v ssa.Value, depth int) {
					if depth > 6 || good {
						return
					}
					for _, s0 := range an.Sources(v) {
						if base, _, f, isF := an.FieldOf(s0); isF && f == "GoIdent" {
							for _, s1 := range an.Sources(base) {
								if _, _, f2, isF2 := an.FieldOf(s1); isF2 && f2 == want {
									good = true
								}
							}
							if _, _, f2, isF2 := an.FieldOf(base); isF2 && f2 == want {
								good = true
							}
						}
						if call, isCall := s0.(*ssa.Call); isCall {
							for _, a := range call.Call.Args {
								walk(a, depth+1)
							}
						}
						if ex, isEx := s0.(*ssa.Extract); isEx {
							walk(ex.Tuple, depth+1)
						}
					}
				}
				walk(st.Val, 0)
				if !good {
					ok, where = false, st.Pos()
				}
			})
			if n == 0 {
				continue // the wrapper generator has no such field
			}
			c.Check(ok, rule, rel+".newServiceModel|"+fld+" names the method's own "+want+" type", where, "",
				fld+" is not derived from method."+want+".GoIdent: a request/response type that lives in another proto package is named as if it were local, so the checked-in routers of such services (speaker, microphone, memory settings) are no longer what the generator produces - regenerating them does not even compile")
		}
	}
}

// r128: the two generators place their output by the same computation. protoc-gen-router and protoc-gen-wrapper derive
// the package directory and the file name of a service from the proto file name and the service name; the checked-in
// `*_router.pb.go` and `*_wrap.pb.go` of one service live side by side, so the string operations that compute the
// package (base name, underscore stripping, prefix/suffix trimming, lower-casing) are the same calls with the same
// constant arguments in both. One generator stripping only the first underscore writes `airquality_sensorpb/…`
// next to the other's `airqualitysensorpb/…`: the checked-in files are no longer what the generator produces.
func r128(c *an.Ctx, rule string) {
	sig := func(pkgRel string) ([]string, *ssa.Function) {
		fn := c.Prog.Func(pkgRel, "", "generateFile")
		if fn == nil {
			return nil, nil
		}
		var out []string
		for _, f := range append([]*ssa.Function{fn}, an.TransparentCalleesOf(fn, 1)...) {
			an.Instrs(f, func(in ssa.Instruction) {
				call, ok := in.(*ssa.Call)
				if !ok {
					return
				}
				n := an.CalleeName(call)
				if !strings.HasPrefix(n, "strings.") && !strings.HasPrefix(n, "path/filepath.") && !strings.HasPrefix(n, "path.") {
					return
				}
				var args []string
				for _, a := range call.Call.Args {
					if k, isC := a.(*ssa.Const); isC && k.Value != nil {
						args = append(args, k.Value.ExactString())
					} else {
						args = append(args, "_")
					}
				}
				out = append(out, n+"("+strings.Join(args, ", ")+")")
			})
		}
		sort.Strings(out)
		return out, fn
	}
	a, fa := sig("cmd/protoc-gen-router")
	b, fb := sig("cmd/protoc-gen-wrapper")
	if fa == nil || fb == nil {
		c.Unk(rule, "cmd|generators place their output alike", 0, "generateFile of one of the generators not found")
		return
	}
	same := strings.Join(a, ";") == strings.Join(b, ";")
	diff := ""
	if !same {
		in := func(x string, l []string) bool {
			for _, y := range l {
				if x == y {
					return true
				}
			}
			return false
		}
		for _, x := range a {
			if !in(x, b) {
				diff += " router only: " + x + ";"
			}
		}
		for _, x := range b {
			if !in(x, a) {
				diff += " wrapper only: " + x + ";"
			}
		}
	}
	c.Check(same && len(a) >= 4, rule, "cmd|generators place their output alike", fb.Pos(), fmt.Sprintf("%d string operations, identical in both generators", len(a)),
		"protoc-gen-router and protoc-gen-wrapper compute package directory and file name with different string operations ("+strings.TrimSpace(diff)+"): for some proto files the two generators write into different directories, and the checked-in routers/wrappers are not what the generators produce")
}

// r129: a generated file lives in the package it says it is in. Each generator calls
// plugin.NewGeneratedFile(filename, importPath) with two formats; the import path must be the module path plus the
// directory part of the filename format. If the two drift apart, references to the package's own declarations are
// emitted qualified (and the file imports itself) for every service whose messages live in that package: the
// generator no longer produces the checked-in files.
func r129(c *an.Ctx, rule string) {
	format := func(v ssa.Value) (string, bool) {
		for _, s := range an.Sources(v) {
			call, ok := s.(*ssa.Call)
			if !ok || an.CalleeName(call) != "fmt.Sprintf" || len(call.Call.Args) == 0 {
				continue
			}
			if k, isC := call.Call.Args[0].(*ssa.Const); isC && k.Value != nil && k.Value.Kind() == constant.String {
				return constant.StringVal(k.Value), true
			}
		}
		if k, isC := v.(*ssa.Const); isC && k.Value != nil && k.Value.Kind() == constant.String {
			return constant.StringVal(k.Value), true
		}
		return "", false
	}
	for _, gen := range []string{"cmd/protoc-gen-router", "cmd/protoc-gen-wrapper"} {
		fn := c.Prog.Func(gen, "", "generateFile")
		if fn == nil {
			c.Unk(rule, gen+"|generated files are placed in the package they declare", 0, "generateFile not found")
			continue
		}
		n := 0
		for _, f := range append([]*ssa.Function{fn}, an.TransparentCalleesOf(fn, 1)...) {
			an.Instrs(f, func(in ssa.Instruction) {
				call, ok := in.(*ssa.Call)
				if !ok || !strings.HasSuffix(an.CalleeName(call), "protogen.Plugin).NewGeneratedFile") || len(call.Call.Args) != 3 {
					return
				}
				n++
				file, ok1 := format(call.Call.Args[1])
				imp, ok2 := format(call.Call.Args[2])
				cons := fmt.Sprintf("%s|generated file #%d is placed in the package it declares", gen, n)
				if !ok1 || !ok2 {
					c.Unk(rule, cons, call.Pos(), "the file name or import path given to NewGeneratedFile is not built from a constant format")
					return
				}
				dir := file
				if i := strings.LastIndex(file, "/"); i >= 0 {
					dir = file[:i]
				}
				c.Check(imp == an.ModulePath+"/"+dir, rule, cons, call.Pos(), "import path = module path + directory of the file",
					fmt.Sprintf("the file is written to %q but declared to be in package %q: its references to its own package come out qualified and it imports itself, so the generator does not produce the checked-in files", dir, imp))
			})
		}
		if n == 0 {
			c.Unk(rule, gen+"|generated files are placed in the package they declare", fn.Pos(), "no call of NewGeneratedFile found")
		}
	}
}

// r1211: the service name the generators derive file and type names from is the Go name minus the trait prefix IF
// it starts with it (ignoring case) - and the whole name otherwise. trimPrefixIgnoreCase cuts s by the length of
// what strings.TrimPrefix removed from the lower-cased name: s[len(s)-len(trimmed):]. Cutting by the prefix's
// length instead chops the first letters off every service that does not start with its package's trait name
// (electricpb's MemorySettingsApi becomes ttingsApi: another file, another type; the checked-in router goes stale).
// r1212: the router's options each configure their own setting. The factory (asked last, its client remembered) and
// the fallback (asked first, nothing remembered) are two fields with two options; an option writing the other's
// field turns a fallback into a factory - clients the fallback hands out are registered, announced as changes and
// never asked for again - and silently replaces whatever the other option configured.
func r1212(c *an.Ctx, rule string) {
	setters := map[string]map[string]token.Pos{}
	for _, fn := range c.Prog.FuncsIn("pkg/router") {
		if strings.HasSuffix(c.Prog.RelFile(fn.Pos()), "_test.go") {
			continue
		}
		top := fn
		for top.Parent() != nil {
			top = top.Parent()
		}
		if top == fn || !strings.HasPrefix(top.Name(), "With") {
			continue
		}
		an.Instrs(fn, func(in ssa.Instruction) {
			st, ok := in.(*ssa.Store)
			if !ok {
				return
			}
			_, sn, fld, isF := an.FieldOf(st.Addr)
			if !isF || !strings.HasSuffix(sn, "pkg/router.router") {
				return
			}
			if setters[fld] == nil {
				setters[fld] = map[string]token.Pos{}
			}
			setters[fld][an.FuncName(top)] = st.Pos()
		})
	}
	var flds []string
	for f := range setters {
		flds = append(flds, f)
	}
	sort.Strings(flds)
	for _, f := range flds {
		var names []string
		pos := token.NoPos
		for n, p := range setters[f] {
			names = append(names, n)
			pos = p
		}
		sort.Strings(names)
		c.Check(len(names) == 1, rule, "pkg/router.router."+f+"|is configured by one option", pos, strings.Join(names, ", "),
			"the router setting "+f+" is written by more than one option ("+strings.Join(names, ", ")+"): one option takes over the other's role (a fallback whose clients are registered and remembered like a factory's) and the later of the two replaces the earlier")
	}
	c.Count("router_option_fields", len(flds))
}

func r1211(c *an.Ctx, rule string) {
	for _, gen := range []string{"cmd/protoc-gen-router", "cmd/protoc-gen-wrapper"} {
		fn := c.Prog.Func(gen, "", "trimPrefixIgnoreCase")
		if fn == nil {
			continue // a generator that names its files another way has its own rules (R12.1 compares the output)
		}
		cons := gen + ".trimPrefixIgnoreCase|the name is cut by what was actually trimmed"
		c.SawFunc(an.FuncName(fn))
		ok, n := true, 0
		for _, r := range an.Returns(fn) {
			if len(r.Results) != 1 {
				continue
			}
			for _, v := range an.ValuesAt(r.Results[0]) {
				if p, isP := v.(*ssa.Parameter); isP && p == fn.Params[0] {
					continue // the whole name
				}
				sl, isSl := v.(*ssa.Slice)
				if !isSl {
					ok = false
					continue
				}
				n++
				good := false
				// s[len(s)-len(trimmed):]
				if sub, isSub := sl.Low.(*ssa.BinOp); isSub && sub.Op == token.SUB {
					if ln, isLen := sub.Y.(*ssa.Call); isLen && an.CalleeName(ln) == "builtin len" {
						for _, s := range an.Sources(ln.Call.Args[0]) {
							if call, isCall := s.(*ssa.Call); isCall && (an.CalleeName(call) == "strings.TrimPrefix" || an.CalleeName(call) == "strings.CutPrefix") {
								good = true
							}
						}
					}
				}
				// s[len(prefix):] behind a successful HasPrefix / CutPrefix test
				if !good {
					for _, e := range an.GuardingEdges(r) {
						for _, s := range an.Sources(e.If.Cond) {
							if call, isCall := s.(*ssa.Call); isCall && e.Branch && (an.CalleeName(call) == "strings.HasPrefix" || an.CalleeName(call) == "strings.CutPrefix" || an.CalleeName(call) == "strings.EqualFold") {
								good = true
							}
						}
					}
				}
				if !good {
					ok = false
				}
			}
		}
		c.Check(ok && n > 0, rule, cons, fn.Pos(), "s[len(s)-len(TrimPrefix(lower(s), lower(prefix))):]",
			"the service name is not cut by the length of what was trimmed (or behind a test that it has the prefix): a service that does not start with its package's trait name loses its first letters, so the generator writes another file and type than the checked-in one")
	}
}
