package props

import (
	"fmt"
	"go/token"
	"go/types"
	"sort"
	"strings"

	"golang.org/x/tools/go/ssa"

	"scverif/an"
)

func init() {
	register(&Prop{
		ID:          "C08",
		Title:       "Include-filtered List/Pull behave as the filtered collection",
		Explanation: "R08.1 extracts the complete decision table of CollectionChange.include over the atoms {filter==nil, old∈, new∈} by abstract interpretation with uninterpreted atoms and compares all rows with the table the property states (same change / ADD / REMOVE / not delivered; Id and ChangeTime preserved). R08.2 ReadRequest.Exclude ≡ filter≠nil ∧ ¬filter(id,m), itemSlice skips exactly the excluded items and List and the Pull seed both go through it. R08.3 in Collection.Pull the include decision precedes read-mask filtering and the equivalence test and a negative decision skips the event. R08.4 every predicate literal passed to resource.WithInclude guards its type assertion with a nil test (ADD events evaluate the predicate on an absent old value). Does NOT decide that folding the filtered stream equals the filtered List for all histories.",
		Assumptions: []string{"the include predicate is a pure function of (id, value)"},
		Run:         runC08,
		Controls: []Control{
			{Name: "booking-response-change-without-old-value", File: "pkg/trait/bookingpb/model_server.go", Old: "\t\t\t\tOldValue:   change.OldValue,\n", New: "", Expect: "R08.10"},
			{Name: "revert-F59-predicate-asked-about-absent", File: "pkg/resource/change.go", Old: "\toldInclude := c.OldValue != nil && includeFunc(c.Id, c.OldValue)\n\tnewInclude := c.NewValue != nil && includeFunc(c.Id, c.NewValue)\n", New: "\toldInclude := includeFunc(c.Id, c.OldValue)\n\tnewInclude := includeFunc(c.Id, c.NewValue)\n", Expect: "R08.1"},
			{Name: "absent-new-value-still-asked", File: "pkg/resource/change.go", Old: "\tnewInclude := c.NewValue != nil && includeFunc(c.Id, c.NewValue)\n", New: "\tnewInclude := includeFunc(c.Id, c.NewValue)\n", Expect: "R08.1"},
			{Name: "booking-old-value-by-change-type", File: "pkg/trait/bookingpb/model.go", Old: "\t\t\tif change.OldValue != nil {\n\t\t\t\tevent.OldValue = change.OldValue.(*traits.Booking)", New: "\t\t\tif change.ChangeType == types.ChangeType_UPDATE {\n\t\t\t\tevent.OldValue = change.OldValue.(*traits.Booking)", Expect: "R08.9"},
			{Name: "booking-list-skips-unbounded", File: "pkg/trait/bookingpb/model_server.go", Old: "\topts := []resource.ReadOption{\n\t\tresource.WithReadMask(request.ReadMask),\n\t}\n\tif request.BookingIntersects != nil {\n\t\topts = append(opts, resource.WithInclude(func(_ string", New: "\topts := []resource.ReadOption{\n\t\tresource.WithReadMask(request.ReadMask),\n\t}\n\tif request.BookingIntersects != nil && request.BookingIntersects.StartTime != nil {\n\t\topts = append(opts, resource.WithInclude(func(_ string", Expect: "R08.7"},
			{Name: "swap-add-remove", File: "pkg/resource/change.go", Old: "\tif newInclude {\n\t\t// treat this like an Add", New: "\tif !newInclude {\n\t\t// treat this like an Add", Expect: "R08.1"},
			{Name: "deliver-excluded", File: "pkg/resource/change.go", Old: "if oldInclude == newInclude {", New: "if oldInclude == newInclude || true {", Expect: "R08.1"},
			{Name: "itemslice-ignores-exclude", File: "pkg/resource/collection.go", Old: "\t\tif readConfig.Exclude(id, value.body) {\n\t\t\tcontinue\n\t\t}\n", New: "", Expect: "R08.2"},
			{Name: "exclude-inverted", File: "pkg/resource/opt.go", Old: "return rr.Include != nil && !rr.Include(id, m)", New: "return rr.Include != nil && rr.Include(id, m)", Expect: "R08.2"},
			{Name: "include-after-filter", File: "pkg/resource/collection.go", Old: "\t\t\tchange, ok := change.include(readConfig.Include)\n\t\t\tif !ok {\n\t\t\t\tcontinue\n\t\t\t}\n\t\t\tchange = change.filter(filter)", New: "\t\t\tchange = change.filter(filter)\n\t\t\tchange, ok := change.include(readConfig.Include)\n\t\t\tif !ok {\n\t\t\t\tcontinue\n\t\t\t}", Expect: "R08.3"},
			{Name: "ignore-include-verdict", File: "pkg/resource/collection.go", Old: "\t\t\tchange, ok := change.include(readConfig.Include)\n\t\t\tif !ok {\n\t\t\t\tcontinue\n\t\t\t}", New: "\t\t\tchange, _ = change.include(readConfig.Include)", Expect: "R08.3"},
			{Name: "booking-no-nil-guard", File: "pkg/trait/bookingpb/model_server.go", Old: "\t\topts = append(opts, resource.WithInclude(func(id string, item proto.Message) bool {\n\t\t\tif item == nil {\n\t\t\t\treturn false\n\t\t\t}\n", New: "\t\topts = append(opts, resource.WithInclude(func(id string, item proto.Message) bool {\n", Expect: "R08.4"},
			{Name: "include-as-switch", Silent: true, File: "pkg/resource/change.go",
				Old: "\tif oldInclude == newInclude {\n\t\t// the only time we want to skip sending the update is if both the old and new values are excluded\n\t\treturn c, newInclude\n\t}\n",
				New: "\tswitch {\n\tcase oldInclude && newInclude:\n\t\treturn c, true\n\tcase !oldInclude && !newInclude:\n\t\treturn nil, false\n\t}\n"},
		},
	})
}

// evalBool evaluates a symbolic boolean under an assignment of atoms.
func evalBool(s string, env map[string]bool) (bool, bool) {
	s = strings.TrimSpace(s)
	if s == "true" {
		return true, true
	}
	if s == "false" {
		return false, true
	}
	if strings.HasPrefix(s, "!") {
		v, ok := evalBool(s[1:], env)
		return !v, ok
	}
	if v, ok := env[s]; ok {
		return v, true
	}
	if i := strings.Index(s, "=="); i > 0 {
		a, ok1 := evalBool(s[:i], env)
		b, ok2 := evalBool(s[i+2:], env)
		if ok1 && ok2 {
			return a == b, true
		}
	}
	return false, false
}

// leafConsistent reports whether every atom the leaf decided agrees with env
// (atoms are evaluated through evalBool); unknown atoms make it undecided.
func leafConsistent(l *an.Leaf, env map[string]bool) (consistent bool, unknown string) {
	for atom, val := range l.AssignM {
		v, ok := evalBool(atom, env)
		if !ok {
			return false, atom
		}
		if fmt.Sprint(v) != val {
			return false, ""
		}
	}
	return true, ""
}

func symField(s *an.Sym, f string) string {
	if s == nil {
		return "?"
	}
	if s.K == "struct" {
		if v, ok := s.Fields[f]; ok {
			return v.S
		}
		if s.Base == nil || s.Base.S == "zero" || s.Base.K == "nil" {
			return "zero"
		}
		return symField(s.Base, f)
	}
	if s.S == "zero" || s.K == "nil" {
		return "zero"
	}
	return strings.TrimPrefix(s.S, "&") + "." + f
}

func isUnset(v string) bool { return v == "zero" || v == "nil" }

func runC08(c *an.Ctx) {
	r081(c)
	r082(c)
	r083(c)
	r084(c)
	r085(c)
	// the event a filtered subscriber's predicate sees is the one the writer published: the change helpers of
	// pkg/resource (filter, include, the Pull goroutines) never write a published event or its values (E2)
	runE2(c, "R08.6", func(fn *ssa.Function) bool {
		return fn.Package() != nil && strings.HasSuffix(fn.Package().Pkg.Path(), "/pkg/resource")
	})
	c.Min("R08.6", 10)
	c.Min("R08.5", 3)
	c.Min("R08.1", 5)
	c.Min("R08.2", 4)
	c.Min("R08.3", 3)
	c.Min("R08.4", 2)
	r087(c)
	c.Min("R08.7", 2)
	r165held(c, "R08.8") // include-driven removals and re-adds under a configured equivalence (shared with R16.5)
	c.Min("R08.8", 2)
	r028(c, "R08.11") // a create that lost the race is noticed, not committed over the winner: the second ADD (old value nil) would otherwise be judged by the predicate against nothing and the subscriber keep the overwritten item (shared with R02.8)
	c.Min("R08.11", 2)
	r0810(c, "R08.10")
	c.Min("R08.10", 5)
	r089(c, "R08.9")
	c.Min("R08.9", 6)
}

func changeTypeConsts(c *an.Ctx) (add, upd, rem, rep int64, ok bool) {
	const tp = "github.com/smart-core-os/sc-api/go/types"
	var o1, o2, o3, o4 bool
	add, o1 = c.Prog.ConstInt(tp, "ChangeType_ADD")
	upd, o2 = c.Prog.ConstInt(tp, "ChangeType_UPDATE")
	rem, o3 = c.Prog.ConstInt(tp, "ChangeType_REMOVE")
	rep, o4 = c.Prog.ConstInt(tp, "ChangeType_REPLACE")
	return add, upd, rem, rep, o1 && o2 && o3 && o4
}

func r081(c *an.Ctx) {
	const rule = "R08.1"
	fn := mustFunc(c, rule, resPkg, "CollectionChange", "include")
	if fn == nil {
		return
	}
	name := "(*pkg/resource.CollectionChange).include"
	add, _, rem, _, okc := changeTypeConsts(c)
	if !okc || len(fn.Params) != 2 {
		c.Unk(rule, name+"|signature", fn.Pos(), "include no longer has (receiver, filter) parameters or ChangeType constants not found")
		return
	}
	names := map[ssa.Value]string{fn.Params[0]: "c", fn.Params[1]: "f"}
	leaves := an.DecisionTree(fn, an.DTConfig{Names: names})
	c.Count("table_rows", len(leaves))
	const O, N = "call f(c.Id, c.OldValue)", "call f(c.Id, c.NewValue)"
	const oNil, nNil = "c.OldValue==nil", "c.NewValue==nil"
	// membership: a value is part of the filtered collection when it is present and the predicate accepts it. An absent
	// value (the old value of an ADD, the new value of a REMOVE) is never a member, whatever the predicate answers for a
	// nil message - the property quantifies over predicates that are true for absent values too.
	type envT struct {
		nilF, oAbsent, oAcc, nAbsent, nAcc bool
	}
	var envs []envT
	envs = append(envs, envT{nilF: true})
	for _, oa := range []bool{false, true} {
		for _, oc := range []bool{false, true} {
			for _, na := range []bool{false, true} {
				for _, nc := range []bool{false, true} {
					envs = append(envs, envT{false, oa, oc, na, nc})
				}
			}
		}
	}
	label := func(e envT) (string, bool, bool) {
		if e.nilF {
			return "filter==nil", false, false
		}
		o, n := !e.oAbsent && e.oAcc, !e.nAbsent && e.nAcc
		switch {
		case o && n:
			return "(old∈,new∈)", o, n
		case !o && n:
			return "(old∉,new∈)", o, n
		case o && !n:
			return "(old∈,new∉)", o, n
		}
		return "(old∉,new∉)", o, n
	}
	hits := map[string]int{}
	undec := map[string]string{}
	for _, e := range envs {
		env := map[string]bool{"f==nil": e.nilF, O: e.oAcc, N: e.nAcc, oNil: e.oAbsent, nNil: e.nAbsent}
		lb, ro, rn := label(e)
		cons := name + "|row " + lb
		for _, l := range leaves {
			if l.Undec != "" {
				undec[lb] = l.Undec
				continue
			}
			ok, unknown := leafConsistent(l, env)
			if unknown != "" {
				// atoms about the filter calls are irrelevant when the filter is nil and vice versa
				if !e.nilF {
					undec[lb] = "branch on an atom outside {filter==nil, old/new present, old∈, new∈}: " + unknown
				}
				continue
			}
			if !ok {
				continue
			}
			// a nil filter is never called: leaves that call it are not rows of filter==nil
			if e.nilF && (l.Get(O) != "" || l.Get(N) != "") {
				continue
			}
			hits[lb]++
			if l.Panics {
				c.Bad(rule, cons, l.RetPos, "include panics on this row")
				continue
			}
			if len(l.Returns) != 2 {
				c.Unk(rule, cons, l.RetPos, "unexpected number of results")
				continue
			}
			deliver, okb := evalBool(l.Returns[1].S, env)
			if !okb {
				c.Unk(rule, cons, l.RetPos, "the delivery verdict `"+l.Returns[1].S+"` is not a function of the atoms")
				continue
			}
			ch := l.Returns[0]
			same := ch.S == "c" || (symField(ch, "ChangeType") == "c.ChangeType" && symField(ch, "NewValue") == "c.NewValue" && symField(ch, "OldValue") == "c.OldValue" && symField(ch, "Id") == "c.Id")
			idTime := ch.S == "c" || (symField(ch, "Id") == "c.Id" && symField(ch, "ChangeTime") == "c.ChangeTime")
			got := fmt.Sprintf("returns (%s, %v)", ch.S, deliver)
			if !e.nilF {
				got += fmt.Sprintf(" for old value absent=%v accepted=%v, new value absent=%v accepted=%v", e.oAbsent, e.oAcc, e.nAbsent, e.nAcc)
			}
			switch {
			case e.nilF || (ro && rn):
				c.Check(deliver && same, rule, cons, l.RetPos, got, got+"; expected the unchanged change to be delivered")
			case !ro && rn:
				// an ADD whose old value is absent may be passed on as it is
				good := deliver && ((e.oAbsent && same) || (idTime && symField(ch, "ChangeType") == fmt.Sprint(add) && symField(ch, "NewValue") == "c.NewValue" && isUnset(symField(ch, "OldValue"))))
				c.Check(good, rule, cons, l.RetPos, got, got+"; expected an ADD carrying c.NewValue, no old value, same Id and ChangeTime, delivered")
			case ro && !rn:
				good := deliver && ((e.nAbsent && same) || (idTime && symField(ch, "ChangeType") == fmt.Sprint(rem) && symField(ch, "OldValue") == "c.OldValue" && isUnset(symField(ch, "NewValue"))))
				c.Check(good, rule, cons, l.RetPos, got, got+"; expected a REMOVE carrying c.OldValue, no new value, same Id and ChangeTime, delivered")
			default:
				c.Check(!deliver, rule, cons, l.RetPos, got, got+"; a change to an item that matches neither before nor after must not be delivered - an absent value (the old value of an ADD, the new value of a REMOVE) never matches, whatever the predicate answers for nil")
			}
		}
	}
	for _, lb := range []string{"filter==nil", "(old∈,new∈)", "(old∉,new∈)", "(old∈,new∉)", "(old∉,new∉)"} {
		if hits[lb] > 0 {
			continue
		}
		if u := undec[lb]; u != "" {
			c.Unk(rule, name+"|row "+lb, fn.Pos(), "decision table could not be extracted: "+u)
		} else {
			c.Unk(rule, name+"|row "+lb, fn.Pos(), "no path of include corresponds to this row")
		}
	}
}

func r082(c *an.Ctx) {
	const rule = "R08.2"
	ex := mustFunc(c, rule, resPkg, "ReadRequest", "Exclude")
	if ex != nil && len(ex.Params) == 3 {
		names := map[ssa.Value]string{ex.Params[0]: "rr", ex.Params[1]: "id", ex.Params[2]: "m"}
		leaves := an.DecisionTree(ex, an.DTConfig{Names: names})
		c.Count("table_rows", len(leaves))
		name := "(*pkg/resource.ReadRequest).Exclude"
		for _, r := range []struct{ nilF, inc bool }{{true, false}, {false, true}, {false, false}} {
			env := map[string]bool{"rr.Include==nil": r.nilF, "call rr.Include(id, m)": r.inc}
			cons := fmt.Sprintf("%s|row filter==nil:%v include:%v", name, r.nilF, r.inc)
			want := !r.nilF && !r.inc
			n := 0
			for _, l := range leaves {
				ok, unknown := leafConsistent(l, env)
				if unknown != "" && !r.nilF {
					c.Unk(rule, cons, ex.Pos(), "branch on unexpected atom "+unknown)
					n++
					continue
				}
				if !ok || l.Undec != "" {
					continue
				}
				if r.nilF && len(l.Calls) > 0 {
					continue
				}
				n++
				got, okb := evalBool(l.Returns[0].S, env)
				if !okb {
					c.Unk(rule, cons, l.RetPos, "result `"+l.Returns[0].S+"` is not a function of the atoms")
					continue
				}
				c.Check(got == want, rule, cons, l.RetPos, fmt.Sprintf("Exclude = %v", got), fmt.Sprintf("Exclude = %v, expected %v (exclude iff a filter is set and rejects the item)", got, want))
			}
			if n == 0 {
				c.Unk(rule, cons, ex.Pos(), "no path for this row")
			}
		}
	}
	// itemSlice: the append of an item is reachable only on the false edge of Exclude(id, body)
	is := mustFunc(c, rule, resPkg, "Collection", "itemSlice")
	if is != nil {
		name := "(*pkg/resource.Collection).itemSlice"
		var appends []ssa.Instruction
		an.Instrs(is, func(in ssa.Instruction) {
			if an.IsCallTo(in, "builtin append") {
				appends = append(appends, in)
			}
		})
		if len(appends) == 0 {
			c.Unk(rule, name+"|append", is.Pos(), "no append in itemSlice")
		}
		exq := "(*" + an.ModulePath + "/pkg/resource.ReadRequest).Exclude"
		for i, a := range appends {
			guarded := false
			for _, e := range an.GuardingEdges(a) {
				if call, ok := e.If.Cond.(*ssa.Call); ok && an.CalleeName(call) == exq && !e.Branch {
					// arguments: the ranged key and the body of the ranged value
					if _, _, f, ok := an.FieldOf(call.Call.Args[2]); ok && f == "body" {
						guarded = true
					}
				}
			}
			c.Check(guarded, rule, fmt.Sprintf("%s|append#%d guarded by !Exclude", name, i+1), a.Pos(),
				"item appended only when Exclude(id, body) is false", "items are appended without consulting ReadRequest.Exclude(id, body): List and the Pull seed ignore the include predicate")
		}
	}
	// List and onUpdate obtain their items from itemSlice
	for _, m := range []string{"List", "onUpdate"} {
		fn := mustFunc(c, rule, resPkg, "Collection", m)
		if fn == nil {
			continue
		}
		calls := an.CallsTo(fn, "(*"+an.ModulePath+"/pkg/resource.Collection).itemSlice")
		// and no other read of byId
		direct := false
		an.Instrs(fn, func(in ssa.Instruction) {
			if fa, ok := in.(*ssa.FieldAddr); ok {
				if _, _, f, _ := an.FieldOf(fa); f == "byId" {
					// handing the map to itemSlice (a function taking the map instead of a method) is not a read of its own
					for _, u := range an.Referrers(fa) {
						ld, isLoad := u.(*ssa.UnOp)
						if !isLoad {
							if _, isDbg := u.(*ssa.DebugRef); !isDbg {
								direct = true
							}
							continue
						}
						for _, u2 := range an.Referrers(ld) {
							isArg := false
							for _, cl := range calls {
								if u2 == cl.(ssa.Instruction) {
									isArg = true
								}
							}
							if _, isDbg := u2.(*ssa.DebugRef); !isArg && !isDbg {
								direct = true
							}
						}
					}
				}
			}
		})
		c.Check(len(calls) > 0 && !direct, rule, "(*pkg/resource.Collection)."+m+"|items via itemSlice", fn.Pos(),
			"items come from itemSlice(readConfig)", "items are not (only) obtained through itemSlice, so the include predicate is bypassed")
	}
}

func r083(c *an.Ctx) {
	const rule = "R08.3"
	pull := mustFunc(c, rule, resPkg, "Collection", "Pull")
	if pull == nil {
		return
	}
	incq := "(*" + an.ModulePath + "/pkg/resource.CollectionChange).include"
	filq := "(*" + an.ModulePath + "/pkg/resource.CollectionChange).filter"
	var g *ssa.Function
	var inc *ssa.Call
	for _, f := range an.WithClosures(pull) {
		for _, cl := range an.CallsTo(f, incq) {
			g = f
			inc = cl.(*ssa.Call)
		}
	}
	name := "(*pkg/resource.Collection).Pull"
	if inc == nil {
		c.Bad(rule, name+"|include applied", pull.Pos(), "Collection.Pull never calls CollectionChange.include: the include predicate is not applied to updates")
		return
	}
	c.SawFunc(an.FuncName(g))
	c.Ok(rule, name+"|include applied", inc.Pos(), "update events pass through include(readConfig.Include)")
	// the argument is the request's Include field
	_, _, f, isF := an.FieldOf(inc.Call.Args[1])
	c.Check(isF && f == "Include", rule, name+"|include uses the request predicate", inc.Pos(), "argument is readConfig.Include", "include is not called with the request's Include predicate")
	// include sees the raw event (not a read-mask projection) and the projection is applied to include's result
	projectedFirst := false
	for _, v := range an.ValuesAt(inc.Call.Args[0]) {
		if cl, ok := v.(*ssa.Call); ok && an.CalleeName(cl) == filq {
			projectedFirst = true
		}
	}
	filtersResult := false
	for _, fc := range an.CallsTo(g, filq) {
		if !an.Dominates(inc, fc) {
			continue
		}
		for _, v := range an.ValuesAt(fc.Common().Args[0]) {
			if an.IsExtractOf(v, inc, 0) {
				filtersResult = true
			}
		}
	}
	c.Check(!projectedFirst && filtersResult, rule, name+"|include before read-mask filter", inc.Pos(), "read-mask filtering operates on include's result",
		"read-mask filtering is applied before the include decision (the predicate sees a projected message) or not to include's result")
	// the equivalence test comes after include
	for _, f := range an.CallsIn(g, func(n string) bool { return strings.HasSuffix(n, "pkg/resource.Comparer).Compare") }) {
		c.Check(an.Dominates(inc, f), rule, name+"|include before equivalence", f.Pos(), "equivalence evaluated after include", "the equivalence test runs before the include decision")
	}
	// !ok skips: every send in the update loop is guarded by ok == true
	nsend := 0
	an.Instrs(g, func(in ssa.Instruction) {
		// a select with a send case, or a call that stands for one (a send helper such as sendOrDone)
		sel := in
		if _, isSel := in.(*ssa.Select); !isSel {
			if _, isCall := in.(*ssa.Call); !isCall || !an.IsSendSite(in) {
				return
			}
		}
		if !an.Dominates(inc, sel) {
			return
		}
		nsend++
		guarded := false
		for _, e := range an.GuardingEdges(sel) {
			for _, v := range an.ValuesAt(e.If.Cond) {
				if an.IsExtractOf(v, inc, 1) && e.Branch {
					guarded = true
				}
			}
		}
		c.Check(guarded, rule, name+"|negative include decision skips the event", sel.Pos(), "send guarded by include's ok", "the event is sent although include reported ok=false")
	})
	if nsend == 0 {
		c.Unk(rule, name+"|negative include decision skips the event", inc.Pos(), "no send found after include")
	}
}

func r084(c *an.Ctx) {
	const rule = "R08.4"
	wq := an.ModulePath + "/pkg/resource.WithInclude"
	n := 0
	for fn := range c.Prog.AllFuncs {
		if c.Prog.IsGenerated(fn.Pos()) {
			continue
		}
		for _, call := range an.CallsTo(fn, wq) {
			pred := an.ClosureFn(call.Common().Args[0])
			if pred == nil {
				continue
			}
			n++
			c.SawFunc(an.FuncName(pred))
			cons := an.FuncName(pred) + "|type assertion guarded by nil test"
			if len(pred.Params) < 2 {
				continue
			}
			item := pred.Params[1]
			bad := ssa.Instruction(nil)
			an.Instrs(pred, func(in ssa.Instruction) {
				ta, ok := in.(*ssa.TypeAssert)
				if !ok || ta.CommaOk || ta.X != item {
					return
				}
				if !an.KnownNonNil(item, ta) {
					bad = ta
				}
			})
			if bad != nil {
				c.Bad(rule, cons, bad.Pos(), "the predicate asserts the item's type without a dominating `item != nil` test: ADD and REMOVE events evaluate the predicate on an absent (nil) old/new value and panic")
			} else {
				c.Ok(rule, cons, pred.Pos(), "assertions on the item are dominated by a non-nil test (or comma-ok)")
			}
		}
	}
	if n == 0 {
		c.Note("no predicate literal passed to resource.WithInclude in the module")
	}
}

// r087: the handlers of one server that narrow a collection with an include predicate (ListX and PullX) install the
// predicate under the same condition: what guards the WithInclude call - a nil test of a request field, the verdict of
// a helper - is the same for every such call in the package. A listing that skips the predicate in a case where the
// subscription applies it (or the other way round) no longer equals the fold of the stream.
func r087(c *an.Ctx) {
	const rule = "R08.7"
	wq := an.ModulePath + "/pkg/resource.WithInclude"
	type site struct {
		fn   *ssa.Function
		call ssa.CallInstruction
		sig  string
	}
	byPkg := map[string][]site{}
	describe := func(v ssa.Value) string {
		var d func(v ssa.Value, depth int) string
		d = func(v ssa.Value, depth int) string {
			if depth > 4 {
				return "?"
			}
			vals := an.ValuesAt(v)
			if len(vals) == 1 && vals[0] != v {
				return d(vals[0], depth+1)
			}
			if _, _, f, ok := an.FieldOf(v); ok {
				return "field " + f
			}
			switch x := v.(type) {
			case *ssa.Call:
				n := an.ModRel(an.CalleeName(x))
				// generated getter: the field it reads
				if cal := x.Call.StaticCallee(); cal != nil && cal.Signature.Recv() != nil && strings.HasPrefix(cal.Name(), "Get") && c.Prog.IsGenerated(cal.Pos()) {
					return "field " + strings.TrimPrefix(cal.Name(), "Get")
				}
				var args []string
				for _, a := range x.Call.Args {
					args = append(args, d(a, depth+1))
				}
				return n + "(" + strings.Join(args, ", ") + ")"
			case *ssa.Const:
				return x.String()
			case *ssa.Parameter:
				return "param"
			case *ssa.UnOp:
				return x.Op.String() + d(x.X, depth+1)
			case *ssa.BinOp:
				return "(" + d(x.X, depth+1) + " " + x.Op.String() + " " + d(x.Y, depth+1) + ")"
			}
			return fmt.Sprintf("%T", v)
		}
		return d(v, 0)
	}
	for fn := range c.Prog.AllFuncs {
		if c.Prog.IsGenerated(fn.Pos()) || fn.Package() == nil {
			continue
		}
		for _, call := range an.CallsTo(fn, wq) {
			var parts []string
			for _, e := range an.GuardingEdges(call) {
				if x, trueMeansNil, ok := an.NilTest(e.If.Cond); ok {
					parts = append(parts, fmt.Sprintf("%s is nil: %v", describe(x), e.Branch == trueMeansNil))
					continue
				}
				parts = append(parts, fmt.Sprintf("%s: %v", describe(e.If.Cond), e.Branch))
			}
			sort.Strings(parts)
			// what the predicate consults: the exported functions it (or an unexported helper of the package) calls
			var consults []string
			if pred := an.ClosureFn(call.Common().Args[0]); pred != nil {
				seen := map[*ssa.Function]bool{}
				var visit func(f *ssa.Function, depth int)
				visit = func(f *ssa.Function, depth int) {
					if seen[f] || depth > 2 {
						return
					}
					seen[f] = true
					an.Instrs(f, func(in ssa.Instruction) {
						cl, ok := in.(ssa.CallInstruction)
						if !ok {
							return
						}
						cal := cl.Common().StaticCallee()
						if cal == nil {
							return
						}
						if cal.Package() == fn.Package() && cal.Object() != nil && !cal.Object().Exported() && len(cal.Blocks) > 0 {
							visit(cal, depth+1)
							return
						}
						if c.Prog.IsGenerated(cal.Pos()) {
							return // getters
						}
						consults = append(consults, an.ModRel(an.CalleeName(cl)))
					})
				}
				visit(pred, 0)
			}
			sort.Strings(consults)
			pk := an.ModRel(fn.Package().Pkg.Path())
			byPkg[pk] = append(byPkg[pk], site{fn, call, strings.Join(uniqStrings(parts), " && ") + "; predicate consults " + strings.Join(uniqStrings(consults), ", ")})
		}
	}
	var pkgs []string
	for pk := range byPkg {
		pkgs = append(pkgs, pk)
	}
	sort.Strings(pkgs)
	for _, pk := range pkgs {
		sites := byPkg[pk]
		sort.Slice(sites, func(i, j int) bool { return sites[i].call.Pos() < sites[j].call.Pos() })
		ref := sites[0]
		for _, s := range sites {
			c.SawFunc(an.FuncName(s.fn))
			cons := an.FuncName(s.fn) + "|include predicate installed under the same condition as in the sibling handlers"
			c.Check(s.sig == ref.sig, rule, cons, s.call.Pos(), "condition: "+s.sig,
				fmt.Sprintf("the predicate is installed when {%s}, but %s installs it when {%s}: for a request that satisfies only one of the two, the listing and the subscription select different items and the fold of the stream is no longer the list", s.sig, an.FuncName(ref.fn), ref.sig))
		}
	}
}

func uniqStrings(s []string) []string {
	var out []string
	for i, x := range s {
		if i == 0 || x != s[i-1] {
			out = append(out, x)
		}
	}
	return out
}

// r085: what the include decision is fed with. Without backpressure the
// events reach include after mergeChanges, and REMOVE events come from
// Delete: include(old, new) is only right if (a) merged changes chain the
// old value of the older change (mergeChanges table, shared with R09.1) and
// (b) Delete's REMOVE carries the body that was actually removed and Update's
// event carries the replaced and the committed value (shared with R03.4).
func r085(c *an.Ctx) {
	sub := an.NewCtx(c.Prog, c.Property, c.Tier)
	r091(sub)
	r034(sub, "R03.4")
	nOK, nBad := 0, 0
	for _, o := range sub.Obls {
		if o.Verdict == an.OK {
			nOK++
			continue
		}
		nBad++
		rule := "R08.5"
		c.Obls = append(c.Obls, an.Obligation{Rule: rule, Key: rule + "|" + o.Construct, Construct: o.Construct, Pos: o.Pos, Verdict: o.Verdict, Detail: "[feeds the include decision] " + o.Detail, Path: o.Path})
	}
	c.Ok("R08.5", "mergeChanges table and published old/new values feed include correctly", 0, fmt.Sprintf("%d shared obligations discharged", nOK))
	c.Ok("R08.5", "shared rule sets evaluated", 0, "R09.1 (merge algebra), R03.4 (published values)")
	c.Ok("R08.5", "violations forwarded", 0, fmt.Sprintf("%d", nBad))
}

// r089: the trait models hand a collection's changes on field by field. A conversion that asserts the type of
// change.OldValue / change.NewValue (`event.OldValue = change.OldValue.(*T)`) does so exactly when that value is
// there: the assertion is guarded by a non-nil test of the very value it converts. Guarded by anything else (the
// change type, the other value) the subscriber either panics on a nil interface or receives a REMOVE / REPLACE
// without the value that left - and a change message without ids cannot be folded at all then.
func r089(c *an.Ctx, rule string) {
	n := 0
	for _, fn := range c.Prog.FuncsIn("pkg/trait") {
		if c.Prog.IsGenerated(fn.Pos()) || strings.HasSuffix(c.Prog.RelFile(fn.Pos()), "_test.go") {
			continue
		}
		ord := 0
		an.Instrs(fn, func(in ssa.Instruction) {
			ta, ok := in.(*ssa.TypeAssert)
			if !ok || ta.CommaOk {
				return
			}
			fld := ""
			for _, s := range an.Sources(ta.X) {
				if u, isU := s.(*ssa.UnOp); isU && u.Op == token.MUL {
					if _, sn, f, isF := an.FieldOf(u.X); isF && strings.HasSuffix(sn, "pkg/resource.CollectionChange") && (f == "OldValue" || f == "NewValue") {
						fld = f
					}
				}
			}
			if fld == "" {
				return
			}
			ord++
			n++
			guarded := false
			for _, e := range an.GuardingEdges(ta) {
				x, trueMeansNil, ok := an.NilTest(e.If.Cond)
				if !ok || e.Branch == trueMeansNil {
					continue
				}
				if an.AccessPath(x) != "" && an.AccessPath(x) == an.AccessPath(ta.X) {
					guarded = true
				}
				// two loads of the same field of the same change
				if b1, f1, ok1 := fieldLoadOf(x); ok1 {
					if b2, f2, ok2 := fieldLoadOf(ta.X); ok2 && b1 == b2 && f1 == f2 {
						guarded = true
					}
				}
				for _, a := range an.Sources(x) {
					for _, b := range an.Sources(ta.X) {
						if a == b {
							guarded = true
						}
					}
				}
			}
			c.Check(guarded, rule, fmt.Sprintf("%s|conversion #%d of change.%s happens exactly when it is set", an.FuncName(fn), ord, fld), ta.Pos(), "guarded by a non-nil test of the same value",
				"change."+fld+" is converted under a condition that is not `change."+fld+" != nil`: where the two differ the subscriber gets a change without the value (a REMOVE with nothing removed) or the conversion panics on a nil interface")
		})
	}
	c.Count("change_value_conversions", n)
}

// fieldLoadOf: v = *(&base.f) -> (base, f).
func fieldLoadOf(v ssa.Value) (ssa.Value, string, bool) {
	u, ok := v.(*ssa.UnOp)
	if !ok || u.Op != token.MUL {
		return nil, "", false
	}
	fa, ok := u.X.(*ssa.FieldAddr)
	if !ok {
		return nil, "", false
	}
	_, _, f, isF := an.FieldOf(fa)
	return fa.X, f, isF
}

// r0810: a server's Pull handler hands on what the model announced, field for field. The response change built for
// each element received from the model's channel sets every field that the model's change carries under the same
// name (OldValue, NewValue, ChangeTime, …). A response that leaves one out - `OldValue` in a stream whose REMOVE
// events exist only because an include filter synthesised them, and whose changes carry no id - names nothing: the
// subscriber cannot fold the stream into the listing.
func r0810(c *an.Ctx, rule string) {
	n := 0
	for _, fn := range c.Prog.FuncsIn("pkg/trait") {
		if c.Prog.IsGenerated(fn.Pos()) || fn.Parent() != nil || strings.HasSuffix(c.Prog.RelFile(fn.Pos()), "_test.go") || !strings.HasSuffix(c.Prog.RelFile(fn.Pos()), "/model_server.go") {
			continue
		}
		// the element type of the channel the handler ranges over
		var src *types.Struct
		srcName := ""
		for _, rl := range an.RecvLoops(fn) {
			t := rl.Recv.X.Type()
			ch, ok := t.Underlying().(*types.Chan)
			if !ok {
				continue
			}
			et := ch.Elem()
			if p, isP := et.(*types.Pointer); isP {
				et = p.Elem()
			}
			if st, isSt := et.Underlying().(*types.Struct); isSt && strings.HasPrefix(an.NamedTypeName(et), an.ModulePath) {
				src, srcName = st, an.NamedTypeName(et)
			}
		}
		if src == nil {
			continue
		}
		an.Instrs(fn, func(in ssa.Instruction) {
			al, ok := in.(*ssa.Alloc)
			if !ok || !al.Heap {
				return
			}
			tt, isSt := al.Type().(*types.Pointer).Elem().Underlying().(*types.Struct)
			if !isSt || !strings.HasSuffix(an.NamedTypeName(al.Type().(*types.Pointer).Elem()), "_Change") {
				return
			}
			assigned := map[string]bool{}
			for _, u := range an.Referrers(al) {
				if fa, isFA := u.(*ssa.FieldAddr); isFA {
					for _, u2 := range an.Referrers(fa) {
						if st, isStore := u2.(*ssa.Store); isStore && st.Addr == fa {
							assigned[tt.Field(fa.Field).Name()] = true
						}
					}
				}
			}
			if len(assigned) == 0 {
				return
			}
			n++
			missing := ""
			for i := 0; i < src.NumFields(); i++ {
				f := src.Field(i)
				if !f.Exported() {
					continue
				}
				has := false
				for j := 0; j < tt.NumFields(); j++ {
					if tt.Field(j).Name() == f.Name() {
						has = true
					}
				}
				if has && !assigned[f.Name()] {
					missing = f.Name()
				}
			}
			c.SawFunc(an.FuncName(fn))
			c.Check(missing == "", rule, an.FuncName(fn)+"|the response change carries every field the model's change has", al.Pos(), "same-named fields of "+an.ModRel(srcName)+" are all set",
				"the response change leaves "+missing+" unset although the model's change carries it: subscribers receive changes that do not say what changed (a REMOVE without the value that left cannot be folded)")
		})
	}
	c.Count("response_changes_built_from_model_changes", n)
}
